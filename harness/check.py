#!/venv/bin/python
"""check.py <property id> [--tier quick|thorough] [--replay file]

One check = proof gate (the property's theorems are accepted by Lean's kernel, depend on the three
standard axioms only, no sorry/axiom/native_decide anywhere) + model self-test against external
vectors + corpus + behavioural correspondence of the Lean model and /repo's working tree on
generated cases. A broken proof or a broken correspondence triggers a search for a concrete
failing input with the property's model-free oracle (DESIGN.md section 5).

exit 0: property held on everything explored; exit 1: `VIOLATION property=<id> replay=<path>`;
exit 2: the check itself could not run (time-out, harness failure)."""
import argparse
import importlib
import json
import os
import sys
import time

sys.path.insert(0, os.path.dirname(os.path.abspath(__file__)))
import common  # noqa: E402

TRUSTED_BASE = [
    "Lean 4.33.0 kernel (thorough tier: re-checked with leanchecker)",
    "axioms propext, Classical.choice, Quot.sound only (audited with #print axioms on every run)",
    "correspondence harness: generators, adapters, canonicalisation and diff (differential testing)",
    "the model driver's parsing/printing and Lean's compiler for the executable model",
    "CPython semantics of the transcribed fragments; third-party rlp, eth_hash, sortedcontainers",
]


def budget(tier, mod):
    b = getattr(mod, "BUDGET_S", {"quick": 60, "thorough": 600})
    return b[tier]


def verdict_violation(pid, payload, suffix=""):
    key = payload.get("key")
    known = common.known_findings(pid)
    if key and key in known:
        print("KNOWN-FINDING: property=%s %s" % (pid, known[key]))
        return False
    path = common.write_replay(pid, payload)
    print("VIOLATION property=%s replay=%s%s" % (pid, path, (" " + suffix) if suffix else ""))
    return True


def minimise(mod, case, pred, budget_s):
    """Shrink a failing case; pred(case) -> bool."""
    if hasattr(mod, "shrink"):
        return mod.shrink(case, pred, budget_s)
    if isinstance(case, dict) and isinstance(case.get("ops"), list):
        return common.ddmin_ops(case, pred, budget_s=budget_s)
    return case


def oracle_fails(mod, clause=None):
    def pred(c):
        r = common.safe_run_case(mod, c)
        return any(clause is None or f["clause"] == clause for f in r.oracle)
    return pred


def model_differs(mod):
    def pred(c):
        r = common.safe_run_case(mod, c)
        return common.compare_with_model([r])[0] is not None
    return pred


def replay(mod, pid, path):
    obj = json.load(open(path))
    kind = obj.get("kind")
    if kind == "proof":
        gate = common.proof_gate(mod.LEAN_IMPORTS, mod.THEOREMS, "quick")
        if gate["ok"]:
            print("replay: proof gate passes now")
            return 0
        print("VIOLATION property=%s replay=%s no-failing-input-found" % (pid, path))
        return 1
    case = obj["case"]
    r = common.safe_run_case(mod, case)
    if r.oracle:
        print("replay: oracle fails: %s" % json.dumps(r.oracle[0])[:600])
        print("VIOLATION property=%s replay=%s" % (pid, path))
        return 1
    d = common.compare_with_model([r])[0]
    if d is not None:
        print("replay: implementation and model differ: %s" % json.dumps(d)[:600])
        print("VIOLATION property=%s replay=%s no-failing-input-found" % (pid, path))
        return 1
    print("replay: case passes now")
    return 0


def main():
    ap = argparse.ArgumentParser()
    ap.add_argument("pid")
    ap.add_argument("--tier", default=os.environ.get("VERIF_TIER", "quick"), choices=["quick", "thorough"])
    ap.add_argument("--replay")
    args = ap.parse_args()
    pid = args.pid.upper()
    tier = args.tier
    seed = common.seed_from_env()
    t0 = time.time()
    common.import_repo()
    mod = importlib.import_module("props.%s" % pid.lower())
    modname = "props.%s" % pid.lower()
    if args.replay:
        ok, out = common.lake_build()
        if not ok:
            print(out[-2000:])
            return 2
        return replay(mod, pid, args.replay)

    total = budget(tier, mod)
    deadline = t0 + total
    violations = 0
    notes = []

    # 1. proof gate ------------------------------------------------------------------------
    gate = common.proof_gate(mod.LEAN_IMPORTS, mod.THEOREMS, tier)
    proof_broken = not gate["ok"]
    for d in gate["detail"]:
        print("proof-gate: " + d[:3000])
    have_model = os.path.exists(common.MODEL_BIN)

    # 2. model sanity ------------------------------------------------------------------------
    model_ok = False
    if have_model:
        try:
            bad = common.model_selftest()
            model_ok = not bad
            for l, e, o in bad:
                print("model-selftest: %s expected %s got %s" % (l, e, o))
        except Exception as exc:  # noqa
            print("model-selftest: %s" % exc)
    if not model_ok:
        proof_broken = True
        gate["detail"].append("model driver unavailable or fails its self-test")

    # the case budget starts once the model is built and the proofs are checked: a cold build (fresh checkout, changed
    # model) must not eat the exploration
    t_start, t0 = t0, time.time()
    # source drift: a module of the implementation differs structurally from the one the model was transcribed from. Not a
    # violation (a harmless rewrite does that too) - the quick tier reacts by exploring three times as long
    sys.path.insert(0, os.path.join(common.VERIF, "tools"))
    import fingerprint
    drift = fingerprint.drift(common.REPO)
    drift_explore = bool(drift)
    if drift:
        print("source-drift: %s differ(s) from the transcribed source: exploring longer" % ", ".join(drift))
        factor = int(os.environ.get("VERIF_DRIFT_FACTOR", "3"))    # tools/mutcamp.py runs hundreds of changed trees: 1
        if tier == "quick":
            total *= factor
        if factor <= 1:
            drift_explore = False
    deadline = t0 + total

    # 3. corpus, then generated cases -----------------------------------------------------------
    rng = common.mk_rng(seed, pid, tier)
    corpus = common.load_corpus(pid)
    cases = corpus + list(mod.gen_cases(rng, tier))
    summaries, errors = common.run_cases(modname, cases, want_model=model_ok,
                                         deadline=deadline - 0.25 * total)
    for e in errors:
        print("harness-error: " + e)
    if errors:
        return 2
    # thorough tier: keep exploring fresh random streams until half of the budget is used
    rounds = 1
    while ((tier == "thorough" or drift_explore) and time.time() - t0 < 0.5 * total and
           not any(s["oracle"] or s["diff"] for s in summaries)):
        extra = list(mod.gen_cases(common.mk_rng(seed, pid, tier, "round", rounds), tier))
        more, errors = common.run_cases(modname, extra, want_model=model_ok, deadline=deadline - 0.25 * total)
        for e in errors:
            print("harness-error: " + e)
        if errors:
            return 2
        summaries += more
        cases += extra
        rounds += 1

    n_eval = len(summaries)
    distinct = set()
    tags = {}
    nsteps = 0
    oracle_bad, model_bad = [], []
    for s in summaries:
        nsteps += s["nsteps"]
        for t in s["tags"]:
            tags[t] = tags.get(t, 0) + 1
        if s["nontrivial"] and s["state_key"] is not None:
            distinct.add(s["state_key"])
        if s["oracle"]:
            oracle_bad.append(s)
        elif s["diff"]:
            model_bad.append(s)

    # an adapter crash AFTER the oracle has already failed in the same case is a consequence of the broken state (the
    # failure stands, the crash is dropped); a crash with nothing found before it is a harness defect
    for s in oracle_bad:
        if s["oracle"][0]["clause"] != "harness-error":
            s["oracle"] = [f for f in s["oracle"] if f["clause"] != "harness-error"]
    harness_err = [s for s in oracle_bad if s["oracle"][0]["clause"] == "harness-error"]
    if harness_err:
        print("harness-error: " + harness_err[0]["oracle"][0]["detail"])
        return 2

    # 4. verdicts -----------------------------------------------------------------------------
    reported = set()
    if oracle_bad:
        # distinct clauses, smallest case for each
        by_clause = {}
        for s in oracle_bad:
            cl = s["oracle"][0]["clause"]
            size = len(json.dumps(s["case"]))
            if cl not in by_clause or size < by_clause[cl][0]:
                by_clause[cl] = (size, s)
        for cl, (_, s) in sorted(by_clause.items()):
            left = max(5, min(60, deadline - time.time()))
            small = minimise(mod, s["case"], oracle_fails(mod, cl), left)
            r = common.safe_run_case(mod, small)
            fails = [f for f in r.oracle if f["clause"] == cl] or r.oracle or s["oracle"]
            payload = dict(property=pid, kind="oracle", case=small, clause=cl, detail=fails[0]["detail"],
                           seed=seed, tier=tier, key=common.sha(small),
                           explanation="the implementation itself violates the property on this case "
                                       "(model-free oracle); replay with check.py %s --replay <this file>" % pid)
            if verdict_violation(pid, payload):
                violations += 1
                print("  clause: %s\n  detail: %s" % (cl, str(fails[0]["detail"])[:1500]))
                print("  minimal case: %s" % json.dumps(small)[:1500])
    elif model_bad or proof_broken:
        # correspondence or proof obligation broken, oracle silent so far: search for an input
        found = None
        small = None
        if model_bad:
            s = min(model_bad, key=lambda s: len(json.dumps(s["case"])))
            left = max(5, min(45, (deadline - time.time()) / 2))
            small = minimise(mod, s["case"], model_differs(mod), left)
            r = common.safe_run_case(mod, small)
            if r.oracle:
                found = (small, r.oracle[0])
        stream = 0
        while found is None and time.time() < deadline - 2:
            stream += 1
            extra = list(mod.gen_cases(common.mk_rng(seed, pid, tier, "search", stream), tier))
            sums, errs = common.run_cases(modname, extra, want_model=False, deadline=deadline)
            for s2 in sums:
                if s2["oracle"] and not any(f["clause"] == "harness-error" for f in s2["oracle"]):
                    c2 = minimise(mod, s2["case"], oracle_fails(mod, s2["oracle"][0]["clause"]), 20)
                    found = (c2, s2["oracle"][0])
                    break
        if found is not None:
            case, f = found
            payload = dict(property=pid, kind="oracle", case=case, clause=f["clause"], detail=f["detail"],
                           seed=seed, tier=tier, key=common.sha(case),
                           explanation="found by the failing-input search after the %s broke"
                                       % ("correspondence" if model_bad else "proof gate"))
            if verdict_violation(pid, payload):
                violations += 1
                print("  clause: %s\n  detail: %s" % (f["clause"], str(f["detail"])[:1500]))
        else:
            if model_bad:
                r = common.safe_run_case(mod, small)
                d = common.compare_with_model([r])[0]
                payload = dict(property=pid, kind="correspondence", case=small, first_difference=d,
                               seed=seed, tier=tier, key=common.sha(small),
                               explanation="the Lean model and the implementation disagree on this case; "
                                           "the property's oracle found no failing input, so the property "
                                           "is no longer shown to hold (correspondence stream: %s)" % pid)
                print("  first difference: %s" % json.dumps(d)[:1500])
                print("  minimal case: %s" % json.dumps(small)[:1500])
            else:
                payload = dict(property=pid, kind="proof", failed_theorems=gate["failed"],
                               detail=gate["detail"], seed=seed, tier=tier,
                               explanation="proof obligations no longer check")
            if verdict_violation(pid, payload, "no-failing-input-found"):
                violations += 1

    # 5. evidence ---------------------------------------------------------------------------------
    samples = [c for c in cases[len(corpus):len(corpus) + 2]] + corpus[:1]
    coverage = dict(
        obligations=gate["obligations"], discharged=gate["discharged"],
        checker_cmd="cd lean && lake build && lake env lean <#print axioms of the registered theorems>"
                    + ("; lake env leanchecker " + " ".join(mod.LEAN_IMPORTS) if tier == "thorough" else ""),
        trusted_base=TRUSTED_BASE + list(getattr(mod, "TRUSTED_EXTRA", [])),
        theorems=mod.THEOREMS,
        evaluations=n_eval, distinct_nontrivial=len(distinct),
        rule=mod.RULE, samples=samples[:3],
        traces_validated_against_impl=n_eval if model_ok else 0,
        compared_observations=nsteps, corpus_cases=len(corpus), random_rounds=rounds,
        situations_hit=dict(sorted(tags.items())),
        correspondence_disagreements=len(model_bad), oracle_failures=len(oracle_bad), source_drift=drift,
        explanation=getattr(mod, "EXPLANATION", ""),
    )
    common.write_evidence(pid, tier, seed, coverage, list(getattr(mod, "ASSUMPTIONS", [])),
                          time.time() - t_start, violations)
    print("%s %s: %d cases, %d compared observations, %d distinct non-trivial, theorems %d/%d, %.1fs%s"
          % (pid, tier, n_eval, nsteps, len(distinct), gate["discharged"], gate["obligations"],
             time.time() - t_start, "" if not violations else ", VIOLATIONS: %d" % violations))
    return 1 if violations else 0


if __name__ == "__main__":
    try:
        sys.exit(main())
    except SystemExit:
        raise
    except Exception:
        import traceback
        traceback.print_exc()
        sys.exit(2)
