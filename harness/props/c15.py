"""C15 — SparseMerkleProof stays in sync from streamed updates alone."""
import common
from common import hx

common.import_repo()
from trie.smt import SparseMerkleTree, SparseMerkleProof  # noqa: E402

ID = "C15"
LEAN_IMPORTS = ["PyTrie.Props.C15", "PyTrie.Props.SmtInt", "PyTrie.Props.NonVacuity"]
THEOREMS = [
    "PyTrie.Props.C15.in_sync_root",
    "PyTrie.Props.C15.update_keeps_sync",
    "PyTrie.Props.C15.short_update_rejected",
    "PyTrie.Props.C15.stream_tracks",
    "PyTrie.Smt.proof_update_tracks",
    "PyTrie.Smt.siblings_upd",
    "PyTrie.Smt.firstDiff_none_iff",
    "PyTrie.Props.SmtInt.branch_point_is_first_diff",
    "PyTrie.Props.SmtInt.proof_update_agrees",
    "PyTrie.Props.SmtInt.bit_is_list_element",
    "PyTrie.Props.NonVacuity.smt_inSync",
    "PyTrie.Props.NonVacuity.smt_stream",
    "PyTrie.Props.NonVacuity.smt_sufficient",
]
RULE = ("key sizes 1, 2, 3, 32 (and others), blank / non-blank defaults; a tree with some prior writes, a SparseMerkleProof "
        "created from the tree's current value and branch of a tracked key (stored, default-valued or blank), then a stream of "
        "updates - to keys differing from the tracked key at EVERY bit position (all positions for small sizes, first/last/"
        "random for 32), to the tracked key itself, repeated writes, deletions - each fed to the proof with the returned node "
        "hashes truncated to every interesting length (full, exactly down to the first differing bit, one short of it, empty); "
        "after every update proof value / branch / root_hash are compared with the Lean model and with the tree itself (which "
        "the proof never queries); a too-short list must raise ValidationError and leave the proof unchanged; "
        "non-trivial = at least 3 accepted updates to other keys; distinct = distinct (size, tracked key, stream)")
ASSUMPTIONS = ["NoClobber on the run (no Keccak collision among written nodes)"]
BUDGET_S = {"quick": 90, "thorough": 780}


def gen_cases(rng, tier):
    n = 260 if tier == "quick" else 5000
    for i in range(n):
        r = rng.random()
        ks = 1 if r < 0.4 else 2 if r < 0.65 else 3 if r < 0.78 else 32 if r < 0.92 else rng.randint(4, 31)
        default = rng.choice([b"", b"", b"d", bytes(32)])
        k0 = bytes(rng.randrange(256) for _ in range(ks))
        n0 = int.from_bytes(k0, "big")
        bits = list(range(8 * ks)) if ks <= 2 else sorted({0, 1, 7, 8, 8 * ks - 1, 8 * ks - 2} | {rng.randrange(8 * ks) for _ in range(8)})
        others = [(n0 ^ (1 << b)).to_bytes(ks, "big") for b in bits]
        others += [bytes(rng.randrange(256) for _ in range(ks)) for _ in range(3)]
        vals = [b"v", b"w" * 40, default, b"", bytes(rng.randrange(256) for _ in range(rng.randint(1, 50)))]
        prior = [[rng.choice(others + [k0]).hex(), rng.choice(vals).hex()] for _ in range(rng.randint(0, 4))]
        stream = []
        for _ in range(rng.randint(3, 16 if ks <= 3 else 7)):
            k = k0 if rng.random() < 0.15 else rng.choice(others)
            v = None if rng.random() < 0.2 else rng.choice(vals)      # None = delete
            stream.append([k.hex(), None if v is None else v.hex(), rng.choice(["full", "exact", "short", "empty", "full", "exact"])])
        yield {"ks": ks, "default": default.hex(), "k0": k0.hex(), "prior": prior, "stream": stream}


def run_case(case):
    res = common.CaseResult()
    ks, default, k0 = case["ks"], bytes.fromhex(case["default"]), bytes.fromhex(case["k0"])
    depth = 8 * ks
    # arguments equal to the constructor's defaults (key_size=32, default=b"") are left out, as callers do
    smt = SparseMerkleTree(**dict(([("key_size", ks)] if ks != 32 else []) + ([("default", default)] if default != b"" else [])))
    res.emit("smt.reset", "ok")
    res.emit("smt.new %d %s" % (ks, hx(default)), "0")
    for k, v in case["prior"]:
        ret = smt.set(bytes.fromhex(k), bytes.fromhex(v))
        res.emit("smt.set 0 %s %s" % (hx(bytes.fromhex(k)), hx(bytes.fromhex(v))), ",".join(h.hex() for h in ret))
    value, branch = smt._get(k0)
    proof = SparseMerkleProof(k0, value, branch)
    res.emit("smt.proof %s %s %s" % (hx(k0), hx(value), ",".join(h.hex() for h in branch)), "0")
    accepted = 0

    def show():
        return "%s;%s;%s" % (hx(proof.value), ",".join(h.hex() for h in proof.branch), hx(proof.root_hash))

    def compare(what):
        res.emit("smt.pshow 0", show())
        tv, tb = smt._get(k0)
        if proof.value != tv:
            res.fail("proof-value-out-of-sync", "%s: proof.value %r, tree holds %r" % (what, proof.value, tv))
        if tuple(proof.branch) != tuple(tb):
            bad = [i for i, (a, b) in enumerate(zip(proof.branch, tb)) if a != b]
            res.fail("proof-branch-out-of-sync", "%s: proof.branch differs from the tree's branch at depth(s) %r" % (what, bad))
        if proof.root_hash != smt.root_hash:
            res.fail("proof-root-out-of-sync", "%s: proof.root_hash != tree root_hash" % what)

    compare("initially")
    n0 = int.from_bytes(k0, "big")
    for khex, vhex, trunc in case["stream"]:
        k = bytes.fromhex(khex)
        if vhex is None:
            ret = smt.delete(k)
            v = default
            res.emit("smt.del 0 %s" % hx(k), ",".join(h.hex() for h in ret))
        else:
            v = bytes.fromhex(vhex)
            ret = smt.set(k, v)
            res.emit("smt.set 0 %s %s" % (hx(k), hx(v)), ",".join(h.hex() for h in ret))
        diff = n0 ^ int.from_bytes(k, "big")
        bp = None if diff == 0 else depth - diff.bit_length()        # index of the first differing bit
        if trunc == "full" or bp is None and trunc != "empty":
            n = depth
        elif trunc == "exact":
            n = bp + 1
        elif trunc == "short":
            n = bp
        else:
            n = 0
        for attempt in (n, depth):
            ups = list(ret[:attempt])
            before = show()
            try:
                proof.update(k, v, common.vary(ups))
                out = "ok"
            except Exception as e:  # noqa
                out = "exn " + common.exc_name(e)
            res.emit("smt.pupdate 0 %s %s %s" % (hx(k), hx(v), ",".join(h.hex() for h in ups) if ups else "-"), out)
            enough = bp is None or attempt > bp
            if enough and out != "ok":
                res.fail("sufficient-update-rejected", "update with %d hashes (first differing bit %r) raised %s" % (attempt, bp, out))
            if not enough:
                res.tags.add("truncated-too-short")
                if out != "exn ValidationError":
                    res.fail("short-update-accepted", "update with %d hashes (first differing bit %d) -> %s" % (attempt, bp, out))
                if show() != before:
                    res.fail("rejected-update-changed-proof", "a rejected update modified the proof")
                res.emit("smt.pshow 0", show())
                continue
            if bp is not None:
                accepted += 1
                res.tags.add("diverge-depth:%s" % ("first" if bp == 0 else "last" if bp == depth - 1 else "middle"))
            else:
                res.tags.add("own-key")
            break
        compare("after update of %s" % khex)
    res.tags.add("ks:%d" % (ks if ks in (1, 2, 3, 32) else 0))
    res.nontrivial = accepted >= 3
    res.state_key = common.sha([ks, case["k0"], case["stream"]])
    return res
