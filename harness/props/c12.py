"""C12 — BinaryTrie is a map with a canonical, history-independent root."""
import itertools

import common
from common import hx

common.import_repo()
from trie.binary import BinaryTrie  # noqa: E402
from trie.exceptions import NodeOverrideError  # noqa: E402
from eth_hash.auto import keccak  # noqa: E402

ID = "C12"
LEAN_IMPORTS = ["PyTrie.Props.C12", "PyTrie.Props.RawLevel", "PyTrie.Props.NonVacuity", "PyTrie.Props.NonVacuity2", "PyTrie.Props.NonVacuity3", "PyTrie.Props.C12History", "PyTrie.Props.NonVacuity10", "PyTrie.Props.C12Refusals", "PyTrie.Props.NonVacuity13"]
THEOREMS = [
    "PyTrie.Props.C12.canon_run",
    "PyTrie.Props.C12.get_step",
    "PyTrie.Props.C12.run_get",
    "PyTrie.Props.C12.tree_unique",
    "PyTrie.Props.C12.root_depends_only_on_contents",
    "PyTrie.Props.C12.root_empty",
    "PyTrie.Props.C12.raise_changes_nothing",
    "PyTrie.Props.C12.saves_tree",
    "PyTrie.Props.C12.new_nodes_saved",
    "PyTrie.Bin.bget_set",
    "PyTrie.Bin.set_override_iff",
    "PyTrie.Bin.bget_delete",
    "PyTrie.Bin.delete_override",
    "PyTrie.Bin.bget_delete_subtrie",
    "PyTrie.Bin.delete_subtrie_override",
    "PyTrie.Bin.bcanon_unique",
    "PyTrie.Bin.keys_prefix_free",
    "PyTrie.Props.Raw.bin_set_refines",
    "PyTrie.Props.Raw.bin_set_blank",
    "PyTrie.Props.NonVacuity.bin_set_witness",
    "PyTrie.Props.NonVacuity.bt_allStored",
    "PyTrie.Props.NonVacuity.bt_ncOp",
    "PyTrie.Props.NonVacuity.bt_ncOp2",
    "PyTrie.Props.Raw.bin_history",
    "PyTrie.Props.Raw.bin_history_tree",
    "PyTrie.Props.Raw.bin_history_get",
    "PyTrie.Props.NonVacuity2.bin_history_witness",
    "PyTrie.Props.NonVacuity2.bin_history_get_witness",
    "PyTrie.Props.NonVacuity2.bops_reach",
    "PyTrie.Props.Raw.binT_agrees",
    "PyTrie.Props.Raw.bin_refused_saves_nothing",
    "PyTrie.Props.Raw.bin_db_add_only",
    "PyTrie.Props.NonVacuity3.bin_prefix_saves_nothing",
    "PyTrie.Props.NonVacuity3.bin_past_saves_nothing",
    "PyTrie.Props.NonVacuity3.bin_deep_saves_nothing",
    "PyTrie.Props.NonVacuity3.bin_delete_saves_nothing",
    "PyTrie.Props.Raw.bin_reach_prefix",
    "PyTrie.Props.Raw.bin_history_log_grows",
    "PyTrie.Props.Raw.bin_history_old_roots_readable",
    "PyTrie.Props.NonVacuity10.bFinal_functional",
    "PyTrie.Props.NonVacuity10.old_roots_witness",
    "PyTrie.Props.NonVacuity10.old_roots_spec",
    "PyTrie.Props.Raw.binReachAll_run",
    "PyTrie.Props.Raw.bin_history_with_refusals",
    "PyTrie.Props.Raw.bin_history_with_refusals_get",
    "PyTrie.Props.NonVacuity13.rops_reach",
    "PyTrie.Props.NonVacuity13.rops_accepted",
    "PyTrie.Props.NonVacuity13.refusals_witness",
    "PyTrie.Props.NonVacuity13.refusals_get_witness",
]
RULE = ("histories of set / delete / delete_subtrie (method and dict syntax) over fixed-length and variable-length key pools "
        "with prefix-related keys, keys differing at every bit position of a byte, repeated values; after every call the outcome "
        "(ok / NodeOverrideError), the root, the exact database and get/exists of every pool key and of prefixes/extensions are "
        "compared with the Lean model (which transcribes all eight split cases and both compressions); oracle: a dict with the "
        "prefix rule, an independent canonical kv/branch/leaf encoder for the root, blank hash when empty, unchanged root / "
        "database / contents after a raise, every earlier root re-read through a fresh trie; small-scope exhaustive over a "
        "crafted alphabet plus random histories; non-trivial = at least 2 keys stored at some point; distinct = distinct final contents")
ASSUMPTIONS = ["keys are non-empty byte strings (the property's scope)", "NoClobber on the run for reading old roots"]
BUDGET_S = {"quick": 90, "thorough": 780}

BLANK = keccak(b"")


def bits(b):
    return tuple((x >> (7 - i)) & 1 for x in b for i in range(8))


# independent canonical encoder -----------------------------------------------------------------
def enc_keypath(p):
    pad = (4 - len(p) % 4) % 4
    padded = (0,) * pad + tuple(p)
    pre = ((len(p) % 4) >> 1, (len(p) % 4) & 1)
    allbits = ((0, 0) if len(padded) % 8 == 4 else (1, 0, 0, 0, 0, 0)) + pre + padded
    assert len(allbits) % 8 == 0
    return bytes(int("".join(map(str, allbits[i:i + 8])), 2) for i in range(0, len(allbits), 8))


def canon_hash(items, depth=0):
    """items: [(bit tuple, value)] all sharing their first `depth` bits, no key a prefix of another"""
    if not items:
        return BLANK
    if len(items) == 1 and len(items[0][0]) == depth:
        return keccak(b"\x02" + items[0][1])
    k0 = items[0][0]
    j = min(len(k) for k, _ in items)
    for k, _ in items:
        m = depth
        while m < j and k[m] == k0[m]:
            m += 1
        j = m
    if j > depth:
        return keccak(b"\x00" + enc_keypath(k0[depth:j]) + canon_hash(items, j))
    left = [(k, v) for k, v in items if k[depth] == 0]
    right = [(k, v) for k, v in items if k[depth] == 1]
    return keccak(b"\x01" + canon_hash(left, depth + 1) + canon_hash(right, depth + 1))


def canon_root(model):
    return canon_hash(sorted((bits(k), v) for k, v in model.items()))


def related(a, b):
    return a != b and (a.startswith(b) or b.startswith(a))


POOLS = [
    [b"\x12", b"\x13", b"\x92", b"\x10", b"\x1f", b"\x00", b"\xff"],                                  # fixed length 1
    [b"\x12\x34", b"\x12\x35", b"\x12\xb4", b"\x13\x34", b"\x92\x34", b"\x12\x30", b"\x00\x00", b"\xff\xff"],  # fixed length 2
    [b"\x12", b"\x12\x34", b"\x12\x34\x56", b"\x12\x35", b"\x13", b"\x12\x34\x57", b"\x80", b"\x12\xff"],    # prefix related
    # a full byte of consecutive branch nodes below a common prefix, on the all-ones and on the all-zeros spine
    # (a lookup of the prefix itself that runs off the end of its key path must not slide down a spine): seeded
    # change C12-get-branch-guard-dropped was invisible without these
    [b"\x01" + bytes([x]) for x in (0x00, 0x80, 0xc0, 0xe0, 0xf0, 0xf8, 0xfc, 0xfe, 0xff)],
    [b"\x01" + bytes([x]) for x in (0xff, 0x7f, 0x3f, 0x1f, 0x0f, 0x07, 0x03, 0x01, 0x00)],
    [bytes([x]) for x in (0x00, 0x80, 0xc0, 0xe0, 0xf0, 0xf8, 0xfc, 0xfe, 0xff)] + [b"\xff\x00"],
]


def gen_cases(rng, tier):
    # small scope: all histories of length <= 3 over a crafted alphabet
    keys = [b"\x12", b"\x12\x34", b"\x13", b"\x92", b"\x12\x35"]
    alphabet = [["set", k.hex(), v.hex()] for k in keys for v in (b"a", b"b" * 3)] + \
               [["del", k.hex()] for k in keys[:3]] + [["delsub", k.hex()] for k in (b"\x12", b"\x13", b"\x12\x34\x56")]
    maxlen = 2 if tier == "quick" else 3
    for n in range(1, maxlen + 1):
        for ops in itertools.product(alphabet, repeat=n):
            yield {"ops": list(ops)}
    for pool in POOLS[3:]:
        for rep in range(4 if tier == "quick" else 32):
            keys = list(pool)
            rng.shuffle(keys)
            ops = [["set", k.hex(), (b"v" + k).hex()] for k in keys]
            ops += [["del", rng.choice(keys).hex()] for _ in range(rep % 3)]
            yield {"ops": ops}
            # writes and deletes addressed to the common prefix itself (a proper prefix of every stored key: must be refused /
            # change nothing, and must not slide down a spine of branch nodes onto another key)
            if len(pool[0]) == 2:
                pre = pool[0][:1]
                tail = [[["set", pre.hex(), b"p".hex()]], [["del", pre.hex()]], [["sete", pre.hex()]],
                        [["set", pre.hex(), b"p".hex()], ["del", pre.hex()]]][rep % 4]
                yield {"ops": [["set", k.hex(), (b"v" + k).hex()] for k in keys] + tail}
    n = 900 if tier == "quick" else 30000
    for i in range(n):
        r = rng.random()
        if r < 0.6:
            pool = rng.choice(POOLS)
        elif r < 0.8:
            L = rng.choice([1, 2, 4, 32])
            pool = [bytes(rng.choice([0, 0xff, 0x80, 0x01, rng.randrange(256)]) for _ in range(L)) for _ in range(rng.randint(2, 8))]
        else:
            base = bytes(rng.randrange(256) for _ in range(rng.randint(1, 3)))
            pool = [base[:rng.randint(1, len(base))] + bytes(rng.choice([0, 0xff, rng.randrange(256)]) for _ in range(rng.randint(0, 2)))
                    for _ in range(rng.randint(2, 8))]
        vals = [b"v", b"w" * 5, bytes(rng.randrange(256) for _ in range(rng.randint(1, 40)))]
        ops = []
        for _ in range(rng.randint(1, 25)):
            k = rng.choice(pool)
            q = rng.random()
            if q < 0.55:
                ops.append([rng.choice(["set", "setitem"]), k.hex(), rng.choice(vals).hex()])
            elif q < 0.8:
                ops.append([rng.choice(["del", "delitem"]), k.hex()])
            elif q < 0.9:
                ops.append(["delsub", k[:rng.randint(1, len(k))].hex()])
            else:
                ops.append(["sete", k.hex()])
        yield {"ops": ops}


class BytesSub(bytes):
    """a bytes subclass (as hexbytes.HexBytes is): accepted wherever bytes are"""


def hexlib_sub(b, selector):
    return BytesSub(b) if selector % 3 == 0 else b


class Overlay(dict):
    """a copy-on-write database: a dict subclass whose reads fall back to the store of an earlier root (`__missing__`);
    writes stay in the overlay"""

    def __init__(self, parent):
        super().__init__()
        self.parent = parent

    def __missing__(self, key):
        return self.parent[key]


class Merged:
    """what the trie can read: the parent's entries overlaid with the overlay's own (the plain dict when no overlay is in use)"""

    def __init__(self, base):
        self.base, self.over = base, None

    def snap(self):
        d = dict(self.base)
        if self.over is not None:
            d.update(dict.items(self.over))
        return d


def run_case(case):
    res = common.CaseResult()
    base = {}
    view = Merged(base)
    t = BinaryTrie(base)
    # at one point of the history the trie object is replaced: re-opened on a fresh, equal-but-not-identical copy of its
    # root hash (the blank root included), over the same dict or over a copy-on-write overlay of it
    reopen_at = (len(case["ops"]) * 7 + len(case["ops"][0][1])) % (len(case["ops"]) + 1) if case["ops"] else None
    reopen_overlay = bool(case["ops"]) and len(case["ops"][-1][1]) % 4 == 2
    res.emit("bin.reset", "ok")
    res.emit("bin.new", "0")
    res.emit("bin.rrnew", "ok")
    model = {}
    roots = {t.root_hash: {}}
    universe = sorted({bytes.fromhex(op[1]) for op in case["ops"]})
    probes = set(universe)
    for k in universe:
        probes |= {k + b"\x00", k[:-1] or b"\x55", k[:-1] + bytes([k[-1] ^ 1]), k[:-1] + bytes([k[-1] ^ 0x80])}
    probes = sorted(p for p in probes if p)
    maxkeys = 0
    for opno, op in enumerate(case["ops"]):
        if opno == reopen_at:
            fresh_root = bytes(bytearray(t.root_hash))
            if reopen_overlay:
                view.over = Overlay(base)
                t = BinaryTrie(view.over, fresh_root)
                res.tags.add("reopened:overlay")
            else:
                t = BinaryTrie(base, fresh_root)
                res.tags.add("reopened:same-dict")
            if fresh_root == BLANK:
                res.tags.add("reopened:blank-root")
        kind, k = op[0], bytes.fromhex(op[1])
        v = bytes.fromhex(op[2]) if len(op) > 2 else b""
        db = view.snap()
        before_root, before_db = t.root_hash, dict(db)
        try:
            if kind == "set":
                t.set(hexlib_sub(k, len(v)), hexlib_sub(v, len(k)))
            elif kind == "setitem":
                t[k] = v
            elif kind == "sete":
                t.set(k, hexlib_sub(b"", len(k)))
            elif kind == "del":
                t.delete(hexlib_sub(k, len(k) + 1))
            elif kind == "delitem":
                del t[k]
            else:
                t.delete_subtrie(k)
            out = "ok"
        except NodeOverrideError:
            out = "exn NodeOverrideError"
        except Exception as e:  # noqa
            out = "exn " + common.exc_name(e)
            res.fail("unexpected-exception", "%r raised %r" % (op, e))
        db = view.snap()
        line = {"set": "bin.set 0 %s %s" % (hx(k), hx(v)), "setitem": "bin.set 0 %s %s" % (hx(k), hx(v)),
                "sete": "bin.set 0 %s -" % hx(k), "del": "bin.del 0 %s" % hx(k), "delitem": "bin.del 0 %s" % hx(k),
                "delsub": "bin.delsub 0 %s" % hx(k)}[kind]
        # raw level (statement-by-statement transcription of _set over hashes and the database) on the database
        # as it was before the call: new root and added entries, or the refusal
        rv = hx(v) if kind in ("set", "setitem") else "-"
        if out == "ok":
            added = sorted((a.hex(), b.hex()) for a, b in db.items() if a not in before_db)
            res.emit("bin.rawset 0 %s %s %d" % (hx(k), rv, 1 if kind == "delsub" else 0),
                     "root=%s added=%s" % (hx(t.root_hash), ",".join("%s:%s" % ab for ab in added) if added else "-"))
        elif out == "exn NodeOverrideError":
            res.emit("bin.rawset 0 %s %s %d" % (hx(k), rv, 1 if kind == "delsub" else 0), out)
        # the whole history at raw level, on the model's own root and database
        if out in ("ok", "exn NodeOverrideError"):
            res.emit("bin.rrop %s %s %d" % (hx(k), rv, 1 if kind == "delsub" else 0),
                     "root=%s" % hx(t.root_hash) if out == "ok" else out)
        res.emit(line, out)
        res.tags.add("%s:%s" % (kind, "ok" if out == "ok" else "refused"))
        # oracle ---------------------------------------------------------------------------------
        rel = [s for s in model if related(s, k)]
        if kind in ("set", "setitem") and v:
            if rel:
                if out == "ok":
                    res.fail("override-accepted", "set(%r) accepted although %r is stored" % (k, rel[0]))
            elif out != "ok":
                res.fail("valid-set-refused", "set(%r) refused on contents %r" % (k, sorted(model)))
            else:
                model[k] = v
        elif kind == "delsub":
            if out == "ok":
                for s in [s for s in model if s.startswith(k)]:
                    del model[s]
            elif any(s.startswith(k) for s in model) or not any(k.startswith(s) for s in model):
                res.fail("delete-subtrie-refused", "delete_subtrie(%r) refused on contents %r" % (k, sorted(model)))
        else:   # delete / set to empty
            if out == "ok":
                model.pop(k, None)
            elif k in model:
                res.fail("delete-refused", "delete(%r) of a stored key was refused" % (k,))
            elif not rel:
                res.fail("delete-refused", "delete(%r) of an unrelated absent key was refused" % (k,))
        if out != "ok":
            if t.root_hash != before_root:
                res.fail("raise-changed-root", "%r raised and changed the root" % (op,))
            if db != before_db:
                res.fail("raise-changed-db", "%r raised and changed the database (+%d entries)" % (op, len(db) - len(before_db)))
        for kk, vv in before_db.items():
            if db.get(kk) != vv:
                res.fail("db-entry-lost", "%r removed or changed a database entry" % (op,))
        res.emit("bin.root 0", hx(t.root_hash))
        res.emit("bin.db", ",".join("%s:%s" % (a.hex(), b.hex()) for a, b in sorted(db.items())) if db else "-")
        res.emit("bin.rrdb", ",".join("%s:%s" % (a.hex(), b.hex()) for a, b in sorted(db.items())) if db else "-")
        want_root = canon_root(model)
        if t.root_hash != want_root:
            res.fail("root-not-canonical", "after %r the root is %s, the canonical encoding of %r hashes to %s"
                     % (op, common.hx(t.root_hash)[:16], sorted(model.items()), want_root.hex()[:16]))
        if not model and t.root_hash != BLANK:
            res.fail("empty-root-not-blank", "trie is empty but the root is not the blank hash")
        # the order alternates, so that the key looked up LAST before an operation is the one looked up FIRST after it
        # (a lookup cache that an operation forgets to clear: seeded change C12o-get-cache-not-cleared-by-delete-subtrie)
        for p in (probes if opno % 2 == 0 else list(reversed(probes))):
            try:
                g = t.get(p)
                e = t.exists(p)
                c = p in t
                gi = t[p]
                outg = "None" if g is None else "v " + hx(g)
            except Exception as ex:  # noqa
                outg = "exn " + common.exc_name(ex)
                res.fail("lookup-raised", "get(%r) raised %r" % (p, ex))
                res.emit("bin.get 0 %s" % hx(p), outg)
                continue
            res.emit("bin.get 0 %s" % hx(p), outg)
            res.emit("bin.rrget %s" % hx(p), outg)
            if g != model.get(p) or e != (p in model) or c != e or gi != g:
                res.fail("wrong-value", "get(%r)=%r exists=%r, stored %r" % (p, g, e, model.get(p)))
        roots.setdefault(t.root_hash, dict(model))
        maxkeys = max(maxkeys, len(model))
    # earlier roots stay readable
    for r, contents in roots.items():
        for p in probes[:8] + sorted(contents)[:6]:
            try:
                g = BinaryTrie(view.snap(), r).get(p)
                outg = "None" if g is None else "v " + hx(g)
                if g != contents.get(p):
                    res.fail("old-root-wrong", "root %s: get(%r)=%r, it held %r" % (r.hex()[:12], p, g, contents.get(p)))
            except Exception as ex:  # noqa
                outg = "exn " + common.exc_name(ex)
                res.fail("old-root-unreadable", "root %s: get(%r) raised %r" % (r.hex()[:12], p, ex))
            res.emit("bin.getat %s %s" % (hx(r), hx(p)), outg)
    # root_node: the getter hands out the stored root body; the setter installs a node body as the root (validated, hashed,
    # saved) — installing the body of an earlier root re-opens that version (model-free; found unexercised by tools/tiecov.py)
    try:
        if t.root_hash != BLANK and t.root_node != db[t.root_hash]:
            res.fail("root-node-wrong", "root_node is not the body stored under the root hash")
        for r, contents in list(roots.items())[:3]:
            if r == BLANK or r not in db:
                continue
            t2 = BinaryTrie(view.snap())
            t2.root_node = db[r]
            res.tags.add("root_node-setter")
            if t2.root_hash != r:
                res.fail("root-node-wrong", "root_node = <body of root %s> gives root %s" % (r.hex()[:12], t2.root_hash.hex()[:12]))
            for p in sorted(contents)[:4]:
                if t2.get(p) != contents[p]:
                    res.fail("old-root-wrong", "after root_node = <body of an earlier root> get(%r) = %r, it held %r" % (p, t2.get(p), contents[p]))
    except Exception as ex:  # noqa
        res.fail("lookup-raised", "root_node raised %r" % (ex,))
    res.nontrivial = maxkeys >= 2
    res.state_key = common.sha(sorted((k.hex(), v.hex()) for k, v in model.items()))
    return res
