"""C04 — non-pruning tries never lose or alter history: old roots stay readable."""
import common
import hexlib
from common import hx
from hexlib import HexaryTrie, keccak, Boom, BOOMS, boom, WriteFailed, FailingDict

ID = "C04"
LEAN_IMPORTS = ["PyTrie.Props.C04", "PyTrie.Props.C04History", "PyTrie.Props.RawLevel", "PyTrie.Props.NonVacuity", "PyTrie.Props.FreeExec", "PyTrie.Props.NonVacuity8", "PyTrie.Props.C04Shared", "PyTrie.Props.NonVacuity10", "PyTrie.Props.HistoryFailCommit", "PyTrie.Props.HistoryFailOp", "PyTrie.Props.NonVacuity15"]
THEOREMS = [
    "PyTrie.Props.C04.set_writes_addressed",
    "PyTrie.Props.C04.delete_writes_addressed",
    "PyTrie.Props.C04.set_delete_append_only",
    "PyTrie.Props.C04.history_complete_for_all_versions",
    "PyTrie.Props.C04.history_old_roots_readable",
    "PyTrie.Props.C04.history_preserves_every_binding",
    "PyTrie.Props.NonVacuity8.old_root_readable",
    "PyTrie.Props.NonVacuity8.old_root_witness",
    "PyTrie.Props.NonVacuity8.old_root_eval",
    "PyTrie.Props.C04.failed_op_keeps_roots",
    "PyTrie.Props.C04.batch_commit_append_only",
    "PyTrie.Props.C04.old_root_still_readable",
    "PyTrie.Props.C04.lookup_eq_get?",
    "PyTrie.Props.C04.op_keeps_complete",
    "PyTrie.Props.C04.complete_survives",
    "PyTrie.Props.Raw.set_refines",
    "PyTrie.Props.Raw.delete_refines",
    "PyTrie.Props.Raw.keccak_is_std",
    "PyTrie.Props.NonVacuity.c04_complete",
    "PyTrie.Props.NonVacuity.c04_next_ok",
    "PyTrie.Props.NonVacuity.c04_op_keeps_complete",
    "PyTrie.Props.Raw.history_is_world_run",
    "PyTrie.Props.Free.op_is_executor_op",
    "PyTrie.Props.Free.np_complete_after_commit",
    "PyTrie.Props.C04.sinv_empty",
    "PyTrie.Props.C04.shared_step",
    "PyTrie.Props.C04.shared_history",
    "PyTrie.Props.C04.shared_history_reads",
    "PyTrie.Props.C04.shared_root_recorded",
    "PyTrie.Props.NonVacuity10.evs_good",
    "PyTrie.Props.NonVacuity10.wEnd_shape",
    "PyTrie.Props.NonVacuity10.shared_witness",
    "PyTrie.Props.NonVacuity10.reads_witness",
    "PyTrie.Props.NonVacuity10.reads_evaluated",
    "PyTrie.Props.Free.fail_block_step",
    "PyTrie.Props.Free.history_fail_commit_world",
    "PyTrie.Props.Free.fail_op_step",
    "PyTrie.Props.Free.history_fail_op_world",
    "PyTrie.Props.Free.history_fail_op_lockstep",
    "PyTrie.Props.Free.history_fail_op_get",
    "PyTrie.Props.NonVacuity15.gsteps_good",
    "PyTrie.Props.NonVacuity15.world_witness",
    "PyTrie.Props.NonVacuity15.lockstep_witness",
    "PyTrie.Props.NonVacuity15.evaluated",
]
RULE = ("interleaved histories of several non-pruning tries over ONE shared database: set/delete on any trie, fresh tries "
        "opened at earlier roots, at_root snapshot reads, squash_changes blocks (normal exit, exception after n operations, n-th "
        "commit write failing) and single operations whose n-th database write fails (every n up to the operation's write "
        "count); after every step the exact database and all roots are compared with the Lean world model, reads at old roots "
        "with the Lean Layer-D reader over the model's own database; oracle: nothing removed or changed, every new entry keyed by "
        "the keccak of its value, the root pointer unchanged by a failed operation, every root ever seen re-read in full through a "
        "fresh trie and through at_root; non-trivial = at least 3 distinct roots; distinct = distinct (final database)")
ASSUMPTIONS = ["NoClobber on the run (no Keccak collision among written nodes)",
               "all tries sharing the database are non-pruning, as the property states"]
BUDGET_S = {"quick": 90, "thorough": 780}


def gen_cases(rng, tier):
    n = 2000 if tier == "quick" else 20000
    for i in range(n):
        keys = hexlib.gen_universe(rng, rng.randint(2, 8)) if rng.random() < 0.8 else rng.sample(hexlib.CRAFTED_KEYS, 7)
        values = [hexlib.gen_value(rng) for _ in range(3)]
        ops = []
        for _ in range(rng.randint(3, 22)):
            r = rng.random()
            t = rng.randrange(4)
            k = rng.choice(keys).hex()
            v = hexlib.gen_value(rng, values).hex()
            if r < 0.06:
                ops.append(["new"])
            elif r < 0.16:
                ops.append(["open", rng.randrange(50)])
            elif r < 0.5:
                ops.append(["set", t, k, v])
            elif r < 0.62:
                ops.append(["del", t, k])
            elif r < 0.74:
                ops.append(["fset", t, k, v if rng.random() < 0.8 else "", rng.randint(0, 4)])
            elif r < 0.88:
                inner = [hexlib.gen_simple_op(rng, keys, values) for _ in range(rng.randint(0, 5))]
                q = rng.random()
                ex = "ok" if q < 0.4 else (["raise", rng.randint(0, len(inner))] if q < 0.65 else ["failcommit", rng.randint(0, 2 + 3 * len(inner))])
                ops.append(["batch", t, ex, inner])
            elif r < 0.96:
                ops.append(["snap", t, rng.randrange(50), k])
            else:
                # a snapshot of the CURRENT root that is kept while the trie moves on, and is then written to
                ops.append(["snapkeep", t, k, v or "61", rng.choice(keys).hex(), hexlib.gen_value(rng, values).hex() or "62"])
        yield {"ops": ops, "keys": [k.hex() for k in keys]}


def run_case(case):
    res = common.CaseResult()
    db = FailingDict()
    keys = [bytes.fromhex(k) for k in case["keys"]]
    res.emit("hx.reset", "ok")
    res.emit("hx.new 0", "0")
    tries = [HexaryTrie(db)]
    models = [{}]
    roots = {tries[0].root_hash: {}}     # every root ever seen -> contents at that time
    order = [tries[0].root_hash]

    def note(t):
        r = tries[t].root_hash
        if r not in roots:
            roots[r] = dict(models[t])
            order.append(r)
        elif roots[r] != models[t]:
            res.fail("harness-error", "two different contents under one root")

    def check_db(before, what, failed):
        for k, v in before.items():
            if k not in db:
                res.fail("entry-removed", "%s removed the database entry %s" % (what, k.hex()))
            elif db[k] != v:
                res.fail("entry-changed", "%s changed the database entry %s" % (what, k.hex()))
        for k, v in db.items():
            if k not in before and keccak(v) != k:
                res.fail("not-content-addressed", "%s added an entry whose key is not the keccak of its value" % what)

    def read_root(r, sample=None):
        want = roots[r]
        ks = sorted(set(want) | set(keys))
        if sample is not None and len(ks) > sample:
            ks = ks[:sample]
        for k in ks:
            try:
                v = HexaryTrie(db, r).get(k)
                out = "v " + hx(v)
                if v != want.get(k, b""):
                    res.fail("old-root-wrong-value", "root %s: get(%r) = %r through a fresh trie, it held %r" % (r.hex()[:12], k, v, want.get(k, b"")))
            except Exception as e:  # noqa
                out = hexlib.fmt_exc(e)
                res.fail("old-root-unreadable", "root %s: get(%r) through a fresh trie raised %r" % (r.hex()[:12], k, e))
            res.emit("hx.getat %s %s" % (hx(r), hx(k)), out)

    step = 0
    for op in case["ops"]:
        step += 1
        before = dict(db)
        kind = op[0]
        res.tags.add("op:" + kind)
        if kind == "new":
            tries.append(HexaryTrie(db))
            models.append({})
            res.emit("hx.new 0", str(len(tries) - 1))
            continue
        if kind == "open":
            r = order[op[1] % len(order)]
            tries.append(HexaryTrie(db, r))
            models.append(dict(roots[r]))
            res.emit("hx.open %s" % hx(r), str(len(tries) - 1))
            continue
        t = op[1] % len(tries)
        trie, model = tries[t], models[t]
        root_before = trie.root_hash
        failed = False
        if kind in ("set", "del", "fset"):
            k = bytes.fromhex(op[2])
            v = bytes.fromhex(op[3]) if kind != "del" else b""
            if kind == "fset":
                db.fail_after = op[4]
                res.emit("hx.failafter %d" % op[4], "ok")
            try:
                if kind == "del":
                    trie.delete(k)
                else:
                    trie.set(k, v)
                out = "ok"
            except WriteFailed:
                out = "exn WriteFailed"
                failed = True
            except Exception as e:  # noqa
                out = hexlib.fmt_exc(e)
                res.fail("operation-raised", "%r raised %r on a complete database" % (op, e))
                failed = True
            res.emit(("hx.del %d %s" % (t, hx(k))) if kind == "del" else ("hx.set %d %s %s" % (t, hx(k), hx(v))), out)
            if kind == "fset":
                db.fail_after = None
                res.emit("hx.failafter none", "ok")
                res.tags.add("write-failure:" + ("hit" if failed else "not-reached"))
            if not failed:
                if v:
                    model[k] = v
                else:
                    model.pop(k, None)
        elif kind == "batch":
            ex, inner = op[2], op[3]
            ek = ex if isinstance(ex, str) else ex[0]
            res.emit("hx.bbegin %d" % t, "ok")
            bm = dict(model)
            raise_at = None if ek != "raise" else min(ex[1], len(inner))
            try:
                with trie.squash_changes() as b:
                    for i, iop in enumerate(inner):
                        if raise_at is not None and i == raise_at:
                            raise boom(len(inner))
                        ik = bytes.fromhex(iop[1])
                        iv = bytes.fromhex(iop[2]) if iop[0] in ("set", "setitem") else b""
                        if iv:
                            b.set(ik, iv)
                            bm[ik] = iv
                            res.emit("hx.set b %s %s" % (hx(ik), hx(iv)), "ok")
                        else:
                            b.delete(ik)
                            bm.pop(ik, None)
                            res.emit("hx.del b %s" % hx(ik), "ok")
                    if raise_at is not None:
                        raise boom(len(inner))
                    if ek == "failcommit":
                        res.emit("hx.failafter %d" % ex[1], "ok")
                        db.fail_after = ex[1]
            except BOOMS:
                res.emit("hx.bend 1", "ok")
                failed = True
                res.tags.add("batch:aborted")
            except WriteFailed:
                res.emit("hx.bend 0", "exn WriteFailed")
                failed = True
                res.tags.add("batch:commit-failed")
            except Exception as e:  # noqa
                res.emit("hx.bend 1", "ok")
                failed = True
                res.fail("operation-raised", "squash_changes block %r raised %r on a complete database" % (op, e))
            else:
                res.emit("hx.bend 0", "ok")
                model.clear()
                model.update(bm)
                res.tags.add("batch:committed")
            if ek == "failcommit":
                db.fail_after = None
                res.emit("hx.failafter none", "ok")
        elif kind == "snap":
            r = order[op[2] % len(order)]
            k = bytes.fromhex(op[3])
            try:
                with trie.at_root(r) as snap:
                    v = snap.get(k)
                if v != roots[r].get(k, b""):
                    res.fail("snapshot-wrong-value", "at_root(%s).get(%r) = %r, it held %r" % (r.hex()[:12], k, v, roots[r].get(k, b"")))
                out = "v " + hx(v)
            except Exception as e:  # noqa
                out = hexlib.fmt_exc(e)
                res.fail("snapshot-unreadable", "at_root(%s).get(%r) raised %r" % (r.hex()[:12], k, e))
            res.emit("hx.getat %s %s" % (hx(r), hx(k)), out)
        elif kind == "snapkeep":
            # at_root(current root) is an INDEPENDENT view: the trie moving on must not move it, a write through it must not
            # move the trie (seeded change C04n-at-root-of-current-root-yields-self). The snapshot is a trie of its own in the
            # model (`hx.open`), and stays available to the later operations of the history.
            k, v, k2, v2 = (bytes.fromhex(x) for x in op[2:6])
            r0 = trie.root_hash
            m0 = dict(model)
            try:
                with trie.at_root(r0) as snap:
                    res.emit("hx.open %s" % hx(r0), str(len(tries)))
                    trie.set(k, v)
                    model[k] = v
                    res.emit("hx.set %d %s %s" % (t, hx(k), hx(v)), "ok")
                    if snap.root_hash != r0:
                        res.fail("snapshot-moved", "at_root(current root): the snapshot's root moved when the trie was written to")
                    got = snap.get(k)
                    res.emit("hx.get %d %s" % (len(tries), hx(k)), "v " + hx(got))
                    if got != m0.get(k, b""):
                        res.fail("snapshot-wrong-value", "at_root(current root).get(%r) = %r after the trie moved on; the root held %r" % (k, got, m0.get(k, b"")))
                    r1 = trie.root_hash
                    snap.set(k2, v2)
                    m0[k2] = v2
                    res.emit("hx.set %d %s %s" % (len(tries), hx(k2), hx(v2)), "ok")
                    if trie.root_hash != r1:
                        res.fail("snapshot-moved", "a write through an at_root snapshot moved the trie's own root")
                tries.append(snap)
                models.append(m0)
                note(len(tries) - 1)
            except Exception as e:  # noqa
                failed = True
                res.fail("snapshot-unreadable", "at_root(current root) / use of the snapshot raised %r" % (e,))
        # observations and oracle after the step
        res.emit("hx.db", hexlib.fmt_db(db))
        res.emit("hx.root %d" % t, hx(trie.root_hash))
        check_db(before, repr(op)[:80], failed)
        if failed and trie.root_hash != root_before:
            res.fail("root-moved-by-failed-operation", "%r failed but the root changed" % (op,))
        if not failed:
            note(t)
        # the trie's own view of its current root must be readable too
        if trie.root_hash in roots:
            read_root(trie.root_hash, sample=3)
        if step % 4 == 0:
            read_root(order[(step * 7) % len(order)], sample=4)
    for r in order:
        read_root(r)
    res.nontrivial = len(order) >= 3
    res.state_key = common.sha(sorted(k.hex() for k in db))
    return res
