"""C01 — HexaryTrie behaves as a byte-string map under every history."""
import itertools

import common
import hexlib
from common import hx

ID = "C01"
LEAN_IMPORTS = ["PyTrie.Props.C01", "PyTrie.Props.C01World", "PyTrie.Props.RawLevel", "PyTrie.Props.NonVacuity", "PyTrie.Props.NonVacuity2", "PyTrie.Props.FreeExec", "PyTrie.Props.HistoryBlocks", "PyTrie.Props.NonVacuity9", "PyTrie.Props.HistoryProgress"]
THEOREMS = [
    "PyTrie.Props.C01.get_set",
    "PyTrie.Props.C01.get_delete",
    "PyTrie.Props.C01.getT_eq_get",
    "PyTrie.Props.C01.canon_run",
    "PyTrie.Props.C01.run_get",
    "PyTrie.Props.C01.run_getT_never_raises",
    "PyTrie.Props.C01.nibs_injective",
    "PyTrie.Props.C01.d1_pinned_raises",
    "PyTrie.Props.C01.world_tree",
    "PyTrie.Props.C01.world_progress",
    "PyTrie.Props.C01.world_get",
    "PyTrie.Props.Raw.set_refines",
    "PyTrie.Props.Raw.delete_refines",
    "PyTrie.Props.Raw.keccak_is_std",
    "PyTrie.Props.NonVacuity.c01_world_get_np",
    "PyTrie.Props.NonVacuity.c01_world_get_p",
    "PyTrie.Props.NonVacuity.hist_reach_np",
    "PyTrie.Props.NonVacuity.hist_reach_p",
    "PyTrie.Props.NonVacuity.set_refines_witness",
    "PyTrie.Props.NonVacuity.delete_refines_witness",
    "PyTrie.Props.NonVacuity.t1_storedD",
    "PyTrie.Props.Raw.history_is_world_run",
    "PyTrie.Props.Raw.history_get",
    "PyTrie.Props.NonVacuity2.raw_history_is_world_run",
    "PyTrie.Props.NonVacuity2.raw_history_get",
    "PyTrie.Props.NonVacuity2.rawRun_hist",
    "PyTrie.Props.Raw.pruned_db_get",
    "PyTrie.Props.Free.op_is_executor_op",
    "PyTrie.Props.Free.run_is_executor_run",
    "PyTrie.Props.Free.run_get",
    "PyTrie.Props.Free.history_lockstep",
    "PyTrie.Props.Free.history_blocks_get",
    "PyTrie.Props.Free.history_blocks_world",
    "PyTrie.Props.NonVacuity9.flat_eq",
    "PyTrie.Props.NonVacuity9.flat_spec",
    "PyTrie.Props.NonVacuity9.get_witness_p",
    "PyTrie.Props.NonVacuity9.get_witness_np",
    "PyTrie.Props.NonVacuity9.get_evaluated",
    "PyTrie.Props.Free.direct_call_progress",
    "PyTrie.Props.Free.batch_call_progress",
    "PyTrie.Props.Free.good_of_good'",
    "PyTrie.Props.Free.history_never_raises",
    "PyTrie.Props.Free.history_blocks_get'",
]
RULE = ("histories of set/setitem/set-to-empty/delete/delitem and squash_changes batches (committed and aborted) "
        "over crafted and random prefix-sharing key universes (empty key, prefixes, extensions, mid-path "
        "divergence, children 0 and 15), prune on/off; after every operation get() of every probe key "
        "(universe, proper prefixes, extensions, siblings) is compared with the Lean model, and get/exists/in/[] "
        "with a dict; a case is non-trivial if it stores at least two keys; distinct = distinct (prune, final contents)")
ASSUMPTIONS = ["NoClobber on the run (no Keccak collision among the written nodes) for read-back statements"]
BUDGET_S = {"quick": 90, "thorough": 780}


def gen_cases(rng, tier):
    # 1. small-scope exhaustive over a crafted alphabet
    keys = [b"", b"\x12", b"\x12\x34", b"\x12\x35", b"\x12\x34\x56", b"\x1f", b"\x02"]
    vals = [b"a", b"b" * 33]
    alphabet = [["set", k.hex(), v.hex()] for k in keys for v in vals] + [["del", k.hex()] for k in keys]
    maxlen = 2 if tier == "quick" else 3
    for n in range(1, maxlen + 1):
        for ops in itertools.product(alphabet, repeat=n):
            for prune in (False, True):
                yield {"prune": prune, "ops": list(ops)}
    # 2. the same short histories wrapped in one batch
    for ops in itertools.product(alphabet, repeat=2):
        yield {"prune": bool(len(ops[0][1]) % 4 == 0), "ops": [ops[0], ["batch", "ok", [ops[1]]], ["batch", "raise", [ops[0]]]]}
    # 3. seeded random structured histories
    n = 700 if tier == "quick" else 12000
    for i in range(n):
        keys = hexlib.gen_universe(rng, rng.randint(2, 10)) if rng.random() < 0.8 else rng.sample(hexlib.CRAFTED_KEYS, 8)
        values = [hexlib.gen_value(rng) for _ in range(3)]
        ops = hexlib.gen_history(rng, keys, values, rng.randint(1, 30 if tier == "quick" else 60))
        yield {"prune": rng.random() < 0.5, "ops": ops, "pseed": rng.randrange(1 << 30)}


def keys_of(ops):
    ks = set()
    for op in ops:
        if op[0] == "batch":
            ks |= keys_of(op[2])
        else:
            ks.add(bytes.fromhex(op[1]))
    return ks


def run_case(case):
    res = common.CaseResult()
    universe = sorted(keys_of(case["ops"]))
    probes = hexlib.probe_keys(universe)
    prng = common.mk_rng(case.get("pseed", 0), "probe")
    nops = sum(1 + (len(op[2]) if op[0] == "batch" else 0) for op in case["ops"])
    small = nops <= 4
    final = {"n": 0}

    def check(runner, tg, trie, model, ks, last):
        for k in ks:
            try:
                v = trie.get(k)
                out = "v " + hx(v)
            except Exception as e:  # noqa
                v = None
                out = hexlib.fmt_exc(e)
                res.fail("lookup-raised", "get(%r) raised %r on a complete database" % (k, e))
            res.emit("hx.get %s %s" % (tg, hx(k)), out)
            if v is not None:
                want = model.get(k, b"")
                if v != want:
                    res.fail("wrong-value", "get(%r) = %r, last stored %r" % (k, v, want))
                try:
                    e1, e2, v2 = trie.exists(k), (k in trie), trie[k]
                    if e1 != (want != b"") or e2 != e1 or v2 != want:
                        res.fail("exists-disagrees", "key %r: exists=%r in=%r []=%r stored=%r" % (k, e1, e2, v2, want))
                except Exception as e:  # noqa
                    res.fail("lookup-raised", "exists/in/[] of %r raised %r" % (k, e))
                if k not in model and any(s.startswith(k) for s in model):
                    res.tags.add("absent-prefix-of-stored")
                if k not in model and any(k.startswith(s) and s != k for s in model):
                    res.tags.add("absent-extension-of-stored")

    def observe(runner, tg, trie, model):
        ks = probes if small else prng.sample(probes, min(len(probes), 10))
        check(runner, tg, trie, model, ks, False)

    r = hexlib.HexRunner(res, case["prune"], observe, raw_tie=True, reopen=True)
    r.run(case["ops"])
    check(r, "0", r.trie, r.model, probes, True)
    r.finish_raw(list(probes)[:12])
    res.tags.add("prune" if case["prune"] else "noprune")
    res.nontrivial = len(r.model) >= 2
    res.state_key = common.sha([case["prune"], sorted((k.hex(), v.hex()) for k, v in r.model.items())])
    return res
