"""C16 — path and node encodings are exact bijections matching their specifications."""
import itertools

import common
from common import hx

common.import_repo()
import rlp  # noqa: E402
from trie.utils import nibbles as N  # noqa: E402
from trie.utils import binaries as B  # noqa: E402
from trie.utils import nodes as ND  # noqa: E402
from trie.constants import NODE_TYPE_LEAF, NODE_TYPE_EXTENSION, NODE_TYPE_BRANCH, NODE_TYPE_BLANK  # noqa: E402

ID = "C16"
LEAN_IMPORTS = ["PyTrie.Props.C16"]
THEOREMS = [
    "PyTrie.Props.C16.hp_is_yellow_paper",
    "PyTrie.Props.C16.tree_hp_is_yellow_paper",
    "PyTrie.Props.C16.hp_decodes_back",
    "PyTrie.Props.C16.terminator_flag",
    "PyTrie.Props.C16.bytes_nibbles_bytes",
    "PyTrie.Props.C16.nibbles_of_bytes_valid",
    "PyTrie.Props.C16.nibbles_bytes_nibbles",
    "PyTrie.Props.C16.bad_nibbles_refused",
    "PyTrie.Props.C16.bytes_bits_bytes",
    "PyTrie.Props.C16.bits_bytes_bits",
    "PyTrie.Props.C16.keypath_roundtrip",
    "PyTrie.Props.C16.kv_node_roundtrip",
    "PyTrie.Props.C16.branch_node_roundtrip",
    "PyTrie.Props.C16.leaf_node_roundtrip",
    "PyTrie.Props.C16.malformed_nodes_rejected",
    "PyTrie.Props.C16.encoders_validate",
    "PyTrie.Props.C16.hexary_leaf_classifies",
    "PyTrie.Props.C16.hexary_ext_classifies",
    "PyTrie.Props.C16.hexary_path_decodes",
]
RULE = ("exhaustive small domains and random larger ones: every nibble sequence up to a length bound with and without "
        "terminator (hex-prefix encode = independent Yellow-Paper HP, decode back, terminator helpers, compute_leaf/extension_key, "
        "extract_key and get_node_type of the node read back through rlp), every byte string up to a bound (bytes<->nibbles, "
        "bytes<->bits both directions), every bit string up to a bound (key-path packing round trip, encode/parse of kv nodes), "
        "branch and leaf node encode/parse, and a malformed stream (empty / None / unknown type byte / impossible lengths / invalid "
        "or odd nibbles / bad child-hash lengths); every call is compared with the Lean model and with the round-trip / "
        "specification oracle; non-trivial = all; distinct = distinct inputs")
ASSUMPTIONS = []
BUDGET_S = {"quick": 60, "thorough": 600}

CHUNK = 150


def chunks(kind, it):
    buf = []
    for x in it:
        buf.append(x)
        if len(buf) == CHUNK:
            yield {"kind": kind, "items": buf}
            buf = []
    if buf:
        yield {"kind": kind, "items": buf}


def nibstr(ns):
    return "".join("t" if n == 16 else ("%x" % n if n < 16 else "x") for n in ns) if len(ns) else "-"


def bitstr(bs):
    return "".join("1" if b else "0" for b in bs) if len(bs) else "-"


def gen_cases(rng, tier):
    nl = 4 if tier == "quick" else 5
    yield from chunks("nibbles", (list(ns) for L in range(nl + 1) for ns in itertools.product(range(16), repeat=L)))
    yield from chunks("nibbles", ([rng.randrange(16) for _ in range(rng.randint(nl + 1, 70))] for _ in range(2000 if tier == "quick" else 20000)))
    bl = 2
    yield from chunks("bytes", (bytes(b).hex() for L in range(bl + 1) for b in itertools.product(range(256), repeat=L)))
    yield from chunks("bytes", (bytes(rng.randrange(256) for _ in range(rng.randint(2, 40))).hex() for _ in range(4000 if tier == "quick" else 40000)))
    tl = 13 if tier == "quick" else 17
    yield from chunks("bits", (list(bs) for L in range(tl + 1) for bs in itertools.product((0, 1), repeat=L)))
    yield from chunks("bits", ([rng.randrange(2) for _ in range(rng.randint(tl + 1, 300))] for _ in range(1500 if tier == "quick" else 15000)))
    # malformed stream
    mal = []
    for _ in range(1500 if tier == "quick" else 15000):
        r = rng.random()
        if r < 0.25:
            t = rng.choice([0, 1, 2, 3, 4, 0x80, 0xff])
            L = rng.choice([0, 1, 2, 31, 32, 33, 34, 63, 64, 65, 66, rng.randint(0, 80)])
            mal.append(["parse", (bytes([t]) + bytes(rng.randrange(256) for _ in range(L))).hex()])
        elif r < 0.3:
            mal.append(["parse", ""])
        elif r < 0.45:
            mal.append(["kv", [rng.randrange(2) for _ in range(rng.choice([0, 0, 1, 5, 8]))], bytes(rng.choice([0, 31, 32, 33])).hex()])
        elif r < 0.55:
            mal.append(["br", bytes(rng.choice([0, 31, 32, 33])).hex(), bytes(rng.choice([32, 32, 31])).hex()])
        elif r < 0.62:
            mal.append(["leaf", bytes(rng.choice([0, 0, 1, 5])).hex()])
        elif r < 0.8:
            ns = [rng.choice([0, 5, 15, 16, 17]) for _ in range(rng.randint(0, 6))]
            mal.append(["n2b", ns])
        elif r < 0.9:
            mal.append(["hpdec", bytes(rng.randrange(256) for _ in range(rng.randint(0, 4))).hex()])
        else:
            mal.append(["kpdec", bytes(rng.randrange(256) for _ in range(rng.randint(0, 3))).hex()])
    yield from chunks("malformed", mal)


def call(fn):
    try:
        return fn(), None
    except Exception as e:  # noqa
        return None, type(e).__name__


def yp_hp(ns, t):
    f = 2 if t else 0
    if len(ns) % 2 == 0:
        head = [16 * f]
        rest = ns
    else:
        head = [16 * (f + 1) + ns[0]]
        rest = ns[1:]
    return bytes(head + [rest[i] * 16 + rest[i + 1] for i in range(0, len(rest), 2)])


def run_case(case):
    res = common.CaseResult()
    kind = case["kind"]
    res.tags.add(kind)
    for item in case["items"]:
        if kind == "nibbles":
            ns = tuple(item)
            for t in (False, True):
                full = ns + ((16,) if t else ())
                enc, err = call(lambda: N.encode_nibbles(full))
                res.emit("enc.hp %s" % nibstr(full), hx(enc) if err is None else "exn " + err)
                if err is not None:
                    res.fail("hp-encode-raised", "encode_nibbles(%r) raised %s" % (full, err))
                    continue
                if enc != yp_hp(list(ns), t):
                    res.fail("hp-differs-from-yellow-paper", "encode_nibbles(%r) = %s, HP gives %s" % (full, enc.hex(), yp_hp(list(ns), t).hex()))
                dec, err = call(lambda: tuple(N.decode_nibbles(enc)))
                res.emit("enc.hpdec %s" % hx(enc), nibstr(dec) if err is None else "exn " + err)
                if dec != full:
                    res.fail("hp-roundtrip", "decode_nibbles(encode_nibbles(%r)) = %r" % (full, dec))
                key = ND.compute_leaf_key(ns) if t else ND.compute_extension_key(ns)
                if key != enc:
                    res.fail("compute-key", "compute_%s_key(%r) = %s" % ("leaf" if t else "extension", ns, key.hex()))
                node = rlp.decode(rlp.encode([key, b"v" * 33]))
                nt, ek = ND.get_node_type(node), tuple(ND.extract_key(node))
                res.emit("enc.hexnode %s" % rlp.encode([key, b"v" * 33]).hex(), "%s %s" % ("leaf" if t else "ext", nibstr(ns)))
                if nt != (NODE_TYPE_LEAF if t else NODE_TYPE_EXTENSION) or ek != ns:
                    res.fail("node-classify", "node written with path %r terminator %r reads back as type %r path %r" % (ns, t, nt, ek))
                # the four classification predicates and get_node_type tell the same story for every kind of node read back:
                # this leaf / extension, a branch carrying it as an embedded child, a branch with hash children, the blank node
                child = node if len(rlp.encode(node)) < 32 else b"h" * 32
                branch = rlp.decode(rlp.encode([child if i == (ns[0] if ns else 3) else b"" for i in range(16)] + [b"val" if t else b""]))
                for nd, want in ((node, NODE_TYPE_LEAF if t else NODE_TYPE_EXTENSION), (branch, NODE_TYPE_BRANCH), (b"", NODE_TYPE_BLANK)):
                    got, err = call(lambda: (ND.get_node_type(nd), bool(ND.is_blank_node(nd)), bool(ND.is_leaf_node(nd)),
                                             bool(ND.is_extension_node(nd)), bool(ND.is_branch_node(nd))))
                    exp = (want, want == NODE_TYPE_BLANK, want == NODE_TYPE_LEAF, want == NODE_TYPE_EXTENSION, want == NODE_TYPE_BRANCH)
                    if err is not None or got != exp:
                        res.fail("node-classify", "node %r: (get_node_type, is_blank, is_leaf, is_extension, is_branch) = %r / %r, expected %r"
                                 % (nd, got, err, exp))
                if bool(N.is_nibbles_terminated(full)) != t or tuple(N.remove_nibbles_terminator(full)) != ns or \
                        tuple(N.add_nibbles_terminator(ns)) != ns + (16,):
                    res.fail("terminator-helpers", "terminator helpers disagree on %r" % (full,))
                if t:
                    # an already terminated sequence: adding the terminator again changes nothing, and the leaf key of it is HP too
                    again, aerr = call(lambda: (tuple(N.add_nibbles_terminator(full)), tuple(N.add_nibbles_terminator(list(full))),
                                                ND.compute_leaf_key(full)))
                    if aerr is not None or again != (full, full, yp_hp(list(ns), True)):
                        res.fail("terminator-helpers", "add_nibbles_terminator / compute_leaf_key on the terminated %r: %r / %r"
                                 % (full, again, aerr))
                # the same sequence held in a list (the library itself passes lists: encode_nibbles([idx]), compute_leaf_key([]))
                lfull = list(full)
                lenc, lerr = call(lambda: N.encode_nibbles(lfull))
                res.emit("enc.hp %s" % nibstr(full), hx(lenc) if lerr is None else "exn " + lerr)
                if lerr is not None or lenc != yp_hp(list(ns), t):
                    res.fail("hp-differs-from-yellow-paper", "encode_nibbles(%r) (a list) = %r / %r, HP gives %s"
                             % (lfull, lenc, lerr, yp_hp(list(ns), t).hex()))
                lkey, lerr = call(lambda: ND.compute_leaf_key(list(ns)) if t else ND.compute_extension_key(list(ns)))
                if lerr is not None or lkey != yp_hp(list(ns), t):
                    res.fail("compute-key", "compute_%s_key(%r) (a list) = %r / %r" % ("leaf" if t else "extension", list(ns), lkey, lerr))
                lh, lerr = call(lambda: (bool(N.is_nibbles_terminated(lfull)), tuple(N.remove_nibbles_terminator(lfull)),
                                         tuple(N.add_nibbles_terminator(list(ns)))))
                if lerr is not None or lh != (t, ns, ns + (16,)):
                    res.fail("terminator-helpers", "terminator helpers disagree on the list %r: %r / %r" % (lfull, lh, lerr))
            if len(ns) % 2 == 0:
                b, err = call(lambda: N.nibbles_to_bytes(ns))
                res.emit("enc.n2b %s" % nibstr(ns), hx(b) if err is None else "exn " + err)
                if err or tuple(N.bytes_to_nibbles(b)) != ns:
                    res.fail("nibbles-roundtrip", "bytes_to_nibbles(nibbles_to_bytes(%r)) differs" % (ns,))
        elif kind == "bytes":
            b = bytes.fromhex(item)
            ns = tuple(N.bytes_to_nibbles(b))
            res.emit("enc.b2n %s" % hx(b), nibstr(ns))
            if N.nibbles_to_bytes(ns) != b or any(not 0 <= n < 16 for n in ns) or len(ns) != 2 * len(b):
                res.fail("bytes-nibbles-roundtrip", "nibbles_to_bytes(bytes_to_nibbles(%s)) differs" % b.hex())
            bits = B.encode_to_bin(b)
            res.emit("enc.tobin %s" % hx(b), bitstr(bits))
            if B.decode_from_bin(bits) != b or len(bits) != 8 * len(b) or any(x not in (0, 1) for x in bits):
                res.fail("bytes-bits-roundtrip", "decode_from_bin(encode_to_bin(%s)) differs" % b.hex())
            if len(b) == 17 or len(b) == 0:
                pass
        elif kind == "bits":
            bits = bytes(item)
            kp, err = call(lambda: B.encode_from_bin_keypath(bits))
            res.emit("enc.kp %s" % bitstr(bits), hx(kp) if err is None else "exn " + err)
            if err:
                res.fail("keypath-encode-raised", "encode_from_bin_keypath(%r) raised %s" % (bits, err))
                continue
            back, err = call(lambda: B.decode_to_bin_keypath(kp))
            res.emit("enc.kpdec %s" % hx(kp), bitstr(back) if err is None else "exn " + err)
            if back != bits:
                res.fail("keypath-roundtrip", "decode_to_bin_keypath(encode_from_bin_keypath(%s)) = %r" % (bitstr(bits), back))
            # the functions are pure: an earlier call must not colour a later one. Decode, right after it, byte strings that
            # are intermediate forms of the call just made (its bit expansion, the decoded bits) and the same path again.
            for later in (B.encode_to_bin(kp), bytes(back or b""), kp):
                d2, err2 = call(lambda: B.decode_to_bin_keypath(later))
                res.emit("enc.kpdec %s" % hx(later), bitstr(d2) if err2 is None else "exn " + err2)
            packed = B.decode_from_bin(bits)
            res.emit("enc.frombin %s" % bitstr(bits), hx(packed))
            if len(bits) % 8 == 0 and B.encode_to_bin(packed) != bits:
                res.fail("bits-bytes-roundtrip", "encode_to_bin(decode_from_bin(%s)) differs" % bitstr(bits))
            if len(bits):
                child = bytes([len(bits) % 256]) * 32
                node, err = call(lambda: ND.encode_kv_node(bits, child))
                res.emit("enc.kv %s %s" % (bitstr(bits), hx(child)), hx(node) if err is None else "exn " + err)
                if err:
                    res.fail("kv-encode-raised", "encode_kv_node raised %s" % err)
                else:
                    p, err = call(lambda: ND.parse_node(node))
                    res.emit("enc.parse %s" % hx(node), "kv %s %s" % (bitstr(p[1]), hx(p[2])) if err is None else "exn " + err)
                    if err or p != (0, bits, child):
                        res.fail("kv-roundtrip", "parse_node(encode_kv_node(%s, h)) = %r" % (bitstr(bits), p))
                if len(bits) <= 12:
                    l, r = bytes([1]) * 32, bits[:1] * 32 if False else bytes([2]) * 32
                    bn = ND.encode_branch_node(l, r)
                    res.emit("enc.br %s %s" % (hx(l), hx(r)), hx(bn))
                    if ND.parse_node(bn) != (1, l, r):
                        res.fail("branch-roundtrip", "parse_node(encode_branch_node) differs")
                    v = packed or b"x"
                    ln = ND.encode_leaf_node(v)
                    res.emit("enc.leaf %s" % hx(v), hx(ln))
                    res.emit("enc.parse %s" % hx(ln), "leaf %s" % hx(v))
                    if ND.parse_node(ln) != (2, None, v):
                        res.fail("leaf-roundtrip", "parse_node(encode_leaf_node) differs")
        else:
            op = item[0]
            if op == "parse":
                b = bytes.fromhex(item[1])
                p, err = call(lambda: ND.parse_node(b))
                if err is None:
                    out = {0: lambda: "kv %s %s" % (bitstr(p[1]), hx(p[2])), 1: lambda: "branch %s %s" % (hx(p[1]), hx(p[2])),
                           2: lambda: "leaf %s" % hx(p[2])}[p[0]]()
                else:
                    out = "exn " + err
                res.emit("enc.parse %s" % hx(b), out)
                bad = (len(b) == 0 or b[0] not in (0, 1, 2) or (b[0] == 1 and len(b) != 65) or (b[0] == 0 and len(b) <= 33)
                       or (b[0] == 2 and len(b) == 1))
                if bad and err != "InvalidNode":
                    res.fail("malformed-node-accepted", "parse_node(%s) -> %s, expected InvalidNode" % (b.hex(), out))
                if not bad and err == "InvalidNode":
                    res.fail("wellformed-node-rejected", "parse_node(%s) raised InvalidNode" % b.hex())
                if len(b) == 0:
                    _, e2 = call(lambda: ND.parse_node(None))
                    if e2 != "InvalidNode":
                        res.fail("malformed-node-accepted", "parse_node(None) -> %r" % e2)
            elif op == "kv":
                bits, child = bytes(item[1]), bytes.fromhex(item[2])
                n, err = call(lambda: ND.encode_kv_node(bits, child))
                res.emit("enc.kv %s %s" % (bitstr(bits), hx(child)), hx(n) if err is None else "exn " + err)
                if (len(bits) == 0 or len(child) != 32) != (err == "ValidationError"):
                    res.fail("kv-validation", "encode_kv_node(%r, %d-byte child) -> %r" % (bits, len(child), err))
            elif op == "br":
                l, r = bytes.fromhex(item[1]), bytes.fromhex(item[2])
                n, err = call(lambda: ND.encode_branch_node(l, r))
                res.emit("enc.br %s %s" % (hx(l), hx(r)), hx(n) if err is None else "exn " + err)
                if (len(l) != 32 or len(r) != 32) != (err == "ValidationError"):
                    res.fail("branch-validation", "encode_branch_node(%d, %d bytes) -> %r" % (len(l), len(r), err))
            elif op == "leaf":
                v = bytes.fromhex(item[1])
                n, err = call(lambda: ND.encode_leaf_node(v))
                res.emit("enc.leaf %s" % hx(v), hx(n) if err is None else "exn " + err)
                if (len(v) == 0) != (err == "ValidationError"):
                    res.fail("leaf-validation", "encode_leaf_node(%r) -> %r" % (v, err))
            elif op == "n2b":
                ns = tuple(item[1])
                b, err = call(lambda: N.nibbles_to_bytes(ns))
                res.emit("enc.n2b %s" % nibstr(ns), hx(b) if err is None else "exn " + err)
                bad = any(n > 15 for n in ns) or len(ns) % 2
                if bool(bad) != (err == "InvalidNibbles"):
                    res.fail("nibbles-validation", "nibbles_to_bytes(%r) -> %r" % (ns, err))
            elif op == "hpdec":
                b = bytes.fromhex(item[1])
                d, err = call(lambda: tuple(N.decode_nibbles(b)))
                res.emit("enc.hpdec %s" % hx(b), nibstr(d) if err is None else "exn " + err)
            elif op == "kpdec":
                b = bytes.fromhex(item[1])
                d, err = call(lambda: B.decode_to_bin_keypath(b))
                res.emit("enc.kpdec %s" % hx(b), bitstr(d) if err is None else "exn " + err)
    res.nontrivial = True
    res.state_key = common.sha([kind, case["items"][:3], len(case["items"])])
    return res
