"""C09 — a fog-guided walk finds everything, even while the trie changes."""
import common
import hexlib
from common import hx, nibstr
from hexlib import _nib
from trie.fog import HexaryTrieFog, TrieFrontierCache
from trie.exceptions import (PerfectVisibility, FullDirectionalVisibility, MissingTraversalNode, TraversedPartialPath)

ID = "C09"
LEAN_IMPORTS = ["PyTrie.Props.C09", "PyTrie.Props.NonVacuity", "PyTrie.Props.NonVacuity2", "PyTrie.Props.NonVacuity6", "PyTrie.Props.NonVacuity7", "PyTrie.Props.NonVacuity8", "PyTrie.Props.C09Termination", "PyTrie.Props.NonVacuity10", "PyTrie.Props.C09Blocks"]
THEOREMS = [
    "PyTrie.Props.C09.step_defined",
    "PyTrie.Props.C09.finds_stable",
    "PyTrie.Props.C09.invariant",
    "PyTrie.Props.C09.sound",
    "PyTrie.Props.C09.exact",
    "PyTrie.Props.C09.step_decreases",
    "PyTrie.Props.C09.measure_start",
    "PyTrie.Props.C09.concrete_step",
    "PyTrie.Props.C09.concrete_finds_stable",
    "PyTrie.Props.C09.concrete_sound",
    "PyTrie.Props.NonVacuity.walk_finds",
    "PyTrie.Props.NonVacuity.sched_done",
    "PyTrie.Props.NonVacuity.fog_wf",
    "PyTrie.Props.NonVacuity.walkMid_wf",
    "PyTrie.Props.NonVacuity2.cwalk_finds",
    "PyTrie.Props.NonVacuity2.cwalk_sound",
    "PyTrie.Props.NonVacuity2.csched_done",
    "PyTrie.Props.NonVacuity2.cMid1_hit",
    "PyTrie.Props.C09.stale_parent_truthful",
    "PyTrie.Props.C09.earlier_versions_consistent",
    "PyTrie.Props.C09.op_keeps_other_tree_consistent",
    "PyTrie.Props.C09.old_version_read_truthful",
    "PyTrie.Props.C09.raw_step_with_retry",
    "PyTrie.Props.C09.raw_walk_finds_stable_and_sound",
    "PyTrie.Props.C09.raw_walk_never_stuck",
    "PyTrie.Props.C09.walk_over_history",
    "PyTrie.Props.C09.walk_over_history_never_stuck",
    "PyTrie.Props.NonVacuity8.evs_reach",
    "PyTrie.Props.NonVacuity8.sched_ok",
    "PyTrie.Props.NonVacuity8.run_eval",
    "PyTrie.Props.NonVacuity8.retry_step",
    "PyTrie.Props.NonVacuity8.walk_over_history_witness",
    "PyTrie.Props.NonVacuity8.walk_over_history_instances",
    "PyTrie.Props.NonVacuity8.walk_never_stuck_witness",
    "PyTrie.Props.NonVacuity6.hist5_versions_p",
    "PyTrie.Props.NonVacuity6.hist5_versions_consistent",
    "PyTrie.Props.NonVacuity6.read_v5_ok",
    "PyTrie.Props.NonVacuity6.read_v2_error",
    "PyTrie.Props.NonVacuity6.read_v2_error_eval",
    "PyTrie.Props.NonVacuity6.read6_v5_ok",
    "PyTrie.Props.NonVacuity6.read6_v2_error",
    "PyTrie.Props.NonVacuity7.walk6_hyps",
    "PyTrie.Props.NonVacuity7.walk6_raw_steps_refine",
    "PyTrie.Props.NonVacuity7.walk6_hits_raw",
    "PyTrie.Props.NonVacuity7.walk6_met",
    "PyTrie.Props.NonVacuity7.walk6_cache_invariant",
    "PyTrie.Props.NonVacuity7.stale_hyps",
    "PyTrie.Props.NonVacuity7.stale_step_missing",
    "PyTrie.Props.NonVacuity7.stale_step_ok",
    "PyTrie.Props.NonVacuity7.stale_step_old_version",
    "PyTrie.Props.NonVacuity7.stale_step_cache_invariant",
    "PyTrie.Props.C09.raw_step_refines",
    "PyTrie.Props.C09.raw_cache_invariant",
    "PyTrie.Props.C09.fog_length_le_mu",
    "PyTrie.Props.C09.walk_length_bounded",
    "PyTrie.Props.C09.concrete_walk_length_bounded",
    "PyTrie.Props.C09.raw_walk_length_bounded",
    "PyTrie.Props.C09.raw_walk_complete_at_bound",
    "PyTrie.Props.NonVacuity10.sched8_keys_short",
    "PyTrie.Props.NonVacuity10.walk_bound_witness",
    "PyTrie.Props.C09.history_blocks_preserves",
    "PyTrie.Props.C09.schedOk_of_history_with_blocks",
    "PyTrie.Props.C09.walk_over_history_with_blocks",
    "PyTrie.Props.C09.walk_over_history_with_blocks_bounded",
]
RULE = ("walks over tries built by generated histories: at every step an unexplored prefix is taken with nearest_unknown or "
        "nearest_right for a (changing) query key, traversed from the root or from a TrieFrontierCache entry (stale entries "
        "after mutations included; a MissingTraversalNode from a pruned stale parent drops the entry and retries from the root), "
        "the simulated node is used on TraversedPartialPath, sub-segments are recorded with explore(); walk steps are interleaved "
        "with set/delete operations at scheduled points; cache on / off / reset midway; prune on / off. Every fog query, cache "
        "lookup, traversal result and explore() is compared with the Lean model run on the same schedule; oracle: the walk ends "
        "with the fog complete within a step bound; on an unchanging trie the met (key, value) pairs are exactly the contents; "
        "otherwise every key whose value never changed during the walk is met with that value and every met pair was stored in "
        "some version; non-trivial = at least one mutation during a walk that met at least 2 keys; distinct = distinct (schedule)")
ASSUMPTIONS = ["finitely many modifications during a walk (termination under unboundedly many growing modifications is false and not claimed)"]
BUDGET_S = {"quick": 90, "thorough": 780}


def gen_cases(rng, tier):
    n = 1500 if tier == "quick" else 20000
    for i in range(n):
        keys = hexlib.gen_universe(rng, rng.randint(2, 9)) if rng.random() < 0.75 else rng.sample(hexlib.CRAFTED_KEYS, 8)
        values = [bytes([rng.choice(b"xyz")]) * rng.choice([1, 20, 33, 40]) for _ in range(3)]
        ops = hexlib.gen_history(rng, keys, values, rng.randint(2, 12), batch_prob=0.0)
        sched = []
        nmut = 0 if rng.random() < 0.3 else rng.randint(1, 6)
        for _ in range(rng.randint(3, 25)):
            if nmut and rng.random() < 0.25:
                if rng.random() < 0.3:
                    # the trie changes through a squash_changes block (committed or left by an exception) between two steps
                    # of the walk, as in the repository's own walk tests (C09.walk_over_history_with_blocks)
                    inner = [hexlib.gen_simple_op(rng, keys + [bytes([rng.randrange(256)])], values) for _ in range(rng.randint(1, 4))]
                    sched.append(["mutb", "ok" if rng.random() < 0.7 else ["raise", rng.randint(0, len(inner))], inner])
                else:
                    sched.append(["mut", hexlib.gen_simple_op(rng, keys + [bytes([rng.randrange(256)])], values)])
                nmut -= 1
            else:
                q = [rng.randrange(16) for _ in range(rng.randint(0, 5))]
                sched.append(["step", rng.choice(["nu", "nr", "nu"]), q])
        yield {"prune": rng.random() < 0.4, "ops": ops, "sched": sched,
               "cache": rng.choice(["on", "on", "off", "reset"]), "reset_at": rng.randint(1, 10),
               # a second walk: at this step the fog is replaced by a fresh one while the frontier cache of the abandoned
               # walk is kept (0 = never)
               "refog_at": rng.choice([0, 0, 2, 3, 5, 8]),
               # a bystander: another walk (own fog, own cache) over another trie of the same shape, advanced alternately
               "bystander": rng.random() < 0.35}


def plist(l):
    return ",".join("_" if len(p) == 0 else nibstr(p) for p in l) if l else "-"


def run_case(case):
    res = common.CaseResult()
    r = hexlib.HexRunner(res, case["prune"], None)
    r.run(case["ops"])
    trie = r.trie
    versions = [dict(r.model)]
    res.emit("fog.reset", "ok")
    res.emit("fog.new", "0")
    fog, fid, nfogs = HexaryTrieFog(), 0, 1
    use_cache = case["cache"] != "off"
    cache = TrieFrontierCache()
    res.emit("fog.cnew", "ok")
    res.emit("hx.wnew", "ok")
    res.emit("hx.wdnew", "ok")
    res.emit("hx.wdrnew", "ok")
    regs = {}           # id(node object) -> model register
    met = {}
    nsteps = 0
    mutated = False

    def walk_step(kind, q):
        nonlocal fog, fid, nfogs, cache, nsteps
        q = tuple(q)
        for retry in range(3):
            try:
                p = tuple(fog.nearest_right(common.vary(q, True)) if kind == "nr" else fog.nearest_unknown(common.vary(q, True)))
                res.emit("fog.%s %d %s" % (kind, fid, nibstr(q)), "p " + nibstr(p))
            except PerfectVisibility:
                res.emit("fog.%s %d %s" % (kind, fid, nibstr(q)), "exn PerfectVisibility")
                return False
            except FullDirectionalVisibility:
                res.emit("fog.%s %d %s" % (kind, fid, nibstr(q)), "exn FullDirectionalVisibility")
                kind = "nu"
                continue
            break
        for attempt in range(3):
            cached = None
            if use_cache:
                try:
                    cached = cache.get(common.vary(p, True))
                    res.emit("fog.cget %s" % nibstr(p), "hit %d %s" % (regs.get(id(cached[0]), -1), nibstr(cached[1])))
                except KeyError:
                    res.emit("fog.cget %s" % nibstr(p), "miss")
            try:
                if cached is None:
                    line = "hx.trav 0 %s" % nibstr(p)
                    node = trie.traverse(common.vary(p, True))
                else:
                    line = "hx.travfrom 0 %d %s" % (regs.get(id(cached[0]), -1), nibstr(cached[1]))
                    node = trie.traverse_from(cached[0], cached[1])
                res.emit(line, "node " + hexlib.fmt_ann(node))
                if cached is not None:
                    # raw level: the cached (possibly stale) parent's children read from the database as it is now
                    res.emit("hx.travfromd %d %s" % (regs.get(id(cached[0]), -1), nibstr(cached[1])), "node " + hexlib.fmt_ann(node))
            except TraversedPartialPath as e:
                res.emit(line, hexlib.fmt_traverse(lambda: (_ for _ in ()).throw(e)))
                if cached is not None:
                    res.emit("hx.travfromd %d %s" % (regs.get(id(cached[0]), -1), nibstr(cached[1])),
                             hexlib.fmt_traverse(lambda: (_ for _ in ()).throw(e)))
                node = e.simulated_node
                res.tags.add("simulated-node-used")
            except MissingTraversalNode as e:
                res.emit(line, hexlib.fmt_exc(e))
                if cached is not None:
                    res.emit("hx.travfromd %d %s" % (regs.get(id(cached[0]), -1), nibstr(cached[1])), hexlib.fmt_exc(e))
                res.emit("hx.wstep 0 %s %d" % (nibstr(p), 1 if use_cache else 0), hexlib.fmt_exc(e))
                res.emit("hx.wdstep 0 %s %d" % (nibstr(p), 1 if use_cache else 0), hexlib.fmt_exc(e))
                if cached is None:
                    res.fail("walk-missing-node", "traverse(%s) from the root raised %r on a complete database" % (nibstr(p), e))
                    return False
                cache.delete(p)
                res.emit("fog.cdel %s" % nibstr(p), "ok")
                res.emit("hx.wcdel %s" % nibstr(p), "ok")
                res.emit("hx.wdcdel %s" % nibstr(p), "ok")
                res.tags.add("stale-cache-entry-dropped")
                continue
            break
        else:
            res.fail("walk-stuck", "could not traverse to %s" % nibstr(p))
            return False
        subs = [tuple(s) for s in node.sub_segments]
        try:
            fog = fog.explore(common.vary(p, True), common.vary(subs, gen=True))
            res.emit("fog.explore %d %s %s" % (fid, nibstr(p), plist(subs)), str(nfogs))
            fid = nfogs
            nfogs += 1
        except Exception as e:  # noqa
            res.emit("fog.explore %d %s %s" % (fid, nibstr(p), plist(subs)), "exn " + type(e).__name__)
            res.fail("explore-rejected-description", "explore(%s, %r) raised %r" % (nibstr(p), subs, e))
            return False
        if use_cache:
            if subs:
                cache.add(common.vary(p, True), node, common.vary(subs, gen=True))
                reg = len(regs)
                res.emit("hx.reglast", str(reg))
                regs[id(node)] = reg
                keep.append(node)
                res.emit("fog.cadd %s %d %s" % (nibstr(p), reg, plist(subs)), "ok")
            else:
                cache.delete(p)
                res.emit("fog.cdel %s" % nibstr(p), "ok")
        newmet = "-"
        if node.value:
            k = p + tuple(node.suffix)
            met[k] = bytes(node.value)
            newmet = "%s=%s" % (nibstr(k), hx(bytes(node.value)))
        # the whole step as one transition of the concrete walk model (Model/Walk.lean: cstep)
        res.emit("hx.wstep 0 %s %d" % (nibstr(p), 1 if use_cache else 0),
                 "fog %s met %s" % (plist([tuple(q) for q in fog._unexplored_prefixes]), newmet))
        # … and of the raw-level walk model (Model/WalkD.lean: cstepD over the database as it is now)
        res.emit("hx.wdstep 0 %s %d" % (nibstr(p), 1 if use_cache else 0),
                 "fog %s met %s" % (plist([tuple(q) for q in fog._unexplored_prefixes]), newmet))
        # … and the whole step INCLUDING the retry after a stale cache entry as one transition (cstepDR); the keys of the
        # cache are compared too
        ckeys = sorted("_" if len(k) == 0 else nibstr(k) for k in cache._cache) if use_cache else None
        if ckeys is None:
            ckeys = kept_keys[0]
        else:
            kept_keys[0] = ckeys
        res.emit("hx.wdstepr 0 %s %d" % (nibstr(p), 1 if use_cache else 0),
                 "fog %s met %s cache %s" % (plist([tuple(q) for q in fog._unexplored_prefixes]), newmet, ",".join(ckeys) or "-"))
        nsteps += 1
        return True

    # the bystander walk: a trie with the same keys and other values (same prefixes, hence the same cache keys, other nodes),
    # in its own database; own fog and own TrieFrontierCache; judged without the model
    by = None
    if case.get("bystander"):
        from trie import HexaryTrie
        other = HexaryTrie({})
        omodel = {}
        for op in case["ops"]:
            k = bytes.fromhex(op[1])
            if op[0] == "set" and op[2]:
                other.set(k, bytes.fromhex(op[2]) + b"#")
                omodel[k] = bytes.fromhex(op[2]) + b"#"
            else:
                other.delete(k)
                omodel.pop(k, None)
        by = {"trie": other, "model": omodel, "fog": HexaryTrieFog(), "cache": TrieFrontierCache(), "met": {}, "done": False}
        res.tags.add("bystander-walk")

    def by_step():
        if by is None or by["done"]:
            return
        try:
            try:
                bp = tuple(by["fog"].nearest_unknown(()))
            except PerfectVisibility:
                by["done"] = True
                return
            try:
                cn, seg = by["cache"].get(bp)
            except KeyError:
                bnode = by["trie"].traverse(bp)
            else:
                bnode = by["trie"].traverse_from(cn, seg)
            by["fog"] = by["fog"].explore(bp, bnode.sub_segments)
            if bnode.sub_segments:
                by["cache"].add(bp, bnode, bnode.sub_segments)
            else:
                by["cache"].delete(bp)
            if bnode.value:
                by["met"][bp + tuple(bnode.suffix)] = bytes(bnode.value)
        except Exception as e:  # noqa
            by["done"] = True
            res.fail("bystander-walk-wrong", "a second walk with its own fog and cache over an unchanging trie raised %r" % (e,))

    keep = []            # keep node objects alive so that id() stays unique
    kept_keys = [[]]
    done = False
    step_no = 0
    for item in case["sched"]:
        if item[0] == "mut":
            r.simple("0", trie, r.model, item[1])
            versions.append(dict(r.model))
            mutated = True
            continue
        if item[0] == "mutb":
            r.batch(item[1], item[2])
            versions.append(dict(r.model))
            mutated = True
            res.tags.add("trie-changed-through-a-block-during-the-walk")
            continue
        step_no += 1
        if case["cache"] == "reset" and step_no == case["reset_at"]:
            cache = TrieFrontierCache()
            res.emit("fog.cnew", "ok")
            res.emit("hx.wcnew", "ok")
            res.emit("hx.wdcnew", "ok")
            res.emit("hx.wdrcnew", "ok")
        if case.get("refog_at") and step_no == case["refog_at"]:
            # abandon the walk: fresh fog, same cache; what the new walk must find is judged from here on
            fog = HexaryTrieFog()
            res.emit("fog.new", str(nfogs))
            fid = nfogs
            nfogs += 1
            res.emit("hx.wrefog", "ok")
            res.emit("hx.wdrefog", "ok")
            res.emit("hx.wdrrefog", "ok")
            met.clear()
            versions[:] = [dict(r.model)]
            mutated = False
            res.tags.add("second-walk-same-cache")
        if not walk_step(item[1], item[2]):
            done = True
            break
        by_step()
    guard = 0
    while not done and not res.oracle:
        guard += 1
        if guard > 3000:
            res.fail("walk-does-not-terminate", "the fog is still incomplete after %d further steps" % guard)
            break
        if not walk_step("nu", ()):
            break
        by_step()
    if not res.oracle:
        if not fog.is_complete:
            res.fail("fog-incomplete", "walk ended without a complete fog")
        final = versions[-1]
        everstored = set()
        for v in versions:
            everstored |= {(_nib(k), val) for k, val in v.items()}
        for k, val in met.items():
            if (k, val) not in everstored:
                res.fail("met-never-stored", "the walk met %s -> %r which no version of the trie held" % (nibstr(k), val))
        stable = {k: v for k, v in versions[0].items() if all(ver.get(k) == v for ver in versions)}
        for k, v in stable.items():
            if met.get(_nib(k)) != v:
                res.fail("stable-key-missed", "key %r kept the value %r during the whole walk but the walk met %r"
                         % (k, v, met.get(_nib(k))))
        if not mutated and met != {_nib(k): v for k, v in final.items()}:
            res.fail("walk-not-exact", "unchanging trie: met %d pairs, contents have %d" % (len(met), len(final)))
    if by is not None and not res.oracle:
        for _ in range(3000):
            if by["done"]:
                break
            by_step()
        if not res.oracle and by["met"] != {_nib(k): v for k, v in by["model"].items()}:
            res.fail("bystander-walk-wrong", "a second walk with its own fog and cache over an unchanging trie met %r, the trie holds %r"
                     % (sorted(by["met"].items()), sorted(by["model"].items())))
    res.tags.add("cache:" + case["cache"])
    res.tags.add("prune" if case["prune"] else "noprune")
    res.tags.add("mutated" if mutated else "static")
    res.nontrivial = mutated and len(met) >= 2
    res.state_key = common.sha(case)
    return res
