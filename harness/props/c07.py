"""C07 — missing nodes: operations fail atomically and report the truth."""
import common
import hexlib
from common import hx, nibstr
from hexlib import HexaryTrie, rlp, _nib
from trie.exceptions import MissingTrieNode, MissingTraversalNode, TraversedPartialPath

ID = "C07"
LEAN_IMPORTS = ["PyTrie.Props.C07", "PyTrie.Props.NonVacuity3", "PyTrie.Props.FreeExec", "PyTrie.Props.FreeBatch", "PyTrie.Props.C07Retry", "PyTrie.Props.NonVacuity12"]
THEOREMS = [
    "PyTrie.Props.Free.beam_invariant_step",
    "PyTrie.Props.Free.beam_history_lockstep",
    "PyTrie.Props.Free.beam_failed_call_atomic",
    "PyTrie.Props.C07.fetches_on_path",
    "PyTrie.Props.C07.get_missing_truthful",
    "PyTrie.Props.C07.get_error_kind",
    "PyTrie.Props.C07.get_same_or_missing",
    "PyTrie.Props.C07.traverse_truthful",
    "PyTrie.Props.C07.get_retry_progress",
    "PyTrie.Props.C07.set_reads_before_writes",
    "PyTrie.Props.C07.delete_reads_before_writes",
    "PyTrie.Props.C07.set_delete_missing_atomic",
    "PyTrie.Props.C07.set_reads_on_path",
    "PyTrie.Props.C07.delete_reads_on_path",
    "PyTrie.Props.C07.set_delete_missing_on_path",
    "PyTrie.Props.C07.set_delete_retry_progress",
    "PyTrie.Props.C07.raw_set_partial",
    "PyTrie.Props.C07.raw_delete_partial",
    "PyTrie.Props.C07.raw_set_missing_on_path",
    "PyTrie.Props.C07.raw_delete_missing_on_path",
    "PyTrie.Props.C07.raw_traverse_partial",
    "PyTrie.Props.C07.raw_get_partial",
    "PyTrie.Props.C07.rawT_set_agrees",
    "PyTrie.Props.C07.rawT_delete_agrees",
    "PyTrie.Props.C07.rawT_op_agrees",
    "PyTrie.Props.C07.raw_failed_set_writes_nothing",
    "PyTrie.Props.C07.raw_failed_delete_writes_nothing",
    "PyTrie.Props.C07.raw_failed_op_leaves_db",
    "PyTrie.Props.NonVacuity3.set_partial_fails",
    "PyTrie.Props.NonVacuity3.set_partial_ok",
    "PyTrie.Props.NonVacuity3.delete_partial_fails_sibling",
    "PyTrie.Props.NonVacuity3.delete_missing_sibling",
    "PyTrie.Props.NonVacuity3.traverse_partial_fails",
    "PyTrie.Props.NonVacuity3.get_partial_fails",
    "PyTrie.Props.NonVacuity3.get_partial_root_missing",
    "PyTrie.Props.NonVacuity3.failed_set_quiet",
    "PyTrie.Props.NonVacuity3.failed_delete_sibling_quiet",
    "PyTrie.Props.NonVacuity3.failed_set_leaves_db",
    "PyTrie.Props.NonVacuity3.failed_delete_leaves_db",
    "PyTrie.Props.NonVacuity3.failed_root_leaves_db",
    "PyTrie.Props.Free.op_partial",
    "PyTrie.Props.Free.op_missing_atomic",
    "PyTrie.Props.Free.partial_of_complete_db",
    "PyTrie.Props.Free.partial_kept_by_withholding",
    "PyTrie.Props.Free.partial_kept_by_supplying",
    "PyTrie.Props.Free.partial_kept_by_op",
    "PyTrie.HexFree.Cex.partial_insert_node_needs_canon",
    "PyTrie.HexFree.Cex.opSetDel_partial_preserved_needs_hold",
    "PyTrie.Props.C07.get_retry_loop_converges",
    "PyTrie.Props.C07.op_retry_loop_converges",
    "PyTrie.Props.NonVacuity12.get_loop_witness",
    "PyTrie.Props.NonVacuity12.get_loop_evaluated",
    "PyTrie.Props.NonVacuity12.op_loop_witness",
    "PyTrie.Props.NonVacuity12.op_loop_evaluated",
]
RULE = ("tries built by generated histories (prune on/off), then a subset of node bodies removed from the database (every "
        "subset for small tries, random subsets otherwise, single nodes, everything), then one operation — get, exists, set, "
        "set-to-empty, delete, traverse, traverse_from (from real and simulated nodes) — directly or inside squash_changes; "
        "the outcome (value or every field of MissingTrieNode / MissingTraversalNode) is compared with the Lean model; oracle: "
        "same result as on the complete database or a report naming a hash that is really absent and lies on the requested path "
        "(for delete also the sibling that must be read to collapse a branch on that path), correct root and key, exact prefix; "
        "root, database, reference counts and pending-prune state untouched by the failed call; then the retry loop: supply "
        "only the reported node and retry until success — each hash reported at most once, final result equal to the "
        "complete-database result; non-trivial = the first attempt failed; distinct = distinct (database, removed set, operation)")
ASSUMPTIONS = ["only node bodies are removed (no entry is altered)"]
BUDGET_S = {"quick": 90, "thorough": 780}


def gen_cases(rng, tier):
    n = 260 if tier == "quick" else 5000
    for i in range(n):
        keys = hexlib.gen_universe(rng, rng.randint(2, 8)) if rng.random() < 0.8 else rng.sample(hexlib.CRAFTED_KEYS, 7)
        values = [bytes([rng.choice(b"xyz")]) * rng.choice([1, 20, 33, 40, 56]) for _ in range(3)]
        ops = hexlib.gen_history(rng, keys, values, rng.randint(2, 14), batch_prob=0.0)
        prune = rng.random() < 0.5
        twin_probes = []
        if rng.random() < 0.2:
            # identical sub-tries under two or three prefixes (inner nodes with reference count >= 2), a pruning trie, and
            # writes / deletes below them and under a FURTHER prefix with the same tails and values (a write that re-creates
            # the content of an existing — possibly withheld — node): seeded changes C07o-prune-node-decrements-at-once,
            # C07o-write-skipped-for-referenced-node
            tkeys, tvals, setup = hexlib.gen_twin_setup(rng)
            ops, keys, prune = setup, tkeys, True
            plen = min(len(k) for k in tkeys if k) if any(tkeys) else 1
            stored = {bytes.fromhex(o[1]): bytes.fromhex(o[2]) for o in setup}
            for k0, v0 in list(stored.items())[:4]:
                fresh = bytes([k0[0] ^ 0x40]) + k0[1:]
                twin_probes += [["set", fresh.hex(), v0.hex()], ["del", k0.hex()], ["set", k0.hex(), (v0[:-1] + b"!").hex()]]
        probes = []
        for _ in range(10):
            r = rng.random()
            k = rng.choice(hexlib.probe_keys(keys)).hex()
            if r < 0.2:
                probes.append(["get", k])
            elif r < 0.3:
                probes.append(["exists", k])
            elif r < 0.5:
                probes.append(["set", k, hexlib.gen_value(rng, values).hex()])
            elif r < 0.7:
                probes.append(["del", k] if rng.random() < 0.7 else ["set", k, ""])
            elif r < 0.85:
                nk = _nib(bytes.fromhex(k))
                probes.append(["trav", [] if rng.random() < 0.15 else
                               list(nk[:rng.randint(0, len(nk))]) + ([rng.randrange(16)] if rng.random() < 0.3 else [])])
            else:
                nk = _nib(bytes.fromhex(k))
                cut = rng.randint(0, len(nk))
                probes.append(["travfrom", list(nk[:cut]), list(nk[cut:rng.randint(cut, len(nk))]) + ([rng.randrange(16)] if rng.random() < 0.2 else [])])
        for p in probes + twin_probes:
            batch = rng.random() < 0.3 and p[0] in ("get", "set", "del", "exists")
            c = {"prune": prune, "ops": ops, "probe": p, "dropseed": rng.randrange(1 << 30), "batch": batch}
            if batch and rng.random() < 0.4:
                # the failure is not caught inside the block: after a write that usually succeeds, the MissingTrieNode of
                # the probe leaves the squash_changes block (seeded change C07m-batch-shares-counts-missing-node)
                c["escape"] = [rng.choice(keys).hex(), hexlib.gen_value(rng, values).hex() or "61"]
            yield c


def run_case(case):
    res = common.CaseResult()
    r = hexlib.HexRunner(res, case["prune"], None)
    r.run(case["ops"])
    trie, model, db = r.trie, r.model, r.db
    full = dict(db)
    rng = common.mk_rng(case["dropseed"], "drop")
    probe = case["probe"]
    kind = probe[0]
    allk = sorted(full)
    if not allk:
        res.state_key = "empty"
        return res
    # which bodies disappear
    q = rng.random()
    if q < 0.25:
        gone = [rng.choice(allk)]
    elif q < 0.35:
        gone = list(allk)
    elif len(allk) <= 6:
        mask = rng.randrange(1, 1 << len(allk))
        gone = [k for i, k in enumerate(allk) if mask >> i & 1]
    else:
        gone = rng.sample(allk, rng.randint(1, len(allk)))
    # traverse_from needs its start node before the damage
    start = None
    if kind == "travfrom":
        try:
            start = trie.traverse(tuple(probe[1]))
        except TraversedPartialPath as e:
            start = e.simulated_node
        res.emit("hx.reg 0 %s" % nibstr(probe[1]), "0")
    for h in gone:
        del db[h]
        res.emit("hx.drop %s" % hx(h), "ok")
        if r.free_sync:
            res.emit("hx.fdrop %s" % hx(h), "ok")

    # expected result on the complete database (reference run on a copy)
    ref = HexaryTrie(dict(full), trie.root_hash, prune=False)

    def reference():
        if kind == "get":
            return "v " + hx(ref.get(bytes.fromhex(probe[1])))
        if kind == "exists":
            return "v " + str(ref.exists(bytes.fromhex(probe[1])))
        if kind == "trav":
            return hexlib.fmt_traverse(lambda: ref.traverse(tuple(probe[1])))
        if kind == "travfrom":
            return hexlib.fmt_traverse(lambda: ref.traverse_from(start, tuple(probe[2])))
        if kind == "set":
            ref.set(bytes.fromhex(probe[1]), bytes.fromhex(probe[2]))
        else:
            ref.delete(bytes.fromhex(probe[1]))
        return "ok root=" + hx(ref.root_hash)

    want = reference()
    key = bytes.fromhex(probe[1]) if kind in ("get", "exists", "set", "del") else None
    # hashes that may legitimately be reported: nodes on the requested path (and, for delete, their children)
    if kind in ("trav", "travfrom"):
        path = tuple(probe[1]) + (tuple(probe[2]) if kind == "travfrom" else ())
    else:
        path = _nib(key)
    walk = hexlib.path_walk(full, trie.root_hash, path)
    on_path = {h: pre for pre, _, h in walk if h is not None}
    siblings = set()
    for pre, node, _ in walk:
        if len(node) == 17:
            siblings |= {x for x in node[:16] if isinstance(x, bytes) and len(x) == 32}

    target = trie
    tg = "0"
    batch_cm = None
    if case["batch"]:
        res.emit("hx.bbegin 0", "ok")
        batch_cm = trie.squash_changes()
        target = batch_cm.__enter__()
        tg = "b"

    def attempt():
        if kind == "get":
            line = "hx.get %s %s" % (tg, hx(key))
            fn = lambda: "v " + hx(target.get(key))
        elif kind == "exists":
            line = "hx.get %s %s" % (tg, hx(key))
            fn = lambda: "v " + str(target.exists(key))
        elif kind == "set":
            v = bytes.fromhex(probe[2])
            line = "hx.set %s %s %s" % (tg, hx(key), hx(v))
            fn = lambda: (target.set(key, v), "ok")[1]
        elif kind == "del":
            line = "hx.del %s %s" % (tg, hx(key))
            fn = lambda: (target.delete(key), "ok")[1]
        elif kind == "trav":
            line = "hx.trav %s %s" % (tg, nibstr(probe[1]))
            fn = lambda: hexlib.fmt_traverse(lambda: target.traverse(tuple(probe[1])), True)
        else:
            line = "hx.travfrom %s 0 %s" % (tg, nibstr(probe[2]))
            fn = lambda: hexlib.fmt_traverse(lambda: target.traverse_from(start, tuple(probe[2])), True)
        try:
            return line, fn(), None
        except (MissingTrieNode, MissingTraversalNode) as e:
            return line, hexlib.fmt_exc(e), e
        except Exception as e:  # noqa
            return line, hexlib.fmt_exc(e), e

    if case.get("escape") and batch_cm is not None:
        # a block that is LEFT by the missing-node exception: whatever ran inside, the outer trie must be exactly as before
        # the block (root, database, reference counts), and must work normally once the bodies are back
        outer = (dict(db), trie.root_hash, dict(trie.ref_count) if trie.is_pruning else None)
        pk, pv = bytes.fromhex(case["escape"][0]), bytes.fromhex(case["escape"][1])
        exc = None
        try:
            target.set(pk, pv)
            res.emit("hx.set b %s %s" % (hx(pk), hx(pv)), "ok")
        except (MissingTrieNode, MissingTraversalNode) as e:
            res.emit("hx.set b %s %s" % (hx(pk), hx(pv)), hexlib.fmt_exc(e))
            exc = e
        if exc is None:
            line, out, exc = attempt()
            if kind == "exists" and exc is None:
                res.emit(line, "v " + hx(target.get(key)))
            else:
                res.emit(line, out if not (exc is None and kind in ("set", "del")) else "ok")
        if exc is not None and not isinstance(exc, (MissingTrieNode, MissingTraversalNode)):
            res.fail("wrong-exception", "%r raised %r" % (probe, exc))
        try:
            if exc is not None:
                batch_cm.__exit__(type(exc), exc, exc.__traceback__)
                res.emit("hx.bend 1", "ok")
            else:
                batch_cm.__exit__(None, None, None)
                res.emit("hx.bend 0", "ok")
        except Exception as e:  # noqa
            res.emit("hx.bend %d" % (1 if exc is not None else 0), hexlib.fmt_exc(e))
        res.emit("hx.root 0", hx(trie.root_hash))
        res.emit("hx.dbkeys", hexlib.fmt_dbkeys(db))
        if trie.is_pruning:
            res.emit("hx.counts 0", hexlib.fmt_counts(trie.ref_count))
        if exc is not None:
            if dict(db) != outer[0]:
                res.fail("failed-call-changed-db", "a squash_changes block left by %s changed the database" % type(exc).__name__)
            if trie.root_hash != outer[1]:
                res.fail("failed-call-changed-root", "a squash_changes block left by %s changed the outer root" % type(exc).__name__)
            if trie.is_pruning and dict(trie.ref_count) != outer[2]:
                res.fail("failed-call-changed-counts", "a squash_changes block left by %s (after a successful write inside it) "
                         "changed the outer reference counts" % type(exc).__name__)
            if trie._pending_prune_keys is not None:
                res.fail("pending-prunes-left", "pending prunes left behind after the aborted block")
            # supply everything again: the trie answers as before the damage
            for h in gone:
                db[h] = full[h]
                res.emit("hx.put %s %s" % (hx(h), hx(full[h])), "ok")
            for k, v in sorted(model.items()):
                try:
                    got = trie.get(k)
                except Exception as e:  # noqa
                    got = e
                if got != v:
                    res.fail("result-differs-from-complete-db", "after the aborted block and with all bodies supplied again, "
                             "get(%s) = %r, stored %r" % (k.hex(), got, v))
                res.emit("hx.get 0 %s" % hx(k), "v " + hx(v))
            if trie.is_pruning and dict(trie.regenerate_ref_count()) != {k: c for k, c in trie.ref_count.items() if c}:
                res.fail("failed-call-changed-counts", "reference counts differ from regenerate_ref_count() after the aborted block")
        res.tags.add("block-left-by-missing-node" if exc is not None else "escape-block-unaffected")
        res.nontrivial = exc is not None
        res.state_key = common.sha([sorted(k.hex() for k in full), sorted(k.hex() for k in gone), probe, "escape", case["escape"]])
        return res

    reported = []
    first_failed = False
    for round_ in range(len(gone) + 2):
        state = (dict(db), target.root_hash, dict(target.ref_count) if target.is_pruning else None)
        line, out, exc = attempt()
        if kind in ("set", "del") and tg == "0" and not target.is_pruning and (exc is None or isinstance(exc, MissingTrieNode)):
            # raw level (HexRaw.rawOp: the statement-by-statement transcription over raw nodes) on the database as it was
            # before the call, with the bodies that are missing: the same outcome — the node it stops at, or root + entries
            rv = probe[2] if kind == "set" else "none"
            if exc is None:
                added = sorted((a.hex(), b.hex()) for a, b in db.items() if a not in state[0])
                rexp = "root=%s added=%s" % (hx(target.root_hash), ",".join("%s:%s" % ab for ab in added) if added else "-")
            else:
                rexp = "exn missing %s" % hx(bytes(exc.missing_node_hash))
            res.emit("hx.rawop %s %s %s" % (hx(state[1]), hx(key), rv if rv != "" else "-"), rexp)
            res.tags.add("raw-level-missing-tied" if exc is not None else "raw-level-tied")
        if kind == "trav" and not probe[1]:
            # root_node is traverse(()) also when the root body is withheld (MissingTraversalNode, same fields)
            try:
                out2 = hexlib.fmt_traverse(lambda: target.root_node, True)
            except (MissingTrieNode, MissingTraversalNode) as e2:
                out2 = hexlib.fmt_exc(e2)
            res.tags.add("root_node:" + ("missing-root" if exc is not None else "present"))
            if out2 != out:
                res.fail("root-node-differs-from-traverse-empty", "root_node -> %s, traverse(()) -> %s" % (out2, out))
        if tg == "0" and kind == "trav":
            # raw level of the read path on the incomplete database (annotate / _traverse_from over rlp-decoded nodes)
            res.emit("hx.travd %s %s" % (hx(state[1]), nibstr(probe[1])), out)
            res.tags.add("raw-level-read-tied")
        if tg == "0" and kind == "get":
            res.emit("hx.getat %s %s" % (hx(state[1]), hx(key)), out)
            res.tags.add("raw-level-read-tied")
            if r.free_sync:
                res.emit("hx.fget 0 %s" % hx(key), out)
        if tg == "0" and kind in ("set", "del") and r.free_sync:
            # the tree-free executor on its own copy of the damaged database: same outcome, same root, database and counts
            res.emit("hx.fop 0 %s %s" % (hx(key), (probe[2] or "-") if kind == "set" else "none"),
                     out if exc is not None else "ok")
            res.emit("hx.froot 0", hx(target.root_hash))
            res.emit("hx.fdb", hexlib.fmt_db(db))
            if target.is_pruning:
                res.emit("hx.fcounts 0", hexlib.fmt_counts(target.ref_count))
            res.tags.add("tree-free-executor-tied")
        if kind == "exists" and exc is None:
            # the model answers exists() through get(): compare the value's emptiness
            res.emit(line, "v " + hx(target.get(key)))
        elif kind == "exists":
            res.emit(line, out)
        else:
            res.emit(line, out if not (exc is None and kind in ("set", "del")) else "ok")
        if exc is None and kind == "set" and probe[2] != "":
            # a call that SUCCEEDED read every node on the key's path and stored every node it made: the key it wrote is readable
            try:
                back = target.get(key)
                if back != bytes.fromhex(probe[2]):
                    res.fail("written-key-unreadable", "set(%s) succeeded on the incomplete database, get returns %r" % (key.hex(), back))
            except Exception as e3:  # noqa
                res.fail("written-key-unreadable", "set(%s) succeeded on the incomplete database, but get(%s) raises %r: a node the call "
                         "created was not stored" % (key.hex(), key.hex(), e3))
        if exc is None:
            got = out if kind not in ("set", "del") else "ok root=" + hx(target.root_hash)
            if True:
                if got != want:
                    res.fail("result-differs-from-complete-db", "%r with %d of %d bodies missing returned %s, on the complete database %s"
                             % (probe, len(gone) - len(reported), len(allk), got, want))
            break
        first_failed = True
        if not isinstance(exc, (MissingTrieNode, MissingTraversalNode)):
            res.fail("wrong-exception", "%r raised %r" % (probe, exc))
            break
        h = bytes(exc.missing_node_hash)
        # truthfulness
        if h in db:
            res.fail("reported-hash-not-missing", "%r reports %s which is present" % (probe, h.hex()))
        ok_hashes = set(on_path) | (siblings if kind in ("del", "set") else set())
        if h not in ok_hashes:
            res.fail("reported-hash-off-path", "%r reports %s which is not on the requested path" % (probe, h.hex()))
        if isinstance(exc, MissingTrieNode):
            if bytes(exc.root_hash) != target.root_hash or bytes(exc.requested_key) != key:
                res.fail("report-fields-wrong", "%r: root_hash/requested_key fields are wrong" % (probe,))
            if kind in ("get", "exists") and h in on_path and (exc.prefix is None or tuple(exc.prefix) != on_path[h]):
                res.fail("report-prefix-wrong", "%r: prefix %r, the missing node sits at %r" % (probe, exc.prefix, on_path[h]))
        else:
            rel = on_path.get(h)
            if rel is not None:
                if kind == "travfrom":
                    rel = rel[len(probe[1]):]
                if tuple(exc.nibbles_traversed) != tuple(rel):
                    res.fail("report-prefix-wrong", "%r: nibbles_traversed %r, the missing node sits at %r" % (probe, tuple(exc.nibbles_traversed), rel))
        # atomicity
        if dict(db) != state[0]:
            res.fail("failed-call-changed-db", "%r failed and changed the database" % (probe,))
        if target.root_hash != state[1]:
            res.fail("failed-call-changed-root", "%r failed and changed the root" % (probe,))
        if target.is_pruning and dict(target.ref_count) != state[2]:
            res.fail("failed-call-changed-counts", "%r failed and changed the reference counts" % (probe,))
        if target._pending_prune_keys is not None:
            res.fail("pending-prunes-left", "%r failed and left pending prunes behind" % (probe,))
        if target.is_pruning:
            res.emit("hx.counts %s" % tg, hexlib.fmt_counts(target.ref_count))
        res.emit("hx.root %s" % tg, hx(target.root_hash))
        res.emit("hx.dbkeys", hexlib.fmt_dbkeys(db))
        if h in reported:
            res.fail("hash-reported-twice", "%r asked for %s twice" % (probe, h.hex()))
            break
        reported.append(h)
        if h not in full:
            break
        db[h] = full[h]
        res.emit("hx.put %s %s" % (hx(h), hx(full[h])), "ok")
        if r.free_sync:
            res.emit("hx.fput %s %s" % (hx(h), hx(full[h])), "ok")
    else:
        res.fail("retry-does-not-converge", "%r still fails after supplying %d nodes" % (probe, len(reported)))
    if batch_cm is not None:
        try:
            batch_cm.__exit__(None, None, None)
            res.emit("hx.bend 0", "ok")
        except Exception as e:  # noqa
            res.emit("hx.bend 0", hexlib.fmt_exc(e))
    res.tags.add("%s:%s" % (kind, "failed-first" if first_failed else "unaffected"))
    res.tags.add("retries:%d" % min(len(reported), 4))
    res.nontrivial = first_failed
    res.state_key = common.sha([sorted(k.hex() for k in full), sorted(k.hex() for k in gone), probe, case["batch"]])
    return res
