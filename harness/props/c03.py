"""C03 — hexary Merkle proofs are complete and sound."""
import common
import hexlib
from common import hx
from hexlib import HexaryTrie, rlp, keccak
from trie.exceptions import BadTrieProof

ID = "C03"
LEAN_IMPORTS = ["PyTrie.Props.C03", "PyTrie.Props.Histories", "PyTrie.Props.RawLevel", "PyTrie.Props.NonVacuity", "PyTrie.Props.NonVacuity2"]
THEOREMS = [
    "PyTrie.Props.C03.proof_on_path",
    "PyTrie.Props.C03.proof_head",
    "PyTrie.Props.C03.proof_complete",
    "PyTrie.Props.C03.proof_sound",
    "PyTrie.Props.C03.proof_withheld",
    "PyTrie.Props.C03.proof_complete_keccak",
    "PyTrie.Props.C03.proof_sound_keccak",
    "PyTrie.Props.C03.decOkOn_of_small",
    "PyTrie.HexD.getD_of_path",
    "PyTrie.HexD.getD_sound",
    "PyTrie.HexD.getD_withheld",
    "PyTrie.HexD.hpDecode_hp",
    "PyTrie.HexD.rlpDecode_rlp_of_length_lt",
    "PyTrie.keccak_length",
    "PyTrie.Props.Histories.proof_complete_run",
    "PyTrie.Props.Histories.proof_sound_run",
    "PyTrie.Props.Raw.get_proof_refines",
    "PyTrie.Props.NonVacuity.c03_complete",
    "PyTrie.Props.NonVacuity.c03_sound",
    "PyTrie.Props.NonVacuity.c03_withheld",
    "PyTrie.Props.NonVacuity2.get_proof_witness",
]
RULE = ("tries built by generated histories (crafted and random prefix-sharing universes, values on both sides of the "
        "32-byte embedding boundary, values on branches, keys ending inside extensions and below embedded nodes); for every "
        "probe key (stored, absent, prefixes, extensions, siblings): get_proof compared with the model node for node and "
        "checked to lie on the key's path by an independent database walker; get_from_proof on the honest proof and on "
        "forged node lists (each node dropped, pairs swapped, duplicated, reversed, value / child hash / path altered, "
        "nodes spliced from another trie, proofs of other keys, foreign and random roots) compared with the Lean Layer-D "
        "reader; oracle: result is the true value or BadTrieProof, BadTrieProof whenever a hashed path node is withheld; "
        "non-trivial = trie with at least 2 keys; distinct = distinct (contents, key)")
ASSUMPTIONS = ["Compatible: no hash is bound to two different bodies among the honest trie's nodes and the offered nodes "
               "(fails only if the run exhibits a Keccak collision)",
               "roots are 32-byte hashes; 'well-formed node' = accepted by validate_is_node with byte-string leaf values"]
BUDGET_S = {"quick": 90, "thorough": 780}


def gen_cases(rng, tier):
    n = 900 if tier == "quick" else 5000
    for i in range(n):
        if i % 5 == 0:
            keys = rng.sample(hexlib.CRAFTED_KEYS, rng.randint(2, 9))
        else:
            keys = hexlib.gen_universe(rng, rng.randint(1, 9))
        values = [hexlib.gen_value(rng) for _ in range(3)]
        ops = hexlib.gen_history(rng, keys, values, rng.randint(1, 14), batch_prob=0.0)
        okeys = hexlib.gen_universe(rng, rng.randint(1, 5))
        other = [["set", k.hex(), hexlib.gen_value(rng, values).hex()] for k in okeys + rng.sample(keys, min(2, len(keys)))]
        yield {"ops": ops, "other": other, "fseed": rng.randrange(1 << 30)}
    # the D1 shape and a few fixed small shapes
    yield {"ops": [["set", "123456", "61"], ["set", "123457", "62"]], "other": [["set", "12", "63"]], "fseed": 1}
    yield {"ops": [["set", "", "61"], ["set", "00", "62" * 33], ["set", "0f", "62" * 33]], "other": [], "fseed": 2}


def enc_nodes(nodes):
    return ",".join(rlp.encode(n).hex() for n in nodes) if nodes else "-"


def alter(rng, node):
    """a well-formed node differing from `node` in one place"""
    node = [x if not isinstance(x, list) else list(x) for x in node]
    if len(node) == 2:
        p, leaf = hexlib.hp_decode(node[0])
        r = rng.random()
        if r < 0.5 or isinstance(node[1], list):
            # change the path: flip one nibble, or drop / add one
            p = list(p)
            how = rng.random()
            if p and how < 0.6:
                i = rng.randrange(len(p))
                p[i] = (p[i] + 1 + rng.randrange(15)) % 16
            elif p and how < 0.8:
                p.pop()
            else:
                p.append(rng.randrange(16))
            node[0] = hexlib._hp(tuple(p), leaf)
        else:
            v = bytearray(node[1])
            if v:
                i = rng.randrange(len(v))
                v[i] ^= 1 + rng.randrange(255)
            node[1] = bytes(v)
            if not leaf and len(node[1]) != 32:
                node[1] = bytes(32)
    else:
        idx = [i for i in range(16) if node[i] != b"" and not isinstance(node[i], list)]
        if idx and rng.random() < 0.6:
            i = rng.choice(idx)
            v = bytearray(node[i])
            v[rng.randrange(32)] ^= 1 + rng.randrange(255)
            node[i] = bytes(v)
        elif rng.random() < 0.5:
            node[16] = bytes(node[16]) + b"x"
        else:
            i = rng.randrange(16)
            node[i] = b"" if node[i] != b"" else keccak(b"nothing")
    return node


def run_case(case):
    res = common.CaseResult()
    orng = common.mk_rng(case["fseed"], "interleaved")

    def observe(runner, tg, trie, model):
        # proofs requested from the SAME trie object between mutations (a result cached per object/key would be
        # stale here: seeded change C03b-get-proof-lru-cache was invisible while each key was asked for once)
        ks = sorted(model) + [b"\x12", b""]
        for k in orng.sample(ks, min(2, len(ks))):
            try:
                proof = list(trie.get_proof(k))
                res.emit("hx.proof 0 %s" % hx(k), enc_nodes(proof))
                try:
                    v = HexaryTrie.get_from_proof(trie.root_hash, k, proof)
                    if v != model.get(k, b""):
                        res.fail("honest-proof-wrong", "mid-history: get_from_proof(root, %r, get_proof(%r)) = %r, trie holds %r" % (k, k, v, model.get(k, b"")))
                except Exception as e:  # noqa
                    res.fail("honest-proof-rejected", "mid-history: get_from_proof(root, %r, get_proof(%r)) raised %r" % (k, k, e))
            except Exception as e:  # noqa
                res.fail("get-proof-raised", "get_proof(%r) raised %r" % (k, e))

    r = hexlib.HexRunner(res, False, observe)
    r.run(case["ops"])
    trie, model = r.trie, r.model
    db = r.db
    root = trie.root_hash
    odb = {}
    otrie = HexaryTrie(odb)
    for op in case["other"]:
        otrie.set(bytes.fromhex(op[1]), bytes.fromhex(op[2]))
    omodel = {bytes.fromhex(op[1]): bytes.fromhex(op[2]) for op in case["other"]}
    rng = common.mk_rng(case["fseed"], "forge")
    probes = hexlib.probe_keys(sorted(model) or [b"\x12"])
    if len(probes) > 14:
        probes = sorted(model)[:6] + rng.sample(probes, 8)

    def verify(rt, key, nodes, truth, what, withheld=False):
        try:
            v = HexaryTrie.get_from_proof(rt, key, common.vary(nodes, gen=True))
            out = "v " + hx(v)
        except BadTrieProof:
            v = None
            out = "exn BadTrieProof"
        except Exception as e:  # noqa
            v = None
            out = "exn Other"
            res.fail("forged-other-exception", "%s: get_from_proof(%s, %r) raised %r" % (what, rt.hex(), key, e))
        res.emit("hx.verify %s %s %s" % (hx(rt), hx(key), enc_nodes(nodes)), out)
        if v is not None:
            if truth is None:
                res.fail("accepted-unknown-root", "%s: root %s belongs to no trie, yet get_from_proof(%r) returned %r"
                         % (what, rt.hex(), key, v))
            elif v != truth:
                res.fail("honest-proof-wrong" if what == "honest" else "forged-proof-accepted",
                         "%s: get_from_proof(%r) returned %r, the trie with that root holds %r" % (what, key, v, truth))
            elif withheld:
                res.fail("withheld-not-rejected", "%s: a hashed node on the path of %r was withheld, yet %r was returned"
                         % (what, key, v))
        elif what == "honest":
            res.fail("honest-proof-rejected", "get_from_proof(root, %r, get_proof(%r)) raised %s" % (key, key, out))
        res.tags.add("verify:" + what + (":ok" if v is not None else ":rejected"))

    for k in probes:
        truth = model.get(k, b"")
        try:
            proof = list(trie.get_proof(k))
        except Exception as e:  # noqa
            res.emit("hx.proof 0 %s" % hx(k), hexlib.fmt_exc(e))
            res.fail("get-proof-raised", "get_proof(%r) raised %r" % (k, e))
            continue
        res.emit("hx.proof 0 %s" % hx(k), enc_nodes(proof))
        res.emit("hx.proofd %s %s" % (hx(root), hx(k)), enc_nodes(proof))     # raw-level _get_proof over the database
        walk = hexlib.path_walk(db, root, hexlib._nib(k))
        onpath = [n for _, n, _ in walk]
        for n in proof:
            if n not in onpath:
                res.fail("proof-node-off-path", "get_proof(%r) contains a node that is not on the key's path: %r" % (k, n))
        hashed_idx = [i for i, n in enumerate(proof) if i == 0 or len(rlp.encode(n)) >= 32]
        if any(len(rlp.encode(n)) < 32 for n in proof[1:]):
            res.tags.add("embedded-node-in-proof")
        if len(proof) and len(proof[-1]) == 17 and truth:
            res.tags.add("value-on-branch")
        if len(proof) and len(proof[-1]) == 2 and not hexlib.hp_decode(proof[-1][0])[1]:
            res.tags.add("ends-at-extension")
        verify(root, k, proof, truth, "honest")
        # --- forged streams -------------------------------------------------------------------
        for i in range(len(proof)):
            verify(root, k, proof[:i] + proof[i + 1:], truth, "drop", withheld=(i in hashed_idx))
        if len(proof) >= 2:
            verify(root, k, list(reversed(proof)), truth, "reversed")
            i = rng.randrange(len(proof))
            verify(root, k, proof + [proof[i]], truth, "duplicate")
        for _ in range(2):
            if proof:
                i = rng.randrange(len(proof))
                bad = alter(rng, proof[i])
                # replaced: the honest node is withheld when it was hashed
                verify(root, k, proof[:i] + [bad] + proof[i + 1:], truth, "altered", withheld=(i in hashed_idx and bad != proof[i]))
                # added: the forged node is offered next to the honest ones
                verify(root, k, [bad] + proof, truth, "altered-added")
        def proof_of(tr, kk):
            try:
                return list(tr.get_proof(kk))
            except Exception as e:  # noqa
                res.fail("get-proof-raised", "get_proof(%r) raised %r" % (kk, e))
                return []
        k2 = rng.choice(probes)
        p2 = proof_of(trie, k2)
        verify(root, k, p2, truth, "other-key", withheld=any(proof[i] not in p2 for i in hashed_idx))
        # nodes of another trie, alone and mixed in; the other trie's root
        op = proof_of(otrie, k)
        verify(root, k, op, truth, "foreign-nodes", withheld=any(proof[i] not in op for i in hashed_idx))
        verify(root, k, op + proof, truth, "foreign-mixed")
        verify(otrie.root_hash, k, proof + op, omodel.get(k, b""), "foreign-root")
        verify(otrie.root_hash, k, proof, omodel.get(k, b""), "foreign-root-own-nodes",
               withheld=False)
        verify(keccak(b"r" + k), k, proof, None, "random-root")
        # a hashed child withheld as a node and its rlp spliced into the parent's pointer field instead (a pointer that is
        # neither empty, nor 32 bytes, nor an embedded list belongs to no trie node); the root is the forged node's hash
        # (only for an extension parent: validate_is_node refuses a branch whose child is a byte string of another length
        # with ValidationError — such a node is not well-formed by the library's own standard, which is C18's subject)
        if len(proof) >= 2 and len(proof[0]) == 2 and len(rlp.encode(proof[1])) >= 32:
            child_hash = keccak(rlp.encode(proof[1]))
            for variant in ("spliced-pointer", "spliced-pointer-altered"):
                child = proof[1] if variant == "spliced-pointer" else alter(rng, proof[1])
                body = rlp.encode(child)
                if len(body) < 32:
                    continue
                forged = [body if (isinstance(x, bytes) and x == child_hash) else x for x in proof[0]]
                if forged != list(proof[0]):
                    verify(keccak(rlp.encode(forged)), k, [forged] + proof[2:], None, variant)
        verify(root, k, [], truth, "empty", withheld=bool(proof))
    res.nontrivial = len(model) >= 2
    res.state_key = common.sha(sorted((k.hex(), v.hex()) for k, v in model.items()))
    return res
