"""C08 — traverse / traverse_from describe the canonical node at every nibble path."""
import common
import hexlib
from common import hx, nibstr
from hexlib import rlp, keccak, _nib, _hp, yp_c, yp_n
from trie.exceptions import TraversedPartialPath

ID = "C08"
LEAN_IMPORTS = ["PyTrie.Props.C08", "PyTrie.Props.Histories", "PyTrie.Props.RawLevel", "PyTrie.Props.C09"]
THEOREMS = [
    "PyTrie.Props.C08.traverse_nil",
    "PyTrie.Props.C08.traverse_blank_iff",
    "PyTrie.Props.C08.traverse_partial_sim",
    "PyTrie.Props.C08.traverse_covers",
    "PyTrie.Props.C08.traverse_value",
    "PyTrie.Props.C08.traverse_subs",
    "PyTrie.Props.C08.traverse_from_eq",
    "PyTrie.Props.C08.traverse_from_sim",
    "PyTrie.Props.C08.traverse_reads_le",
    "PyTrie.Props.Histories.traverse_blank_iff_run",
    "PyTrie.Props.Histories.traverse_covers_run",
    "PyTrie.Props.Raw.annotate_refines",
    "PyTrie.HexD.traverseOutD_refines",
    "PyTrie.HexD.simulateD_toD",
    "PyTrie.Props.C09.old_version_read_truthful",
]
RULE = ("tries built by generated histories (embedded and hashed nodes, values on branches, keys that prefix other keys); "
        "for nibble paths along every key, off every key at every depth and up to two nibbles beyond the longest key: "
        "traverse(path) (type, sub_segments, value, suffix, raw; TraversedPartialPath fields incl. the simulated node) is "
        "compared with the Lean model and with an independent description computed from the key set alone; root_node is "
        "compared with traverse(()); traverse_from(node at prefix, segment) (real and simulated start nodes) is compared "
        "with traverse(prefix+segment) and its database reads with the number of hashed nodes below the start; "
        "non-trivial = at least 2 keys; distinct = distinct contents")
ASSUMPTIONS = ["complete database (missing nodes are C07)"]
BUDGET_S = {"quick": 90, "thorough": 780}


def gen_cases(rng, tier):
    n = 1500 if tier == "quick" else 12000
    for i in range(n):
        if i % 5 == 0:
            keys = rng.sample(hexlib.CRAFTED_KEYS, rng.randint(1, 9))
        else:
            keys = hexlib.gen_universe(rng, rng.randint(1, 9))
        values = [hexlib.gen_value(rng) for _ in range(3)]
        ops = hexlib.gen_history(rng, keys, values, rng.randint(1, 14), batch_prob=0.15)
        yield {"prune": rng.random() < 0.3, "ops": ops, "pseed": rng.randrange(1 << 30)}
    yield {"prune": False, "ops": [["set", "123456", "61"], ["set", "123457", "62"]], "pseed": 1}
    yield {"prune": False, "ops": [["set", "", "61"]], "pseed": 1}
    yield {"prune": False, "ops": [["set", "12", "61" * 40]], "pseed": 1}


# ---------------------------------------------------------------------------------------------
# independent description of the canonical trie at a nibble path, from the contents alone
# ---------------------------------------------------------------------------------------------
def fmt_desc(kind, subs, value, suffix, raw):
    return "%s subs=%s value=%s suffix=%s raw=%s" % (
        kind, ",".join(nibstr(s) for s in subs) if subs else "-", hx(value), nibstr(suffix), hx(rlp.encode(raw)))


def describe(J, path):
    """J: [(nibble key, value)]; returns the canonical line traverse(path) must produce"""
    i = 0
    path = tuple(path)
    while True:
        if not J:
            return "node " + fmt_desc("blank", (), b"", (), b"")
        raw = yp_c(J, i)
        if len(J) == 1:
            k, v = J[0]
            suffix = k[i:]
            me = fmt_desc("leaf", (), v, suffix, raw)
            rest = path[i:]
            if not rest:
                return "node " + me
            if suffix[:len(rest)] == rest:
                trimmed = suffix[len(rest):]
                sim = fmt_desc("leaf", (), v, trimmed, [_hp(trimmed, True), v])
                return "partial traversed=%s tail=%s node=[%s] sim=[%s]" % (nibstr(path[:i]), nibstr(rest), me, sim)
            return "node " + fmt_desc("blank", (), b"", (), b"")
        k0 = J[0][0]
        j = min(len(k) for k, _ in J)
        for k, _ in J:
            m = i
            while m < j and k[m] == k0[m]:
                m += 1
            j = m
        if j > i:
            seg = k0[i:j]
            me = fmt_desc("ext", (seg,), b"", (), raw)
            rest = path[i:]
            if not rest:
                return "node " + me
            if len(rest) < len(seg):
                if seg[:len(rest)] == rest:
                    trimmed = seg[len(rest):]
                    sim = fmt_desc("ext", (trimmed,), b"", (), [_hp(trimmed, False), raw[1]])
                    return "partial traversed=%s tail=%s node=[%s] sim=[%s]" % (nibstr(path[:i]), nibstr(rest), me, sim)
                return "node " + fmt_desc("blank", (), b"", (), b"")
            if rest[:len(seg)] != seg:
                return "node " + fmt_desc("blank", (), b"", (), b"")
            i = j
            continue
        # branch at depth i
        if len(path) == i:
            subs = tuple((x,) for x in range(16) if any(len(k) > i and k[i] == x for k, _ in J))
            vs = [v for k, v in J if len(k) == i]
            return "node " + fmt_desc("branch", subs, vs[0] if vs else b"", (), raw)
        x = path[i]
        J = [(k, v) for k, v in J if len(k) > i and k[i] == x]
        i += 1


def probe_paths(model, rng, limit):
    ks = [_nib(k) for k in model]
    ps = {()}
    longest = max([len(k) for k in ks] + [0])
    for k in ks:
        for i in range(len(k) + 1):
            ps.add(k[:i])
            for x in (0, 15, rng.randrange(16)):
                ps.add(k[:i] + (x,))
        ps.add(k + (rng.randrange(16), rng.randrange(16)))
    ps = sorted(p for p in ps if len(p) <= longest + 2)
    if len(ps) > limit:
        ps = sorted(rng.sample(ps, limit))
    return ps


class CountingDict(dict):
    reads = 0

    def __getitem__(self, k):
        self.reads += 1
        return super().__getitem__(k)


def run_case(case):
    res = common.CaseResult()
    db = CountingDict()
    orng = common.mk_rng(case["pseed"], "interleaved")

    def observe(runner, tg, trie, model):
        # the same trie object is queried between mutations (results cached per object would go stale)
        Jm = sorted((_nib(k), v) for k, v in model.items())
        # root_node after every operation and after every block (committed or aborted): always traverse(()) of the current root
        rn = hexlib.fmt_traverse(lambda: trie.root_node)
        res.emit("hx.rootnode %s" % tg, rn)
        if rn != hexlib.fmt_traverse(lambda: trie.traverse(())):
            res.fail("root-node-differs", "mid-history root_node != traverse(()) (contents %r)" % (sorted(model.items()),))
        for p in probe_paths(model, orng, 3):
            out = hexlib.fmt_traverse(lambda: trie.traverse(p))
            res.emit("hx.trav %s %s" % (tg, nibstr(p)), out)
            if out != describe(Jm, p):
                res.fail("traverse-wrong", "mid-history traverse(%s): got %s ; contents require %s" % (nibstr(p), out, describe(Jm, p)))

    r = hexlib.HexRunner(res, case["prune"], observe, db=db)
    r.run(case["ops"])
    trie, model = r.trie, r.model
    rng = common.mk_rng(case["pseed"], "paths")
    J = sorted((_nib(k), v) for k, v in model.items())
    paths = probe_paths(model, rng, 70)

    # root_node == traverse(())
    a = hexlib.fmt_traverse(lambda: trie.root_node)
    res.emit("hx.rootnode 0", a)
    if a != hexlib.fmt_traverse(lambda: trie.traverse(())):
        res.fail("root-node-differs", "root_node != traverse(())")

    starts = []
    for p in paths:
        out = hexlib.fmt_traverse(lambda: trie.traverse(common.vary(p, True)))
        res.emit("hx.trav 0 %s" % nibstr(p), out)
        # raw level: annotate_node / _make_simulated_node / _traverse_from over raw nodes from the database
        res.emit("hx.travd %s %s" % (hx(trie.root_hash), nibstr(p)), out)
        want = describe(J, p)
        if out != want:
            res.fail("traverse-wrong", "traverse(%s): got %s ; the contents %r require %s" % (nibstr(p), out, sorted(model.items()), want))
        kind = out.split(" ")[0] + ":" + (out.split(" ")[1] if out.startswith("node") else "inside")
        res.tags.add(kind)
        # nodes from which traverse_from starts: real ones and simulated ones
        try:
            n = trie.traverse(p)
            if n.sub_segments or n.suffix:
                starts.append((p, n, False))
        except TraversedPartialPath as e:
            starts.append((p, e.simulated_node, True))

    rng.shuffle(starts)
    for p, node, simulated in starts[:12]:
        segs = set(tuple(s) for s in node.sub_segments)
        if node.suffix:
            segs.add(tuple(node.suffix))
            segs.add(tuple(node.suffix[:1]))
        for s in list(segs)[:3]:
            segs.add(s + (rng.randrange(16),))
            if len(s) > 1:
                segs.add(s[:-1])
            segs.add(s[:-1] + ((s[-1] + 1) % 16,))
        for k in model:
            nk = _nib(k)
            if nk[:len(p)] == p:
                segs.add(nk[len(p):])
        segs.add(())
        reg = len([1 for l, _ in res.steps if l.startswith("hx.reg ")])
        res.emit("hx.reg 0 %s" % nibstr(p), str(reg))
        for s in sorted(segs)[:10]:
            before = db.reads
            out = hexlib.fmt_traverse(lambda: trie.traverse_from(node, common.vary(s, True)))
            reads = db.reads - before
            res.emit("hx.travfrom 0 %d %s" % (reg, nibstr(s)), out)
            res.emit("hx.travfromd %d %s" % (reg, nibstr(s)), out)      # raw level: the kept node's children read from the database
            res.tags.add("from-" + ("simulated" if simulated else "real"))
            full = hexlib.fmt_traverse(lambda: trie.traverse(p + s))
            # same node; partial results are relative to the start node
            if full.startswith("node"):
                same = out == full
            else:
                try:
                    trie.traverse(p + s)
                    same = False
                except TraversedPartialPath as e:
                    T = tuple(e.nibbles_traversed)
                    simtxt = hexlib.fmt_ann(e.simulated_node)
                    if len(T) >= len(p):
                        rel = "partial traversed=%s tail=%s node=[%s] sim=[%s]" % (
                            nibstr(T[len(p):]), nibstr(e.untraversed_tail), hexlib.fmt_ann(e.node), simtxt)
                        same = out == rel
                    elif out.startswith("node "):
                        # started from a simulated node and stayed inside the same leaf / extension with nothing
                        # left to consume: the node returned must be the simulated description of that position
                        same = simulated and s == () and out == "node " + simtxt
                    else:
                        same = simulated and out.startswith("partial traversed=- tail=%s " % nibstr(s)) and \
                            out.endswith("sim=[%s]" % simtxt)
            if not same:
                res.fail("traverse-from-differs", "traverse_from(node at %s%s, %s) = %s but traverse(%s) = %s"
                         % (nibstr(p), " (simulated)" if simulated else "", nibstr(s), out, nibstr(p + s), full))
            try:
                walk = hexlib.path_walk(db, trie.root_hash, p + s)
                hops = len([1 for pre, _, h in walk if len(pre) > len(p) and h is not None])
                if reads > hops:
                    res.fail("traverse-from-reads", "traverse_from(node at %s, %s) read the database %d times for %d hashed child hops"
                             % (nibstr(p), nibstr(s), reads, hops))
            except KeyError:
                pass
    res.nontrivial = len(model) >= 2
    res.state_key = common.sha(sorted((k.hex(), v.hex()) for k, v in model.items()))
    return res
