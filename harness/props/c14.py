"""C14 — SparseMerkleTree is a fixed-depth map whose root and branches always verify."""
import common
from common import hx

common.import_repo()
from trie.smt import SparseMerkleTree, calc_root  # noqa: E402
from eth_hash.auto import keccak  # noqa: E402

ID = "C14"
LEAN_IMPORTS = ["PyTrie.Props.C14", "PyTrie.Props.SmtInt", "PyTrie.Props.NonVacuity", "PyTrie.Props.C14Rollback", "PyTrie.Props.NonVacuity14"]
THEOREMS = [
    "PyTrie.Props.C14.run_rep",
    "PyTrie.Props.C14.root_is_merkle_root",
    "PyTrie.Props.C14.root_history_independent",
    "PyTrie.Props.C14.cleared_root_is_initial",
    "PyTrie.Props.C14.get_spec",
    "PyTrie.Props.C14.branch_verifies",
    "PyTrie.Props.C14.set_returns_path",
    "PyTrie.Props.C14.from_db_same",
    "PyTrie.Smt.init_rep",
    "PyTrie.Smt.getAux_of_rep",
    "PyTrie.Smt.set_spec",
    "PyTrie.Smt.calcRoot_siblings",
    "PyTrie.Props.SmtInt.bit_is_list_element",
    "PyTrie.Props.SmtInt.get_agrees",
    "PyTrie.Props.SmtInt.set_agrees",
    "PyTrie.Props.SmtInt.calc_root_agrees",
    "PyTrie.Props.NonVacuity.smt_functional",
    "PyTrie.Props.NonVacuity.smt_get",
    "PyTrie.Props.NonVacuity.smt_get_absent",
    "PyTrie.Props.NonVacuity.smt_root",
    "PyTrie.Props.C14.rrun_lengths",
    "PyTrie.Props.C14.rollback_history_rep",
    "PyTrie.Props.C14.rollback_history_current",
    "PyTrie.Props.C14.rollback_history_get",
    "PyTrie.Props.NonVacuity14.revs_functional",
    "PyTrie.Props.NonVacuity14.rollback_witness",
    "PyTrie.Props.NonVacuity14.rollback_versions_witness",
]
RULE = ("key sizes 1, 2, 3 and 32 (and others at random), blank and non-blank defaults, histories of set / delete (method and "
        "dict syntax, values equal to the default, blank values, rewrites) over key pools whose members differ at every bit "
        "position (first, last, middle); after every call the returned node hashes, the root, get / exists / branch of every pool "
        "key and of fresh keys, calc_root(key, value, branch) and (small depths) the exact database are compared with the Lean "
        "model; oracle: dict model with default, independent Merkle root of the full tree (memoised default subtrees), initial "
        "root once all is cleared, calc_root = root for every readable key, returned hashes = the new path hashes root-to-leaf "
        "(checked by walking the database), from_db reads identically; non-trivial = at least 2 distinct non-default keys at some "
        "point; distinct = distinct (key size, default, final contents)")
ASSUMPTIONS = ["NoClobber on the run (no Keccak collision among written nodes)"]
BUDGET_S = {"quick": 90, "thorough": 780}


def gen_pool(rng, ks):
    base = bytes(rng.randrange(256) for _ in range(ks))
    pool = {base, bytes(ks), b"\xff" * ks}
    n = int.from_bytes(base, "big")
    for bit in {0, 1, 7, 8 * ks - 1, 8 * ks - 2, rng.randrange(8 * ks), rng.randrange(8 * ks)}:
        pool.add((n ^ (1 << bit)).to_bytes(ks, "big"))
    return sorted(pool)


class BytesSub(bytes):
    """a bytes subclass (as hexbytes.HexBytes is): accepted wherever bytes are"""


def _sub(b, selector):
    return BytesSub(b) if selector % 3 == 0 else b


def gen_cases(rng, tier):
    n = 200 if tier == "quick" else 4000
    for i in range(n):
        r = rng.random()
        ks = 1 if r < 0.35 else 2 if r < 0.6 else 3 if r < 0.75 else 32 if r < 0.9 else rng.randint(4, 31)
        default = rng.choice([b"", b"", b"d", b"default-value", bytes(32)])
        pool = gen_pool(rng, ks)
        vals = [b"v", b"w" * 33, default, b"", bytes(rng.randrange(256) for _ in range(rng.randint(1, 70)))]
        ops = []
        for _ in range(rng.randint(1, 14 if ks <= 3 else 6)):
            k = rng.choice(pool)
            q = rng.random()
            if q < 0.6:
                ops.append([rng.choice(["set", "setitem"]), k.hex(), rng.choice(vals).hex()])
            else:
                ops.append([rng.choice(["del", "delitem"]), k.hex()])
        if rng.random() < 0.3:
            ops += [["del", k.hex()] for k in pool]     # clear everything
        yield {"ks": ks, "default": default.hex(), "ops": ops, "pool": [k.hex() for k in pool]}


def merkle_root(depth, default, model):
    dh = [keccak(default)]
    for _ in range(depth):
        dh.append(keccak(dh[-1] + dh[-1]))

    def rec(d, items):          # d = remaining depth, items: {suffix bits (int, d bits): value}
        if not items:
            return dh[d]
        if d == 0:
            return keccak(items[0])
        half = 1 << (d - 1)
        left = {k: v for k, v in items.items() if k < half}
        right = {k - half: v for k, v in items.items() if k >= half}
        return keccak(rec(d - 1, left) + rec(d - 1, right))

    return rec(depth, {int.from_bytes(k, "big"): v for k, v in model.items()})


def run_case(case):
    res = common.CaseResult()
    ks, default = case["ks"], bytes.fromhex(case["default"])
    depth = 8 * ks
    # arguments equal to the constructor's defaults (key_size=32, default=b"") are left out, as callers do
    smt = SparseMerkleTree(**dict(([("key_size", ks)] if ks != 32 else []) + ([("default", default)] if default != b"" else [])))
    res.emit("smt.reset", "ok")
    res.emit("smt.new %d %s" % (ks, hx(default)), "0")
    initial_root = smt.root_hash
    res.emit("smt.root 0", hx(initial_root))
    model = {}
    pool = [bytes.fromhex(k) for k in case["pool"]]
    maxkeys = 0
    small = ks <= 2

    def observe():
        res.emit("smt.root 0", hx(smt.root_hash))
        want = merkle_root(depth, default, model)
        if smt.root_hash != want:
            res.fail("root-not-merkle-root", "root %s, Merkle root of the full tree with contents %r is %s"
                     % (common.hx(smt.root_hash)[:16], sorted(model.items()), want.hex()[:16]))
        if not model and smt.root_hash != initial_root:
            res.fail("cleared-root-not-initial", "everything is cleared but the root differs from the initial root")
        # from_db's key_size defaults to 32 and the constructor's defaults are key_size=32, default=b"": leave out what
        # equals the default, as callers do
        kw = {}
        if ks != 32:
            kw["key_size"] = ks
        if default != b"":
            kw["default"] = default
        try:
            clone = SparseMerkleTree.from_db(smt.db, smt.root_hash, **kw)
        except Exception as e:  # noqa
            res.fail("from-db-differs", "from_db(db, root%s) raised %r" % ("".join(", %s=..." % a for a in kw), e))
            clone = smt
        for k in pool:
            wantv = model.get(k, default)
            try:
                v = smt.get(k)
                out = "v " + hx(v)
            except KeyError:
                v, out = None, "exn KeyError"
            except Exception as e:  # noqa
                v, out = False, "exn " + common.exc_name(e)
                res.fail("get-raised", "get(%r) raised %r" % (k, e))
            res.emit("smt.get 0 %s" % hx(k), out)
            if v is not False:
                if (wantv == b"" and v is not None) or (wantv != b"" and v != wantv):
                    res.fail("wrong-value", "get(%r) = %r, last written %r (default %r)" % (k, v, model.get(k), default))
                # the subscript form is the same read
                try:
                    sv = smt[k]
                except KeyError:
                    sv = None
                except Exception as e:  # noqa
                    sv = e
                if sv != v:
                    res.fail("wrong-value", "tree[%r] = %r but get(%r) = %r" % (k, sv, k, v))
                e1, e2 = smt.exists(k), (k in smt)
                res.emit("smt.exists 0 %s" % hx(k), str(e1))
                if e1 != (wantv != b"") or e2 != e1:
                    res.fail("exists-wrong", "exists(%r) = %r/%r, value %r" % (k, e1, e2, wantv))
                try:
                    cv = clone.get(k)
                except KeyError:
                    cv = None
                if cv != v:
                    res.fail("from-db-differs", "from_db(...).get(%r) = %r, the tree gives %r" % (k, cv, v))
            try:
                br = smt.branch(k)
                out = ",".join(h.hex() for h in br)
            except KeyError:
                br, out = None, "exn KeyError"
            res.emit("smt.branch 0 %s" % hx(k), out)
            if br is not None:
                cr = calc_root(k, wantv, br)
                res.emit("smt.calcroot %s %s %s" % (hx(k), hx(wantv), out), hx(cr))
                if cr != smt.root_hash:
                    res.fail("branch-does-not-verify", "calc_root(%r, value, branch) != root_hash" % (k,))
                if len(br) != depth:
                    res.fail("branch-length", "branch(%r) has %d entries for depth %d" % (k, len(br), depth))
            elif wantv != b"":
                res.fail("branch-missing", "branch(%r) raised KeyError for a readable key" % (k,))
        if small:
            res.emit("smt.db 0", ",".join("%s:%s" % (a.hex(), hx(b)) for a, b in sorted(smt.db.items())))
        else:
            res.emit("smt.dbsize 0", str(len(smt.db)))

    observe()
    reopen = common.mk_rng(len(case["ops"]), case["default"], "reopen")
    work = list(case["ops"])
    versions = [(smt.root_hash, dict(model))]
    last_key = None
    while work:
        op = work.pop(0)
        if last_key is not None and len(versions) > 2 and reopen.random() < 0.12:
            # `tree.root_hash = earlier_root` on the live object (the attribute is public; the hexary and binary tries are
            # used that way too), then a write of the key written last — whatever the object remembers from the abandoned
            # history must not leak into the new one (seeded change C14n-set-reuses-branch-of-last-write)
            r0, m0 = versions[reopen.randrange(len(versions) - 1)]
            smt.root_hash = r0
            model.clear()
            model.update(m0)
            res.emit("smt.setroot 0 %s" % hx(r0), "ok")
            res.tags.add("root_hash-assigned-on-live-object")
            observe()
            work.insert(0, op)
            op = ["set", last_key.hex(), (bytes([reopen.randrange(1, 256)]) * 3).hex()]
        if reopen.random() < 0.3:
            # continue through a handle re-opened with from_db over the same database and root: it must behave
            # identically (seeded change C14-from-db-drops-default was invisible while only reads went through it)
            smt = SparseMerkleTree.from_db(smt.db, smt.root_hash, key_size=ks, default=default)
            res.tags.add("reopened-with-from_db")
        kind, k = op[0], bytes.fromhex(op[1])
        v = bytes.fromhex(op[2]) if len(op) > 2 else default
        try:
            if kind == "set":
                ret = smt.set(_sub(k, len(v)), _sub(v, len(k)))
            elif kind == "setitem":
                smt[k] = v
                ret = None
            elif kind == "del":
                ret = smt.delete(_sub(k, 0 if k[:1] < b'\x80' else 1))
            else:
                del smt[k]
                ret = None
            out = "ok"
        except Exception as e:  # noqa
            ret, out = None, "exn " + common.exc_name(e)
            res.fail("write-raised", "%r raised %r" % (op, e))
        res.tags.add(kind)
        if out == "ok":
            if v == default:
                model.pop(k, None)
            else:
                model[k] = v
            # the hashes of the updated path, root to leaf (recomputed by walking the database)
            path = []
            node_hash = smt.root_hash
            n = int.from_bytes(k, "big")
            for i in range(depth):
                node = smt.db[node_hash]
                node_hash = node[32:] if (n >> (depth - 1 - i)) & 1 else node[:32]
                path.append(node_hash)
            line = ("smt.set 0 %s %s" % (hx(k), hx(v))) if kind in ("set", "setitem") else ("smt.del 0 %s" % hx(k))
            res.emit(line, ",".join(h.hex() for h in (ret if ret is not None else path)))
            if ret is not None and list(ret) != path:
                res.fail("returned-hashes-wrong", "%s returned hashes that are not the updated path hashes root-to-leaf" % kind)
        observe()
        if out == "ok":
            last_key = k
            versions.append((smt.root_hash, dict(model)))
        maxkeys = max(maxkeys, len(model))
    res.tags.add("ks:%d" % (ks if ks in (1, 2, 3, 32) else 0))
    res.tags.add("default:" + ("blank" if not default else "nonblank"))
    res.nontrivial = maxkeys >= 2
    res.state_key = common.sha([ks, case["default"], sorted((k.hex(), v.hex()) for k, v in model.items())])
    return res
