"""C18 — invalid arguments are rejected up front and change nothing."""
import inspect
import common
from common import hx

common.import_repo()
from trie import HexaryTrie  # noqa: E402
from trie.binary import BinaryTrie  # noqa: E402
from trie.branches import check_if_branch_exist, get_branch, if_branch_valid, get_witness_for_key_prefix  # noqa: E402
from trie.smt import SparseMerkleTree, SparseMerkleProof, calc_root  # noqa: E402
from trie.fog import HexaryTrieFog  # noqa: E402
from trie.typing import Nibbles  # noqa: E402

ID = "C18"
LEAN_IMPORTS = ["PyTrie.Props.C18"]
THEOREMS = [
    "PyTrie.Props.C18.refused_call_changes_nothing",
    "PyTrie.Props.C18.history_unaffected",
    "PyTrie.Props.C18.nonbytes_first_arg_refused",
    "PyTrie.Props.C18.nonbytes_value_refused",
    "PyTrie.Props.C18.wrong_length_key_refused",
    "PyTrie.Props.C18.from_db_root_length",
    "PyTrie.Props.C18.wrong_branch_length_refused",
    "PyTrie.Props.C18.key_size_refused",
    "PyTrie.Props.C18.snapshot_of_pruning_refused",
    "PyTrie.Props.C18.refcount_for_nonpruning_refused",
    "PyTrie.Props.C18.nibbles_not_sequence",
    "PyTrie.Props.C18.nibbles_bad_element",
    "PyTrie.Props.C18.nibble_entry_points",
    "PyTrie.Props.C18.explore_bad_prefix",
]
RULE = ("the table {public entry point} x {argument position} x {kind of bad value: str, int, None, list, dict, bytearray / memoryview (also of the right length), bytes of the wrong "
        "length, non-sequence / bytes / str where nibbles are expected, out-of-range / non-int nibbles, key size outside 1..32, "
        "snapshot of a pruning trie, reference count for a non-pruning trie} applied at random points of random histories of "
        "HexaryTrie (prune on/off), BinaryTrie (+ branch helpers), SparseMerkleTree, SparseMerkleProof and HexaryTrieFog; the "
        "exception class of every call is compared with the Lean validation model; oracle: the documented class "
        "(ValidationError / ValueError / TypeError), root hash, database, reference counts, proof and fog contents unchanged by "
        "the refusal, and the remainder of the history run on the object and on a twin that never saw the bad calls gives "
        "identical roots, databases and lookups; control calls with valid arguments must not be refused; "
        "non-trivial = at least 3 refusals in a history with at least 2 effective writes; distinct = distinct (structure, calls)")
ASSUMPTIONS = ["entry points that do not validate an argument are not in the table (e.g. BinaryTrie/branch helpers take a root hash "
               "of any length; HexaryTrie does not validate nibble paths beyond Nibbles())"]
BUDGET_S = {"quick": 60, "thorough": 600}

# bytearray / memoryview: bytes-like but not byte strings (mutable buffers; the code demands `bytes`) - also at exactly the
# length a key or hash must have, so that only the type can be the reason for the refusal
BAD_BYTES = [("S", "abc"), ("I5", 5), ("N", None), ("LI1;I2", [1, 2]), ("D", {}),
             ("Y", bytearray(b"\x12\x01")), ("Y", bytearray(b"\x07" * 32)), ("Y", bytearray(b"\x12")),
             ("Y", memoryview(b"\x12\x01"))]
BAD_NIBBLES_TYPE = [("B01", b"\x01"), ("S", "12"), ("I3", 3), ("N", None), ("D", {})]
BAD_NIBBLES_VALUE = [("LI16", [16]), ("LI-1", [-1]), ("LS", ["F"]), ("LN", [None]), ("LI1;I300", [1, 300])]


def tok(v):
    if isinstance(v, bytes):
        return "B" + hx(v)
    if isinstance(v, (bytearray, memoryview)):
        return "Y" + hx(bytes(v))
    if isinstance(v, str):
        return "S"
    if v is None:
        return "N"
    if isinstance(v, dict):
        return "D"
    if isinstance(v, bool):
        raise ValueError
    if isinstance(v, int):
        return "I%d" % v
    if isinstance(v, (list, tuple)):
        def inner(x):
            if isinstance(x, (list, tuple)):
                return "M" + ".".join(tok(y) for y in x)
            return tok(x)
        return "L" + ";".join(inner(x) for x in v)
    raise ValueError(v)


def gen_cases(rng, tier):
    n = 1200 if tier == "quick" else 20000
    for i in range(n):
        yield {"struct": rng.choice(["hex", "hex", "hexprune", "bin", "smt", "proof", "fog"]), "seed": rng.randrange(1 << 30)}


def classify(fn, foreign_ok=False):
    try:
        fn()
        return "ok"
    except Exception as e:  # noqa
        # fog.py raises eth_utils' ValidationError on the unchanged tree; every other entry point the library's own
        name = common.exc_name(e, allow_foreign=foreign_ok)
        return "exn " + name if name in ("ValidationError", "ValueError", "TypeError") or "@" in name else "ok"


def kwform(method, argvals):
    """The same call with every argument passed by keyword — or None when the tree under test does not accept that form
    (the binding is tried against the callable as it is, wrappers included: `HexaryTrie.set` is wrapped by a `*args`-only
    decorator on the unchanged tree, so `set(key=..., value=...)` is a binding error there and is not a refusal to judge)."""
    try:
        names = list(inspect.signature(method).parameters)
        if len(names) < len(argvals):
            return None
        kwargs = dict(zip(names, argvals))
        inspect.signature(method, follow_wrapped=False).bind(**kwargs)
    except (TypeError, ValueError):
        return None
    return lambda: method(**kwargs)


def run_case(case):
    res = common.CaseResult()
    rng = common.mk_rng(case["seed"], "c18")
    st = case["struct"]
    refusals = 0
    writes = 0

    def bad(ep, ctx, args, fn, want, state_fn=None, kw=None):
        """perform a call that must be refused; compare class with the model; check that nothing changed.
        kw = (callable, argument values): the call is ALSO made with every argument passed by keyword, when the tree under
        test accepts that form at all (seeded change C18m-keyword-arguments-bypass-validation)"""
        nonlocal refusals
        if kw is not None and want != "TypeError":
            f2 = kwform(*kw)
            if f2 is not None:
                res.tags.add("keyword-form:" + ep)
                bad(ep, ctx, args, f2, want, state_fn)
        before = state_fn() if state_fn else None
        out = classify(fn, foreign_ok=ep.startswith("fog."))
        res.emit("val.check %s %d %s" % (ep, ctx, " ".join(tok(a) for a in args)), out)
        if out != "exn " + want:
            res.fail("wrong-or-no-refusal", "%s(%s) -> %s, expected %s" % (ep, ", ".join(repr(a)[:40] for a in args), out, want))
        else:
            refusals += 1
        if state_fn and state_fn() != before:
            res.fail("refusal-changed-state", "%s(%s) was refused (%s) but changed the state" % (ep, ", ".join(repr(a)[:40] for a in args), out))
        res.tags.add(ep + ":" + want)

    def good(ep, ctx, args, fn):
        out = classify(fn)
        res.emit("val.check %s %d %s" % (ep, ctx, " ".join(tok(a) for a in args)), out)
        if out != "ok":
            res.fail("valid-call-refused", "%s(%s) -> %s" % (ep, ", ".join(repr(a)[:40] for a in args), out))

    if st in ("hex", "hexprune"):
        prune = st == "hexprune"
        t = HexaryTrie({}, prune=prune)
        twin = HexaryTrie({}, prune=prune)
        keys = [bytes([rng.choice([0x12, 0x13, 0x00, 0xff]), rng.randrange(4)]) for _ in range(5)] + [b""]

        def state():
            return (t.root_hash, dict(t.db), dict(t.ref_count) if prune else None, t._pending_prune_keys)

        for _ in range(rng.randint(3, 10)):
            k, v = rng.choice(keys), bytes([rng.randrange(256)]) * rng.choice([1, 33])
            if rng.random() < 0.7:
                t.set(k, v)
                twin.set(k, v)
            else:
                t.delete(k)
                twin.delete(k)
            writes += 1
            for _ in range(rng.randint(0, 2)):
                tg, b = rng.choice(BAD_BYTES)
                which = rng.randrange(12)
                if which == 0:
                    bad("hx.get", 0, [b], lambda: t.get(b), "ValidationError", state, kw=(t.get, [b]))
                elif which == 1:
                    bad("hx.exists", 0, [b], lambda: t.exists(b), "ValidationError", state, kw=(t.exists, [b]))
                elif which == 2:
                    bad("hx.contains", 0, [b], lambda: b in t, "ValidationError", state)
                elif which == 3:
                    bad("hx.set", 0, [b, b"v"], lambda: t.set(b, b"v"), "ValidationError", state, kw=(t.set, [b, b"v"]))
                elif which == 4:
                    bad("hx.set", 0, [k, b], lambda: t.set(k, b), "ValidationError", state, kw=(t.set, [k, b]))
                elif which == 5:
                    bad("hx.setitem", 0, [k, b], lambda: t.__setitem__(k, b), "ValidationError", state)
                elif which == 6:
                    bad("hx.delete", 0, [b], lambda: t.delete(b), "ValidationError", state, kw=(t.delete, [b]))
                elif which == 7:
                    bad("hx.get_proof", 0, [b], lambda: t.get_proof(b), "ValidationError", state, kw=(t.get_proof, [b]))
                elif which == 8:
                    tg2, nb = rng.choice(BAD_NIBBLES_TYPE)
                    bad("hx.traverse", 0, [nb], lambda: t.traverse(nb), "TypeError", state)
                elif which == 9:
                    tg2, nb = rng.choice(BAD_NIBBLES_VALUE)
                    bad("hx.traverse", 0, [nb], lambda: t.traverse(nb), "ValueError", state)
                elif which == 10:
                    tg2, nb = rng.choice(BAD_NIBBLES_VALUE + BAD_NIBBLES_TYPE)
                    root = t.root_node
                    bad("hx.traverse_from", 0, [nb], lambda: t.traverse_from(root, nb),
                        "ValueError" if isinstance(nb, list) else "TypeError", state)
                else:
                    if prune:
                        bad("hx.at_root_pruning", 0, [], lambda: t.at_root(t.root_hash).__enter__(), "ValidationError", state)
                    else:
                        bad("hx.init", 0, [b], lambda: HexaryTrie(t.db, b), "ValidationError", state)
            if rng.random() < 0.2:
                good("hx.get", 0, [k], lambda: t.get(k))
                good("hx.traverse", 0, [[1, 2]], lambda: t.traverse((1, 2)))
        bad("hx.init_refcount_noprune", 0, [], lambda: HexaryTrie({}, prune=False, ref_count={}), "ValueError")
        tg, b = rng.choice(BAD_BYTES)
        bad("hx.get_from_proof", 0, [b, b"k"], lambda: HexaryTrie.get_from_proof(b, b"k", []), "ValidationError")
        bad("hx.get_from_proof", 0, [t.root_hash, b], lambda: HexaryTrie.get_from_proof(t.root_hash, b, t.get_proof(b"\x12")), "ValidationError")
        if (t.root_hash, dict(t.db)) != (twin.root_hash, dict(twin.db)) or (prune and dict(t.ref_count) != dict(twin.ref_count)):
            res.fail("history-diverged", "after the refused calls the trie differs from a twin that never saw them")
        for k in keys:
            if t.get(k) != twin.get(k):
                res.fail("history-diverged", "get(%r) differs from the twin" % (k,))
    elif st == "bin":
        db, tdb = {}, {}
        t, twin = BinaryTrie(db), BinaryTrie(tdb)
        keys = [bytes([rng.choice([0x12, 0x13, 0x92]), rng.randrange(3)]) for _ in range(5)]

        def state():
            return (t.root_hash, dict(db))

        for _ in range(rng.randint(3, 10)):
            k, v = rng.choice(keys), bytes([rng.randrange(256)]) * rng.choice([1, 5])
            if rng.random() < 0.7:
                t.set(k, v)
                twin.set(k, v)
            else:
                t.delete(k)
                twin.delete(k)
            writes += 1
            for _ in range(rng.randint(0, 2)):
                tg, b = rng.choice(BAD_BYTES)
                which = rng.randrange(10)
                if which == 0:
                    bad("bin.get", 0, [b], lambda: t.get(b), "ValidationError", state, kw=(t.get, [b]))
                elif which == 1:
                    bad("bin.set", 0, [b, b"v"], lambda: t.set(b, b"v"), "ValidationError", state, kw=(t.set, [b, b"v"]))
                elif which == 2:
                    bad("bin.set", 0, [k, b], lambda: t.set(k, b), "ValidationError", state, kw=(t.set, [k, b]))
                elif which == 3:
                    bad("bin.exists", 0, [b], lambda: t.exists(b), "ValidationError", state, kw=(t.exists, [b]))
                elif which == 4:
                    bad("bin.delete", 0, [b], lambda: t.delete(b), "ValidationError", state, kw=(t.delete, [b]))
                elif which == 5:
                    bad("bin.delete_subtrie", 0, [b], lambda: t.delete_subtrie(b), "ValidationError", state, kw=(t.delete_subtrie, [b]))
                elif which == 6:
                    bad("br.exist", 0, [b], lambda: check_if_branch_exist(db, t.root_hash, b), "ValidationError", state, kw=(check_if_branch_exist, [db, t.root_hash, b]))
                elif which == 7:
                    bad("br.get_branch", 0, [b], lambda: get_branch(db, t.root_hash, b), "ValidationError", state, kw=(get_branch, [db, t.root_hash, b]))
                elif which == 8:
                    bad("br.witness", 0, [b], lambda: get_witness_for_key_prefix(db, t.root_hash, b), "ValidationError", state, kw=(get_witness_for_key_prefix, [db, t.root_hash, b]))
                else:
                    bad("bin.init", 0, [b], lambda: BinaryTrie(db, b), "ValidationError", state)
            if rng.random() < 0.2 and t.root_hash != BinaryTrie({}).root_hash:
                br = get_branch(db, t.root_hash, k) if t.exists(k) else None
                if br:
                    tg, b = rng.choice(BAD_BYTES)
                    bad("br.valid", 0, [b], lambda: if_branch_valid(br, t.root_hash, b, b"v"), "ValidationError", state)
                good("bin.get", 0, [k], lambda: t.get(k))
        if (t.root_hash, db) != (twin.root_hash, tdb):
            res.fail("history-diverged", "after the refused calls the binary trie differs from its twin")
    elif st in ("smt", "proof"):
        ks = rng.choice([1, 2, 3, 32])
        for tg, b in [("I0", 0), ("I33", 33), ("I-1", -1)]:
            bad("smt.init", 0, [b], lambda: SparseMerkleTree(key_size=b), "ValidationError")
        for tg, b in [("S", "3"), ("N", None)]:
            bad("smt.init", 0, [b], lambda: SparseMerkleTree(key_size=b), "TypeError")
        good("smt.init", 0, [ks], lambda: SparseMerkleTree(key_size=ks))
        t, twin = SparseMerkleTree(key_size=ks), SparseMerkleTree(key_size=ks)
        keys = [bytes(rng.randrange(256) for _ in range(ks)) for _ in range(4)]
        if ks > 1 and rng.random() < 0.5:
            keys[0] = bytes(ks - 1) + bytes([rng.randrange(1, 256)])     # the tracked key has leading zero bytes
        t.set(keys[0], b"first")
        twin.set(keys[0], b"first")
        proof = SparseMerkleProof(keys[0], b"first", t.branch(keys[0]))

        def state():
            return (t.root_hash, dict(t.db), proof.value, tuple(proof.branch))

        # wrong-length keys: all zero, and the tracked key itself with a zero byte prepended / its leading zeros stripped
        # (the same integer, another length)
        wrong_len = [bytes(ks - 1), bytes(ks + 1), b"\x00" + keys[0]] + \
                    ([keys[0].lstrip(b"\x00")] if len(keys[0].lstrip(b"\x00")) != ks else [])
        for _ in range(rng.randint(3, 8)):
            k, v = rng.choice(keys), bytes([rng.randrange(256)]) * rng.choice([1, 5])
            ups = t.set(k, v)
            twin.set(k, v)
            proof.update(k, v, ups)
            writes += 1
            for _ in range(rng.randint(0, 3)):
                tg, b = rng.choice(BAD_BYTES)
                wl = rng.choice(wrong_len)
                which = rng.randrange(14)
                if which == 0:
                    bad("smt.get", ks, [b], lambda: t.get(b), "ValidationError", state, kw=(t.get, [b]))
                elif which == 1:
                    bad("smt.get", ks, [wl], lambda: t.get(wl), "ValidationError", state, kw=(t.get, [wl]))
                elif which == 2:
                    bad("smt.set", ks, [b, b"v"], lambda: t.set(b, b"v"), "ValidationError", state, kw=(t.set, [b, b"v"]))
                elif which == 3:
                    bad("smt.set", ks, [wl, b"v"], lambda: t.set(wl, b"v"), "ValidationError", state, kw=(t.set, [wl, b"v"]))
                elif which == 4:
                    bad("smt.set", ks, [k, b], lambda: t.set(k, b), "ValidationError", state, kw=(t.set, [k, b]))
                elif which == 5:
                    bad("smt.exists", ks, [wl], lambda: t.exists(wl), "ValidationError", state, kw=(t.exists, [wl]))
                elif which == 6:
                    bad("smt.delete", ks, [b], lambda: t.delete(b), "ValidationError", state, kw=(t.delete, [b]))
                elif which == 7:
                    bad("smt.branch", ks, [wl], lambda: t.branch(wl), "ValidationError", state, kw=(t.branch, [wl]))
                elif which == 8:
                    bad("smt.from_db", ks, [b], lambda: SparseMerkleTree.from_db(t.db, b, key_size=ks), "ValidationError", state)
                elif which == 9:
                    h31 = bytes(31)
                    bad("smt.from_db", ks, [h31], lambda: SparseMerkleTree.from_db(t.db, h31, key_size=ks), "ValidationError", state)
                elif which == 10:
                    br = list(t.branch(keys[0]))
                    short = br[:-1]
                    bad("smt.calc_root", ks, [keys[0], b"v", short], lambda: calc_root(keys[0], b"v", short), "ValidationError", state, kw=(calc_root, [keys[0], b"v", short]))
                    bad("smt.calc_root", ks, [b, b"v", br], lambda: calc_root(b, b"v", br), "ValidationError", state, kw=(calc_root, [b, b"v", br]))
                    bad("smt.calc_root", ks, [keys[0], b, br], lambda: calc_root(keys[0], b, br), "ValidationError", state, kw=(calc_root, [keys[0], b, br]))
                elif which == 11:
                    br = list(t.branch(keys[0]))
                    bad("smt.proof_init", ks, [keys[0], b, br], lambda: SparseMerkleProof(keys[0], b, br), "ValidationError", state)
                    # an ill-typed key with a branch of the length its own len() would demand (when it has one): only the
                    # type check can refuse it
                    try:
                        brb = (br * 9)[:len(b) * 8]
                    except TypeError:
                        brb = br
                    bad("smt.proof_init", ks, [b, b"v", brb], lambda: SparseMerkleProof(b, b"v", brb), "ValidationError", state)
                    bad("smt.proof_init", ks, [keys[0], b"v", br + br[:1]], lambda: SparseMerkleProof(keys[0], b"v", br + br[:1]), "ValidationError", state)
                elif which == 12:
                    bad("smt.proof_update", ks, [b], lambda: proof.update(b, b"v", ups), "ValidationError", state, kw=(proof.update, [b, b"v", ups]))
                else:
                    bad("smt.proof_update", ks, [wl], lambda: proof.update(wl, b"v", ups), "ValidationError", state, kw=(proof.update, [wl, b"v", ups]))
            if rng.random() < 0.3:
                good("smt.get", ks, [k], lambda: t.get(k))
        if (t.root_hash, t.db) != (twin.root_hash, twin.db):
            res.fail("history-diverged", "after the refused calls the tree differs from its twin")
        if proof.root_hash != t.root_hash:
            res.fail("history-diverged", "the proof went out of sync although the refused calls should have changed nothing")
    else:
        fog = HexaryTrieFog()
        twin = HexaryTrieFog()

        def state():
            return list(fog._unexplored_prefixes)

        for _ in range(rng.randint(2, 6)):
            p = rng.choice(list(fog._unexplored_prefixes) or [()])
            if p not in fog._unexplored_prefixes:
                break
            subs = [(x,) for x in sorted(rng.sample(range(16), rng.randint(0, 3)))]
            fog = fog.explore(p, subs)
            twin = twin.explore(p, subs)
            writes += 1
            first = list(fog._unexplored_prefixes)[:1]
            for _ in range(rng.randint(0, 3)):
                tgt, nt = rng.choice(BAD_NIBBLES_TYPE)
                tgv, nv = rng.choice(BAD_NIBBLES_VALUE)
                which = rng.randrange(9)
                if which == 0:
                    bad("fog.explore", 0, [nt, []], lambda: fog.explore(nt, ()), "TypeError", state)
                elif which == 1:
                    bad("fog.explore", 0, [nv, []], lambda: fog.explore(nv, ()), "ValueError", state)
                elif which == 2 and first:
                    bad("fog.explore", 0, [list(first[0]), [[1], nv]], lambda: fog.explore(first[0], [(1,), nv]), "ValueError", state)
                elif which == 3 and first:
                    bad("fog.explore", 0, [list(first[0]), 5], lambda: fog.explore(first[0], 5), "TypeError", state)
                elif which == 4:
                    bad("fog.nearest_unknown", 0, [nt], lambda: fog.nearest_unknown(nt), "TypeError", state)
                elif which == 5:
                    bad("fog.nearest_right", 0, [nv], lambda: fog.nearest_right(nv), "ValueError", state)
                elif which == 6:
                    bad("fog.mark_all_complete", 0, [[nv]], lambda: fog.mark_all_complete([nv]), "ValueError", state)
                    if first:
                        # a valid unexplored prefix before the malformed one: the refusal must not have consumed it
                        # (seeded change C18-mark-all-complete-aliases was invisible with a lone malformed prefix)
                        bad("fog.mark_all_complete", 0, [[list(first[0]), nv]], lambda: fog.mark_all_complete([first[0], nv]),
                            "ValueError", state)
                        bad("fog.mark_all_complete", 0, [[list(first[0]), nt]], lambda: fog.mark_all_complete([first[0], nt]),
                            "TypeError", state)
                elif which == 7:
                    bad("nibbles.new", 0, [nt], lambda: Nibbles(nt), "TypeError")
                    bad("nibbles.new", 0, [nv], lambda: Nibbles(nv), "ValueError")
                    # the other way a Nibbles value comes into being: concatenation onto one the library handed out
                    bad("nibbles.new", 0, [[1, 2] + list(nv)], lambda: Nibbles((1, 2)) + tuple(nv), "ValueError")
                    handed = fog.nearest_unknown(()) if not fog.is_complete else Nibbles(())
                    bad("nibbles.new", 0, [list(handed) + list(nv)], lambda: handed + tuple(nv), "ValueError", state)
                else:
                    good("nibbles.new", 0, [[0, 15, 7]], lambda: Nibbles((0, 15, 7)))
                    good("fog.nearest_unknown", 0, [[1]], lambda: fog.nearest_unknown((1,)) if not fog.is_complete else None)
        if fog != twin:
            res.fail("history-diverged", "after the refused calls the fog differs from its twin")
    res.tags.add("struct:" + st)
    res.nontrivial = refusals >= 3 and writes >= 2
    res.state_key = common.sha([st, [l for l, _ in res.steps]])
    return res
