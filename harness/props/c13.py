"""C13 — binary-trie branches and witnesses are sufficient, exact and unforgeable."""
import common
from common import hx

common.import_repo()
from trie.binary import BinaryTrie  # noqa: E402
from trie.branches import (check_if_branch_exist, get_branch, if_branch_valid, get_trie_nodes,  # noqa: E402
                           get_witness_for_key_prefix)
from trie.exceptions import InvalidKeyError, InvalidNode, NodeOverrideError  # noqa: E402
from eth_utils import ValidationError  # noqa: E402
from eth_hash.auto import keccak  # noqa: E402
import props.c12 as c12  # noqa: E402

ID = "C13"
LEAN_IMPORTS = ["PyTrie.Props.C13", "PyTrie.Props.NonVacuity", "PyTrie.Props.NonVacuity2", "PyTrie.Props.C13History", "PyTrie.Props.NonVacuity16"]
THEOREMS = [
    "PyTrie.Props.C13.branch_refusal",
    "PyTrie.Props.C13.branch_refusal_iff",
    "PyTrie.Props.C13.branch_nodes",
    "PyTrie.Props.C13.branch_valid",
    "PyTrie.Props.C13.branch_sound",
    "PyTrie.Props.C13.exist_iff",
    "PyTrie.Props.C13.trie_nodes_exact",
    "PyTrie.Props.C13.witness_members",
    "PyTrie.Props.C13.witness_refusal",
    "PyTrie.Props.C13.witness_sufficient",
    "PyTrie.Props.C13.reachable_canonical",
    "PyTrie.Bin.bgetD_of_path",
    "PyTrie.Bin.bgetD_sound",
    "PyTrie.Bin.parseNode_encNode",
    "PyTrie.Props.NonVacuity.branch_valid_witness",
    "PyTrie.Props.NonVacuity.branch_sound_witness",
    "PyTrie.Props.NonVacuity.bt_nc",
    "PyTrie.Props.NonVacuity.bforged_nc",
    "PyTrie.Props.C13.raw_exists",
    "PyTrie.Props.C13.raw_get_branch",
    "PyTrie.Props.C13.raw_trie_nodes",
    "PyTrie.Props.C13.raw_witness",
    "PyTrie.Props.C13.raw_blank",
    "PyTrie.Props.NonVacuity2.c13_raw_exists",
    "PyTrie.Props.NonVacuity2.c13_raw_get_branch",
    "PyTrie.Props.NonVacuity2.c13_raw_trie_nodes",
    "PyTrie.Props.NonVacuity2.c13_raw_witness",
    "PyTrie.Props.C13.history_base",
    "PyTrie.Props.C13.history_exists",
    "PyTrie.Props.C13.history_branch",
    "PyTrie.Props.C13.history_branch_sound",
    "PyTrie.Props.C13.history_nodes_and_witness",
    "PyTrie.Props.NonVacuity16.acct_allStored",
    "PyTrie.Props.NonVacuity16.value_is_a_stored_hash",
    "PyTrie.Props.NonVacuity16.trie_nodes_do_not_follow_values",
    "PyTrie.Props.NonVacuity16.witness_does_not_follow_values",
]
RULE = ("binary tries built by generated histories over fixed-length and prefix-related key pools; for every pool key, its "
        "byte prefixes, extensions and bit-neighbours: get_branch (node list or InvalidKeyError), if_branch_valid on the honest "
        "branch with the true answer and with wrong answers, and on corrupted branches (each node dropped, a byte flipped in a "
        "node, duplicated, reversed, the branch of another key, nodes of another trie, a foreign root), check_if_branch_exist, "
        "get_trie_nodes and get_witness_for_key_prefix (list or InvalidKeyError) are compared with the Lean model (tree functions "
        "and the Layer-D reader over the offered nodes); oracle: refusal only for unstored keys related to a stored key, honest "
        "branch validates the trie's answer, no corrupted branch validates an answer the trie does not give, existence = some "
        "stored key starts with the prefix, trie nodes = independently walked reachable set, witness nodes all belong to the "
        "trie and answer get(k) for every probe key under the prefix; non-trivial = at least 2 keys; distinct = distinct contents")
ASSUMPTIONS = ["Compatible: no hash is bound to two different bodies among the trie's nodes and the offered nodes",
               "keys are non-empty byte strings"]
BUDGET_S = {"quick": 90, "thorough": 780}


def gen_cases(rng, tier):
    n = 500 if tier == "quick" else 9000
    for i in range(n):
        r = rng.random()
        if r < 0.6:
            pool = rng.choice(c12.POOLS)
        elif r < 0.8:
            L = rng.choice([1, 2, 4, 32])
            pool = [bytes(rng.choice([0, 0xff, 0x80, 0x01, rng.randrange(256)]) for _ in range(L)) for _ in range(rng.randint(2, 7))]
        else:
            base = bytes(rng.randrange(256) for _ in range(rng.randint(1, 3)))
            pool = [base[:rng.randint(1, len(base))] + bytes(rng.choice([0, 0xff, rng.randrange(256)]) for _ in range(rng.randint(0, 2)))
                    for _ in range(rng.randint(2, 7))]
        vals = [b"v", b"w" * 5, bytes(rng.randrange(256) for _ in range(rng.randint(1, 40)))]
        ops = []
        for _ in range(rng.randint(1, 12)):
            k = rng.choice(pool)
            ops.append(["set", k.hex(), rng.choice(vals).hex()] if rng.random() < 0.8 else ["del", k.hex()])
        yield {"ops": ops, "fseed": rng.randrange(1 << 30)}


def nodes_txt(nodes):
    return ",".join(n.hex() for n in nodes) if nodes else "-"


def reachable(db, root):
    """independent walk: all nodes reachable from root, pre-order"""
    if root == c12.BLANK or root not in db:
        return []
    n = db[root]
    if n[0] == 2:
        return [n]
    if n[0] == 0:
        return [n] + reachable(db, n[-32:])
    return [n] + reachable(db, n[1:33]) + reachable(db, n[33:65])


class OverlayDb(dict):
    """a copy-on-write database: a dict subclass that serves part of the nodes by delegation to an earlier store"""

    def __init__(self, parent):
        super().__init__()
        self.parent = parent

    def __missing__(self, key):
        return self.parent[key]

    def __contains__(self, key):
        return dict.__contains__(self, key) or key in self.parent


def overlay_db_agrees(res, db, root, probes):
    """the four readers over a dict-subclass database holding half of the nodes itself and delegating the rest: same results"""
    keys = sorted(db)
    ov = OverlayDb({k: db[k] for k in keys[::2]})
    for k in keys[1::2]:
        ov[k] = db[k]

    def call(fn, d, *a):
        try:
            r = fn(d, *a)
            return str(r) if isinstance(r, bool) else nodes_txt(list(r))
        except Exception as e:  # noqa
            return "exn " + common.exc_name(e)
    for name, fn, args in [("get_trie_nodes", get_trie_nodes, [(root,)])] + \
            [(n, f, [(root, k) for k in probes[:6]]) for n, f in (("get_branch", get_branch), ("check_if_branch_exist", check_if_branch_exist),
                                                                  ("get_witness_for_key_prefix", get_witness_for_key_prefix))]:
        for a in args:
            plain, over = call(fn, db, *a), call(fn, ov, *a)
            if plain != over:
                res.fail("overlay-db-differs", "%s%r over a copy-on-write dict subclass holding the same nodes gives %s, over the plain dict %s"
                         % (name, a[1:], over[:120], plain[:120]))
    res.tags.add("overlay-db")


def raw_level_partial(res, db, root, probes, rng):
    """the four readers of branches.py on a database with one node missing, and on an older root: compared with the
    raw-level transcription (Model/BranchRaw.lean) which reads the same database"""
    def call(fn, *a):
        try:
            r = fn(*a)
            return str(r) if isinstance(r, bool) else nodes_txt(list(r))
        except InvalidKeyError:
            return "exn InvalidKeyError"
        except KeyError:
            return "exn KeyError"
        except Exception as e:  # noqa
            return "exn " + common.exc_name(e)
    keys = sorted(db.keys())
    if not keys:
        return
    victim = keys[rng.randrange(len(keys))]
    body = db[victim]
    roots = [root] + [h for h in keys if h != root][:1]
    del db[victim]
    res.emit("bin.dbdel %s" % hx(victim), "ok")
    try:
        for rt in roots:
            res.emit("bin.rnodes %s" % hx(rt), call(get_trie_nodes, db, rt))
            for k in probes[:5]:
                res.emit("bin.rbranch %s %s" % (hx(rt), hx(k)), call(get_branch, db, rt, k))
                res.emit("bin.rexists %s %s" % (hx(rt), hx(k)), call(check_if_branch_exist, db, rt, k))
                res.emit("bin.rwitness %s %s" % (hx(rt), hx(k)), call(get_witness_for_key_prefix, db, rt, k))
        res.tags.add("raw:partial-db")
    finally:
        db[victim] = body
        res.emit("bin.dbput %s %s" % (hx(victim), hx(body)), "ok")


def run_case(case):
    res = common.CaseResult()
    db = {}
    t = BinaryTrie(db)
    res.emit("bin.reset", "ok")
    res.emit("bin.new", "0")
    model = {}
    for op in case["ops"]:
        k = bytes.fromhex(op[1])
        v = bytes.fromhex(op[2]) if op[0] == "set" else b""
        try:
            t.set(k, v)
            out = "ok"
            if v:
                model[k] = v
            else:
                model.pop(k, None)
        except NodeOverrideError:
            out = "exn NodeOverrideError"
        res.emit("bin.set 0 %s %s" % (hx(k), hx(v)), out)
    rng = common.mk_rng(case["fseed"], "forge")
    if db and rng.random() < 0.3:
        # a stored VALUE that is byte for byte the hash of a node in the same database (an account trie storing the root of a
        # storage trie that lives in the same db; here: the hash of one of this trie's own nodes, and the root of a second trie
        # written into the same dict). Values are never followed: get_trie_nodes / witnesses must not walk into them
        # (seeded change C13q-trie-nodes-follows-leaf-value-as-hash)
        side = BinaryTrie(db)
        side.set(b"\x55\x01", b"side-one")
        side.set(b"\x55\x02", b"side-two")
        res.emit("bin.new", "1")
        res.emit("bin.set 1 5501 %s" % hx(b"side-one"), "ok")
        res.emit("bin.set 1 5502 %s" % hx(b"side-two"), "ok")
        for k, v in [(b"\x66\x01", side.root_hash), (b"\x66\x02", rng.choice(sorted(db)))]:
            try:
                t.set(k, v)
                out = "ok"
                model[k] = v
            except NodeOverrideError:
                out = "exn NodeOverrideError"
            res.emit("bin.set 0 %s %s" % (hx(k), hx(v)), out)
        res.tags.add("value-equals-hash-of-a-stored-node")
    root = t.root_hash
    # another trie for foreign nodes
    odb = {}
    ot = BinaryTrie(odb)
    for k in list(model)[:3] + [b"\x77\x01"]:
        try:
            ot.set(k, b"other" + k)
        except NodeOverrideError:
            pass
    universe = sorted({bytes.fromhex(op[1]) for op in case["ops"]})
    probes = set(universe)
    for k in universe:
        probes |= {k + b"\x00", k[:-1], k[:-1] + bytes([k[-1] ^ 1]), k[:-1] + bytes([k[-1] ^ 0x80]), k + b"\xff\x00"}
    probes = sorted(p for p in probes if p)
    if len(probes) > 16:
        probes = sorted(set(rng.sample(probes, 10)) | set(universe[:6]))
    allnodes = reachable(db, root)

    def validate(nodes, rt, key, claimed, what, truth):
        try:
            ok = if_branch_valid(common.vary(nodes), rt, key, claimed)
            out = "True" if ok else "False"
        except Exception as e:  # noqa
            name = common.exc_name(e)
            ok, out = False, "exn " + (name if name in ("AssertionError", "KeyError", "InvalidNode", "ValidationError") else "Other")
        res.emit("bin.valid %s %s %s %s" % (hx(rt), hx(key), "None" if claimed is None else hx(claimed), nodes_txt(nodes)), out)
        res.tags.add("valid:%s:%s" % (what, "accepted" if ok else "rejected"))
        if ok and truth != "unknown" and claimed != truth:
            res.fail("forged-branch-validated", "%s: if_branch_valid accepted %r for key %r, the trie holds %r" % (what, claimed, key, truth))
        return ok

    for k in probes:
        truth = model.get(k)
        rel = [s for s in model if c12.related(s, k)]
        try:
            br = list(get_branch(db, root, k))
            out = nodes_txt(br)
        except InvalidKeyError:
            br, out = None, "exn InvalidKeyError"
        except Exception as e:  # noqa
            br, out = None, "exn " + common.exc_name(e)
            res.fail("get-branch-raised", "get_branch(%r) raised %r" % (k, e))
        res.emit("bin.branch 0 %s" % hx(k), out)
        res.emit("bin.rbranch %s %s" % (hx(root), hx(k)), out)
        if br is None:
            if out == "exn InvalidKeyError" and (k in model or not rel):
                res.fail("branch-refused", "get_branch(%r) refused although the key is %s" % (k, "stored" if k in model else "unrelated to stored keys"))
            res.tags.add("branch:refused")
        elif br:
            res.tags.add("branch:" + ("present" if truth is not None else "absent"))
            if not validate(br, root, k, truth, "honest", truth):
                res.fail("honest-branch-rejected", "if_branch_valid(get_branch(%r), root, %r, %r) did not validate" % (k, k, truth))
            validate(br, root, k, b"wrong", "honest-wrong-answer", truth)
            validate(br, root, k, None if truth is not None else b"v", "honest-flipped-answer", truth)
            flipped = None if truth is not None else b"v"
            for i in range(len(br)):
                validate(br[:i] + br[i + 1:], root, k, truth, "truncated", truth)
                # a corrupted branch must not validate the OPPOSITE answer either ("cannot tell" is not "absent":
                # seeded change C13n-valid-missing-node-means-absent)
                validate(br[:i] + br[i + 1:], root, k, flipped, "truncated-flipped-answer", truth)
            i = rng.randrange(len(br))
            nd = bytearray(br[i])
            j = rng.randrange(len(nd))
            nd[j] ^= 1 << rng.randrange(8)
            forged = br[:i] + [bytes(nd)] + br[i + 1:]
            validate(forged, root, k, truth, "altered", truth)
            if br[-1][0] == 2:
                # a forged leaf with another value, claiming that value
                validate(br[:-1] + [b"\x02evil"], root, k, b"evil", "forged-leaf", truth)
                validate(br + [b"\x02evil"], root, k, b"evil", "forged-leaf-added", truth)
            validate(list(reversed(br)) + [br[0]], root, k, truth, "reordered-duplicated", truth)
            k2 = rng.choice(probes)
            try:
                validate(list(get_branch(db, root, k2)) or [b"\x02x"], root, k, truth, "other-key", truth)
                validate(list(get_branch(db, root, k2)) or [b"\x02x"], root, k, flipped, "other-key-flipped-answer", truth)
            except InvalidKeyError:
                pass
            try:
                ob = list(get_branch(odb, ot.root_hash, k)) or [b"\x02x"]
                validate(ob, root, k, truth, "foreign-nodes", truth)
                validate(ob + br, ot.root_hash, k, ot.get(k), "foreign-root", ot.get(k))
            except InvalidKeyError:
                pass
        # existence of a prefix
        for p in {k, k[:1]}:
            e = check_if_branch_exist(db, root, p)
            res.emit("bin.exists 0 %s" % hx(p), str(e))
            res.emit("bin.rexists %s %s" % (hx(root), hx(p)), str(e))
            if e != any(s.startswith(p) for s in model):
                res.fail("branch-exist-wrong", "check_if_branch_exist(%r) = %r on keys %r" % (p, e, sorted(model)))
        # witness
        try:
            wres = get_witness_for_key_prefix(db, root, k)
            w = list(wres)
            if list(wres) != w:
                res.fail("witness-not-reiterable", "the result of get_witness_for_key_prefix(%r) yields %d nodes on a second look, %d on the first"
                         % (k, len(list(wres)), len(w)))
            out = nodes_txt(w)
        except InvalidKeyError:
            w, out = None, "exn InvalidKeyError"
        except Exception as e:  # noqa
            w, out = None, "exn " + common.exc_name(e)
            res.fail("witness-raised", "get_witness_for_key_prefix(%r) raised %r" % (k, e))
        res.emit("bin.witness 0 %s" % hx(k), out)
        res.emit("bin.rwitness %s %s" % (hx(root), hx(k)), out)
        if w is None:
            if out == "exn InvalidKeyError" and not any(k.startswith(s) and s != k for s in model):
                res.fail("witness-refused", "witness for %r refused although the prefix does not run past a stored key" % (k,))
            res.tags.add("witness:refused")
        else:
            res.tags.add("witness:ok")
            extra = [n for n in w if n not in allnodes]
            if extra:
                res.fail("witness-foreign-node", "witness for %r contains %d node(s) that are not nodes of the trie" % (k, len(extra)))
            wdb = {keccak(n): n for n in w}
            for q in [s for s in probes + sorted(model) if s.startswith(k)]:
                try:
                    g = BinaryTrie(wdb, root).get(q)
                    if g != model.get(q):
                        res.fail("witness-wrong-answer", "witness for %r answers get(%r) = %r, the trie holds %r" % (k, q, g, model.get(q)))
                except KeyError:
                    res.fail("witness-insufficient", "witness for %r cannot answer get(%r): a node is missing" % (k, q))
    # the empty prefix: every stored key starts with it — the witness must answer all of them, as a re-iterable collection
    # (seeded change C13n-witness-empty-prefix-one-shot-generator)
    e = check_if_branch_exist(db, root, b"")
    res.emit("bin.exists 0 -", str(e))
    if e != bool(model):
        res.fail("branch-exist-wrong", "check_if_branch_exist(b'') = %r on keys %r" % (e, sorted(model)))
    try:
        wres = get_witness_for_key_prefix(db, root, b"")
        w = list(wres)
        if list(wres) != w:
            res.fail("witness-not-reiterable", "the result of get_witness_for_key_prefix(b'') yields %d nodes on a second look, %d on the first"
                     % (len(list(wres)), len(w)))
        res.emit("bin.witness 0 -", nodes_txt(w))
        res.tags.add("witness:empty-prefix")
        wdb = {keccak(n): n for n in w}
        for q in sorted(model):
            try:
                if BinaryTrie(wdb, root).get(q) != model[q]:
                    res.fail("witness-wrong-answer", "witness for b'' answers get(%r) wrongly" % (q,))
            except KeyError:
                res.fail("witness-insufficient", "witness for b'' cannot answer get(%r): a node is missing" % (q,))
    except Exception as ex:  # noqa
        res.emit("bin.witness 0 -", "exn " + common.exc_name(ex))
        res.fail("witness-raised", "get_witness_for_key_prefix(b'') raised %r" % (ex,))
    tn_res = get_trie_nodes(db, root)
    tn = list(tn_res)
    if list(tn_res) != tn:
        res.fail("witness-not-reiterable", "the result of get_trie_nodes is not re-iterable")
    res.emit("bin.nodes 0", nodes_txt(tn))
    overlay_db_agrees(res, db, root, probes)
    res.emit("bin.rnodes %s" % hx(root), nodes_txt(tn))
    raw_level_partial(res, db, root, probes, rng)
    if tn != allnodes:
        res.fail("trie-nodes-wrong", "get_trie_nodes returns %d nodes, %d are reachable from the root" % (len(tn), len(allnodes)))
    res.nontrivial = len(model) >= 2
    res.state_key = common.sha(sorted((k.hex(), v.hex()) for k, v in model.items()))
    return res
