"""C06 — pruning is exact: the database holds precisely the live nodes, counts are true."""
import itertools

import common
import hexlib
from common import hx
from props.c02 import boundary_values

ID = "C06"
LEAN_IMPORTS = ["PyTrie.Props.C06", "PyTrie.Props.C05Batch", "PyTrie.Props.RawLevel", "PyTrie.Props.NonVacuity", "PyTrie.Props.NonVacuity4", "PyTrie.Props.FreeExec", "PyTrie.Props.HistoryBlocks", "PyTrie.Props.NonVacuity9", "PyTrie.Props.C06Refused", "PyTrie.Props.NonVacuity12", "PyTrie.Props.HistoryRefusedFirst", "PyTrie.Props.HistoryProgress"]
THEOREMS = [
    "PyTrie.Props.C06.setE_tree",
    "PyTrie.Props.C06.deleteE_tree",
    "PyTrie.Props.C06.setE_balance",
    "PyTrie.Props.C06.deleteE_balance",
    "PyTrie.Props.C06.refSound_of_sound",
    "PyTrie.Props.C06.prune_invariant_init",
    "PyTrie.Props.C06.prune_invariant_step",
    "PyTrie.Props.C06.regenerate_is_true_count",
    "PyTrie.Props.C06.keccak_embedded",
    "PyTrie.Props.C06.reach_invariant",
    "PyTrie.Props.C05.batch_begin_invariant",
    "PyTrie.Props.C05.batch_op_invariant",
    "PyTrie.Props.C05.batch_commit_exact",
    "PyTrie.Props.Raw.set_refines",
    "PyTrie.Props.Raw.delete_refines",
    "PyTrie.Props.Raw.keccak_is_std",
    "PyTrie.Props.NonVacuity.c06_pruneInv",
    "PyTrie.Props.NonVacuity.c06_pruneInv_mid",
    "PyTrie.Props.NonVacuity.hist_reach",
    "PyTrie.Props.Raw.pruned_db_complete",
    "PyTrie.Props.Raw.prune_op_keeps_complete",
    "PyTrie.Props.Raw.pruned_db_get",
    "PyTrie.Props.NonVacuity4.hist5_reach_p",
    "PyTrie.Props.NonVacuity4.pruned_complete",
    "PyTrie.Props.NonVacuity4.pruned_get",
    "PyTrie.Props.NonVacuity4.pruned_get_k1",
    "PyTrie.Props.NonVacuity4.pruned_get_k2",
    "PyTrie.Props.NonVacuity4.prunedBase_length",
    "PyTrie.Props.NonVacuity4.pruned_gone",
    "PyTrie.Props.Free.op_is_executor_op",
    "PyTrie.Props.Free.run_pruning_exact",
    "PyTrie.Props.Free.run_get",
    "PyTrie.Props.Free.history_lockstep",
    "PyTrie.Props.Free.history_blocks_pruning_exact",
    "PyTrie.Props.Free.history_blocks_world",
    "PyTrie.Props.NonVacuity9.pruning_witness",
    "PyTrie.Props.NonVacuity9.world_witness_p",
    "PyTrie.Props.C06.runEvs_first_write_refused",
    "PyTrie.Props.C06.first_write_refused_atomic",
    "PyTrie.Props.C06.first_write_refused_ok_wrote_nothing",
    "PyTrie.Props.NonVacuity12.refused_witness",
    "PyTrie.Props.Free.refused_first_step",
    "PyTrie.Props.Free.refused_first_history",
    "PyTrie.Props.Free.refused_first_history_exact",
    "PyTrie.Props.Free.history_blocks_pruning_exact'",
]
RULE = ("pruning tries started on an empty database and modified only through their own API: histories of "
        "set/delete/set-to-empty/no-op updates and squash_changes blocks (committed and aborted) over prefix-sharing "
        "key pools, with repeated values (shared identical subtrees, counts >= 2) and values at the 32-byte embedding "
        "boundary; after every operation the exact database key set, the non-zero reference counts and "
        "regenerate_ref_count() are compared with the Lean world model, and with an independent walk of the "
        "canonical trie of the dict contents; every stored key is read back; non-trivial = some node has count >= 2 or "
        "a batch occurred; distinct = distinct final (contents, batch pattern)")
ASSUMPTIONS = ["the theorems hold for every hashing whose reference equality is sound (proved for the rlp/Keccak hashing)",
               "the world executor applying the events is tied to the code by the correspondence check, not proved"]
BUDGET_S = {"quick": 90, "thorough": 780}


def gen_cases(rng, tier):
    keys = [b"\x01", b"\x02", b"\x11", b"\x12", b""]
    vals = [b"a" * 40, b"b"]
    alphabet = [["set", k.hex(), v.hex()] for k in keys for v in vals] + [["del", k.hex()] for k in keys]
    for ops in itertools.product(alphabet, repeat=2):
        yield {"ops": list(ops)}
    # one committed or aborted single-op batch between two direct ops
    sub = alphabet[::2]
    for a, b, c in itertools.product(sub, sub, sub):
        yield {"ops": [a, ["batch", "ok" if len(b[1]) % 4 else "raise", [b]], c]}
    n = 900 if tier == "quick" else 15000
    for i in range(n):
        keys = hexlib.gen_universe(rng, rng.randint(2, 12)) if rng.random() < 0.8 else rng.sample(hexlib.CRAFTED_KEYS, 8)
        bl = boundary_values(rng, 2 * max(len(k) for k in keys))
        # few distinct values, mostly long: identical leaves under different prefixes are shared nodes
        values = [bytes([rng.choice(b"xy")]) * rng.choice([33, 40, 40, 56]) for _ in range(2)]
        values += [bytes([rng.choice(b"xyz")]) * rng.choice(bl)]
        if rng.random() < 0.5:
            values.append(hexlib.gen_value(rng))
        ops = hexlib.gen_history(rng, keys, values, rng.randint(1, 25 if tier == "quick" else 60), batch_prob=0.2)
        if rng.random() < 0.3:
            # operations whose first database write is refused (seeded change C06m-count-before-write): "after every
            # operation" includes one the database refused before anything was written
            for _ in range(rng.randint(1, 3)):
                ops.insert(rng.randint(0, len(ops)), ["failfirst", hexlib.gen_simple_op(rng, keys, values)])
        yield {"ops": ops}


def run_case(case):
    res = common.CaseResult()
    shared = {"max": 0}

    def observe(runner, tg, trie, model):
        if tg == "b":
            # inside the block only the batch trie's own view is defined; compare its root and counts
            res.emit("hx.root b", hx(trie.root_hash))
            res.emit("hx.counts b", hexlib.fmt_counts(trie.ref_count))
            return
        db = runner.db
        res.emit("hx.root 0", hx(trie.root_hash))
        res.emit("hx.dbkeys", hexlib.fmt_dbkeys(db))
        res.emit("hx.counts 0", hexlib.fmt_counts(trie.ref_count))
        try:
            regen = trie.regenerate_ref_count()
            res.emit("hx.regen 0", hexlib.fmt_counts(regen))
        except Exception as e:  # noqa
            regen = None
            res.fail("regenerate-raised", repr(e))
        counts, bodies = hexlib.yp_nodes(model)
        live = set(counts)
        have = set(db.keys())
        if live - have:
            res.fail("live-node-missing", "contents %r: %d live node(s) missing from the database"
                     % (sorted(model.items()), len(live - have)))
        if have - live:
            res.fail("garbage-left", "contents %r: %d database entries are not reachable from the root"
                     % (sorted(model.items()), len(have - live)))
        rc = {k: v for k, v in trie.ref_count.items() if v != 0}
        if rc != counts:
            res.fail("count-wrong", "contents %r: ref_count differs from the true reference counts: %r vs %r"
                     % (sorted(model.items()), sorted((k.hex()[:8], v) for k, v in rc.items()),
                        sorted((k.hex()[:8], v) for k, v in counts.items())))
        if regen is not None and {k: v for k, v in regen.items() if v} != rc:
            res.fail("count-ne-regenerate", "ref_count differs from regenerate_ref_count()")
        for h, b in bodies.items():
            if h in db and db[h] != b:
                res.fail("body-wrong", "node %s has a wrong body" % h.hex())
        for k, v in model.items():
            try:
                if trie.get(k) != v:
                    res.fail("stored-key-wrong", "get(%r) wrong" % k)
            except Exception as e:  # noqa
                res.fail("stored-key-unreadable", "get(%r) raised %r" % (k, e))
        # the raw-level reader (get over rlp-decoded nodes fetched from the pruned database as the model's executor left it)
        for k in sorted(model)[:4] + [b"\x77\x77"]:
            try:
                out = "v " + hx(trie.get(k))
            except Exception as e:  # noqa
                out = "exn " + common.exc_name(e)
            res.emit("hx.getat %s %s" % (hx(trie.root_hash), hx(k)), out)
        if counts:
            shared["max"] = max(shared["max"], max(counts.values()))

    r = hexlib.HexRunner(res, True, observe, db=hexlib.FailingDict())
    r.run(case["ops"])
    if shared["max"] >= 2:
        res.tags.add("shared-node(count>=2)")
    if shared["max"] >= 3:
        res.tags.add("shared-node(count>=3)")
    res.nontrivial = shared["max"] >= 2 or any(t.startswith("batch") for t in res.tags)
    res.state_key = common.sha([sorted((k.hex(), v.hex()) for k, v in r.model.items()),
                                [op[1] for op in case["ops"] if op[0] in ("batch", "failfirst")]])
    return res
