"""C10 — NodeIterator enumerates contents in key order; next() is the strict successor."""
import common
import hexlib
from common import hx, nibstr
from hexlib import _nib
from trie.iter import NodeIterator

ID = "C10"
LEAN_IMPORTS = ["PyTrie.Props.C10", "PyTrie.Props.C10Raw", "PyTrie.Props.RawLevel", "PyTrie.Props.NonVacuity2", "PyTrie.Props.NonVacuity8", "PyTrie.Props.C10Blocks"]
THEOREMS = [
    "PyTrie.Props.C10.plt_nibs",
    "PyTrie.Props.C10.stored_path_is_key",
    "PyTrie.Props.C10.next_is_successor",
    "PyTrie.Props.C10.next_none_is_min",
    "PyTrie.Props.C10.items_exact",
    "PyTrie.Props.C10.items_are_keys",
    "PyTrie.Props.C10.items_sorted",
    "PyTrie.Props.C10.nodes_are_traverse",
    "PyTrie.Props.C10.nodes_preorder",
    "PyTrie.Props.C10.nodes_complete",
    "PyTrie.Props.C10.nodes_loop_is_preorder",
    "PyTrie.Props.C10.raw_nodes_loop_refines",
    "PyTrie.Props.C10.raw_nodes_is_preorder",
    "PyTrie.Props.C10.raw_items_is_items",
    "PyTrie.Props.C10.raw_items_exact",
    "PyTrie.Props.C10.raw_nodes_loop_partial",
    "PyTrie.Props.C10.raw_nodes_partial",
    "PyTrie.Props.NonVacuity8.nodes_preorder_witness",
    "PyTrie.Props.NonVacuity8.nodes_preorder_eval",
    "PyTrie.Props.NonVacuity8.nodes_partial_witness",
    "PyTrie.Props.Raw.next_key_refines",
    "PyTrie.Props.Raw.key_after_refines",
    "PyTrie.Props.NonVacuity2.next_key_witness",
    "PyTrie.Props.NonVacuity2.key_after_witness",
    "PyTrie.Props.C10.raw_nodes_is_preorder_blocks",
    "PyTrie.Props.C10.raw_items_exact_blocks",
]
RULE = ("tries built by generated histories (keys that are prefixes of other keys, the empty key, embedded nodes, values on "
        "branches, children 0 and 15); keys()/items()/values()/nodes() sequences and next(k) for every stored key, its "
        "neighbours (k+00, k+ff, last byte +-1, prefixes) and foreign keys, and next(), compared with the Lean model "
        "(keyAfter/nextKey/preorder transcribed from the iterator) and with sorted(dict); nodes(): each prefix once, in "
        "pre-order (strictly increasing tuple order, children listed by their parent), each equal to traverse(prefix); "
        "non-trivial = at least 2 keys; distinct = distinct contents")
ASSUMPTIONS = ["the trie is not modified during iteration; complete database"]
BUDGET_S = {"quick": 90, "thorough": 780}


def gen_cases(rng, tier):
    n = 1200 if tier == "quick" else 12000
    for i in range(n):
        if i % 5 == 0:
            keys = rng.sample(hexlib.CRAFTED_KEYS, rng.randint(1, 10))
        else:
            keys = hexlib.gen_universe(rng, rng.randint(1, 10))
        values = [hexlib.gen_value(rng) for _ in range(3)]
        ops = hexlib.gen_history(rng, keys, values, rng.randint(1, 16), batch_prob=0.15)
        yield {"prune": rng.random() < 0.3, "ops": ops, "pseed": rng.randrange(1 << 30)}
    yield {"prune": False, "ops": [], "pseed": 0}
    yield {"prune": False, "ops": [["set", "", "61"]], "pseed": 0}
    yield {"prune": False, "ops": [["set", "", "61"], ["set", "00", "62"], ["set", "ff", "63"], ["set", "0000", "64"]], "pseed": 0}


def run_case(case):
    res = common.CaseResult()
    its = {}

    def observe(runner, tg, trie, model):
        if tg == "b":
            # inside a squash_changes block the batch trie is a temporary object over a ScratchDB; the iterators of this
            # check belong to the outer trie and are looked at again when the block has been left
            return
        # an earlier version of the trie, for the interleaved walks below (non-pruning: its nodes stay in the database)
        if tg == "0" and not case["prune"] and len(model) >= 2 and "old" not in its:
            its["old"] = (trie.root_hash, dict(model))
        # one NodeIterator object reused between mutations
        it0 = its.setdefault("it", NodeIterator(trie))
        try:
            ks = list(it0.keys())
            if ks != sorted(model):
                res.fail("keys-wrong", "mid-history keys() = %r, sorted keys are %r" % (ks, sorted(model)))
            res.emit("hx.items 0", ";".join("%s=%s" % (hx(k), hx(v)) for k, v in it0.items()) or "-")
            # next() on the same iterator object between mutations (an iterator that remembered the trie as it was answers wrongly)
            sk = sorted(model)
            for q in [None] + sk[:2] + [b"\x12"]:
                want = next((k for k in sk if q is None or k > q), None)
                got = it0.next() if q is None else it0.next(q)
                if got != want:
                    res.fail("next-wrong", "mid-history next(%r) on a reused iterator = %r, smallest stored key %s is %r"
                             % (q, got, "overall" if q is None else "greater than it", want))
        except Exception as e:  # noqa
            res.fail("iterator-raised", "mid-history iteration raised %r" % (e,))

    r = hexlib.HexRunner(res, case["prune"], observe)
    r.run(case["ops"])
    trie, model = r.trie, r.model
    rng = common.mk_rng(case["pseed"], "next")
    it = NodeIterator(trie)
    skeys = sorted(model)

    def guard(what, fn):
        try:
            return fn()
        except Exception as e:  # noqa
            res.fail("iterator-raised", "%s raised %r on contents %r" % (what, e, sorted(model.items())))
            return None

    items = guard("items()", lambda: list(it.items()))
    keys = guard("keys()", lambda: list(it.keys()))
    values = guard("values()", lambda: list(it.values()))
    nodes = guard("nodes()", lambda: list(it.nodes()))
    if items is not None:
        res.emit("hx.items 0", ";".join("%s=%s" % (hx(k), hx(v)) for k, v in items) if items else "-")
        res.emit("hx.itemsd 0", ";".join("%s=%s" % (hx(k), hx(v)) for k, v in items) if items else "-")
        if items != [(k, model[k]) for k in skeys]:
            res.fail("items-wrong", "items() = %r, contents in key order are %r" % (items, [(k, model[k]) for k in skeys]))
    if keys is not None and keys != skeys:
        res.fail("keys-wrong", "keys() = %r, sorted keys are %r" % (keys, skeys))
    if values is not None and values != [model[k] for k in skeys]:
        res.fail("values-wrong", "values() = %r, expected %r" % (values, [model[k] for k in skeys]))
    if nodes is not None:
        res.emit("hx.preorder 0", ";".join("%s=%s" % (nibstr(p), hexlib.fmt_ann(n)) for p, n in nodes) if nodes else "-")
        # the model's transcription of the fog + frontier-cache loop of nodes() must give the same sequence
        res.emit("hx.nodesloop 0", ";".join("%s=%s" % (nibstr(p), hexlib.fmt_ann(n)) for p, n in nodes) if nodes else "-")
        # ... and so must the same loop run over the database of encoded bodies (root hash + raw node cache)
        res.emit("hx.nodesloopd 0", ";".join("%s=%s" % (nibstr(p), hexlib.fmt_ann(n)) for p, n in nodes) if nodes else "-")
        prefixes = [tuple(p) for p, _ in nodes]
        if len(set(prefixes)) != len(prefixes):
            res.fail("nodes-duplicate", "nodes() yields a prefix twice: %r" % (prefixes,))
        if any(not (a < b) for a, b in zip(prefixes, prefixes[1:])):
            res.fail("nodes-order", "nodes() is not in pre-order (prefixes not strictly increasing): %r" % (prefixes,))
        if prefixes[:1] != [()]:
            res.fail("nodes-root", "nodes() does not start with the root")
        expect = {()}
        for p, n in nodes:
            for s in n.sub_segments:
                expect.add(tuple(p) + tuple(s))
            try:
                if trie.traverse(p) != n:
                    res.fail("nodes-not-traverse", "node yielded at %s differs from traverse(%s)" % (nibstr(p), nibstr(p)))
            except Exception as e:  # noqa
                res.fail("nodes-not-traverse", "traverse(%s) raised %r for a yielded prefix" % (nibstr(p), e))
        if expect != set(prefixes):
            res.fail("nodes-incomplete", "nodes() prefixes %r differ from the prefixes announced by sub_segments %r"
                     % (sorted(prefixes), sorted(expect)))
        got = {tuple(p) + tuple(n.suffix): n.value for p, n in nodes if n.value}
        if got != {_nib(k): v for k, v in model.items()}:
            res.fail("nodes-values", "values carried by nodes() differ from the contents")
    # next()
    probes = set(model)
    for k in list(model):
        probes |= {k + b"\x00", k + b"\xff", k[:-1], k[:-1] + bytes([(k[-1] + 1) % 256]) if k else b"\x00",
                   k[:-1] + bytes([(k[-1] - 1) % 256]) if k else b"\xff"}
    probes |= {b"", b"\x00", b"\xff", b"\xff\xff\xff", bytes([rng.randrange(256)]), bytes([rng.randrange(256), rng.randrange(256)])}
    probes = sorted(probes)
    if len(probes) > 40:
        probes = sorted(set(rng.sample(probes, 30)) | set(skeys[:10]))
    for k in [None] + probes:
        try:
            nk = it.next(k) if k is not None else it.next()
            out = "None" if nk is None else "k " + hx(nk)
        except Exception as e:  # noqa
            nk = False
            out = hexlib.fmt_exc(e)
            res.fail("next-raised", "next(%r) raised %r" % (k, e))
        res.emit("hx.next 0 %s" % ("none" if k is None else hx(k)), out)
        # raw level: _get_key_after / _get_next_key over annotated raw nodes, traverse_from through the database
        res.emit("hx.nextd %s %s" % (hx(trie.root_hash), "none" if k is None else hx(k)), out if not out.startswith("exn") else "exn")
        if nk is not False:
            bigger = [x for x in skeys if k is None or x > k]
            want = bigger[0] if bigger else None
            if nk != want:
                res.fail("next-wrong", "next(%r) = %r, the smallest stored key greater than it is %r (keys %r)" % (k, nk, want, skeys))
            res.tags.add("next:" + ("none" if want is None else ("stored-arg" if k in model else "absent-arg")))
    # two walks advanced alternately (generators are lazy: callers may interleave them): the walk over an earlier version of
    # the trie and the walk over the current one must each yield their own trie's pairs / nodes
    if "old" in its and its["old"][0] != trie.root_hash:
        import itertools
        from trie import HexaryTrie
        oroot, omodel = its["old"]
        old = HexaryTrie(r.db, oroot)
        try:
            pairs = list(itertools.zip_longest(NodeIterator(old).items(), NodeIterator(trie).items()))
            a = [x for x, _ in pairs if x is not None]
            b = [y for _, y in pairs if y is not None]
            if a != sorted(omodel.items()) or b != [(k, model[k]) for k in skeys]:
                res.fail("interleaved-walks-wrong", "two items() walks advanced alternately: the older version yields %r (holds %r), the "
                         "current one %r (holds %r)" % (a, sorted(omodel.items()), b, [(k, model[k]) for k in skeys]))
            npairs = list(itertools.zip_longest(NodeIterator(old).nodes(), NodeIterator(trie).nodes()))
            for tr, side in ((old, 0), (trie, 1)):
                for ent in npairs:
                    if ent[side] is None:
                        continue
                    prefix, node = ent[side]
                    if hexlib.fmt_ann(node) != hexlib.fmt_ann(tr.traverse(prefix)):
                        res.fail("interleaved-walks-wrong", "two nodes() walks advanced alternately: node at %s differs from traverse()"
                                 % nibstr(prefix))
                        break
            res.tags.add("interleaved-walks")
        except Exception as e:  # noqa
            res.fail("iterator-raised", "interleaved walks raised %r" % (e,))
    # nodes() over a database with one node body withheld: everything yielded before the missing node is the start of the
    # pre-order of the complete trie, and the walk then reports exactly that node (never a wrong or skipped subtree)
    live = sorted(h for h in hexlib.yp_nodes(model)[1] if h != trie.root_hash and h in r.db)
    victims = live if live and rng.random() < 0.85 else sorted(h for h in r.db if h != trie.root_hash)
    if nodes is not None and victims and not case["prune"]:
        victim = victims[rng.randrange(len(victims))]
        body = r.db.pop(victim)
        res.emit("hx.drop %s" % hx(victim), "ok")
        r.free_sync = r.rr_sync = False
        got, out = [], "completed"
        try:
            for ent in NodeIterator(trie).nodes():
                got.append(ent)
        except Exception as e:  # noqa
            out = hexlib.fmt_exc(e)
        full = [(tuple(p), hexlib.fmt_ann(n)) for p, n in nodes]
        if [(tuple(p), hexlib.fmt_ann(n)) for p, n in got] != full[:len(got)]:
            res.fail("nodes-wrong-on-partial-db", "with the body of %s withheld nodes() yields %r, not a start of the pre-order"
                     % (victim.hex(), [nibstr(p) for p, _ in got]))
        if out == "completed":
            if len(got) != len(full):
                res.fail("nodes-wrong-on-partial-db", "with the body of %s withheld nodes() ends early without an error" % victim.hex())
            res.tags.add("partial-db-nodes:unreferenced-victim")
        else:
            if not out.startswith("exn MissingTraversalNode " + hx(victim)):
                res.fail("nodes-wrong-on-partial-db", "with the body of %s withheld nodes() raised %s" % (victim.hex(), out))
            res.tags.add("partial-db-nodes:missing-reported")
            res.emit("hx.nodesloopd 0", out)
        r.db[victim] = body
        res.emit("hx.put %s %s" % (hx(victim), hx(body)), "ok")
    res.nontrivial = len(model) >= 2
    res.state_key = common.sha(sorted((k.hex(), v.hex()) for k, v in model.items()))
    return res
