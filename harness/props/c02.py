"""C02 — HexaryTrie root hash is the canonical Ethereum MPT root of its contents."""
import itertools

import common
import hexlib
from common import hx
from props.c01 import keys_of

ID = "C02"
LEAN_IMPORTS = ["PyTrie.Props.C02", "PyTrie.Props.RawLevel", "PyTrie.Props.NonVacuity2", "PyTrie.Props.HistoryBlocks", "PyTrie.Props.NonVacuity9", "PyTrie.Props.HistoryProgress"]
THEOREMS = [
    "PyTrie.Props.C01.canon_run",
    "PyTrie.Hex.canon_unique",
    "PyTrie.Props.C02.get_off_image",
    "PyTrie.Props.C02.run_eq_of_spec_eq",
    "PyTrie.Props.C02.root_depends_only_on_contents",
    "PyTrie.Props.C02.root_batched",
    "PyTrie.Props.C02.root_empty",
    "PyTrie.Props.C02.blank_root_constant",
    "PyTrie.Props.C02.root_is_yellow_paper_trie",
    "PyTrie.Props.C02.node_is_yellow_paper_c",
    "PyTrie.Props.C02.ref_is_yellow_paper_n",
    "PyTrie.Props.Raw.set_refines",
    "PyTrie.Props.Raw.delete_refines",
    "PyTrie.Props.Raw.keccak_is_std",
    "PyTrie.Props.Raw.history_root_is_yellow_paper",
    "PyTrie.Props.NonVacuity2.raw_history_root_is_yellow_paper",
    "PyTrie.Props.Free.history_blocks_root",
    "PyTrie.Props.Free.history_blocks_root_depends_only_on_contents",
    "PyTrie.Props.NonVacuity9.root_witness",
    "PyTrie.Props.NonVacuity9.flat_tree",
    "PyTrie.Props.Free.history_blocks_root'",
]
RULE = ("histories as for C01 (4 configurations) with values aimed at the 31/32/33-byte embedding boundary of leaf, "
        "extension and branch encodings; after every operation root_hash and the body stored under it are compared "
        "with the Lean model (own Keccak/RLP/hex-prefix, pinned to ethereum/tests vectors) and with an independent "
        "Python transcription of the Yellow Paper's c(J,i)/n(J,i); every case is also replayed in a shuffled order "
        "with the deletes folded away and must give the same root; non-trivial = at least two keys stored; "
        "distinct = distinct final contents")
ASSUMPTIONS = ["none for the theorems (they hold for every hash function)",
               "conformance of the model's encoding with the Yellow Paper is pinned by external vectors, not proved"]
BUDGET_S = {"quick": 90, "thorough": 780}


def boundary_values(rng, key_len_nibbles):
    """value lengths that put a leaf [hp(path), value] at exactly 30..34 encoded bytes"""
    out = []
    for path_len in range(0, key_len_nibbles + 1):
        hp_len = path_len // 2 + 1
        hp_enc = hp_len if (hp_len == 1) else hp_len + 1   # single byte < 0x80 encodes as itself
        for total in (31, 32, 33):
            # 1 (list header) + hp_enc + (1 + vlen)  [vlen in 2..55]
            vlen = total - 1 - hp_enc - 1
            if vlen >= 2:
                out.append(vlen)
    return out


def gen_cases(rng, tier):
    keys = [b"", b"\x12", b"\x12\x34", b"\x12\x35", b"\x1f", b"\x12\x34\x56"]
    vals = [b"a", b"b" * 27, b"c" * 28, b"d" * 29, b"e" * 40]
    alphabet = [["set", k.hex(), v.hex()] for k in keys for v in vals] + [["del", k.hex()] for k in keys]
    maxlen = 2
    for n in range(1, maxlen + 1):
        for ops in itertools.product(alphabet, repeat=n):
            yield {"prune": bool(n % 2), "ops": list(ops)}
    n = 900 if tier == "quick" else 15000
    for i in range(n):
        keys = hexlib.gen_universe(rng, rng.randint(2, 12)) if rng.random() < 0.8 else rng.sample(hexlib.CRAFTED_KEYS, 8)
        bl = boundary_values(rng, 2 * max(len(k) for k in keys))
        values = [bytes([rng.choice(b"xyz")]) * rng.choice(bl) for _ in range(3)] + [hexlib.gen_value(rng) for _ in range(2)]
        ops = hexlib.gen_history(rng, keys, values, rng.randint(1, 25 if tier == "quick" else 60))
        yield {"prune": rng.random() < 0.5, "ops": ops, "pseed": rng.randrange(1 << 30)}


def run_case(case):
    res = common.CaseResult()

    def observe(runner, tg, trie, model):
        root = trie.root_hash
        res.emit("hx.root %s" % tg, hx(root))
        want = hexlib.yp_root(model)
        if root != want:
            res.fail("root-not-yellow-paper", "contents %r: root %s, Yellow Paper root %s"
                     % (sorted(model.items()), root.hex(), want.hex()))
        if not model and root != trie.BLANK_NODE_HASH:
            res.fail("empty-not-blank-root", "empty mapping has root %s" % root.hex())

    r = hexlib.HexRunner(res, case["prune"], observe, raw_tie=True, reopen=True)
    r.run(case["ops"])
    r.finish_raw(sorted(r.model)[:6])
    # final: body under the root, node-length statistics, order independence on the real code
    if r.model:
        body = r.db.get(r.trie.root_hash)
        if body is None:
            res.fail("root-body-missing", "db has no entry for the root")
    res.emit("hx.db" if not case["prune"] else "hx.dbkeys",
             hexlib.fmt_db(r.db) if not case["prune"] else hexlib.fmt_dbkeys(r.db))
    counts, bodies = hexlib.yp_nodes(r.model)
    for b in bodies.values():
        if len(b) in (32, 33):
            res.tags.add("hashed-node-len-%d" % len(b))
    J = [(hexlib._nib(k), v) for k, v in r.model.items()]
    prng = common.mk_rng(case.get("pseed", 1), "shuffle")
    items = list(r.model.items())
    prng.shuffle(items)
    from trie import HexaryTrie
    t2 = HexaryTrie({}, prune=not case["prune"])
    junk = [k for k in sorted(keys_of(case["ops"])) if k not in r.model][:3]
    for k in junk:
        t2[k] = b"junk" * 9
    for k, v in items:
        t2[k] = v
    for k in junk:
        del t2[k]
    if t2.root_hash != r.trie.root_hash:
        res.fail("root-depends-on-history", "contents %r: %s vs %s after reinsertion in another order"
                 % (sorted(r.model.items()), common.hx(r.trie.root_hash), common.hx(t2.root_hash)))
    # operations that SUCCEED on an incomplete database (a node body withheld, as in beam sync) must also leave the
    # Yellow-Paper root of the resulting mapping (whether such an operation may raise instead is C07's subject)
    if len(r.db) >= 3 and not case["prune"]:
        victims = sorted(h for h in r.db if h != r.trie.root_hash)
        victim = victims[prng.randrange(len(victims))]
        body = r.db.pop(victim)
        res.emit("hx.drop %s" % hx(victim), "ok")
        r.free_sync = r.rr_sync = False
        model2 = dict(r.model)
        for k in sorted(r.model)[:4]:
            before_root = r.trie.root_hash
            try:
                r.trie.delete(k)
                out = "ok"
            except Exception as e:  # noqa
                out = hexlib.fmt_exc(e)
            res.emit("hx.del 0 %s" % hx(k), out)
            if out == "ok":
                model2.pop(k, None)
                want = hexlib.yp_root(model2)
                if r.trie.root_hash != want:
                    res.fail("root-not-yellow-paper", "on a database with one node body withheld delete(%r) succeeded and left the root %s; "
                             "the Yellow Paper root of the resulting mapping is %s" % (k, common.hx(r.trie.root_hash), want.hex()))
                res.tags.add("partial-db-op:ok")
            else:
                res.tags.add("partial-db-op:raised")
                if r.trie.root_hash != before_root:
                    res.fail("root-depends-on-history", "a raising delete changed the root")
        r.db[victim] = body
        res.emit("hx.put %s %s" % (hx(victim), hx(body)), "ok")
    res.tags.add("prune" if case["prune"] else "noprune")
    res.nontrivial = len(r.model) >= 2
    res.state_key = common.sha(sorted((k.hex(), v.hex()) for k, v in r.model.items()))
    return res
