"""C11 — HexaryTrieFog is an immutable, order-independent record of unexplored prefixes."""
import ast

import common
from common import nibstr

common.import_repo()
from trie.fog import HexaryTrieFog  # noqa: E402
from trie.exceptions import PerfectVisibility, FullDirectionalVisibility  # noqa: E402
from eth_utils import ValidationError  # noqa: E402

ID = "C11"
LEAN_IMPORTS = ["PyTrie.Props.C11", "PyTrie.Props.NonVacuity"]
THEOREMS = [
    "PyTrie.Props.C11.wf_runCalls",
    "PyTrie.Props.C11.markAllComplete_spec",
    "PyTrie.Props.C11.explore_spec",
    "PyTrie.Props.C11.explore_ok_iff",
    "PyTrie.Props.C11.explore_err",
    "PyTrie.Props.C11.explore_comm",
    "PyTrie.Props.C11.explore_comm_ok",
    "PyTrie.Props.C11.fog_ext",
    "PyTrie.Props.C11.isComplete_iff",
    "PyTrie.Props.C11.markAllComplete_eq_fold",
    "PyTrie.Props.C11.nearestRight_spec",
    "PyTrie.Props.C11.nearestUnknown_spec",
    "PyTrie.Props.C11.deserialize_serialize",
    "PyTrie.Props.NonVacuity.fog_wf",
]
RULE = ("random exploration scripts on a fresh fog: explore with leaf (no), extension (one, length 1-4), branch (several "
        "length-1, nibbles 0 and 15 included) and mixed-length sub-segment sets, valid and invalid (duplicates, nested, unknown "
        "prefix, the empty segment), mark_all_complete (valid, unknown, repeated prefix); after every call: the set of unexplored "
        "prefixes, is_complete, that the receiver is unchanged, nearest_unknown / nearest_right for query keys along, between and "
        "beyond the prefixes, serialize / deserialize round trip, and commutation of two independent explorations; all compared "
        "with the Lean model and with a set-based oracle (antichain, member, containing prefix, adjacency, closest to the right); "
        "non-trivial = at least 3 successful explorations; distinct = distinct final fogs")
ASSUMPTIONS = ["sortedcontainers.SortedSet and ast.literal_eval are modelled (sorted duplicate-free list), not verified"]
BUDGET_S = {"quick": 60, "thorough": 600}


def ps(p):
    return nibstr(p)


def plist(l):
    return ",".join("_" if len(p) == 0 else nibstr(p) for p in l) if l else "-"


def gen_subs(rng):
    r = rng.random()
    if r < 0.2:
        return []
    if r < 0.4:
        return [tuple(rng.choice([0, 15, rng.randrange(16)]) for _ in range(rng.randint(1, 4)))]
    if r < 0.75:
        return [(x,) for x in sorted(rng.sample(range(16), rng.randint(1, 5)) + ([0, 15] if rng.random() < 0.3 else []))][:6]
    if r < 0.85:   # mixed lengths, usually prefix-free
        out = set()
        for _ in range(rng.randint(2, 4)):
            out.add(tuple(rng.randrange(16) for _ in range(rng.randint(1, 3))))
        return sorted(out)
    if r < 0.9:    # nested: parent and descendant in any order, with unrelated segments anywhere between them
        a = tuple(rng.randrange(16) for _ in range(rng.randint(1, 2)))
        child = a + tuple(rng.randrange(16) for _ in range(rng.randint(1, 3)))
        out = [a, child]
        for _ in range(rng.randint(0, 3)):
            out.insert(rng.randint(0, len(out)), tuple(rng.randrange(16) for _ in range(rng.randint(1, 3))))
        if rng.random() < 0.5:
            rng.shuffle(out)
        return out
    if r < 0.95:   # duplicates
        a = (rng.randrange(16),)
        return [a, (rng.randrange(16), 3), a]
    return [()] + ([(1,)] if rng.random() < 0.5 else [])


def gen_cases(rng, tier):
    n = 6000 if tier == "quick" else 80000
    for i in range(n):
        steps = []
        for _ in range(rng.randint(1, 14)):
            r = rng.random()
            if r < 0.75:
                steps.append(["explore", rng.random(), [list(s) for s in gen_subs(rng)], rng.random() < 0.1])
            else:
                steps.append(["mark", [rng.random() for _ in range(rng.randint(0, 3))], rng.random() < 0.15, rng.random() < 0.1])
        yield {"steps": steps, "qseed": rng.randrange(1 << 30)}


def valid_subs(subs):
    if len(set(subs)) != len(subs):
        return False
    for a in subs:
        for b in subs:
            if a != b and b[:len(a)] == a:
                return False
    return True


def run_case(case):
    res = common.CaseResult()
    rng = common.mk_rng(case["qseed"], "q")
    res.emit("fog.reset", "ok")
    res.emit("fog.new", "0")
    fog = HexaryTrieFog()
    cur = 0          # model index of `fog`
    nfogs = 1
    spec = {()}
    nexplored = 0

    def snapshot(f):
        return list(f._unexplored_prefixes)

    def pick(frac, spec):
        s = sorted(spec)
        return s[int(frac * len(s)) % len(s)] if s else (3,)

    def queries(f, idx, spec):
        keys = set()
        for p in list(spec)[:6]:
            keys |= {p, p + (0,), p + (15,), p[:-1], p[:-1] + ((p[-1] + 1) % 16,) if p else (0,), p + (7, 7)}
        keys |= {(), (0,), (15, 15, 15), tuple(rng.randrange(16) for _ in range(rng.randint(1, 4)))}
        ks = sorted(keys)
        if len(ks) > 12:
            ks = rng.sample(ks, 12)
        ss = sorted(spec)
        for k in ks:
            containing = [p for p in ss if k[:len(p)] == p]
            for name, fn in (("nu", f.nearest_unknown), ("nr", f.nearest_right)):
                before = snapshot(f)
                try:
                    r = tuple(fn(common.vary(k, True)))
                    out = "p " + ps(r)
                except PerfectVisibility:
                    r, out = "perfect", "exn PerfectVisibility"
                except FullDirectionalVisibility:
                    r, out = "fulldir", "exn FullDirectionalVisibility"
                except Exception as e:  # noqa
                    r, out = "other", "exn " + type(e).__name__
                res.emit("fog.%s %d %s" % (name, idx, ps(k)), out)
                if snapshot(f) != before:
                    res.fail("receiver-modified", "%s(%s) modified the fog" % (name, ps(k)))
                # oracle
                if not ss:
                    if r != "perfect":
                        res.fail("visibility-wrong", "%s on an empty fog returned %r" % (name, r))
                    continue
                if r == "perfect" or r == "other":
                    res.fail("visibility-wrong", "%s(%s) = %r although %r is unexplored" % (name, ps(k), r, ss))
                    continue
                if containing:
                    if r != containing[0]:
                        res.fail("containing-prefix-not-returned", "%s(%s) = %r, but %r contains the key" % (name, ps(k), r, containing[0]))
                    continue
                right = [p for p in ss if p > k]
                left = [p for p in ss if p < k]
                if name == "nr":
                    if right:
                        if r != right[0]:
                            res.fail("nearest-right-wrong", "nearest_right(%s) = %r, closest to the right is %r" % (ps(k), r, right[0]))
                    elif r != "fulldir":
                        res.fail("nearest-right-wrong", "nearest_right(%s) = %r, nothing lies to the right of the key" % (ps(k), r))
                else:
                    adjacent = ([left[-1]] if left else []) + ([right[0]] if right else [])
                    if r == "fulldir" or r not in adjacent:
                        res.fail("nearest-unknown-wrong", "nearest_unknown(%s) = %r, adjacent unexplored prefixes are %r" % (ps(k), r, adjacent))

    for st in case["steps"]:
        before = snapshot(fog)
        if st[0] == "explore":
            _, frac, subs, unknown = st
            subs = [tuple(s) for s in subs]
            old = pick(frac, spec)
            if unknown or not spec:
                old = old + (9, 9)
            ok_expected = (old in spec) and valid_subs(subs)
            try:
                new = fog.explore(common.vary(old, True), common.vary([common.vary(x, True) for x in subs], gen=True))
                out = str(nfogs)
            except ValidationError:
                new, out = None, "exn ValidationError"
            except Exception as e:  # noqa
                new, out = None, "exn " + type(e).__name__
            res.emit("fog.explore %d %s %s" % (cur, ps(old), plist(subs)), out)
            if snapshot(fog) != before:
                res.fail("receiver-modified", "explore modified the receiver")
            if new is None:
                if ok_expected:
                    res.fail("valid-explore-rejected", "explore(%s, %r) on %r raised" % (ps(old), subs, sorted(spec)))
                res.tags.add("explore:rejected:" + ("unknown" if old not in spec else "bad-subs"))
                continue
            if not ok_expected:
                res.fail("invalid-explore-accepted", "explore(%s, %r) on %r was accepted" % (ps(old), subs, sorted(spec)))
            nspec = (spec - {old}) | {old + s for s in subs}
            # independent explorations commute
            others = sorted(spec - {old})
            if others and rng.random() < 0.3:
                o2 = rng.choice(others)
                s2 = [(rng.randrange(16),)]
                try:
                    a = fog.explore(old, subs).explore(o2, s2)
                    b = fog.explore(o2, s2).explore(old, subs)
                    if a != b or snapshot(a) != snapshot(b):
                        res.fail("explorations-do-not-commute", "explore %s then %s differs from the other order" % (ps(old), ps(o2)))
                    res.tags.add("commute-checked")
                except Exception as e:  # noqa
                    res.fail("explorations-do-not-commute", "commutation check raised %r" % (e,))
            fog, cur, spec = new, nfogs, nspec
            nfogs += 1
            nexplored += 1
            kinds = {len(s) for s in subs}
            res.tags.add("explore:" + ("leaf" if not subs else "ext" if len(subs) == 1 else "branch" if kinds == {1} else "mixed"))
        else:
            _, fracs, unknown, repeat = st
            prefixes = []
            for fr in fracs:
                if spec:
                    prefixes.append(pick(fr, spec))
            prefixes = list(dict.fromkeys(prefixes))
            if repeat and prefixes:
                prefixes.append(prefixes[0])
            if unknown:
                prefixes.append((9, 9, 9, 9, 9))
            ok_expected = all(p in spec for p in prefixes) and len(set(prefixes)) == len(prefixes)
            try:
                new = fog.mark_all_complete(common.vary([common.vary(x, True) for x in prefixes], gen=True))
                out = str(nfogs)
            except ValidationError:
                new, out = None, "exn ValidationError"
            except Exception as e:  # noqa
                new, out = None, "exn " + type(e).__name__
            res.emit("fog.mark %d %s" % (cur, plist(prefixes)), out)
            if snapshot(fog) != before:
                res.fail("receiver-modified", "mark_all_complete modified the receiver")
            if new is None:
                if ok_expected:
                    res.fail("valid-mark-rejected", "mark_all_complete(%r) on %r raised" % (prefixes, sorted(spec)))
                res.tags.add("mark:rejected")
                continue
            if not ok_expected:
                res.fail("invalid-mark-accepted", "mark_all_complete(%r) on %r was accepted" % (prefixes, sorted(spec)))
            # equals folding explore(p, ())
            try:
                f2 = fog
                for p in prefixes:
                    f2 = f2.explore(p, ())
                if f2 != new:
                    res.fail("mark-differs-from-explore", "mark_all_complete(%r) differs from repeated explore(p, ())" % (prefixes,))
            except Exception as e:  # noqa
                res.fail("mark-differs-from-explore", "repeated explore raised %r" % (e,))
            fog, cur, spec = new, nfogs, spec - set(prefixes)
            nfogs += 1
            res.tags.add("mark:ok")
        # state observations
        got = [tuple(p) for p in snapshot(fog)]
        res.emit("fog.show %d" % cur, plist(got))
        res.emit("fog.complete %d" % cur, str(fog.is_complete))
        if got != sorted(spec):
            res.fail("fog-set-wrong", "unexplored prefixes %r, expected %r" % (got, sorted(spec)))
        if fog.is_complete != (not spec):
            res.fail("is-complete-wrong", "is_complete=%r with %r" % (fog.is_complete, got))
        for a in got:
            for b in got:
                if a != b and b[:len(a)] == a:
                    res.fail("antichain-broken", "%r starts with %r" % (b, a))
        # serialize round trip
        ser = fog.serialize()
        payload = ast.literal_eval(ser[len(b"HexaryTrieFog:"):].decode())
        res.emit("fog.ser %d" % cur, ",".join(b.hex() for b in payload) if payload else "-")
        back = HexaryTrieFog.deserialize(ser)
        if back != fog or snapshot(back) != snapshot(fog):
            res.fail("serialize-roundtrip", "deserialize(serialize(fog)) != fog for %r" % (got,))
        res.emit("fog.deser %s" % (",".join(b.hex() for b in payload) if payload else "-"), str(nfogs))
        res.emit("fog.eq %d %d" % (cur, nfogs), "True")
        nfogs += 1
        queries(fog, cur, spec)
    res.nontrivial = nexplored >= 3
    res.state_key = common.sha(sorted(spec))
    return res
