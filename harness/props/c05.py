"""C05 — squash_changes is an all-or-nothing batch."""
import itertools

import common
import hexlib
from common import hx
from eth_hash.auto import keccak

ID = "C05"
LEAN_IMPORTS = ["PyTrie.Props.C05", "PyTrie.Props.C05Batch", "PyTrie.Props.NonVacuity", "PyTrie.Props.FreeExec", "PyTrie.Props.NonVacuity5", "PyTrie.Props.FreeBatch", "PyTrie.Props.HistoryBlocks", "PyTrie.Props.NonVacuity9", "PyTrie.Props.HistoryFailCommit", "PyTrie.Props.NonVacuity11", "PyTrie.Props.HistoryProgress", "PyTrie.Props.HistoryFailOp", "PyTrie.Props.NonVacuity15"]
THEOREMS = [
    "PyTrie.Props.Free.batch_op_leaves_outer",
    "PyTrie.Props.Free.abort_restores",
    "PyTrie.Props.Free.commit_failure_keeps_outer",
    "PyTrie.Props.Free.commit_adopts_root",
    "PyTrie.Props.C05.abort_restores_world",
    "PyTrie.Props.C05.batch_ops_leave_base",
    "PyTrie.Props.C05.commit_failure_keeps_outer",
    "PyTrie.Props.C05.commit_adopts_root",
    "PyTrie.Props.C05.commitLoop_fail_prefix",
    "PyTrie.Props.C05.batch_begin_invariant",
    "PyTrie.Props.C05.batch_op_invariant",
    "PyTrie.Props.C05.commit_produces_view",
    "PyTrie.Props.C05.batch_commit_exact",
    "PyTrie.HexW.commitLoop_view_needs_nodup",
    "PyTrie.Props.C05.np_batch_begin",
    "PyTrie.Props.C05.np_batch_op",
    "PyTrie.Props.C05.np_batch_commit",
    "PyTrie.Props.NonVacuity.c05_begin",
    "PyTrie.Props.NonVacuity.c05_op",
    "PyTrie.Props.NonVacuity.c05_world_inv",
    "PyTrie.Props.NonVacuity.c05_commit",
    "PyTrie.Props.NonVacuity.c05_np_begin",
    "PyTrie.Props.NonVacuity.c05_np_inv",
    "PyTrie.Props.NonVacuity.c05_np_commit",
    "PyTrie.Props.Free.op_is_executor_op_view",
    "PyTrie.Props.Free.view_is_what_is_read",
    "PyTrie.Props.Free.lockstep_begin",
    "PyTrie.Props.Free.lockstep_end",
    "PyTrie.Props.Free.lockstep_op_outer",
    "PyTrie.Props.Free.lockstep_op_batch",
    "PyTrie.Props.Free.cache_keys_unique_begin",
    "PyTrie.Props.Free.cache_keys_unique_op",
    "PyTrie.Props.Free.view_complete_on_entry",
    "PyTrie.Props.Free.view_complete_batch_op",
    "PyTrie.Props.Free.complete_after_commit",
    "PyTrie.Props.Free.np_cache_consistent_on_entry",
    "PyTrie.Props.Free.np_view_complete_batch_op",
    "PyTrie.Props.Free.np_complete_after_commit",
    "PyTrie.Props.Free.history_lockstep",
    "PyTrie.Props.NonVacuity5.good_p",
    "PyTrie.Props.NonVacuity5.good_np",
    "PyTrie.Props.NonVacuity5.lockstep_witness_p",
    "PyTrie.Props.NonVacuity5.lockstep_witness_np",
    "PyTrie.Props.NonVacuity5.outcomes_p",
    "PyTrie.Props.NonVacuity5.final_db",
    "PyTrie.Props.NonVacuity5.aborted_block_noop_p",
    "PyTrie.Props.NonVacuity5.aborted_block_noop_np",
    "PyTrie.Props.Free.history_blocks_world",
    "PyTrie.Props.Free.history_blocks_get",
    "PyTrie.Props.Free.history_blocks_root",
    "PyTrie.Props.NonVacuity9.world_witness_p",
    "PyTrie.Props.NonVacuity9.world_witness_np",
    "PyTrie.Props.Free.fail_block_step",
    "PyTrie.Props.Free.history_fail_commit_world",
    "PyTrie.Props.Free.history_fail_commit_lockstep",
    "PyTrie.Props.Free.history_fail_commit_get",
    "PyTrie.Props.NonVacuity11.fsteps_good",
    "PyTrie.Props.NonVacuity11.world_witness",
    "PyTrie.Props.NonVacuity11.lockstep_witness",
    "PyTrie.Props.NonVacuity11.get_witness",
    "PyTrie.Props.NonVacuity11.evaluated",
    "PyTrie.Props.Free.direct_call_progress",
    "PyTrie.Props.Free.batch_call_progress",
    "PyTrie.Props.Free.good_of_good'",
    "PyTrie.Props.Free.history_never_raises",
    "PyTrie.Props.Free.history_blocks_get'",
    "PyTrie.Props.Free.fail_op_step",
    "PyTrie.Props.Free.history_fail_op_world",
    "PyTrie.Props.Free.history_fail_op_lockstep",
    "PyTrie.Props.Free.history_fail_op_get",
    "PyTrie.Props.NonVacuity15.gsteps_good",
    "PyTrie.Props.NonVacuity15.world_witness",
    "PyTrie.Props.NonVacuity15.lockstep_witness",
    "PyTrie.Props.NonVacuity15.evaluated",
]
RULE = ("prior history, then squash_changes blocks with every exit kind: normal, an exception after n of the "
        "block's operations (every n), and - for non-pruning tries - the n-th database write of the commit failing "
        "(every n up to the number of writes), then further operations; prune on/off; after every outer step the exact "
        "database, root and reference counts are compared with the Lean world model; the oracle checks the clauses "
        "of the property on the real objects (canonical root, needed nodes present, nothing removed / no "
        "intermediate-only node added for non-pruning, exact live set for pruning, everything unchanged on abort) "
        "and that the trie stays a correct map afterwards; non-trivial = the block changed the contents or was "
        "aborted after changing something; distinct = distinct (prune, contents before, block, exit)")
ASSUMPTIONS = ["NoClobber on the run for read-back statements",
               "nested squash_changes and use of the outer trie inside its own block are outside the property"]
BUDGET_S = {"quick": 90, "thorough": 780}


def gen_block(rng, keys, values, prune, maxops):
    inner = [hexlib.gen_simple_op(rng, keys, values) for _ in range(rng.randint(0, maxops))]
    r = rng.random()
    if r < 0.4:
        ex = "ok"
    elif r < 0.75 or prune:
        ex = ["raise", rng.randint(0, len(inner))]
    else:
        ex = ["failcommit", rng.randint(0, 2 + 3 * len(inner))]
    return ["batch", ex, inner]


def gen_cases(rng, tier):
    keys = [b"\x01", b"\x02", b"\x11", b"\x12\x34", b""]
    vals = [b"a" * 40, b"b"]
    alphabet = [["set", k.hex(), v.hex()] for k in keys[:4] for v in vals] + [["del", k.hex()] for k in keys[:3]]
    # small scope: one prior op, a two-op block with every exit, one later op
    for a, b, c in itertools.product(alphabet[::2], alphabet, alphabet[::3]):
        for prune in (False, True):
            exits = ["ok", ["raise", 0], ["raise", 1], ["raise", 2]]
            if not prune:
                exits += [["failcommit", n] for n in range(0, 4)]
            for ex in exits:
                yield {"prune": prune, "ops": [a, ["batch", ex, [b, c]], c]}
    n = 700 if tier == "quick" else 12000
    for i in range(n):
        prune = rng.random() < 0.5
        keys = hexlib.gen_universe(rng, rng.randint(2, 10)) if rng.random() < 0.8 else rng.sample(hexlib.CRAFTED_KEYS, 8)
        values = [bytes([rng.choice(b"xy")]) * rng.choice([33, 40, 56]) for _ in range(2)] + [hexlib.gen_value(rng)]
        ops = [hexlib.gen_simple_op(rng, keys, values) for _ in range(rng.randint(0, 8))]
        for _ in range(rng.randint(1, 3)):
            ops.append(gen_block(rng, keys, values, prune, 6))
            ops += [hexlib.gen_simple_op(rng, keys, values) for _ in range(rng.randint(0, 4))]
        yield {"prune": prune, "ops": ops}


def run_case(case):
    res = common.CaseResult()
    prune = case["prune"]
    snap = {}
    info = {"changed": False}

    def take(runner, trie, model):
        snap["db"] = dict(runner.db)
        snap["root"] = trie.root_hash
        snap["counts"] = {k: v for k, v in trie.ref_count.items() if v} if prune else None
        snap["model"] = dict(model)

    def observe(runner, tg, trie, model):
        if tg == "b":
            return
        db = runner.db
        res.emit("hx.root 0", hx(trie.root_hash))
        res.emit("hx.db", hexlib.fmt_db(db))
        if prune:
            res.emit("hx.counts 0", hexlib.fmt_counts(trie.ref_count))
        outcome = getattr(runner, "last_batch_outcome", None)
        runner.last_batch_outcome = None
        counts, bodies = hexlib.yp_nodes(model)
        live = set(counts)
        if outcome == "committed":
            if snap["model"] != model:
                info["changed"] = True
            if trie.root_hash != hexlib.yp_root(model):
                res.fail("commit-root-wrong", "after the block the root is not the canonical root of %r" % sorted(model.items()))
            if live - set(db):
                res.fail("commit-node-missing", "%d node(s) needed for the new root are not in the database" % len(live - set(db)))
            if not prune:
                lost = [k for k, v in snap["db"].items() if db.get(k) != v]
                if lost:
                    res.fail("commit-removed-entry", "non-pruning trie: %d pre-existing entries removed or changed" % len(lost))
                extra = set(db) - set(snap["db"]) - live
                if extra:
                    res.fail("commit-intermediate-node", "%d node(s) that serve only intermediate states were added" % len(extra))
        elif outcome == "aborted":
            if trie.root_hash != snap["root"]:
                res.fail("abort-root-changed", "root changed by an aborted block")
            if dict(db) != snap["db"]:
                res.fail("abort-db-changed", "database changed by an aborted block: +%d -%d"
                         % (len(set(db) - set(snap["db"])), len(set(snap["db"]) - set(db))))
            if prune and {k: v for k, v in trie.ref_count.items() if v} != snap["counts"]:
                res.fail("abort-counts-changed", "reference counts changed by an aborted block")
            info["changed"] = True
        elif outcome == "commit-failed":
            if trie.root_hash != snap["root"]:
                res.fail("commitfail-root-changed", "root changed although the commit failed")
            lost = [k for k, v in snap["db"].items() if db.get(k) != v]
            if lost:
                res.fail("commitfail-removed-entry", "%d pre-existing entries removed or changed" % len(lost))
            bad = [k for k, v in db.items() if keccak(v) != k]
            if bad:
                res.fail("commitfail-not-content-addressed", "%d entries are not keyed by the keccak of their value" % len(bad))
            info["changed"] = True
        # remains a correct map (and, when pruning, exact) afterwards
        for k in sorted(set(model) | set(snap.get("model", {}))):
            try:
                v = trie.get(k)
                if v != model.get(k, b""):
                    res.fail("wrong-after-block" if outcome else "wrong-value", "get(%r)=%r, expected %r" % (k, v, model.get(k, b"")))
            except Exception as e:  # noqa
                res.fail("unreadable-after-block" if outcome else "unreadable", "get(%r) raised %r" % (k, e))
        if prune:
            if set(db) != live:
                res.fail("pruning-inexact", "database keys differ from the live nodes: +%d -%d (last block: %s)"
                         % (len(set(db) - live), len(live - set(db)), outcome))
            if {k: v for k, v in trie.ref_count.items() if v} != counts:
                res.fail("counts-inexact", "reference counts differ from the true ones (last block: %s)" % outcome)
        take(runner, trie, model)

    db = hexlib.FailingDict()
    r = hexlib.HexRunner(res, prune, observe, db=db)
    take(r, r.trie, r.model)
    if len(repr(case["ops"])) % 4 == 1:
        # a block on an UNRELATED trie (own database) stays open around the whole history: two squash_changes blocks alive at
        # the same time must not see each other (seeded change C05p-scratchdb-mutable-default-cache)
        from trie import HexaryTrie as _HT
        bdb = {}
        bt = _HT(bdb, prune=prune)
        bt.set(b"\x77\x01", b"w" * 40)
        bt.set(b"\x77\x02", b"x" * 40)
        res.tags.add("second-trie-block-open-at-the-same-time")
        try:
            with bt.squash_changes() as bb:
                bb.set(b"\x77\x03", b"y" * 40)
                bb.delete(b"\x77\x01")
                r.run(case["ops"])
                bb.set(b"\x77\x02", b"z" * 40)
            want = {b"\x77\x02": b"z" * 40, b"\x77\x03": b"y" * 40}
            if bt.root_hash != hexlib.yp_root(want):
                res.fail("bystander-block-wrong", "a block on an unrelated trie, open meanwhile, committed a wrong root")
            for k, v in list(want.items()) + [(b"\x77\x01", b"")]:
                if bt.get(k) != v:
                    res.fail("bystander-block-wrong", "the unrelated trie reads get(%r) = %r after its block, expected %r" % (k, bt.get(k), v))
            if prune and set(bdb) != set(hexlib.yp_nodes(want)[0]):
                res.fail("bystander-block-wrong", "the unrelated pruning trie's database is not exact after its block")
        except Exception as e:  # noqa
            if isinstance(e, hexlib.BOOMS):
                raise
            res.fail("bystander-block-wrong", "the block on the unrelated trie raised %r" % (e,))
    else:
        r.run(case["ops"])
    res.tags.add("prune" if prune else "noprune")
    res.nontrivial = info["changed"]
    res.state_key = common.sha([prune, case["ops"]])
    return res
