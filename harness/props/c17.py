"""C17 — ScratchDB buffers a batch and commits it atomically or not at all."""
import common
from common import hx

common.import_repo()
from trie.utils.db import ScratchDB  # noqa: E402
import hexlib  # noqa: E402

ID = "C17"
LEAN_IMPORTS = ["PyTrie.Props.C17", "PyTrie.Props.C17More"]
THEOREMS = [
    "PyTrie.Props.C17.wrapped_untouched",
    "PyTrie.Props.C17.read_latest",
    "PyTrie.Props.C17.contains_latest",
    "PyTrie.Props.C17.commit_spec",
    "PyTrie.Props.C17.abort_spec",
    "PyTrie.Props.C17.commit_failure_spec",
    "PyTrie.Props.C17.copy_spec",
    "PyTrie.Props.C17.copy_eq_commit_with_deletes",
    "PyTrie.Props.C17.runBlock_clean",
    "PyTrie.Props.C17.runBlocks_spec",
]
RULE = ("random pre-existing database contents, then a batch_commit block (do_deletes on/off) containing a random script of "
        "writes, deletes, reads, membership tests and copy() over keys that are pre-existing / new / written then deleted / "
        "deleted then rewritten, leaving the block normally, by an exception after every possible number of operations, or with "
        "the n-th write of the commit failing; every read, membership, copy, the wrapped database during and after the block "
        "and the buffer size are compared with the Lean model; oracle: wrapped database untouched while the block is open, "
        "reads see the latest buffered write, a buffered delete reads through, normal exit applies last-write-wins (deletes only "
        "if requested), exceptional exit leaves the wrapped database exactly as it was, buffer empty afterwards in every case; "
        "non-trivial = at least one overwrite or delete of a buffered key; distinct = distinct (contents, script, exit)")
ASSUMPTIONS = ["copy() is specified as it behaves (buffered deletes hide the key); the property's read-through clause concerns "
               "reads and membership"]
BUDGET_S = {"quick": 60, "thorough": 600}


class BoomBase(BaseException):
    """not an Exception (as KeyboardInterrupt, SystemExit, asyncio.CancelledError are not)"""


class Boom(Exception):
    pass


def gen_block(rng, keys):
    script = []
    for _ in range(rng.randint(0, 12)):
        k = rng.choice(keys)
        r = rng.random()
        if r < 0.35:
            script.append(["set", k.hex(), (bytes([rng.randrange(256)]) * rng.randint(0, 2)).hex()])
        elif r < 0.55:
            script.append(["del", k.hex()])
        elif r < 0.75:
            script.append(["get", k.hex()])
        elif r < 0.9:
            script.append(["in", k.hex()])
        else:
            script.append(["copy"])
    q = rng.random()
    if q < 0.45:
        ex = ["ok"]
    elif q < 0.8:
        ex = ["raise", rng.randint(0, len(script))]
    else:
        ex = ["failwrite", rng.randint(0, 4)]
    return {"dd": rng.random() < 0.5, "script": script, "exit": ex}


def gen_cases(rng, tier):
    n = 3000 if tier == "quick" else 60000
    for i in range(n):
        keys = [bytes([rng.randrange(6)]) for _ in range(rng.randint(1, 5))] + [b"", b"\xff\x00"]
        pre = {rng.choice(keys): bytes([rng.randrange(256)]) * rng.randint(0, 3) for _ in range(rng.randint(0, 4))}
        c = gen_block(rng, keys)
        c["pre"] = sorted((k.hex(), v.hex()) for k, v in pre.items())
        c["bystander"] = rng.random() < 0.25
        if rng.random() < 0.4:
            # the SAME ScratchDB object used for further blocks (C17.runBlocks_spec): each starts with an empty buffer
            # over the wrapped database the previous one left
            c["more"] = [gen_block(rng, keys) for _ in range(rng.randint(1, 2))]
        yield c


def fmt(d):
    return ",".join("%s:%s" % (hx(k), hx(v)) for k, v in sorted(d.items())) if d else "-"


def run_case(case):
    res = common.CaseResult()
    pre = {bytes.fromhex(k): bytes.fromhex(v) for k, v in case["pre"]}
    wrapped = hexlib.FailingDict(pre)
    sdb = ScratchDB(wrapped)
    res.emit("sdb.reset", "ok")
    res.emit("sdb.new %s" % fmt(pre), "ok")
    state = {"nontrivial": False}

    def one_block(blk, pre):
        last = {}            # key -> latest buffered action: bytes value or None (deleted)
        ex = blk["exit"]
        raise_at = ex[1] if ex[0] == "raise" else None
        nontrivial = False  # per block
        outcome = None
        try:
            # "deletes are applied only if requested": not requesting them is also done by leaving the argument out
            kw = {} if (not blk["dd"] and len(blk["script"]) % 2 == 0) else {"do_deletes": blk["dd"]}
            with sdb.batch_commit(**kw):
                for i, op in enumerate(blk["script"]):
                    if raise_at is not None and i == raise_at:
                        raise (BoomBase() if len(blk["script"]) % 2 else Boom())
                    kind = op[0]
                    k = bytes.fromhex(op[1]) if len(op) > 1 else None
                    if kind == "set":
                        v = bytes.fromhex(op[2])
                        sdb[k] = v
                        res.emit("sdb.set %s %s" % (hx(k), hx(v)), "ok")
                        nontrivial |= k in last
                        last[k] = v
                    elif kind == "del":
                        del sdb[k]
                        res.emit("sdb.del %s" % hx(k), "ok")
                        nontrivial |= k in last
                        last[k] = None
                    elif kind == "get":
                        try:
                            v = sdb[k]
                            out = "v " + hx(v)
                        except KeyError:
                            v, out = None, "exn KeyError"
                        res.emit("sdb.get %s" % hx(k), out)
                        want = last[k] if last.get(k) is not None else pre.get(k)
                        if v != want:
                            res.fail("read-wrong", "sdb[%r] = %r; latest buffered action %r, wrapped holds %r" % (k, v, last.get(k, "none"), pre.get(k)))
                    elif kind == "in":
                        c = k in sdb
                        res.emit("sdb.contains %s" % hx(k), str(c))
                        want = True if last.get(k) is not None else (k in pre)
                        if c != want:
                            res.fail("membership-wrong", "%r in sdb = %r; latest buffered action %r, wrapped has it: %r" % (k, c, last.get(k, "none"), k in pre))
                    else:
                        res.emit("sdb.copy", fmt(sdb.copy()))
                    if dict(wrapped) != pre:
                        res.fail("wrapped-written-while-open", "the wrapped database changed while the batch was open (after %r)" % (op,))
                    res.emit("sdb.wrapped", fmt(wrapped))
                if raise_at is not None:
                    raise (BoomBase() if len(blk["script"]) % 2 else Boom())
                if ex[0] == "failwrite":
                    wrapped.fail_after = ex[1]
            outcome = "committed"
            res.emit("sdb.commit %d %s" % (1 if blk["dd"] else 0, ex[1] if ex[0] == "failwrite" else "none"), "ok")
        except (Boom, BoomBase) as e:
            outcome = "aborted"
            res.tags.add("abort-by:" + type(e).__name__)
            res.emit("sdb.abort", "ok")
        except hexlib.WriteFailed:
            outcome = "write-failed"
            res.emit("sdb.commit %d %d" % (1 if blk["dd"] else 0, ex[1]), "exn WriteFailed")
        wrapped.fail_after = None
        res.emit("sdb.wrapped", fmt(wrapped))
        res.emit("sdb.cachelen", str(len(sdb.cache)))
        if len(sdb.cache) != 0:
            res.fail("buffer-not-empty", "after the block (%s) the buffer still holds %d entries" % (outcome, len(sdb.cache)))
        if outcome == "aborted" and dict(wrapped) != pre:
            res.fail("abort-changed-wrapped", "the block left by exception, yet the wrapped database changed")
        if outcome == "committed":
            want = dict(pre)
            for k, v in last.items():
                if v is not None:
                    want[k] = v
                elif blk["dd"]:
                    want.pop(k, None)
            if dict(wrapped) != want:
                res.fail("commit-wrong", "after commit (do_deletes=%r) wrapped = %r, expected %r" % (blk["dd"], dict(wrapped), want))
        if outcome == "write-failed":
            for k, v in wrapped.items():
                if pre.get(k) != v and last.get(k) != v:
                    res.fail("failed-commit-garbage", "after a failing commit write, wrapped[%r] = %r is neither old nor buffered" % (k, v))
        state["nontrivial"] |= nontrivial
        res.tags.add("exit:" + outcome)
        res.tags.add("dd:%s" % blk["dd"])

    if case.get("bystander"):
        # a SECOND ScratchDB (its own wrapped dict) has a batch open around the first block: two buffers alive at the same
        # time must not see each other (seeded change C05p-scratchdb-mutable-default-cache: `cache={}` evaluated once)
        bdict = {b"by\x01": b"own"}
        bsdb = ScratchDB(bdict)
        res.tags.add("second-scratchdb-open-at-the-same-time")
        with bsdb.batch_commit(do_deletes=True):
            bsdb[b"by\x02"] = b"two"
            del bsdb[b"by\x01"]
            one_block(case, pre)
            if bsdb.cache.keys() - {b"by\x01", b"by\x02"}:
                res.fail("buffers-shared", "a second ScratchDB's buffer holds keys written through the first: %r" % (sorted(bsdb.cache),))
            bsdb[b"by\x03"] = b"three"
        if bdict != {b"by\x02": b"two", b"by\x03": b"three"}:
            res.fail("buffers-shared", "the second ScratchDB committed %r, it buffered by02=two, by03=three and the deletion of by01" % (bdict,))
        if any(k.startswith(b"by") for k in wrapped):
            res.fail("buffers-shared", "the first ScratchDB's wrapped database received keys buffered in the second one")
    else:
        one_block(case, pre)
    for extra in case.get("more", []):
        res.tags.add("object-reused-for-another-block")
        one_block(extra, dict(wrapped))
    nontrivial = state["nontrivial"]
    res.nontrivial = nontrivial
    res.state_key = common.sha(case)
    return res
