"""Generators and the adapter for HexaryTrie histories, shared by the hexary properties.

A history case is JSON: {"prune": bool, "ops": [op, ...]} with
  ["set", k, v] ["setitem", k, v] ["sete", k] (set to b'')  ["del", k] ["delitem", k]
  ["batch", exit, [op, ...]]      exit = "ok" | "raise"   (squash_changes, not nested)
keys/values are hex strings. The adapter applies them to the real trie (imported from /repo) and
emits, for every call, the equivalent model command together with the canonicalised outcome."""
import os
import common
from common import hx, unhx, nibstr

common.import_repo()
from trie import HexaryTrie  # noqa: E402
from trie.exceptions import MissingTrieNode, MissingTraversalNode, TraversedPartialPath  # noqa: E402
import rlp  # noqa: E402
from eth_hash.auto import keccak  # noqa: E402


# --------------------------------------------------------------------------------------------
# universes
# --------------------------------------------------------------------------------------------
CRAFTED_KEYS = [
    b"", b"\x12", b"\x12\x34", b"\x12\x34\x56", b"\x12\x34\x57", b"\x12\x35", b"\x13",
    b"\x02", b"\x10", b"\x1f", b"\x00", b"\xff", b"\x0f\xff", b"\xf0", b"\x12\x34\x56\x78",
    b"\x12\x04", b"\x12\xf4",
]

BYTE_ALPHABET = [0x00, 0x0f, 0xf0, 0xff, 0x12, 0x10, 0x1f, 0x21, 0x34]
VALUE_LENGTHS = [1, 1, 2, 3, 8, 20, 26, 27, 28, 29, 30, 31, 32, 33, 34, 35, 40, 55, 56, 70]


BIG_VALUE_LENGTHS = [127, 128, 255, 256, 257, 300, 1024]
WIDE = float(os.environ.get("VERIF_WIDE", "0.07"))


def gen_wide_universe(rng, nkeys):
    """Keys as Ethereum uses them and beyond: 32-byte (hash-like) and 20-byte keys, 56..64-byte keys, families that share
    all but the last byte / nibble / a long prefix (extension and leaf paths of 56+ nibbles; hex-prefix strings of 56+ bytes,
    which rlp encodes in its long form), a key that is a proper prefix of such a family and one that extends it."""
    n = rng.choice([20, 32, 32, 32, 56, 64])
    h = bytes(rng.randrange(256) for _ in range(n))
    keys = {h}
    tries = 0
    while len(keys) < nkeys and tries < 100:
        tries += 1
        base = rng.choice(sorted(keys))
        how = rng.random()
        if how < 0.3:
            k = base[:-1] + bytes([(base[-1] & 0xf0) | rng.choice([0, 15, rng.randrange(16)])])
        elif how < 0.5:
            k = base[:-1] + bytes([(base[-1] & 0x0f) | (rng.choice([0, 15, rng.randrange(16)]) << 4)])
        elif how < 0.7:
            cut = rng.choice([1, 2, 4, n // 2, n - 1, n - 2])
            k = base[:cut] + bytes(rng.randrange(256) for _ in range(len(base) - cut))
        elif how < 0.8:
            k = base + bytes([rng.choice([0, 0xff, 0x10])])
        elif how < 0.9:
            k = base[:rng.choice([n - 1, n - 2, n // 2, 1])]
        else:
            k = bytes(rng.randrange(256) for _ in range(n))
        keys.add(k)
    return sorted(keys)


def gen_universe(rng, nkeys):
    """Key pool with heavy prefix sharing: the empty key, prefixes, extensions, siblings differing
    in the high or the low nibble (children 0 and 15 included)."""
    if rng.random() < WIDE:
        return gen_wide_universe(rng, nkeys)
    keys = set()
    stems = [bytes(rng.choice(BYTE_ALPHABET) for _ in range(rng.randint(1, 4))) for _ in range(rng.randint(1, 3))]
    if rng.random() < 0.4:
        keys.add(b"")
    tries = 0
    while len(keys) < nkeys and tries < 200:
        tries += 1
        base = rng.choice(stems + sorted(keys)) if keys and rng.random() < 0.6 else rng.choice(stems)
        how = rng.random()
        if how < 0.25 and len(base) > 0:
            k = base[:rng.randint(0, len(base))]
        elif how < 0.55:
            k = base + bytes(rng.choice(BYTE_ALPHABET) for _ in range(rng.randint(1, 2)))
        elif how < 0.8 and len(base) > 0:
            last = base[-1]
            if rng.random() < 0.5:
                last = (last & 0xf0) | rng.choice([0, 15, rng.randrange(16)])
            else:
                last = (last & 0x0f) | (rng.choice([0, 15, rng.randrange(16)]) << 4)
            k = base[:-1] + bytes([last])
        else:
            k = base
        keys.add(k)
    return sorted(keys)


def gen_value(rng, pool=None):
    if pool and rng.random() < 0.5:
        return rng.choice(pool)
    n = rng.choice(VALUE_LENGTHS)
    r = rng.random()
    if r > 0.97:
        # contents that look like something else: a 32-byte hash (of a pool value), the rlp of a leaf / of a two-item node
        # holding a hash, single bytes at the rlp boundaries, 32 zero bytes
        base = (pool[0] if pool else b"a")
        return rng.choice([keccak(base), rlp.encode([b"\x20", base[:8]]), rlp.encode([b"\x00\x12", keccak(base)]),
                           b"\x00", b"\x7f", b"\x80", b"\xc0", b"\xff", bytes(32), b"\x80" * 33])
    if r < 0.04:
        n = rng.choice(BIG_VALUE_LENGTHS)      # rlp long strings: one and two length bytes
    elif r < 0.043:
        n = rng.choice([65535, 65536, 65600])  # three length bytes
    c = rng.choice(b"abc")
    if rng.random() < 0.2:
        return bytes(rng.randrange(256) for _ in range(n))
    return bytes([c]) * n


def probe_keys(universe, rng=None):
    """Lookup keys: the universe, proper prefixes, one-byte extensions and siblings of its keys."""
    ps = set(universe)
    for k in universe:
        # every proper prefix of a short key; of a long key (wide universes) the ends and the middle
        for i in (range(len(k)) if len(k) <= 8 else (0, 1, 2, len(k) // 2, len(k) - 2, len(k) - 1)):
            ps.add(k[:i])
        ps.add(k + b"\x00")
        ps.add(k + b"\xff")
        if k:
            ps.add(k[:-1] + bytes([k[-1] ^ 0x01]))
            ps.add(k[:-1] + bytes([k[-1] ^ 0x10]))
    return sorted(ps)


def gen_simple_op(rng, keys, values):
    k = rng.choice(keys)
    r = rng.random()
    if r < 0.45:
        return ["set", k.hex(), gen_value(rng, values).hex()]
    if r < 0.6:
        return ["setitem", k.hex(), gen_value(rng, values).hex()]
    if r < 0.75:
        return ["del", k.hex()]
    if r < 0.9:
        return ["delitem", k.hex()]
    return ["sete", k.hex()]


def gen_twin_setup(rng):
    """Identical sub-tries under two or three prefixes: the same tails with the same long values below each prefix, so the
    branch (and extension) bodies below the prefixes are ONE stored node referenced several times (reference count >= 2
    for an inner node, not only for leaves). Returns (keys, values, setup ops)."""
    plen = rng.choice([1, 2, 2])
    first = bytes(rng.choice(BYTE_ALPHABET) for _ in range(plen))
    prefixes = {first}
    want = rng.choice([2, 2, 3])
    for _ in range(20):
        if len(prefixes) >= want:
            break
        p = bytearray(first)
        i = rng.randrange(plen)
        p[i] = rng.choice([p[i] ^ 0x10, p[i] ^ 0x01, p[i] ^ 0xff, rng.choice(BYTE_ALPHABET)]) & 0xff
        prefixes.add(bytes(p))
    prefixes = sorted(prefixes)
    stem = bytes(rng.choice(BYTE_ALPHABET) for _ in range(rng.choice([0, 0, 1])))
    tails = set()
    want = rng.choice([2, 3, 3])
    for _ in range(20):
        if len(tails) >= want:
            break
        tails.add(stem + bytes([rng.choice([0x01, 0x02, 0x03, 0x10, 0x1f, 0xf0, 0x00, 0xff])]))
    tails = sorted(tails)
    vals = {t: bytes([rng.choice(b"xyz")]) * rng.choice([33, 40, 40, 56]) for t in tails}
    setup = [["set", (p + t).hex(), vals[t].hex()] for p in prefixes for t in tails]
    rng.shuffle(setup)
    keys = [p + t for p in prefixes for t in tails] + prefixes
    return keys, sorted(set(vals.values())), setup


def gen_history(rng, keys, values, nops, batch_prob=0.15, raise_prob=0.3, twins=0.12):
    ops = []
    if rng.random() < twins:
        tkeys, tvals, setup = gen_twin_setup(rng)
        ops += setup
        # the mutations that follow mostly hit the twin keys
        keys = tkeys * 3 + list(keys)
        values = list(values) + tvals
        nops += len(ops)
    while len(ops) < nops:
        if rng.random() < batch_prob:
            inner = [gen_simple_op(rng, keys, values) for _ in range(rng.randint(0, 5))]
            ops.append(["batch", "raise" if rng.random() < raise_prob else "ok", inner])
        else:
            ops.append(gen_simple_op(rng, keys, values))
    return ops


# --------------------------------------------------------------------------------------------
# canonicalisation
# --------------------------------------------------------------------------------------------
def fmt_exc(e):
    if isinstance(e, MissingTrieNode):
        pre = "None" if e.prefix is None else nibstr(e.prefix)
        return "exn MissingTrieNode %s %s %s %s" % (hx(bytes(e.missing_node_hash)), hx(bytes(e.root_hash)),
                                                    hx(bytes(e.requested_key)), pre)
    if isinstance(e, MissingTraversalNode):
        return "exn MissingTraversalNode %s %s" % (hx(bytes(e.missing_node_hash)), nibstr(e.nibbles_traversed))
    return "exn " + common.exc_name(e)


def fmt_db(db):
    items = sorted((k.hex(), v.hex()) for k, v in db.items())
    return ",".join("%s:%s" % kv for kv in items) if items else "-"


def fmt_dbkeys(db):
    ks = sorted(k.hex() for k in db.keys())
    return ",".join(ks) if ks else "-"


def fmt_counts(c):
    items = sorted((k.hex(), v) for k, v in c.items() if v != 0)
    return ",".join("%s:%d" % kv for kv in items) if items else "-"


KIND = {0: "blank", 1: "leaf", 2: "ext", 3: "branch"}


def fmt_ann(n):
    subs = ",".join(nibstr(s) for s in n.sub_segments) if n.sub_segments else "-"
    return "%s subs=%s value=%s suffix=%s raw=%s" % (
        KIND[int(n.node_type)], subs, hx(bytes(n.value)), nibstr(n.suffix), hx(rlp.encode(n.raw)))


def fmt_traverse(fn, reraise_missing=False):
    """fn() performs traverse/traverse_from; returns the canonical line."""
    try:
        n = fn()
        return "node " + fmt_ann(n)
    except TraversedPartialPath as e:
        return "partial traversed=%s tail=%s node=[%s] sim=[%s]" % (
            nibstr(e.nibbles_traversed), nibstr(e.untraversed_tail), fmt_ann(e.node), fmt_ann(e.simulated_node))
    except (MissingTrieNode, MissingTraversalNode) as e:
        if reraise_missing:
            raise
        return fmt_exc(e)
    except Exception as e:  # noqa
        return fmt_exc(e)


class BytesSub(bytes):
    """a bytes subclass (as hexbytes.HexBytes is): accepted wherever bytes are"""


def sub_bytes(b, selector):
    """the same byte string, as a plain bytes object or as an instance of a bytes subclass (deterministic in the case)"""
    return BytesSub(b) if selector % 3 == 0 else b


class Boom(Exception):
    """raised by the harness inside a squash_changes block"""


class BoomBase(BaseException):
    """the same, but not an Exception (as KeyboardInterrupt, SystemExit, asyncio.CancelledError are not): a block left by
    one of these is left by an exception all the same"""


BOOMS = (Boom, BoomBase)


def boom(selector):
    """the exception a harness-aborted block is left by; alternates between the two kinds, determined by the case"""
    return BoomBase() if selector % 2 else Boom()


class WriteFailed(Exception):
    """raised by FailingDict.__setitem__"""


class FailingDict(dict):
    """a database whose n-th write from now fails (fail_after = n, None = never); counts writes"""

    def __init__(self, *a, **kw):
        super().__init__(*a, **kw)
        self.fail_after = None
        self.writes = 0

    def __setitem__(self, k, v):
        if self.fail_after is not None:
            if self.fail_after == 0:
                raise WriteFailed()
            self.fail_after -= 1
        self.writes += 1
        super().__setitem__(k, v)


# --------------------------------------------------------------------------------------------
# the adapter
# --------------------------------------------------------------------------------------------
class HexRunner:
    """Applies a history to a real HexaryTrie and mirrors it as model commands.

    observe(runner, target, trie) is called after every operation (target = "0" or "b"); it
    emits whatever observations the property compares and runs its oracle."""

    def __init__(self, res, prune, observe=None, db=None, raw_tie=False, reopen=False):
        self.res = res
        self.raw_tie = raw_tie
        self.reopen = reopen        # replace the trie object mid-history by one re-opened on a fresh copy of the root hash
        self.db = {} if db is None else db
        self.trie = HexaryTrie(self.db, prune=prune)
        self.prune = prune
        self.observe = observe
        self.model = {}          # dict oracle of the outer trie's contents
        res.emit("hx.reset", "ok")
        res.emit("hx.new %d" % (1 if prune else 0), "0")
        # whole-history raw-level run (HexRaw.rawOp threaded over its own root and database): in step with the real
        # trie as long as only direct, successful operations on a fresh non-pruning trie over an empty dict happened
        self.rr_sync = bool(raw_tie and not prune and db is None)
        if self.rr_sync:
            res.emit("hx.rrnew", "ok")
        # the tree-free executor (Model/HexFree.lean: root hash + database, raw-level _set/_delete produce the events, the pruning
        # bookkeeping applies them) run alongside every direct operation of a fresh trie, pruning on or off, until a batch occurs
        self.free_sync = db is None or len(db) == 0
        if self.free_sync:
            res.emit("hx.fnew %d" % (1 if prune else 0), "ok")

    def call(self, line, fn, raw=None, free=None):
        try:
            fn()
            out = "ok"
        except BOOMS:
            raise
        except Exception as e:  # noqa
            out = fmt_exc(e)
        if free is not None and self.free_sync:
            ftg, ftrie, fk, fv = free
            self.res.emit("hx.fop %s %s %s" % (ftg, hx(fk), "none" if fv is None else hx(fv)), out)
            self.res.emit("hx.froot %s" % ftg, hx(ftrie.root_hash))
            self.res.emit("hx.fdb", fmt_db(self.db))
            if ftrie.is_pruning:
                self.res.emit("hx.fcounts %s" % ftg, fmt_counts(ftrie.ref_count))
            self.res.tags.add("tree-free-executor-tied" + (":batch" if ftg == "b" else ""))
        if raw is not None and out == "ok":
            # raw-level model (statement-by-statement transcription of _set/_delete over raw nodes) on the
            # database as it was before the call: new root and the entries the call added
            before, root_before, k, v = raw
            added = sorted((a.hex(), b.hex()) for a, b in self.db.items() if a not in before)
            self.res.emit("hx.rawop %s %s %s" % (hx(root_before), hx(k), "none" if v is None else hx(v)),
                          "root=%s added=%s" % (hx(self.trie.root_hash), ",".join("%s:%s" % ab for ab in added) if added else "-"))
            self.res.tags.add("raw-level-tied")
            if self.rr_sync:
                self.res.emit("hx.rrop %s %s" % (hx(k), "none" if v is None else hx(v)), "root=%s" % hx(self.trie.root_hash))
        elif raw is not None or line.startswith(("hx.set 0", "hx.del 0")):
            self.rr_sync = False
        self.res.emit(line, out)
        return out

    def finish_raw(self, keys):
        """end of a history: the raw-level run's database and lookups against the real ones"""
        if not self.rr_sync:
            return
        self.res.emit("hx.rrdb", fmt_db(self.db))
        for k in keys:
            try:
                v = self.trie.get(k)
                out = "v " + hx(v)
            except Exception as e:  # noqa
                out = "exn " + common.exc_name(e)
            self.res.emit("hx.rrget %s" % hx(k), out)
        self.res.tags.add("raw-level-history-tied")

    def simple(self, tg, trie, model, op):
        kind = op[0]
        k = bytes.fromhex(op[1])
        self.res.tags.add("op:" + kind)
        raw_before = None
        if self.raw_tie and tg == "0" and not self.prune:
            raw_before = (dict(self.db), trie.root_hash)
        out = self._simple(tg, trie, model, op, kind, k, raw_before)
        return out

    def _simple(self, tg, trie, model, op, kind, k, raw_before):
        if kind == "set":
            v = bytes.fromhex(op[2])
            raw = raw_before and raw_before + (k, v)
            out = self.call("hx.set %s %s %s" % (tg, hx(k), hx(v)), lambda: trie.set(sub_bytes(k, len(v)), sub_bytes(v, len(k) + len(v))), raw, (tg, trie, k, v))
        elif kind == "setitem":
            v = bytes.fromhex(op[2])
            raw = raw_before and raw_before + (k, v)
            out = self.call("hx.set %s %s %s" % (tg, hx(k), hx(v)), lambda: trie.__setitem__(k, v), raw, (tg, trie, k, v))
        elif kind == "sete":
            v = b""
            raw = raw_before and raw_before + (k, b"")
            out = self.call("hx.set %s %s -" % (tg, hx(k)), lambda: trie.set(k, sub_bytes(b"", len(k))), raw, (tg, trie, k, b""))
        elif kind == "del":
            v = b""
            raw = raw_before and raw_before + (k, None)
            out = self.call("hx.del %s %s" % (tg, hx(k)), lambda: trie.delete(k), raw, (tg, trie, k, None))
        elif kind == "delitem":
            v = b""
            raw = raw_before and raw_before + (k, None)
            out = self.call("hx.del %s %s" % (tg, hx(k)), lambda: trie.__delitem__(k), raw, (tg, trie, k, None))
        else:
            raise ValueError(op)
        if out == "ok":
            if v:
                if k in model:
                    self.res.tags.add("overwrite")
                model[k] = v
            else:
                if k in model:
                    self.res.tags.add("delete-present")
                else:
                    self.res.tags.add("delete-absent")
                model.pop(k, None)
        return out

    def run(self, ops):
        reopen_at = (len(ops) * 5 + 3) % (len(ops) + 1) if (self.reopen and not self.prune and ops) else None
        for opno, op in enumerate(ops):
            if opno == reopen_at:
                # the same database, an equal-but-not-identical root hash object (the blank root included): a new trie object
                self.trie = HexaryTrie(self.db, bytes(bytearray(self.trie.root_hash)), prune=False)
                self.res.tags.add("reopened" + (":blank-root" if not self.model else ""))
            if op[0] == "batch":
                self.batch(op[1], op[2])
            elif op[0] == "failfirst":
                # the FIRST database write of this operation is refused (needs a FailingDict): nothing was written or counted
                # before it, so the operation must leave root, database and reference counts as they were
                self.db.fail_after = 0
                self.res.emit("hx.failafter 0", "ok")
                if self.free_sync:
                    self.res.emit("hx.ffailafter 0", "ok")
                out = self.simple("0", self.trie, self.model, op[1])
                self.db.fail_after = None
                self.res.emit("hx.failafter none", "ok")
                if self.free_sync:
                    self.res.emit("hx.ffailafter none", "ok")
                self.res.tags.add("first-write-refused:" + ("hit" if out != "ok" else "operation-writes-nothing"))
                if self.observe:
                    self.observe(self, "0", self.trie, self.model)
            else:
                self.simple("0", self.trie, self.model, op)
                if self.observe:
                    self.observe(self, "0", self.trie, self.model)

    def batch(self, exit_kind, inner):
        """exit_kind: "ok" | "raise" (after all inner ops) | ["raise", n] (after n inner ops) |
        ["failcommit", n] (the n-th write of the commit fails; needs a FailingDict)"""
        kind = exit_kind if isinstance(exit_kind, str) else exit_kind[0]
        self.rr_sync = False
        self.res.tags.add("batch:" + kind)
        self.res.emit("hx.bbegin 0", "ok")
        if self.free_sync:
            self.res.emit("hx.fbbegin", "ok")
        bmodel = dict(self.model)
        raise_at = len(inner) if exit_kind == "raise" else (min(exit_kind[1], len(inner)) if kind == "raise" else None)
        outcome = None
        try:
            with self.trie.squash_changes() as b:
                for i, op in enumerate(inner):
                    if raise_at is not None and i == raise_at:
                        raise boom(len(inner))
                    self.simple("b", b, bmodel, op)
                    if self.observe:
                        self.observe(self, "b", b, bmodel)
                if raise_at is not None:
                    raise boom(len(inner))
                if kind == "failcommit":
                    self.res.emit("hx.failafter %d" % exit_kind[1], "ok")
                    if self.free_sync:
                        self.res.emit("hx.ffailafter %d" % exit_kind[1], "ok")
                    self.db.fail_after = exit_kind[1]
        except BOOMS as e:
            self.res.emit("hx.bend 1", "ok")
            if self.free_sync:
                self.res.emit("hx.fbend 1", "ok")
            outcome = "aborted"
            self.res.tags.add("abort-by:" + type(e).__name__)
        except WriteFailed:
            self.res.emit("hx.bend 0", "exn WriteFailed")
            if self.free_sync:
                self.res.emit("hx.fbend 0", "exn WriteFailed")
            outcome = "commit-failed"
        except Exception as e:  # noqa  (nothing else may leave a block on a complete database)
            self.res.emit("hx.bend 0", fmt_exc(e))
            self.res.fail("batch-raised", "squash_changes block raised %r" % (e,))
            self.free_sync = False
            outcome = "raised"
        else:
            self.res.emit("hx.bend 0", "ok")
            if self.free_sync:
                self.res.emit("hx.fbend 0", "ok")
            self.model.clear()
            self.model.update(bmodel)
            outcome = "committed"
        if kind == "failcommit":
            self.db.fail_after = None
            self.res.emit("hx.failafter none", "ok")
            if self.free_sync:
                self.res.emit("hx.ffailafter none", "ok")
        if self.free_sync:
            # after the block: outer root, database and counts of the tree-free world
            self.res.emit("hx.froot 0", hx(self.trie.root_hash))
            self.res.emit("hx.fdb", fmt_db(self.db))
            if self.prune:
                self.res.emit("hx.fcounts 0", fmt_counts(self.trie.ref_count))
        self.res.tags.add("batch-outcome:" + outcome)
        self.last_batch_outcome = outcome
        if self.observe:
            self.observe(self, "0", self.trie, self.model)


# --------------------------------------------------------------------------------------------
# independent Yellow-Paper root (oracle for C02): c(J, i), n(J, i), TRIE(J)
# --------------------------------------------------------------------------------------------
def _nib(b):
    out = []
    for x in b:
        out += [x >> 4, x & 15]
    return tuple(out)


def _hp(nibbles, t):
    flag = 2 if t else 0
    if len(nibbles) % 2:
        ns = (flag + 1,) + tuple(nibbles)
    else:
        ns = (flag, 0) + tuple(nibbles)
    return bytes(ns[i] * 16 + ns[i + 1] for i in range(0, len(ns), 2))


def yp_c(J, i):
    if not J:
        return b""
    if len(J) == 1:
        k, v = J[0]
        return [_hp(k[i:], True), v]
    k0 = J[0][0]
    j = min(len(k) for k, _ in J)
    for k, _ in J:
        m = i
        while m < j and k[m] == k0[m]:
            m += 1
        j = m
    if j > i:
        return [_hp(k0[i:j], False), yp_n(J, j)]
    node = []
    for x in range(16):
        node.append(yp_n([(k, v) for k, v in J if len(k) > i and k[i] == x], i + 1))
    vs = [v for k, v in J if len(k) == i]
    node.append(vs[0] if vs else b"")
    return node


def yp_n(J, i):
    if not J:
        return b""
    s = yp_c(J, i)
    e = rlp.encode(s)
    if len(e) < 32:
        return s
    return keccak(e)


def yp_root(d):
    J = [(_nib(k), v) for k, v in d.items()]
    return keccak(rlp.encode(yp_c(J, 0)))


def yp_nodes(d):
    """Multiset {hash: count} of stored nodes of the canonical trie of d: the root (always), and
    every node whose encoding has at least 32 bytes, counted once per occurrence."""
    counts = {}
    bodies = {}
    J = [(_nib(k), v) for k, v in d.items()]

    def visit(s, is_root):
        if s == b"":
            return
        e = rlp.encode(s)
        if is_root or len(e) >= 32:
            h = keccak(e)
            counts[h] = counts.get(h, 0) + 1
            bodies[h] = e

    def walk(Jsub, i, is_root):
        if not Jsub:
            return
        s = yp_c(Jsub, i)
        visit(s, is_root)
        if len(s) == 2:
            if len(Jsub) > 1:
                # extension: child after the common prefix
                k0 = Jsub[0][0]
                j = min(len(k) for k, _ in Jsub)
                for k, _ in Jsub:
                    m = i
                    while m < j and k[m] == k0[m]:
                        m += 1
                    j = m
                walk(Jsub, j, False)
        else:
            for x in range(16):
                walk([(k, v) for k, v in Jsub if len(k) > i and k[i] == x], i + 1, False)

    walk(J, 0, True)
    return counts, bodies


# --------------------------------------------------------------------------------------------
# independent walker over a database of encoded nodes (oracle for C03 / C07 / C08)
# --------------------------------------------------------------------------------------------
BLANK_ROOT = keccak(rlp.encode(b""))


def hp_decode(k):
    """hex-prefix decoding -> (nibbles, is_leaf)"""
    ns = _nib(k)
    flag = ns[0]
    ns = ns[1:] if flag & 1 else ns[2:]
    return tuple(ns), bool(flag & 2)


def resolve(db, ref):
    """child reference -> (raw node, hash or None); raises KeyError(hash) when absent"""
    if ref == b"":
        return b"", None
    if isinstance(ref, list):
        return ref, None
    if ref == BLANK_ROOT:
        return b"", None
    return rlp.decode(db[ref]), ref


def path_walk(db, root_hash, nibbles):
    """Nodes met when following `nibbles` from the root, as [(prefix, raw node, hash or None)],
    stopping where the key's path leaves the trie. Missing bodies raise KeyError(hash)."""
    out = []
    node, h = resolve(db, root_hash)
    pre = ()
    rem = tuple(nibbles)
    while True:
        if node == b"":
            return out
        out.append((pre, node, h))
        if len(node) == 2:
            p, leaf = hp_decode(node[0])
            if leaf or rem[:len(p)] != p:
                return out
            pre, rem = pre + p, rem[len(p):]
            node, h = resolve(db, node[1])
        else:
            if not rem:
                return out
            pre, a, rem = pre + (rem[0],), rem[0], rem[1:]
            node, h = resolve(db, node[a])
