"""Shared machinery of the checks: building the Lean project, the proof gate (axiom audit of the
registered theorems), running the compiled model driver, parallel case execution, comparison of
implementation and model, shrinking, verdicts, replays and evidence.

Nothing in here knows about a particular property; the property modules under harness/props
provide generators, the adapter that runs a case against the real code (imported from /repo), the
model-free oracle and the list of theorems."""
import hashlib
import json
import multiprocessing
import os
import random
import re
import subprocess
import sys
import time
import traceback

VERIF = os.path.dirname(os.path.dirname(os.path.abspath(__file__)))
LEAN_DIR = os.path.join(VERIF, "lean")
MODEL_BIN = os.path.join(LEAN_DIR, ".lake", "build", "bin", "trie_model")
REPO = os.environ.get("VERIF_REPO", "/repo")
EVIDENCE_DIR = os.environ.get("VERIF_EVIDENCE_DIR") or os.path.join(VERIF, "evidence")
REPLAY_DIR = os.environ.get("VERIF_REPLAY_DIR") or os.path.join(VERIF, "replays")
CORPUS_DIR = os.path.join(VERIF, "corpus")
KNOWN_FINDINGS = os.path.join(VERIF, "known-findings.txt")
NCPU = int(os.environ.get("VERIF_JOBS", str(min(16, os.cpu_count() or 1))))
ALLOWED_AXIOMS = {"propext", "Classical.choice", "Quot.sound"}
FORBIDDEN = re.compile(
    r"\bsorry\b|\badmit\b|^\s*axiom\s|native_decide|bv_decide|implemented_by|\bunsafe\s|maxHeartbeats\s+0"
)


def hx(b):
    """bytes -> protocol token; anything that is not a byte string (an implementation handing back None, a sentinel object,
    a str …) becomes a token no model output can equal, so that the comparison fails instead of the adapter"""
    if isinstance(b, (bytes, bytearray, memoryview)):
        return bytes(b).hex() if b else "-"
    if b is None or b == b"":
        return "-"
    return "!" + type(b).__name__


def unhx(s):
    return b"" if s == "-" else bytes.fromhex(s)


def nibstr(nibbles):
    return "".join("%x" % n for n in nibbles) if len(nibbles) else "-"


def sha(obj):
    return hashlib.sha1(json.dumps(obj, sort_keys=True, default=str).encode()).hexdigest()[:16]


# --------------------------------------------------------------------------------------------
# repository under test
# --------------------------------------------------------------------------------------------
def exc_name(e, allow_foreign=False):
    """class name of an exception the implementation raised. The library's own `trie.exceptions.ValidationError` and
    `eth_utils.ValidationError` are unrelated classes with the same name: a caller's `except ValidationError` catches one of
    them. Everything except `trie/fog.py` raises the library's own; a same-named foreign class is reported as such."""
    n = type(e).__name__
    if n == "ValidationError" and not allow_foreign:
        import trie.exceptions
        if not isinstance(e, trie.exceptions.ValidationError):
            return "ValidationError@" + type(e).__module__
    return n


def import_repo():
    """Import the implementation from the repository's working tree and make sure that is what
    we got (the interpreter has /repo installed in editable mode)."""
    if REPO not in sys.path:
        sys.path.insert(0, REPO)
    import trie  # noqa

    where = os.path.realpath(os.path.dirname(trie.__file__))
    want = os.path.realpath(os.path.join(REPO, "trie"))
    if where != want:
        raise RuntimeError("trie imported from %s, expected %s" % (where, want))
    return trie


# --------------------------------------------------------------------------------------------
# Lean side
# --------------------------------------------------------------------------------------------
def lake_build(targets=None, clean=False):
    """Build the library and the driver (a no-op taking well under a second when fresh).
    Returns (ok, output)."""
    if clean:
        subprocess.run(["rm", "-rf", os.path.join(LEAN_DIR, ".lake", "build")])
    cmd = ["lake", "build"] + (targets or [])
    p = subprocess.run(cmd, cwd=LEAN_DIR, stdout=subprocess.PIPE, stderr=subprocess.STDOUT, text=True)
    return p.returncode == 0, p.stdout


def strip_comments(src):
    src = re.sub(r"/-.*?-/", "", src, flags=re.S)
    return "\n".join(line.split("--")[0] for line in src.splitlines())


def grep_forbidden():
    """sorry/admit/axiom/native_decide/... anywhere in the Lean sources (comments discarded)."""
    hits = []
    for root, _dirs, files in os.walk(LEAN_DIR):
        if ".lake" in root:
            continue
        for f in files:
            if f.endswith(".lean"):
                p = os.path.join(root, f)
                for i, line in enumerate(strip_comments(open(p).read()).splitlines(), 1):
                    if FORBIDDEN.search(line):
                        hits.append("%s:%d: %s" % (os.path.relpath(p, VERIF), i, line.strip()))
    return hits


def audit_axioms(imports, theorems):
    """`#print axioms` for every registered theorem; returns {theorem: set(axioms) | None}."""
    src = "".join("import %s\n" % m for m in imports)
    src += "".join("#print axioms %s\n" % t for t in theorems)
    tmp = os.path.join(LEAN_DIR, ".lake", "audit_%d.lean" % os.getpid())
    os.makedirs(os.path.dirname(tmp), exist_ok=True)
    with open(tmp, "w") as f:
        f.write(src)
    try:
        p = subprocess.run(["lake", "env", "lean", tmp], cwd=LEAN_DIR, stdout=subprocess.PIPE,
                           stderr=subprocess.STDOUT, text=True)
    finally:
        os.unlink(tmp)
    out = p.stdout
    res = {t: None for t in theorems}
    # messages look like: "'Foo.bar' depends on axioms: [propext, Quot.sound]" or
    # "'Foo.bar' does not depend on any axioms"
    flat = re.sub(r"\s+", " ", out)
    # (names may end in primes: "'Foo.bar'' depends on …")
    for m in re.finditer(r"'(\S+?)' depends on axioms: \[([^\]]*)\]", flat):
        res[m.group(1)] = {a.strip() for a in m.group(2).split(",") if a.strip()}
    for m in re.finditer(r"'(\S+?)' does not depend on any axioms", flat):
        res[m.group(1)] = set()
    return res, out


def proof_gate(imports, theorems, tier):
    """Returns dict(ok, obligations, discharged, failed=[...], detail)."""
    ok_build, out = lake_build(clean=(tier == "thorough" and os.environ.get("VERIF_CLEAN_BUILD") == "1"))
    failed = []
    detail = []
    if not ok_build:
        detail.append("lake build failed:\n" + out[-4000:])
    hits = grep_forbidden()
    if hits:
        detail.append("forbidden constructs: " + "; ".join(hits[:10]))
    discharged = 0
    if ok_build:
        res, raw = audit_axioms(imports, theorems)
        for t in theorems:
            ax = res.get(t)
            if ax is None:
                failed.append(t)
                detail.append("theorem %s not found / not checked" % t)
            elif not ax <= ALLOWED_AXIOMS:
                failed.append(t)
                detail.append("theorem %s uses axioms %s" % (t, sorted(ax)))
            else:
                discharged += 1
        if failed and len(raw) < 3000:
            detail.append(raw)
    else:
        failed = list(theorems)
    if tier == "thorough" and ok_build and not failed:
        p = subprocess.run(["lake", "env", "leanchecker"] + list(imports), cwd=LEAN_DIR,
                           stdout=subprocess.PIPE, stderr=subprocess.STDOUT, text=True)
        if p.returncode != 0:
            detail.append("leanchecker failed:\n" + p.stdout[-2000:])
            failed = list(theorems)
            discharged = 0
    return dict(ok=ok_build and not failed and not hits, obligations=len(theorems),
                discharged=discharged, failed=failed, detail=detail)


def run_model(lines):
    """Feed command lines to the compiled model driver, return the reply lines."""
    data = ("\n".join(lines) + "\n").encode()
    p = subprocess.run([MODEL_BIN], input=data, stdout=subprocess.PIPE, stderr=subprocess.PIPE)
    if p.returncode != 0:
        raise RuntimeError("model driver failed: " + p.stderr.decode()[-500:])
    out = p.stdout.decode().split("\n")
    if out and out[-1] == "":
        out.pop()
    if len(out) != len(lines):
        raise RuntimeError("model driver answered %d lines for %d commands" % (len(out), len(lines)))
    return out


SELFTEST = [
    # Keccak / RLP / hex-prefix / trie construction pinned to vectors from outside py-trie:
    # constants.py hashes and four ethereum/tests trietest roots.
    ("hx.reset", "ok"),
    ("hx.new 0", "0"),
    ("hx.root 0", "56e81f171bcc55a6ff8345e692c0f86e5b48e01b996cadc001622fb5e363b421"),
    ("hx.set 0 41 " + (b"a" * 50).hex(), "ok"),
    ("hx.root 0", "d23786fb4a010da3ce639d66d5e904a11dbc02746d1ce25029e53290cabf28ab"),
    ("hx.reset", "ok"),
    ("hx.new 1", "0"),
    ("hx.set 0 %s %s" % (b"doe".hex(), b"reindeer".hex()), "ok"),
    ("hx.set 0 %s %s" % (b"dog".hex(), b"puppy".hex()), "ok"),
    ("hx.set 0 %s %s" % (b"dogglesworth".hex(), b"cat".hex()), "ok"),
    ("hx.root 0", "8aad789dff2f538bca5d8ea56e8abe10f4c7ba3a5dea95fea4cd6e7c3a1168d3"),
    ("hx.reset", "ok"),
    ("hx.new 0", "0"),
    ("hx.set 0 %s %s" % (b"do".hex(), b"verb".hex()), "ok"),
    ("hx.set 0 %s %s" % (b"horse".hex(), b"stallion".hex()), "ok"),
    ("hx.set 0 %s %s" % (b"doge".hex(), b"coin".hex()), "ok"),
    ("hx.set 0 %s %s" % (b"dog".hex(), b"puppy".hex()), "ok"),
    ("hx.root 0", "5991bb8c6514148a29db676a14ac506cd2cd5775ace63c30a4fe457715e9ac84"),
    ("hx.reset", "ok"),
    ("hx.new 0", "0"),
    ("hx.set 0 %s %s" % (b"foo".hex(), b"bar".hex()), "ok"),
    ("hx.set 0 %s %s" % (b"food".hex(), b"bass".hex()), "ok"),
    ("hx.root 0", "17beaa1648bafa633cda809c90c04af50fc8aed3cb40d16efbddee6fdf63c4c3"),
]


def model_selftest():
    out = run_model([l for l, _ in SELFTEST])
    bad = [(l, e, o) for (l, e), o in zip(SELFTEST, out) if e != o]
    return bad


# --------------------------------------------------------------------------------------------
# cases
# --------------------------------------------------------------------------------------------
class CaseResult:
    """What running one case against the implementation produced.

    steps    : [(model command line, canonical implementation output)]
    oracle   : list of model-free property failures, each {"clause":…, "detail":…}
    tags     : set of strings describing which situations the case exercised
    state_key: canonical description of the final state (for distinct counting)
    nontrivial: whether the case counts as non-trivial under the property's rule
    """

    last = None      # the result object of the case that is running (see safe_run_case)

    def __init__(self):
        CaseResult.last = self
        self.steps = []
        self.oracle = []
        self.tags = set()
        self.state_key = None
        self.nontrivial = False

    def emit(self, line, out):
        self.steps.append((line, out))

    def fail(self, clause, detail):
        self.oracle.append({"clause": clause, "detail": detail})


def compare_with_model(results):
    """results: list of CaseResult. Returns per case the index of the first differing step
    (or None)."""
    lines = []
    for r in results:
        lines.extend(l for l, _ in r.steps)
    if not lines:
        return [None] * len(results)
    outs = run_model(lines)
    diffs = []
    pos = 0
    for r in results:
        d = None
        for i, (l, exp) in enumerate(r.steps):
            if d is None and outs[pos + i] != exp:
                d = dict(step=i, line=l, impl=exp, model=outs[pos + i])
        pos += len(r.steps)
        diffs.append(d)
    return diffs


def vary(seq, nib=False, gen=False):
    """the same sequence in another container the API accepts (tuple / list / trie.typing.Nibbles for nibble paths; with
    gen=True also a one-shot iterator, for arguments the library only iterates); which one is a deterministic function of
    the content, so that replays are exact"""
    seq = tuple(seq)
    sel = (len(seq) + sum(x if isinstance(x, int) else len(x) for x in seq[:3])) % (4 if gen else 3)
    if sel == 0:
        return seq
    if sel == 1:
        return list(seq)
    if sel == 3:
        return iter(list(seq))
    if nib:
        from trie.typing import Nibbles
        try:
            return Nibbles(seq)
        except Exception:  # noqa  (not a valid nibble sequence: leave the malformed input as it is)
            return seq
    return seq


def safe_run_case(mod, c):
    """run one case; an adapter crash is reported, never hidden. An exception that comes out of the implementation in a
    call the adapter makes unconditionally (valid by construction, never raising on the pinned tree) is a behaviour of
    the implementation (clause implementation-raised), anything else is a harness defect (clause harness-error)."""
    CaseResult.last = None
    try:
        return mod.run_case(c)
    except Exception:  # noqa
        partial = CaseResult.last
        if partial is not None and partial.oracle:
            # the oracle had already failed when the adapter crashed (typically on the broken value it had just reported):
            # the failure stands; the crash is recorded after it and dropped by check.py
            partial.fail("harness-error", traceback.format_exc()[-1500:])
            return partial
        r = CaseResult()
        frames = traceback.extract_tb(sys.exc_info()[2])
        try:
            import trie as _trie
            pkg = os.path.dirname(os.path.realpath(_trie.__file__)) + os.sep
        except Exception:  # noqa
            pkg = None
        if pkg and any(os.path.realpath(f.filename).startswith(pkg) for f in frames):
            r.fail("implementation-raised", "a call that is valid by construction raised: " + traceback.format_exc()[-1200:])
        else:
            r.fail("harness-error", traceback.format_exc()[-1500:])
        return r


def _worker(args):
    modname, cases, want_model = args
    sys.path.insert(0, os.path.dirname(os.path.abspath(__file__)))
    import importlib

    mod = importlib.import_module(modname)
    results = []
    errors = []
    for c in cases:
        results.append(safe_run_case(mod, c))
    diffs = [None] * len(results)
    if want_model:
        try:
            diffs = compare_with_model(results)
        except Exception:
            errors.append(traceback.format_exc()[-1500:])
    summary = []
    for c, r, d in zip(cases, results, diffs):
        summary.append(dict(case=c if (r.oracle or d) else None, oracle=r.oracle, diff=d, tags=sorted(r.tags),
                            state_key=r.state_key, nontrivial=r.nontrivial, nsteps=len(r.steps)))
    return summary, errors


def run_cases(modname, cases, want_model=True, chunk=None, deadline=None):
    """Run cases in parallel. Returns (summaries, errors)."""
    if not cases:
        return [], []
    n = NCPU
    chunk = chunk or max(1, min(200, (len(cases) + n - 1) // n))
    jobs = [(modname, cases[i:i + chunk], want_model) for i in range(0, len(cases), chunk)]
    summaries, errors = [], []
    if n == 1 or len(jobs) == 1:
        for j in jobs:
            s, e = _worker(j)
            summaries += s
            errors += e
            if deadline and time.time() > deadline:
                break
        return summaries, errors
    if os.environ.get("VERIF_TIECOV"):
        # tools/tiecov.py measures which lines of /repo/trie the runs reach: the workers must exit
        # normally so that the coverage data they collected is saved
        pool = multiprocessing.Pool(n)
        for s, e in pool.imap(_worker, jobs):
            summaries += s
            errors += e
        pool.close()
        pool.join()
        return summaries, errors
    with multiprocessing.Pool(n) as pool:
        for s, e in pool.imap(_worker, jobs):
            summaries += s
            errors += e
            if deadline and time.time() > deadline:
                pool.terminate()
                break
    return summaries, errors


def ddmin_ops(case, still_fails, key="ops", budget_s=60):
    """Delta-debugging over the list case[key]; still_fails(case) -> bool."""
    t0 = time.time()
    best = case
    ops = list(case[key])
    n = 2
    while len(ops) >= 2 and time.time() - t0 < budget_s:
        size = max(1, len(ops) // n)
        reduced = False
        for i in range(0, len(ops), size):
            cand_ops = ops[:i] + ops[i + size:]
            cand = dict(best)
            cand[key] = cand_ops
            try:
                if still_fails(cand):
                    ops, best, reduced = cand_ops, cand, True
                    n = max(n - 1, 2)
                    break
            except Exception:
                pass
        if not reduced:
            if size == 1:
                break
            n = min(len(ops), n * 2)
    return best


# --------------------------------------------------------------------------------------------
# findings, replays, evidence
# --------------------------------------------------------------------------------------------
def known_findings(pid):
    """Listed (unrepaired) findings for this property: {key: description}. `fixed:` lines are
    history only and suppress nothing."""
    res = {}
    if os.path.exists(KNOWN_FINDINGS):
        for line in open(KNOWN_FINDINGS):
            line = line.strip()
            if line.startswith("finding:") and ("property=%s " % pid) in line + " ":
                m = re.search(r"key=(\w+)", line)
                if m:
                    res[m.group(1)] = line
    return res


def write_replay(pid, payload):
    os.makedirs(REPLAY_DIR, exist_ok=True)
    n = 0
    while os.path.exists(os.path.join(REPLAY_DIR, "%s-%d.json" % (pid, n))):
        n += 1
    path = os.path.join(REPLAY_DIR, "%s-%d.json" % (pid, n))
    with open(path, "w") as f:
        json.dump(payload, f, indent=1, sort_keys=True, default=str)
    return os.path.relpath(path, VERIF)


def write_evidence(pid, tier, seed, coverage, assumptions, wall_s, violations):
    os.makedirs(EVIDENCE_DIR, exist_ok=True)
    ev = dict(property_id=pid, tier=tier, seed=seed, level="proof", coverage=coverage,
              assumptions=assumptions, wall_s=round(wall_s, 2), violations=violations)
    with open(os.path.join(EVIDENCE_DIR, "%s.json" % pid), "w") as f:
        json.dump(ev, f, indent=1, sort_keys=True, default=str)


def load_corpus(pid):
    d = os.path.join(CORPUS_DIR, pid)
    cases = []
    if os.path.isdir(d):
        for f in sorted(os.listdir(d)):
            if f.endswith(".json"):
                obj = json.load(open(os.path.join(d, f)))
                cases.append(obj["case"] if "case" in obj else obj)
    return cases


def seed_from_env():
    try:
        return int(os.environ.get("VERIF_SEED", "0"))
    except ValueError:
        return 0


def mk_rng(seed, *stream):
    return random.Random("%d/%s" % (seed, "/".join(map(str, stream))))
