#!/usr/bin/env python3
"""mk_mutant_task.py <property id> <suffix>: creates a scratch git worktree of /repo under
/tmp/wt/<id><suffix> holding PROPERTY.md (the text of the property, nothing else from /verif) and
TASK.md (instructions for an independent sub-agent that seeds a property-breaking change)."""
import json
import os
import subprocess
import sys

HERE = os.path.dirname(os.path.dirname(os.path.abspath(__file__)))
pid, suffix = sys.argv[1], sys.argv[2]
# optional third argument: "edges" asks for changes that hide behind unusual-but-legal ways of calling the library
VARIANT = ""
if len(sys.argv) > 3 and sys.argv[3] == "edges":
    VARIANT = ("* Prefer changes that hide behind *unusual but legal ways of using the API* rather than behind an unusual trie shape:\n"
               "  another container or argument type the API accepts (list vs tuple vs generator vs a subclass, bytearray-like\n"
               "  views where bytes are accepted, a dict subclass as database), the kind of exception that leaves a block\n"
               "  (BaseException vs Exception), re-use of an object after an error, aliasing between objects the API returned earlier\n"
               "  and internal state, calling order nobody tests (query before first write, the same call twice), empty and\n"
               "  maximal sizes, alternate entry points to the same operation (`[]`, `in`, `del`, context managers, classmethods).\n")
if len(sys.argv) > 3 and sys.argv[3] == "equiv":
    VARIANT = ("* Prefer changes that break an *equivalence between two ways of doing the same thing* while each way still looks right\n"
               "  on its own: two entry points documented or obviously meant to be the same (`delete(k)` / `set(k, b\"\")` / `del t[k]`,\n"
               "  `get` / `[]` / `exists` / `in`, `keys()` / `items()` / `values()`, a bulk call and the sequence of single calls it\n"
               "  stands for, a fresh object opened on a root and the object that produced that root, a result and the same result\n"
               "  recomputed from what the API returned), operations that should commute or be idempotent (independent keys in either\n"
               "  order, the same call twice, a write followed by its inverse), and a value read back right after it was written\n"
               "  through the other entry point.\n")
if len(sys.argv) > 3 and sys.argv[3] == "state":
    VARIANT = ("* Prefer changes whose effect depends on *state that outlives one call*: memoisation and caches (functools caches, dicts\n"
               "  kept on an object, class or module), attributes set lazily and never refreshed, mutable default arguments, class\n"
               "  attributes shared by instances, objects handed out and later mutated in place, lazily consumed generators, two\n"
               "  objects (tries, iterators, fogs, caches, proofs) built over the same database or sharing a sub-object, a second\n"
               "  call that behaves differently from the first, clean-up that is skipped on one exit path and only matters for the\n"
               "  *next* operation.\n")
if len(sys.argv) > 3 and sys.argv[3] == "helpers":
    VARIANT = ("* Put the change in a *low-level helper* rather than in the body of the main classes: `trie/utils/*.py` (nibble, node,\n"
               "  binary-keypath and db helpers), `trie/validation.py`, `trie/typing.py`, `trie/constants.py`, `trie/exceptions.py`, the\n"
               "  module-level functions of `trie/branches.py` / `trie/smt.py`, `TrieFrontierCache` in `trie/fog.py`, or a small private\n"
               "  helper method that several public operations share. The slip should look harmless where it is made and break the\n"
               "  property only through one of the callers, on inputs the helper's own unit tests do not reach.\n")
if len(sys.argv) > 3 and sys.argv[3] == "pysem":
    VARIANT = ("* Prefer slips that come from *Python semantics a reviewer reads past*: truthiness used where `is None` / `== b\"\"` /\n"
               "  `len(x) == 0` was meant (empty bytes, empty tuple, 0, empty dict are all falsy), `x or default`, a slice with a computed\n"
               "  bound that can be `-0` or negative, `is` vs `==` on bytes / ints / tuples, list vs tuple equality and hashing, a\n"
               "  shallow copy where a deep one is needed (nested lists of a node), iterating a dict / set while changing it, `zip`\n"
               "  silently truncating, `dict.get` / `pop` / `setdefault` defaults, integer division and bit operations on Python ints\n"
               "  (sign, precedence of `&`, `<<`, `==`), exception classes with the same name or a changed base class, `except` clauses\n"
               "  that became broader or narrower, `finally` / `else` ordering, generator functions whose body runs later than the call.\n")
if len(sys.argv) > 3 and sys.argv[3] == "sizes":
    VARIANT = ("* Prefer changes whose effect depends on the *size or magnitude of the data*: values or keys long enough to change how they\n"
               "  are encoded (RLP strings of 56 bytes and more, of 256 and of 65536 bytes and more; a single byte below / above 0x80;\n"
               "  32-byte keys as Ethereum uses them; key paths of 56+ nibbles; shared prefixes dozens of nibbles long), tries deeper than\n"
               "  a few levels, a node with all 16 (or both) children, a count / index / length that must reach 2, 3, 16, 17, 32, 255 or\n"
               "  256 before the slip shows, the largest and smallest legal `key_size`, the last bit / nibble / byte of a key, integer\n"
               "  widths, off-by-one on a length that small inputs never reach.\n")
if len(sys.argv) > 3 and sys.argv[3] == "faults":
    VARIANT = ("* Prefer changes that only show *when something fails at a particular point*: the n-th write or delete of the database\n"
               "  raising, a read raising `KeyError` (a node body that is absent) at one particular depth, the body of a `with` block\n"
               "  raising after some operations already ran, an exception of an unusual class (a `KeyError` raised by user code inside\n"
               "  a block, `BaseException`), a refused (invalid) call in the middle of a history, the same object being used again after\n"
               "  such a failure. The slip should leave state behind (a marker, a counter, a buffer, a half-applied update, a pointer\n"
               "  moved too early) that only the *following* calls reveal.\n")
if len(sys.argv) > 3 and sys.argv[3] == "twosite":
    VARIANT = ("* Each change must consist of *two cooperating edits at different sites*, each of which looks like a harmless refactoring\n"
               "  on its own and — applied alone — keeps the property (say so in meta.json and check it): e.g. a helper that now\n"
               "  returns a slightly different but still documented form, and a caller that relies on the old form in one branch; a\n"
               "  normalisation moved from the producer to only some of the consumers; an invariant established at one place and\n"
               "  assumed at another, weakened at the first.\n")
if len(sys.argv) > 3 and sys.argv[3] == "reuse":
    VARIANT = ("* Prefer changes that only show through the *lifetime and identity of objects*: a trie / tree / fog / proof / cache /\n"
               "  ScratchDB that is copied (`copy.copy`, `copy.deepcopy`, `pickle`), re-opened on the same database, assigned to\n"
               "  (`trie.root_hash = earlier_root`, `trie.db = other`, `root_node = ...`), shared between two owners, kept by the caller\n"
               "  across later mutations (a node, a branch, a proof, a ref_count mapping, a prefix handed out earlier), or used again\n"
               "  after `squash_changes` / `at_root` / an exception; state that should be per-object but becomes shared, or should be\n"
               "  re-derived but is carried over.\n")
if len(sys.argv) > 3 and sys.argv[3] == "lazy":
    VARIANT = ("* Prefer changes that hide in *lazy evaluation and iteration*: generator functions whose body runs later than the call\n"
               "  (validation, database reads, exceptions raised at first `next()` instead of at the call), partially consumed\n"
               "  iterators, two iterations interleaved, iteration while the underlying trie / database changes, results that are\n"
               "  generators in one branch and tuples in another, `@to_tuple`-style decorators dropped or added, evaluation order of\n"
               "  the items yielded (duplicates, order of siblings, parents before children), early `return` inside a generator.\n")
if len(sys.argv) > 3 and sys.argv[3] == "content":
    VARIANT = ("* Prefer changes that only show for *particular byte contents*: a value that is itself the 32-byte hash of a stored node,\n"
               "  or the RLP / binary encoding of a node; values and keys containing 0x00, 0x10, 0x80, 0xc0, 0xff at the first or last\n"
               "  position; two different keys whose nibble / bit expansions are related (one is the other shifted, reversed, or padded);\n"
               "  a key equal to a hash; values equal to the configured default or to b''; identical values under many keys; a node whose\n"
               "  encoding is exactly 31, 32 or 33 bytes; content that makes two different sub-tries byte-identical.\n")
if len(sys.argv) > 3 and sys.argv[3] == "perf":
    VARIANT = ("* Present each change as a *performance optimisation* a maintainer would be glad to merge: skipping work that looks\n"
               "  redundant (a write of a node that is 'already stored', a re-encoding, a re-hash, a second validation, a second lookup,\n"
               "  a copy), caching derived data (decoded nodes, encoded keys, hashes, lengths, the result of the previous call), an early\n"
               "  exit when 'nothing changes', batching or deferring deletes, iterating a container once instead of twice, replacing a\n"
               "  recursive call by a loop. The shortcut must be correct in the common case and wrong only in a specific situation\n"
               "  (an aliased node, a pruned entry, a value equal to an old one, a key that ends inside a node, a second object over the\n"
               "  same database, an aborted block, a re-used object).\n")
if len(sys.argv) > 3 and sys.argv[3] == "api":
    VARIANT = ("* Present each change as a small *API improvement*: a new optional parameter with a default (`default=`, `strict=`,\n"
               "  `copy=`, `prune=`), an entry point that now accepts more input types (str keys encoded for the caller, ints, tuples of\n"
               "  nibbles, iterables), a convenience method built on existing ones (`update(mapping)`, `pop`, `setdefault`, `clear`,\n"
               "  `__len__`, `__iter__`, `copy`), a friendlier error message or exception type, a return value where there was none.\n"
               "  The existing calls must keep working as the tests use them; the slip is in how the new path interacts with the old\n"
               "  one (a default that is evaluated once, a conversion applied on one path only, a helper that bypasses validation or the\n"
               "  pruning bookkeeping, a changed exception that an internal `except` clause relied on).\n")
if len(sys.argv) > 3 and sys.argv[3] == "refactor":
    VARIANT = ("* Present each change as a *behaviour-preserving refactoring*: extract a helper out of two similar code paths (and\n"
               "  merge away the one statement in which they differed), inline a helper at its call sites (forgetting one), replace an\n"
               "  if/elif chain by a dispatch table or by early returns (changing which case wins when two apply), reorder statements\n"
               "  that look independent, convert recursion to iteration or a loop to a comprehension, replace tuple unpacking by\n"
               "  indexing, hoist a computation out of a loop or a branch, unify two exception paths, rename and re-use a local\n"
               "  variable. The diff should read like a clean-up that a reviewer approves at a glance.\n")
prop = [json.loads(l) for l in open(os.path.join(HERE, "properties.jsonl")) if json.loads(l)["id"] == pid][0]
wt = "/tmp/wt/%s%s" % (pid, suffix)
os.makedirs("/tmp/wt", exist_ok=True)
subprocess.run(["git", "-C", "/repo", "worktree", "add", "--detach", wt, "HEAD", "-q"], check=True)
with open(os.path.join(wt, "PROPERTY.md"), "w") as f:
    f.write("# %s\n\n## Statement\n%s\n\n## Quantification\n%s\n\n## Why the existing tests cannot settle it\n%s\n\n## Anchors\n```json\n%s\n```\n"
            % (prop["title"], prop["statement"], prop["quantifier"]["text"], prop["why_tests_cant"],
               json.dumps(prop["anchors"], indent=1)))
with open(os.path.join(wt, "TASK.md"), "w") as f:
    f.write("""# Task: seed two realistic property-breaking changes

This directory (`%(wt)s`) is a scratch git worktree of the Python library ethereum/py-trie.
`PROPERTY.md` states a semantic property the library is supposed to satisfy.

Produce TWO different, independent changes to the library source (files under `trie/`), each of which
**breaks the property** while the package still imports and the existing test suite still passes.
They must be at different code sites / exploit different mechanisms.

Rules
* Work only inside `%(wt)s`. Never read or write `/repo` or `/verif`. There is no network.
* Never use `pkill` / `killall` (other jobs run on this machine); kill only process ids you started.
* Run python as `/venv/bin/python` from this directory (then `import trie` picks up this worktree; check with
  `/venv/bin/python -c "import trie; print(trie.__file__)"`).
* Existing tests: `/venv/bin/python -m pytest -q -p no:cacheprovider --timeout=900 --continue-on-collection-errors tests`
  (about 90 s). On the unchanged tree 215 tests pass and there are 2 known failures/errors
  (tests/core/test_iter.py does not collect, test_fixtures_exist fails) — those are expected.
  With each of your changes exactly the same tests must still pass.
* The change must be *realistic*: the kind of slip a maintainer could make in a refactoring, optimisation or
  "simplification" (an off-by-one, a wrong comparison, a dropped case, a reordered statement, a missing copy, a
  forgotten prune/cleanup, an aliasing bug, a wrong default ...). No magic constants, no `if key == b"secret"`,
  no randomness, no environment checks.
%(variant)s* The change must need something *specific* to manifest — a particular multi-step sequence of operations, an
  unusual but legal input shape, a fault at a particular point, a particular interleaving, or two cooperating
  sites that each look fine alone — NOT something that ordinary use would expose at once.
* Each change must be small (a few lines).

Deliverables (create directories `mutant1/` and `mutant2/` in this worktree), each containing
* `patch.diff` — output of `git diff -- trie` with only that change applied (applies with `git apply` on a clean tree);
* `demo.py` — a small stand-alone program using only the public/semipublic API of `trie` that exits 0 on the
  unchanged tree and exits non-zero (assertion failure is fine) with the change applied; it should print what it
  observed. Keep it deterministic.
* `meta.json` — {"property": "%(pid)s", "summary": "...", "site": "file:function", "needs_to_manifest": "...",
  "why_tests_pass": "...", "commands_run": ["..."]}.

Before finishing, verify for each mutant yourself: demo exits 0 on the clean tree; with the patch applied the demo
exits non-zero AND the full existing test suite gives the same passes as on the clean tree. Finally restore the
source (`git checkout -- trie`) so that the worktree is clean apart from PROPERTY.md, TASK.md and the two mutant
directories. Reply with a short summary of the two mutants.
""" % dict(wt=wt, pid=pid, variant=VARIANT))
print(wt)
