#!/usr/bin/env python3
"""mutcamp.py gen|tests|checks|report  – a mechanical single-edit mutation campaign over /repo/trie, complementing the
sub-agent seeded changes (tools/seeded.py). Everything happens in scratch git worktrees under /tmp/wt (removed afterwards);
/repo is never touched. State is kept in /tmp/mutcamp/state.json (scratch, not needed by any registered command).

  gen     enumerate single-edit AST mutants (comparison / arithmetic / boolean operator swaps, small-integer and boolean
          constants, negated conditions, dropped expression statements, `return` of None) of every module under trie/
  tests   run the pinned test suite against each mutant (fail fast); keep the ones it does not kill
  checks  run the quick checks of the properties anchored in the mutated module against every survivor
  report  table: survivors, which checks caught them, which none (to be triaged by hand: equivalent or out of scope?)
"""
import ast
import copy
import json
import os
import random
import subprocess
import sys
import tempfile
from concurrent.futures import ThreadPoolExecutor

VERIF = os.path.dirname(os.path.dirname(os.path.abspath(__file__)))
PY = "/venv/bin/python"
STATE = "/tmp/mutcamp/state.json"
FILES = ["trie/hexary.py", "trie/binary.py", "trie/branches.py", "trie/smt.py", "trie/fog.py", "trie/iter.py",
         "trie/exceptions.py", "trie/typing.py", "trie/validation.py", "trie/utils/nibbles.py", "trie/utils/nodes.py",
         "trie/utils/binaries.py", "trie/utils/db.py"]
PROPS = {
    "trie/hexary.py": ["C01", "C02", "C03", "C04", "C05", "C06", "C07", "C08", "C09", "C10", "C18"],
    "trie/binary.py": ["C12", "C13", "C18"],
    "trie/branches.py": ["C13", "C18"],
    "trie/smt.py": ["C14", "C15", "C18"],
    "trie/fog.py": ["C09", "C10", "C11", "C18"],
    "trie/iter.py": ["C10"],
    "trie/exceptions.py": ["C07", "C08", "C09", "C11"],
    "trie/typing.py": ["C08", "C11", "C16", "C18"],
    "trie/validation.py": ["C03", "C12", "C14", "C18"],
    "trie/utils/nibbles.py": ["C01", "C02", "C08", "C10", "C16"],
    "trie/utils/nodes.py": ["C01", "C02", "C03", "C12", "C13", "C16"],
    "trie/utils/binaries.py": ["C12", "C13", "C16"],
    "trie/utils/db.py": ["C05", "C06", "C17"],
}
CMP = {ast.Lt: ast.LtE, ast.LtE: ast.Lt, ast.Gt: ast.GtE, ast.GtE: ast.Gt, ast.Eq: ast.NotEq, ast.NotEq: ast.Eq,
       ast.Is: ast.IsNot, ast.IsNot: ast.Is, ast.In: ast.NotIn, ast.NotIn: ast.In}
BIN = {ast.Add: ast.Sub, ast.Sub: ast.Add, ast.Mult: ast.FloorDiv, ast.FloorDiv: ast.Mult, ast.LShift: ast.RShift,
       ast.RShift: ast.LShift, ast.BitAnd: ast.BitOr, ast.BitOr: ast.BitAnd, ast.Mod: ast.FloorDiv}


def sh(cmd, cwd=None, env=None, timeout=None):
    try:
        p = subprocess.run(cmd, cwd=cwd, env=env, stdout=subprocess.PIPE, stderr=subprocess.STDOUT, text=True, timeout=timeout)
        return p.returncode, p.stdout
    except subprocess.TimeoutExpired:
        return 124, "timeout"


def sites(tree):
    """(kind, node-index) for every mutable site; index = position in ast.walk order"""
    out = []
    for i, n in enumerate(ast.walk(tree)):
        if isinstance(n, ast.Compare) and len(n.ops) == 1 and type(n.ops[0]) in CMP:
            out.append(("cmp", i))
        elif isinstance(n, ast.BinOp) and type(n.op) in BIN:
            out.append(("bin", i))
        elif isinstance(n, ast.BoolOp):
            out.append(("bool", i))
        elif isinstance(n, ast.UnaryOp) and isinstance(n.op, ast.Not):
            out.append(("not", i))
        elif isinstance(n, ast.Constant) and isinstance(n.value, bool):
            out.append(("flip", i))
        elif isinstance(n, ast.Constant) and isinstance(n.value, int) and not isinstance(n.value, bool) and 0 <= n.value <= 64:
            out.append(("inc", i))
            out.append(("dec", i))
        elif isinstance(n, (ast.If, ast.While)):
            out.append(("negcond", i))
        elif isinstance(n, ast.Expr) and isinstance(n.value, ast.Call):
            out.append(("dropstmt", i))
        elif isinstance(n, ast.Return) and n.value is not None and not (isinstance(n.value, ast.Constant) and n.value.value is None):
            out.append(("retnone", i))
    return out


def mutate(src, kind, idx):
    tree = ast.parse(src)
    for i, n in enumerate(ast.walk(tree)):
        if i != idx:
            continue
        if kind == "cmp":
            n.ops = [CMP[type(n.ops[0])]()]
        elif kind == "bin":
            n.op = BIN[type(n.op)]()
        elif kind == "bool":
            n.op = ast.Or() if isinstance(n.op, ast.And) else ast.And()
        elif kind == "not":
            return None
        elif kind == "flip":
            n.value = not n.value
        elif kind == "inc":
            n.value = n.value + 1
        elif kind == "dec":
            n.value = n.value - 1
        elif kind == "negcond":
            n.test = ast.UnaryOp(op=ast.Not(), operand=n.test)
        elif kind == "dropstmt":
            n.value = ast.Constant(value=None)
        elif kind == "retnone":
            n.value = ast.Constant(value=None)
        ast.fix_missing_locations(tree)
        return ast.unparse(tree), getattr(n, "lineno", 0)
    return None


def is_docstring_or_annotation_site(src, idx):
    return False


def gen(more=False):
    os.makedirs("/tmp/mutcamp", exist_ok=True)
    rng = random.Random(20260930 if more else 20260929)
    muts = load() if more else []
    seen = {(m["file"], m["kind"], m["idx"]) for m in muts}
    for f in FILES:
        src = open(os.path.join("/repo", f)).read()
        base = ast.unparse(ast.parse(src))
        ss = sites(ast.parse(src))
        rng.shuffle(ss)
        cap = (400 if more else 140) if f == "trie/hexary.py" else (150 if more else 60)
        n = 0
        for kind, idx in ss:
            if n >= cap:
                break
            if kind == "not" or (f, kind, idx) in seen:
                continue
            r = mutate(src, kind, idx)
            if r is None:
                continue
            new, line = r
            if new == base:
                continue
            try:
                compile(new, f, "exec")
            except Exception:  # noqa
                continue
            muts.append(dict(id=len(muts), file=f, kind=kind, idx=idx, line=line, status="new"))
            n += 1
    json.dump(muts, open(STATE, "w"), indent=0)
    print("generated", len(muts), "mutants")


def load():
    return json.load(open(STATE))


def save(muts):
    json.dump(muts, open(STATE + ".tmp", "w"), indent=0)
    os.replace(STATE + ".tmp", STATE)


def mk_wt(tag):
    wt = "/tmp/wt/camp-%s" % tag
    if not os.path.isdir(wt):
        sh(["git", "-C", "/repo", "worktree", "add", "--detach", wt, "HEAD", "-q"])
    return wt


def apply_mut(wt, m):
    sh(["git", "-C", wt, "checkout", "--", "."])
    src = open(os.path.join("/repo", m["file"])).read()
    new, _ = mutate(src, m["kind"], m["idx"])
    open(os.path.join(wt, m["file"]), "w").write(new + "\n")


def tests():
    muts = load()
    todo = [m for m in muts if m["status"] == "new"]
    nw = 14
    wts = [mk_wt("t%d" % i) for i in range(nw)]

    def work(args):
        wi, chunk = args
        wt = wts[wi]
        for m in chunk:
            apply_mut(wt, m)
            rc, out = sh([PY, "-m", "pytest", "-x", "-q", "-p", "no:cacheprovider", "--timeout=300",
                          "--ignore=tests/core/test_iter.py", "--deselect", "tests/core/test_hexary_trie.py::test_fixtures_exist",
                          "tests"], cwd=wt, timeout=1500)
            m["status"] = "survived" if rc == 0 else "killed"
            m["tests_rc"] = rc
        sh(["git", "-C", wt, "checkout", "--", "."])
        return chunk

    chunks = [(i, todo[i::nw]) for i in range(nw)]
    with ThreadPoolExecutor(nw) as ex:
        for _ in ex.map(work, chunks):
            save(muts)
    for wt in wts:
        sh(["git", "-C", "/repo", "worktree", "remove", "--force", wt])
    print("survivors:", sum(1 for m in muts if m["status"] == "survived"), "of", len(muts))


def checks():
    muts = load()
    wt = mk_wt("c")
    for m in muts:
        if m["status"] != "survived" or "checks" in m:
            continue
        apply_mut(wt, m)
        res = {}
        for pid in PROPS[m["file"]]:
            tmp = tempfile.mkdtemp(prefix="camp-")
            env = dict(os.environ, VERIF_REPO=wt, VERIF_EVIDENCE_DIR=os.path.join(tmp, "ev"),
                       VERIF_REPLAY_DIR=os.path.join(tmp, "rp"), VERIF_DRIFT_FACTOR="1", PYTHONPATH=wt)
            rc, out = sh([PY, os.path.join(VERIF, "harness", "check.py"), pid, "--tier", "quick"], cwd=VERIF, env=env, timeout=900)
            res[pid] = rc
            subprocess.run(["rm", "-rf", tmp])
            if rc == 1:
                break           # caught: enough
        m["checks"] = res
        m["caught_by"] = [p for p, rc in res.items() if rc == 1]
        save(muts)
        print(m["id"], m["file"], m["kind"], m["line"], "caught by", m["caught_by"], {p: rc for p, rc in res.items() if rc not in (0, 1)})
    sh(["git", "-C", "/repo", "worktree", "remove", "--force", wt])


def report():
    muts = load()
    surv = [m for m in muts if m["status"] == "survived"]
    print("mutants %d, killed by the tests %d, survivors %d" % (len(muts), sum(1 for m in muts if m["status"] == "killed"), len(surv)))
    for m in surv:
        print("%4d %-24s %-9s line %-4s %s" % (m["id"], m["file"], m["kind"], m["line"],
                                              "caught by " + ",".join(m["caught_by"]) if m.get("caught_by") else
                                              ("NOT CAUGHT " + json.dumps(m.get("checks")) if "checks" in m else "not run")))


def show(i):
    m = load()[int(i)]
    src = open(os.path.join("/repo", m["file"])).read()
    new, _ = mutate(src, m["kind"], m["idx"])
    a = ast.unparse(ast.parse(src)).splitlines()
    b = new.splitlines()
    import difflib
    print("\n".join(difflib.unified_diff(a, b, m["file"], m["file"] + " (mutant %s)" % i, lineterm="", n=4)))


if __name__ == "__main__":
    cmd = sys.argv[1]
    if cmd == "show":
        show(sys.argv[2])
    else:
        {"gen": gen, "more": lambda: gen(True), "tests": tests, "checks": checks, "report": report}[cmd]()
