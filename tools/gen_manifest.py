#!/usr/bin/env python3
"""Writes MANIFEST.json from the per-property table below (kept here so that the manifest stays
consistent with what is actually built)."""
import json, os
HERE = os.path.dirname(os.path.dirname(os.path.abspath(__file__)))
props = [json.loads(l) for l in open(os.path.join(HERE, "properties.jsonl"))]
TITLES = {p["id"]: p["title"] for p in props}

LEVEL_NOTE = ("Trusted: Lean 4.33 kernel; axioms propext/Classical.choice/Quot.sound only (audited by #print axioms on "
              "every run, no sorry/native_decide/own axioms); the hand-written model is tied to /repo by a behavioural "
              "correspondence check (differential testing through the compiled model driver) whose strength is that of "
              "its generators; CPython semantics and third-party rlp/eth_hash/sortedcontainers are modelled, not verified.")

CLAIMED = {
    "C01": dict(
        text="Theorems (all histories, all keys, no bound): tree-level set/delete have exact map semantics (get_set, get_delete), "
             "every reachable trie is canonical (canon_run), the code-shaped lookup _traverse_from+_get returns the map model's "
             "value and never raises (run_getT_never_raises), bytes_to_nibbles is injective; D1 kept as a decide-witness about "
             "the pinned _get. Through the executor and the database (C01World): for a history applied with all database traffic, "
             "pruning bookkeeping and root updates (opSetDel), prune on or off, no set/delete ever raises (world_progress), the tree "
             "is the tree-level history (world_tree) and get through the database returns the map model's value and never raises "
             "(world_get), under the per-step run-level no-collision predicates. Batched application = flatten is C05. "
             "Raw level: the statement-by-statement transcription of set/delete end to end (HexRaw.rawOp: root fetch, _set/_delete over "
             "raw nodes and the database, root store) threaded over a whole history returns the executor's root hashes and a database "
             "answering every lookup alike (Raw.history_is_world_run), and the database-level get on that root and database returns the "
             "map model's value for every key (Raw.history_get): C01 end to end over transcriptions one statement away from the code; the "
             "same for the database a PRUNING trie leaves behind (Raw.pruned_db_get). The TREE-FREE executor (Model/HexFree.lean: a trie is a root "
             "hash and a prune flag over a database; raw-level _set/_delete produce the events, the pruning bookkeeping applies them) "
             "computes, operation by operation and over whole histories, exactly the state and roots of the tree-carrying executor "
             "(Free.op_is_executor_op - no run-level hypothesis -, Free.run_is_executor_run) and its get returns the map model's "
             "value (Free.run_get). "
             "WHOLE HISTORIES WITH squash_changes BLOCKS (Props/HistoryBlocks.lean): after any history of direct calls and blocks - each left normally or by an exception - pruning on or off, the trie is the tree of the FLATTENED history (committed blocks contribute their calls, aborted ones nothing), the database is complete for it and - pruning - holds exactly the live nodes with true counts (Free.history_blocks_world, history_blocks_pruning_exact), get of the tree-free world returns the flattened history's map model value and never raises (history_blocks_get), its root is the Yellow Paper root of those contents and depends on nothing else (history_blocks_root, history_blocks_root_depends_only_on_contents); applied to a concrete history with a committed and an aborted block (NonVacuity9). "
             "Tie: get() after every operation of generated histories (4 configurations) equals the model's; the raw-level run is "
             "driven alongside fresh non-pruning tries (root after every op, final database, lookups). NO CALL EVER RAISES, as a conclusion (Props/HistoryProgress.lean): the premise Good of the history theorems contained 'the call returns normally' for every call; Good' drops it (only the no-collision facts and the two physical side conditions remain) and Good' => Good along every history from the fresh world (good_of_good'), so every call of every history - direct or inside a block, pruning on or off - returns normally in the tree-carrying and in the tree-free world (history_never_raises) and the contents theorem holds under Good' (history_blocks_get').",
        technique="Lean 4 proof (induction over histories on a tree model) + correspondence check of model vs code",
        design_ref="6/C01"),
    "C02": dict(
        text="Theorems for EVERY hash function H (no assumption): reachable tries are canonical, the canonical tree of a mapping is "
             "unique (canon_unique), hence two histories with equal contents yield the same tree and the same root "
             "(run_eq_of_spec_eq, root_depends_only_on_contents, root_batched), the empty mapping has the blank root, which is "
             "BLANK_NODE_HASH for Keccak (kernel-evaluated). Conformance of the model's rlp/hex-prefix/Keccak encoding with the "
             "Yellow Paper is pinned by four ethereum/tests roots + constants on every run and by an independent Yellow-Paper "
             "oracle in the harness. Conformance proper is proved: the raw node structure of every reachable trie IS the Yellow Paper's "
             "c(J,i)/n(J,i) construction applied to its contents and the root hash is TRIE(contents), for every H "
             "(root_is_yellow_paper_trie, node_is_yellow_paper_c, ref_is_yellow_paper_n; HP = Yellow Paper HP is C16); what remains "
             "unproved is only that the model's rlp/Keccak-256 are the real ones (external vectors). The raw-level transcription of "
             "set/delete run over any history returns TRIE(final contents) (Raw.history_root_is_yellow_paper). WHOLE HISTORIES WITH squash_changes BLOCKS (Props/HistoryBlocks.lean): after any history of direct calls and blocks - each left normally or by an exception - pruning on or off, the trie is the tree of the FLATTENED history (committed blocks contribute their calls, aborted ones nothing), the database is complete for it and - pruning - holds exactly the live nodes with true counts (Free.history_blocks_world, history_blocks_pruning_exact), get of the tree-free world returns the flattened history's map model value and never raises (history_blocks_get), its root is the Yellow Paper root of those contents and depends on nothing else (history_blocks_root, history_blocks_root_depends_only_on_contents); applied to a concrete history with a committed and an aborted block (NonVacuity9). Tie: root after every "
             "operation, also against the raw-level run (own root and database) for fresh non-pruning tries.",
        technique="Lean 4 proof (canonical-form uniqueness) + correspondence check with external test vectors",
        design_ref="6/C02"),
    "C05": dict(
        text="Theorems about the world executor, for every hashing: operations on the batch trie never touch the underlying "
             "database or the outer tries/counts (batch_ops_leave_base, via opSetDel_base), leaving by an exception restores the "
             "world exactly (abort_restores_world), a failing commit write leaves outer roots/trees/counts unchanged with a prefix "
             "of the buffered writes applied (commit_failure_keeps_outer, commitLoop_fail_prefix), a normal exit adopts the batch "
             "root (commit_adopts_root). For a PRUNING outer trie the whole block is proved exact: entering the block establishes "
             "the exact-pruning invariant over what the block will commit (batch_begin_invariant), every set/delete on the batch trie "
             "preserves it and never raises (batch_op_invariant), and a normal exit gives the outer trie the batch's tree and root "
             "with counts = true references and database = exactly the live nodes (batch_commit_exact, commit_produces_view). For a "
             "NON-pruning outer trie (batch counts start empty over a non-empty database: exactness is tracked for hashes that are not "
             "keys of the wrapped database) the same three steps are proved (np_batch_begin / np_batch_op / np_batch_commit): after a "
             "normal exit nothing pre-existing is removed, every node of the new tree is present, and every ADDED key is a node of "
             "the new tree - no node that served only intermediate states of the block is added. Key-level statements; that bodies are "
             "the encodings is C04's content-addressing. The TREE-FREE world (Model/HexFree.lean FWorld: squash_changes over root hashes, a "
             "ScratchDB view and the raw-level _set/_delete - no tree) moves in lockstep with the tree-carrying world through block "
             "entry, every operation on the outer or the batch trie, and every kind of exit incl. failing commits (Free.lockstep_begin, "
             "lockstep_op_outer, lockstep_op_batch, lockstep_end, Free.op_is_executor_op_view), given that the view the operated trie "
             "reads is complete for its root (discharged along blocks on a pruning trie: Free.view_complete_on_entry, "
             "view_complete_batch_op, complete_after_commit; and on a non-pruning trie: Free.np_view_complete_batch_op, "
             "np_complete_after_commit); assembled over WHOLE HISTORIES of direct calls and blocks (left normally or by an "
             "exception), pruning on or off: every call returns the same outcome in both worlds and they end in the same database, root "
             "and counts (Free.history_lockstep); two specification subtleties were machine-found there (the view equals what ScratchDB "
             "reads only for caches with unique keys - view_is_what_is_read, cache_keys_unique_* - and the counts slot). "
             "WHOLE HISTORIES WITH squash_changes BLOCKS (Props/HistoryBlocks.lean): after any history of direct calls and blocks - each left normally or by an exception - pruning on or off, the trie is the tree of the FLATTENED history (committed blocks contribute their calls, aborted ones nothing), the database is complete for it and - pruning - holds exactly the live nodes with true counts (Free.history_blocks_world, history_blocks_pruning_exact), get of the tree-free world returns the flattened history's map model value and never raises (history_blocks_get), its root is the Yellow Paper root of those contents and depends on nothing else (history_blocks_root, history_blocks_root_depends_only_on_contents); applied to a concrete history with a committed and an aborted block (NonVacuity9). "
             "Tie: exact db, root and counts after every step, every exit kind and position, for the tree-carrying AND the tree-free world. Also stated directly on the tree-free transcription FWorld with NO run-level hypothesis (Free.batch_op_leaves_outer, Free.abort_restores: a block left by an exception restores the world exactly whatever was done inside; Free.commit_failure_keeps_outer; Free.commit_adopts_root). HISTORIES WITH FAILING COMMITS on a non-pruning trie (Props/HistoryFailCommit.lean): a block whose body runs normally and whose commit is cut short at its (n+1)-th database write leaves tries and counts exactly as before, loses no binding and re-establishes the between-steps invariant (Free.fail_block_step); along whole histories of direct calls, committed / aborted blocks and blocks with failed commits the tree-free world agrees call by call with the tree-carrying one (history_fail_commit_lockstep), the trie is the tree of the calls that count - a block with a failed commit contributes nothing -, the database is complete for it and get returns the map model's value (history_fail_commit_world, history_fail_commit_get): 'remains fully usable and correct afterwards'; concrete history in NonVacuity11 (the failed commit leaves one orphan entry, the root does not move). NO CALL EVER RAISES, as a conclusion (Props/HistoryProgress.lean): the premise Good of the history theorems contained 'the call returns normally' for every call; Good' drops it (only the no-collision facts and the two physical side conditions remain) and Good' => Good along every history from the fresh world (good_of_good'), so every call of every history - direct or inside a block, pruning on or off - returns normally in the tree-carrying and in the tree-free world (history_never_raises) and the contents theorem holds under Good' (history_blocks_get').",
        technique="Lean 4 proof (invariants of the world executor) + correspondence check with fault injection",
        design_ref="6/C05"),
    "C06": dict(
        text="Theorems for every hashing: the effect-instrumented setE/deleteE compute set/delete (deleteE on canonical trees) and "
             "satisfy the reference-count balance for every hash (occurrences gained = persists, lost = prunes), including "
             "normalisation, extension merging and the reference-unchanged short-circuits, under the run-level hypothesis RefSound "
             "(no collision in this run; no injectivity assumed). World level: the invariant 'for every hash, ref_count = number of "
             "hashed subtrees with that hash below the root + 1 for the root, and the database contains a key iff that number is "
             "positive' holds initially and is re-established by every set/delete through _prune_on_success/_set_db_value/"
             "_set_root_node/_complete_pruning, which never raise on such a state (prune_invariant_step, reach_invariant over whole "
             "histories); regenerate_ref_count computes exactly these numbers (regenerate_is_true_count, keccak_embedded). Batches: "
             "the invariant over the would-be-committed view is established on entry, preserved by every batch operation and turned "
             "into the plain invariant by a normal exit (C05.batch_begin_invariant / batch_op_invariant / batch_commit_exact); an "
             "aborted block restores the world (C05.abort_restores_world). The raw-level transcription of the write path refines the "
             "effect layer (Raw.set_refines / delete_refines). Bodies, not only keys: under the run-level no-collision predicate the "
             "pruned database is complete for the current root - every live node stored with its encoding - after every operation "
             "and history (Raw.prune_op_keeps_complete, pruned_db_complete), hence the raw-level reader (get over rlp-decoded nodes "
             "fetched from the pruned database) returns the map model's value for every key (Raw.pruned_db_get). The tree-free executor "
             "(root hash + database only) reaches exactly these states: its counts are the true reference counts, its database holds "
             "exactly the live nodes with their encodings (Free.run_pruning_exact, Free.op_is_executor_op). WHOLE HISTORIES WITH squash_changes BLOCKS (Props/HistoryBlocks.lean): after any history of direct calls and blocks - each left normally or by an exception - pruning on or off, the trie is the tree of the FLATTENED history (committed blocks contribute their calls, aborted ones nothing), the database is complete for it and - pruning - holds exactly the live nodes with true counts (Free.history_blocks_world, history_blocks_pruning_exact), get of the tree-free world returns the flattened history's map model value and never raises (history_blocks_get), its root is the Yellow Paper root of those contents and depends on nothing else (history_blocks_root, history_blocks_root_depends_only_on_contents); applied to a concrete history with a committed and an aborted block (NonVacuity9). Tie: exact key set, "
             "counts, regenerate_ref_count after every operation; the raw-level reader on the model's pruned database after every op; the "
             "tree-free executor alongside every direct operation (outcome, root, full database, counts). A REFUSED FIRST WRITE (Props/C06Refused.lean): a set/delete on a plain database that refuses the next write and is stopped by it leaves database, failure counter, counts and pending marks exactly as they were (first_write_refused_atomic; the count is incremented only after the write), and one that is not stopped had nothing to write (first_write_refused_ok_wrote_nothing); the quick check injects such operations. Lifted to whole histories (Props/HistoryRefusedFirst.lean): a direct call stopped by the refusal of its first write leaves the world LITERALLY as it was (refused_first_step), so a history with such steps reaches exactly the world of the history without them and exact pruning holds after it (refused_first_history, refused_first_history_exact).",
        technique="Lean 4 proof (structural induction, balance invariant) + correspondence check",
        design_ref="6/C06"),
    "C03": dict(
        text="Theorems (all canonical tries, all keys, all node lists, no bound; for every hash function with 32-byte output, "
             "instantiated for rlp+Keccak): get_proof contains only subtrees at prefixes of the key (proof_on_path); the Layer-D "
             "reader that decodes rlp bytes from a database (get_node/_traverse_from/_get transcribed) returns get(key) when the "
             "stored path nodes resolve (getD_of_path), hence get_from_proof(root, key, get_proof(key)) = get(key) "
             "(proof_complete); for EVERY offered node list it returns the true value or BadTrieProof and nothing else "
             "(proof_sound) and BadTrieProof whenever a stored path node is withheld (proof_withheld), under the run-level "
             "NoCollision predicate (fails only if the run exhibits a hash collision; no injectivity assumed). The RLP decoder "
             "round trip (rlpDecode_rlp_of_length_lt, items < 2^64 bytes) and hex-prefix round trip are proved. Tie: get_proof "
             "node lists and get_from_proof outcomes on honest and forged streams against the Lean Layer-D reader.",
        technique="Lean 4 proof (Layer-D reader vs tree induction, RLP round trip) + correspondence check incl. forged proofs",
        design_ref="6/C03"),
    "C08": dict(
        text="Theorems (all canonical tries, all nibble paths, no bound): traverse is blank iff no stored key starts with the path "
             "(traverse_blank_iff); the returned description (real or simulated node) covers exactly the contents below the path "
             "(traverse_covers, traverse_value, traverse_subs: non-empty, inhabited, prefix-free sub-segments); "
             "TraversedPartialPath only inside a leaf/extension with traversed++tail = path and always with a simulated node "
             "(traverse_partial_sim); traverse_from(node at prefix, seg) = traverse(prefix++seg), also from simulated nodes "
             "(traverse_from_eq, traverse_from_sim); root_node = traverse(()) (traverse_nil); database reads of a traversal "
             "are at most one per nibble hop (traverse_reads_le). Tie: every field of traverse/traverse_from results incl. "
             "raw node and exception fields, and read counts, against the model and an independent contents-only oracle.",
        technique="Lean 4 proof (structural induction on the tree model, reduction to one-step traversal) + correspondence check",
        design_ref="6/C08"),
    "C10": dict(
        text="Theorems (all histories, all query byte strings, no bound), on the functions transcribed from NodeIterator: "
             "_get_key_after returns the image of the smallest stored key strictly greater than k, None iff there is none "
             "(next_is_successor, via keyAfter_spec), _get_next_key the smallest stored key (next_none_is_min); items() yields "
             "exactly the stored pairs (items_exact), all of them byte-string keys, in strictly ascending byte order hence each once "
             "(items_sorted with plt_nibs: byte order = nibble order); nodes() = pre-order: every pair is the node traverse(prefix) "
             "returns (nodes_are_traverse), prefixes strictly increase (nodes_preorder: each once, parents first, left to right), "
             "every non-blank node is yielded (nodes_complete); and the loop of nodes() AS WRITTEN - fog with nearest_right(()), "
             "frontier cache with traverse on a miss and traverse_from(parent, segment) on a hit, explore, cache maintenance - yields "
             "exactly this pre-order (nodes_loop_is_preorder); the raw-level transcriptions of _get_next_key / _get_key_after over the "
             "database (annotate_node + traverse_from over rlp-decoded nodes) equal the tree-level functions on every stored canonical "
             "trie (Raw.next_key_refines, Raw.key_after_refines); the loop of nodes() at raw level - root hash, database of encoded "
             "bodies, cache of raw bodies - yields the raw images of the tree-level loop on every stored trie (raw_nodes_loop_refines), "
             "hence over the database any history leaves, pruning on or off, exactly the pre-order sequence and never "
             "MissingTraversalNode (raw_nodes_is_preorder), and items() over it yields exactly the stored pairs, each once, in key order "
             "(raw_items_is_items, raw_items_exact); over ANY partially consistent database (bodies withheld or pruned, stale "
             "cached parents) it yields those images or stops with MissingTraversalNode for a node that really is absent "
             "(raw_nodes_loop_partial, raw_nodes_partial). Tie: keys/items/values/nodes sequences (also against the model's "
             "transcription of the loop, at tree level and over the database; with one body withheld: a start of the pre-order, then the  model's MissingTraversalNode) and next(k) for stored, neighbouring and foreign keys. Over the database a history WITH squash_changes blocks leaves (Props/C10Blocks.lean, tree-free world, pruning on or off, under Good'): nodes() = the pre-order of the trie of the calls that count, items() = exactly its stored pairs in key order (raw_nodes_is_preorder_blocks, raw_items_exact_blocks).",
        technique="Lean 4 proof (order theory on nibble paths, induction on the tree model) + correspondence check",
        design_ref="6/C10"),
    "C04": dict(
        text="Theorems about the world executor (all hashings, all stores, every fault position): every write of _set/_delete is "
             "db[hash(node)] = enc(node) (set/delete_writes_addressed); set/delete on a non-pruning trie over a plain dict - "
             "successful, failing on a missing node, or aborted by a failing write at ANY position - preserves every old binding "
             "or exhibits an overwrite with a different body under the same hash (a collision), adds only its own writes and deletes "
             "nothing (set_delete_append_only); the squash_changes commit of a non-pruning trie likewise for every prefix of the "
             "commit loop (batch_commit_append_only); a failed operation leaves all root pointers (failed_op_keeps_roots); preserved "
             "bindings keep a historical root fully readable through the Layer-D reader (old_root_still_readable, with C03's "
             "getD_of_path); completeness invariant: a set/delete on a complete database never raises, computes the tree operation, "
             "preserves all bindings and leaves every hashed node of the new root stored (op_keeps_complete, under the per-operation "
             "NoClobber predicate), and completeness of any root survives all later growth (complete_survives); at history level: after ANY history the final "
             "database is complete for every earlier version and the raw-level reader started at the root of version i returns "
             "the contents of that moment for every key (history_complete_for_all_versions, history_old_roots_readable), no binding "
             "of any intermediate database was removed or altered (history_preserves_every_binding). SEVERAL TRIES OVER ONE DATABASE (Props/C04Shared.lean): for every interleaved history of new non-pruning tries, tries opened at earlier roots (HexaryTrie(db, root) / at_root) and set/delete calls addressed to any of them, each call returns normally, changes only its own trie (to the tree-level result), preserves every binding (C04.shared_step), and at the end the database is complete for every trie and every root any trie ever had: the raw-level reader returns each trie's own contents and each old root's contents (shared_history, shared_history_reads, shared_root_recorded; concrete three-trie history in NonVacuity10). Tie: exact db after every "
             "step, every old root re-read through a fresh trie and at_root, reads via the Lean Layer-D reader on the model's own db. DIRECT CALLS CUT SHORT BY A REFUSED WRITE over whole histories (Props/HistoryFailOp.lean): such a call leaves tries and counts as before and loses no binding (what it wrote before the refusal stays as unreachable entries), the between-steps invariant holds again (Free.fail_op_step); along whole histories of direct calls, blocks, failing commits and failing direct writes the tree-free and tree-carrying worlds agree call by call, the trie is the tree of the calls that count and get returns the map model (history_fail_op_world / _lockstep / _get; NonVacuity15).",
        technique="Lean 4 proof (invariants of the world executor, any fault position) + correspondence check with fault injection",
        design_ref="6/C04"),
    "C11": dict(
        text="Theorems (all call sequences, all query keys, no bound) on the functions transcribed from HexaryTrieFog: after any "
             "sequence of explore/mark_all_complete calls on a fresh fog the prefixes are strictly sorted and prefix-free "
             "(wf_runCalls); explore leaves exactly (S minus old) plus old++segments (explore_spec), is accepted iff the prefix is "
             "unexplored and segments are distinct and prefix-free - covering the duplicate check and the mixed-length guard - and "
             "only ever raises ValidationError (explore_ok_iff, explore_err); independent explorations commute and the other order "
             "succeeds too (explore_comm, explore_comm_ok); mark_all_complete = fold of explore(p, ()) (markAllComplete_eq_fold); "
             "is_complete iff empty; nearest_right / nearest_unknown: member, the containing prefix if any, else closest to the right / "
             "adjacent, PerfectVisibility iff empty, FullDirectionalVisibility iff nothing to the right (nearestRight_spec, "
             "nearestUnknown_spec, incl. the _prefix_distance comparison); serialize/deserialize round trip. Receiver immutability "
             "holds by construction of the functional model and is tied to the code (receiver compared before/after each call).",
        technique="Lean 4 proof (sorted prefix-free lists, order theory of Python tuple comparison) + correspondence check",
        design_ref="6/C11"),
    "C07": dict(
        text="Theorems for EVERY store (= every subset of missing bodies, plain or behind a ScratchDB cache, pruning or not) and "
             "every hashing: a lookup either returns the complete-database value or raises MissingTrieNode and nothing else "
             "(get_same_or_missing, get_error_kind) naming a hash that is absent, with the trie's root and the requested key, being the "
             "root's hash or that of the hashed subtree exactly at the reported nibble prefix of the key (get_missing_truthful, "
             "fetches_on_path); likewise traverse/traverse_from with relative prefixes (traverse_truthful); no fetch follows a "
             "write in _set/_delete (set/delete_reads_before_writes) hence a set/delete that raises MissingTrieNode leaves database, "
             "scratch cache, reference counts and pending prunes exactly as before (set_delete_missing_atomic); supplying the "
             "reported node makes strict progress and never re-asks for it (get_retry_progress, set_delete_retry_progress); the hash "
             "reported by a failing set/delete is the root's, a hashed subtree at a prefix of the key, or (delete) the sibling needed "
             "to collapse a branch on that path (set_delete_missing_on_path). Raw level: the statement-by-statement transcription of "
             "_set/_delete over raw nodes and the database, on ANY partial database (whatever is stored under a node's hash is its "
             "encoding), returns exactly the complete-database result or stops at the FIRST fetch the database cannot answer "
             "(raw_set_partial, raw_delete_partial), and a reported hash is absent and on the requested path / the normalisation "
             "sibling (raw_set_missing_on_path, raw_delete_missing_on_path); the raw-level traverse / get over rlp-decoded nodes return "
             "the tree-level result or the FIRST hashed node on the path that is absent, with the exact nibbles consumed "
             "(raw_traverse_partial, raw_get_partial) - word for word what opGet/opTraverse report; and for EVERY input (any raw node, "
             "database, key) a raw-level _set/_delete/set/delete that stops at a missing node has written nothing "
             "(raw_failed_set_writes_nothing, raw_failed_delete_writes_nothing, raw_failed_op_leaves_db, over the transcription that "
             "returns the state at exception exit, proved equal to the other one on every input: rawT_*_agrees). The TREE-FREE executor "
             "(root hash + database, no tree) on any partial database returns exactly the tree-carrying executor's exit state, root "
             "and exception (Free.op_partial); when it raises MissingTrieNode the store and counts are untouched, no pending mark is "
             "left, and the named hash is absent and on the path / the root / the normalisation sibling (Free.op_missing_atomic). Partial "
             "consistency (whatever is stored under a node's hash is its encoding) is an INVARIANT: true of complete databases, kept "
             "by withholding and by supplying node bodies and by every set/delete, returning or raising, pruning on or off "
             "(Free.partial_of_complete_db, partial_kept_by_withholding, partial_kept_by_supplying, partial_kept_by_op; two first "
             "statements machine-refuted, counterexamples kept) - so the two executors stay equal along whole histories with withheld nodes. Tie: result or every exception field, state after the "
             "failure, retry loop run to convergence, inside and outside squash_changes; the raw-level set/delete, get and traverse "
             "are run on the same incomplete databases (reported node, consumed nibbles, result), and so is the tree-free executor on its "
             "own copy of the damaged database (outcome, root, full database, counts after every attempt of the retry loop). Whole histories in which node bodies disappear from the database and are supplied again between the calls: the tree-free executor and the tree-carrying one return the same outcome at every call and reach the same state, the partial-consistency invariant is kept, and a call that raises MissingTrieNode changed nothing and names an absent node on the path (Free.beam_history_lockstep, beam_invariant_step, beam_failed_call_atomic). THE WHOLE RETRY LOOP (Props/C07Retry.lean): the caller's loop - attempt; on MissingTrieNode h fetch exactly h from a source that has the nodes; attempt again - written out for get and for set/delete and proved to end within outstanding+2 attempts, asking for no hash twice and only for hashes that were absent; the lookup loop returns the value of the complete database (get_retry_loop_converges, op_retry_loop_converges; evaluated on a three-node trie whose database starts empty in NonVacuity12).",
        technique="Lean 4 proof (event-order invariant ReadsFirst, executor case analysis) + correspondence check with node removal",
        design_ref="6/C07"),
    "C12": dict(
        text="Theorems (all histories of set/delete/delete_subtrie on non-empty keys, all lookup keys, no bound) on the transcription "
             "of _set/_set_kv_node (eight split cases)/_set_branch_node (both compressions): after any history get equals the map "
             "model with the prefix rule (run_get): a non-empty store is refused iff a stored key is a proper prefix or extension "
             "(set_override_iff), delete removes exactly its key and is refused only for an absent related key (bget_delete, "
             "delete_override), delete_subtrie removes exactly the keys under the prefix and is refused only when it runs past a "
             "stored key (bget_delete_subtrie, delete_subtrie_override); every reachable trie is canonical (canon_run) and canonical "
             "tries with equal contents are equal (bcanon_unique), hence for EVERY hash function the root depends on the contents "
             "only and is H(b'') when empty (root_depends_only_on_contents, root_empty); a raising call saved nothing "
             "(raise_changes_nothing) and every node of a new trie is old or just saved (new_nodes_saved). The raw-level transcription "
             "of _set over node hashes and the database (Model/BinRaw.lean, itself run against the code) returns the hash of the "
             "tree-level result, saves exactly the listed nodes in order and raises exactly when the tree level does "
             "(Raw.bin_set_refines, bin_set_blank); threaded over whole histories of accepted calls it returns the root of the "
             "tree-level history and a database storing that whole tree, and BinaryTrie.get over that database returns the map "
             "model's value (Raw.bin_history, bin_history_tree, bin_history_get); a call refused with NodeOverrideError has saved nothing and the "
             "database is add-only, for every input (Raw.bin_refused_saves_nothing, bin_db_add_only, binT_agrees). That the kv/branch/leaf "
             "byte encoding is the specified one is pinned by the independent canonical encoder of the harness and C16. EARLIER ROOTS (Props/C12History.lean): after any history the write log only grew (bin_history_log_grows) and, the final log being functional (no hash bound to two bodies - a run-level fact), BinaryTrie(db, root_i).get over the FINAL database returns the map model's value after the first i calls, for every i and key (bin_history_old_roots_readable; NonVacuity10). Tie: outcome, "
             "root, exact database, get/exists after every call; old roots re-read through the Lean Layer-D reader; the raw-level run "
             "on its own root and database alongside every history (root per call, database, lookups). WITH REFUSED CALLS (Props/C12Refusals.lean): the raw-level run that goes on after a NodeOverrideError, as a caller's program does, reports exactly the tree-level refusals, ends at the root of the tree-level history with that whole tree stored, and get over its database returns the map model with the prefix rule (bin_history_with_refusals, bin_history_with_refusals_get; NonVacuity13: two refused writes in the middle of a history).",
        technique="Lean 4 proof (case-for-case tree model, canonical-form uniqueness) + correspondence check",
        design_ref="6/C12"),
    "C16": dict(
        text="Theorems for ALL inputs (no length bound) on the transcriptions of trie/utils/nibbles.py, binaries.py and the binary "
             "half of nodes.py: encode_nibbles equals the Yellow Paper HP function written out literally, for every in-range nibble "
             "sequence with/without terminator, and so does the tree model's hp (hp_is_yellow_paper, tree_hp_is_yellow_paper); "
             "decode_nibbles inverts it incl. the flag (hp_decodes_back, terminator_flag); bytes<->nibbles and bytes<->bits are mutually "
             "inverse (both directions; odd/out-of-range nibble lists refused with InvalidNibbles); the key-path packing round-trips "
             "every bit string incl. the empty one (keypath_roundtrip); kv/branch/leaf encodings parse back to their parts; empty, "
             "unknown-type and impossible-length nodes are rejected with InvalidNode (malformed_nodes_rejected); encoders refuse empty "
             "paths/values and non-32-byte hashes; a hexary leaf/extension written with a path classifies as such and yields that "
             "path (hexary_*). Tie: exhaustive small domains + random + malformed stream through the Python functions and the model.",
        technique="Lean 4 proof (bit/byte arithmetic, structural induction) + exhaustive-small-domain correspondence check",
        design_ref="6/C16"),
    "C14": dict(
        text="Theorems (every depth, every default, every history of set/delete on keys of the tree's size, every hash function with "
             "32-byte output; run-level hypothesis Functional db = no hash bound to two bodies in the write log) on the database-level "
             "transcription of smt.py: the constructor builds the all-default tree (init_rep); after any history the root resolves to "
             "the full tree of the map model (run_rep) and IS the Merkle root of the full depth-d tree with leaves H(value or default) "
             "(root_is_merkle_root), hence history independent and equal to the initial root once everything is cleared; get returns "
             "the last value written, KeyError iff that is blank (get_spec); branch(key) is exactly the ideal sibling list and "
             "calc_root(key, value, branch) = root (branch_verifies); set/delete return the updated path hashes root-to-leaf "
             "(set_returns_path); reading depends on db/root/depth only (from_db_same). The key-size guard 1..32 is C18. The integer "
             "bit arithmetic of smt.py as written (to_int, path & target_bit, shifts over reversed(branch)) is transcribed separately "
             "(Model/SmtInt.lean - this is what runs against the code) and proved equal to the bit-list model (SmtInt.get_agrees, "
             "set_agrees, calc_root_agrees, bit_is_list_element). WITH ROLLBACKS (Props/C14Rollback.lean): events = set/delete or tree.root_hash := the root after the first i events (= from_db at that root); the database only grows and, the final database being functional, EVERY version's root represents that version's contents in the final database, and get reads the current version (rollback_history_rep, rollback_history_get; NonVacuity14); the quick check assigns root_hash on the live object mid-history.",
        technique="Lean 4 proof (representation invariant over a write-log database, induction over histories) + correspondence check",
        design_ref="6/C14"),
    "C15": dict(
        text="Theorems (every depth, every leaf function, every tracked key, every update stream): a proof holding the tree's value and "
             "branch for its key, fed (key, value, first n returned hashes) for each subsequent write - other keys diverging at any "
             "bit, its own key, repeats, deletions - with n beyond the first differing bit, is accepted throughout and ends with "
             "the final tree's value, branch and root hash (stream_tracks, update_keeps_sync, in_sync_root); a list that stops short of "
             "the first differing bit is rejected with ValidationError (short_update_rejected) and, the proof being a value in the "
             "model, unchanged (tied to the code by comparing the proof before/after). The xor / highest-set-bit scan of update() as "
             "written is proved to be the first differing bit (SmtInt.branch_point_is_first_diff, proof_update_agrees). Tie: proof "
             "value/branch/root after every update, all truncation lengths.",
        technique="Lean 4 proof (sibling-list update lemma, induction over update streams) + correspondence check",
        design_ref="6/C15"),
    "C17": dict(
        text="Theorems (every pre-existing wrapped database, every sequence of buffered writes and deletes, do_deletes on/off) on the "
             "transcription of ScratchDB: the wrapped database is never written while the batch is open (wrapped_untouched); reads and "
             "membership see the latest buffered write and read through after a buffered delete (read_latest, contains_latest); normal "
             "exit applies last-write-wins, deletes only if requested, leaves untouched keys alone and empties the buffer (commit_spec); "
             "exit by exception at any position leaves the wrapped database exactly as it was with an empty buffer (abort_spec); a "
             "commit whose n-th write fails still empties the buffer and adds only buffered writes (commit_failure_spec). Tie: every "
             "read / membership / copy(), the wrapped database during and after the block, buffer size, all exit kinds and positions. copy() as it behaves is now a theorem (copy_spec: latest buffered write, ABSENT after a buffered delete, wrapped value otherwise = what commit(do_deletes=True) would leave, copy_eq_commit_with_deletes); several blocks in a row on one object: buffer empty after each, every key answers by its last COMMITTED action (runBlock_clean, runBlocks_spec); the harness re-uses the object for up to three blocks.",
        technique="Lean 4 proof (insertion-ordered dict model, induction over buffered actions) + correspondence check",
        design_ref="6/C17"),
    "C13": dict(
        text="Theorems (all canonical binary tries = all reachable ones, all keys/prefixes, ALL lists of offered byte strings; every hash "
             "with 32-byte output; run-level NoCollision, no injectivity) on the transcription of branches.py and a Layer-D reader that "
             "parses encoded nodes: get_branch refuses only unstored keys related to a stored key (branch_refusal; exact "
             "characterisation branch_refusal_iff - the first statement tried, 'iff related', was machine-refuted: a key ending "
             "strictly inside a kv path is not refused); the branch validates the trie's answer for present and absent keys "
             "(branch_valid); NO offered list - altered, truncated, other key, other trie - makes if_branch_valid confirm an answer "
             "the trie does not give (branch_sound, via bgetD_sound); check_if_branch_exist(p) iff some stored key starts with p "
             "(exist_iff); get_trie_nodes = exactly the reachable nodes (trie_nodes_exact); a witness contains only trie nodes, is "
             "refused only when the prefix runs past a stored key, and answers get(k) for every k under the prefix (witness_*). "
             "Raw level: the four functions AS WRITTEN over node hashes and the database (Model/BranchRaw.lean: parse_node(db[h]), "
             "'h in db', generators) return, on every database storing a canonical trie, the encodings of what the tree-level "
             "functions return (raw_exists, raw_get_branch, raw_trie_nodes, raw_witness, raw_blank; the first fuel bound for the "
             "witness generator was machine-refuted: with an exhausted key it keeps descending to the right, depth = trie height). "
             "Tie: tuples returned, validity outcomes incl. exception classes on a corruption stream, against the tree-level model "
             "AND the raw-level transcription, the latter also on databases with one node removed and on older roots. OVER WHOLE HISTORIES (Props/C13History.lean): composed with the raw-level history theorem of C12, the four helpers of branches.py run on the root hash and database the BinaryTrie API itself produced answer in terms of the map model spec(ops): check_if_branch_exist true iff a stored key starts with p (history_exists), get_branch = encodings of the tree-level branch and if_branch_valid confirms spec(ops)(k) with it, refusal implies unstored and related (history_branch), no offered list validates another answer (history_branch_sound), get_trie_nodes / witness exact and sufficient (history_nodes_and_witness).",
        technique="Lean 4 proof (Layer-D reader vs tree induction, path-node inclusion lemmas) + correspondence check incl. forged branches",
        design_ref="6/C13"),
    "C09": dict(
        text="Theorems about the abstract walk (state = fog + pairs met; a step takes ANY unexplored prefix and the description - node "
             "or simulated node - of SOME version of the trie at it: the current version from the root, an older one through a "
             "frontier-cache entry, justified by C08 traverse_from_eq/sim; a schedule is any list of steps, i.e. any order and any "
             "interleaving with modifications): a step on an unexplored prefix is never rejected (step_defined); every key whose "
             "value is the same in all versions consulted is met with that value once the fog is complete (finds_stable, invariant); "
             "every pair met was stored in some version (sound); on an unchanging trie the pairs met are exactly the contents "
             "(exact); while keys have at most L nibbles every step strictly decreases a measure starting at 17^(L+1) "
             "(step_decreases, measure_start), so the walk terminates with the fog complete under finitely many modifications "
             "(unbounded ever-longer modifications: termination is false and not claimed). The loop body AS CALLERS WRITE IT "
             "(Model/Walk.lean cstep: cache lookup, traverse_from(cached parent, segment) on a hit / traverse(prefix) on a miss, "
             "simulated node, explore, cache.add / cache.delete) is proved to be an abstract step on some version that occurred, with "
             "the invariant 'every cache entry describes some version at its prefix' maintained (concrete_step), so whole concrete "
             "runs with stale cache entries find every stable key and meet nothing never stored (concrete_finds_stable, "
             "concrete_sound). A stale cached parent read over the CURRENT database (raw level: traverse_from over rlp-decoded nodes) "
             "returns what the older version says or raises MissingTraversalNode naming the first absent child - never anything "
             "else (stale_parent_truthful); and after ANY history, pruning on or off, every earlier version is partially consistent with the "
             "current database (earlier_versions_consistent, under the run-level premise that no two different nodes among the versions "
             "of the run share a hash), so reading any earlier version through the current database is truthful-or-raises "
             "(old_version_read_truthful). The loop body AT RAW LEVEL (Model/WalkD.lean cstepD: root hash, the database as it is now, "
             "a cache of raw node bodies) is the tree-level step or MissingTraversalNode for a node that really is absent "
             "(raw_step_refines, raw_cache_invariant), and it is what each real walk step is compared with. The caller's reaction to "
             "that exception (drop the entry, traverse from the root - cstepDR) never raises on a database complete for the current "
             "version (raw_step_with_retry), and the WHOLE raw-level walk over a database that changes between steps (crunDR) never "
             "raises, meets only pairs some version held, and has met every stable key once the fog is complete "
             "(raw_walk_finds_stable_and_sound; composed with the executor: walk_over_history, walk_over_history_never_stuck - steps "
             "interleaved with set/delete calls, pruning on or off, under the history's run-level premise only; when every prefix is taken from the fog no step is rejected: raw_walk_never_stuck; the premise SchedOk is what earlier_versions_consistent provides along executor "
             "histories). Tie: real walks with the real cache against the model, each whole step compared with cstep, cstepD and "
             "cstepDR (retry included, cache keys compared) as one transition; a bystander walk with its own cache is judged model-free. TERMINATION of whole walks (Props/C09Termination.lean): at all three levels - abstract walk, walk with the frontier cache, raw-level walk over root hash + database + cache of raw bodies with retry, the trie modified between steps - number of steps + measure of the fog left <= 17^(L+1) while the consulted versions store keys of at most L nibbles (walk_length_bounded, concrete_walk_length_bounded, raw_walk_length_bounded, raw_walk_complete_at_bound); with raw_walk_never_stuck a walk loop must reach the complete fog; applied to the concrete walk of NonVacuity8 (NonVacuity10). WALKS INTERLEAVED WITH squash_changes BLOCKS (Props/C09Blocks.lean, non-pruning trie): along a history with blocks no database binding is ever lost (history_blocks_preserves), so the schedule of a walk whose steps see the world between the steps of such a history satisfies SchedOk (schedOk_of_history_with_blocks) and the raw-level walk never raises, is sound and finds every key that kept its value (walk_over_history_with_blocks), under Good' and the two physical side conditions at each walk step.",
        technique="Lean 4 proof (walk invariant over arbitrary schedules, well-founded measure) + correspondence check on real walks",
        design_ref="6/C09"),
    "C18": dict(
        text="Theorems on the validation table transcribed from the entry points (order of checks as in the code): every entry point "
             "has the shape validate-then-operate, so a refused call returns the state unchanged and any continuation is unaffected "
             "(refused_call_changes_nothing, history_unaffected) - at any point of any history; for ALL values: a non-bytes "
             "key/root/prefix is refused with ValidationError by each of the 37 listed entry points, a non-bytes value by the setters, "
             "wrong-length keys/branches/root hashes by the SMT, calc_root and proof entry points, key sizes outside 1..32, a snapshot "
             "of a pruning trie (ValidationError), a ref count for a non-pruning trie (ValueError), non-sequences (bytes and str "
             "included) as nibbles (TypeError) and bad nibble elements (ValueError). The theorems are easy by construction; the weight "
             "is on the tie: the table x bad-value kinds at random points of random histories against the real entry points "
             "(exception class; root/db/ref counts/proof/fog unchanged; the rest of the history equals a twin that never saw the calls).",
        technique="Lean 4 proof (validation table, validate-then-operate shape) + correspondence check of the table against the code",
        design_ref="6/C18"),
}
REASON_PENDING = "check not built yet in this revision (work in progress, see DESIGN.md section 10)"

manifest = dict(
    version=1,
    setup_cmd="cd lean && lake build",
    hooks=dict(guard="PY_TRIE_VERIF", enable="no source hooks are needed: databases are injected by the harness (dict subclasses); "
               "the guard is unused", baseline_off_cmd="cd /repo && /venv/bin/python -m pytest -ra -q -p no:cacheprovider --timeout=900 "
               "--continue-on-collection-errors", source_commits=[], add_only=True),
    engines=[dict(name="lean-model", path="lean", serves_properties=sorted(CLAIMED),
                  kind_free_text="Lean 4 model + theorems (lake project PyTrie) and compiled line-protocol driver trie_model"),
             dict(name="harness", path="harness", serves_properties=sorted(CLAIMED),
                  kind_free_text="Python correspondence harness: generators, adapters on the real code, oracles, shrinking, evidence")],
    checks=[], not_applicable=[],
    notes="Fix commits in /repo (genuine defects D1-D3): b274ed9, c7a7525, 52b301d; see known-findings.txt and DESIGN.md section 7.",
)
for p in props:
    pid = p["id"]
    if pid in CLAIMED:
        c = CLAIMED[pid]
        manifest["checks"].append(dict(
            property_id=pid,
            quick_cmd="/venv/bin/python harness/check.py %s --tier quick" % pid,
            thorough_cmd="/venv/bin/python harness/check.py %s --tier thorough" % pid,
            evidence_file="evidence/%s.json" % pid,
            replay_cmd_template="/venv/bin/python harness/check.py %s --replay {path}" % pid,
            engine="lean-model",
            level_claimed=dict(category="proof", text=c["text"], design_ref=c["design_ref"]),
            level_note=LEVEL_NOTE + (" " + c["note"] if c.get("note") else ""),
            technique=c["technique"]))
    else:
        manifest["not_applicable"].append(dict(property_id=pid, reason=REASON_PENDING))
json.dump(manifest, open(os.path.join(HERE, "MANIFEST.json"), "w"), indent=1)
print("claimed:", sorted(CLAIMED))
