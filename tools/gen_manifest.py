#!/usr/bin/env python3
"""Writes MANIFEST.json from the per-property table below (kept here so that the manifest stays
consistent with what is actually built)."""
import json, os
HERE = os.path.dirname(os.path.dirname(os.path.abspath(__file__)))
props = [json.loads(l) for l in open(os.path.join(HERE, "properties.jsonl"))]
TITLES = {p["id"]: p["title"] for p in props}

LEVEL_NOTE = ("Trusted: Lean 4.33 kernel; axioms propext/Classical.choice/Quot.sound only (audited by #print axioms on "
              "every run, no sorry/native_decide/own axioms); the hand-written model is tied to /repo by a behavioural "
              "correspondence check (differential testing through the compiled model driver) whose strength is that of "
              "its generators; CPython semantics and third-party rlp/eth_hash/sortedcontainers are modelled, not verified.")

CLAIMED = {
    "C01": dict(
        text="Theorems (all histories, all keys, no bound): tree-level set/delete have exact map semantics (get_set, get_delete), "
             "every reachable trie is canonical (canon_run), the code-shaped lookup _traverse_from+_get returns the map model's "
             "value and never raises (run_getT_never_raises), bytes_to_nibbles is injective; D1 kept as a decide-witness about "
             "the pinned _get. Tie: get() after every operation of generated histories (4 configurations) equals the model's.",
        technique="Lean 4 proof (induction over histories on a tree model) + correspondence check of model vs code",
        design_ref="6/C01"),
}
REASON_PENDING = "check not built yet in this revision (work in progress, see DESIGN.md section 10)"

manifest = dict(
    version=1,
    setup_cmd="cd lean && lake build",
    hooks=dict(guard="PY_TRIE_VERIF", enable="no source hooks are needed: databases are injected by the harness (dict subclasses); "
               "the guard is unused", baseline_off_cmd="cd /repo && /venv/bin/python -m pytest -ra -q -p no:cacheprovider --timeout=900 "
               "--continue-on-collection-errors", source_commits=[], add_only=True),
    engines=[dict(name="lean-model", path="lean", serves_properties=sorted(CLAIMED),
                  kind_free_text="Lean 4 model + theorems (lake project PyTrie) and compiled line-protocol driver trie_model"),
             dict(name="harness", path="harness", serves_properties=sorted(CLAIMED),
                  kind_free_text="Python correspondence harness: generators, adapters on the real code, oracles, shrinking, evidence")],
    checks=[], not_applicable=[],
    notes="Fix commits in /repo (genuine defects D1-D3): b274ed9, c7a7525, 52b301d; see known-findings.txt and DESIGN.md section 7.",
)
for p in props:
    pid = p["id"]
    if pid in CLAIMED:
        c = CLAIMED[pid]
        manifest["checks"].append(dict(
            property_id=pid,
            quick_cmd="/venv/bin/python harness/check.py %s --tier quick" % pid,
            thorough_cmd="/venv/bin/python harness/check.py %s --tier thorough" % pid,
            evidence_file="evidence/%s.json" % pid,
            replay_cmd_template="/venv/bin/python harness/check.py %s --replay {path}" % pid,
            engine="lean-model",
            level_claimed=dict(category="proof", text=c["text"], design_ref=c["design_ref"]),
            level_note=LEVEL_NOTE + (" " + c["note"] if c.get("note") else ""),
            technique=c["technique"]))
    else:
        manifest["not_applicable"].append(dict(property_id=pid, reason=REASON_PENDING))
json.dump(manifest, open(os.path.join(HERE, "MANIFEST.json"), "w"), indent=1)
print("claimed:", sorted(CLAIMED))
