#!/usr/bin/env python3
"""seeded.py verify <mutant dir>            – confirm a seeded change: demo passes clean, fails with the patch,
                                              the pinned test suite passes with the patch
   seeded.py check <mutant dir> <pid>...    – run the quick checks of the given properties against a scratch
                                              worktree of /repo with the patch applied (VERIF_REPO), report verdicts
   seeded.py inplace <mutant dir> <pid>...  – the same against /repo itself: git apply, run, git checkout -- .
Scratch worktrees live under /tmp/wt and are removed afterwards. Evidence/replays of these runs go to a temp dir."""
import json
import os
import re
import shutil
import subprocess
import sys
import tempfile
import xml.etree.ElementTree as ET

VERIF = os.path.dirname(os.path.dirname(os.path.abspath(__file__)))
PY = "/venv/bin/python"


def sh(cmd, cwd=None, env=None, timeout=None):
    p = subprocess.run(cmd, cwd=cwd, env=env, stdout=subprocess.PIPE, stderr=subprocess.STDOUT, text=True, timeout=timeout)
    return p.returncode, p.stdout


def mk_wt(tag):
    wt = "/tmp/wt/%s-%d" % (tag, os.getpid())
    sh(["git", "-C", "/repo", "worktree", "add", "--detach", wt, "HEAD", "-q"])
    return wt


def rm_wt(wt):
    sh(["git", "-C", "/repo", "worktree", "remove", "--force", wt])
    shutil.rmtree(wt, ignore_errors=True)


def passes(wt):
    x = os.path.join(wt, "junit.xml")
    sh([PY, "-m", "pytest", "-q", "-p", "no:cacheprovider", "--timeout=900", "--continue-on-collection-errors",
        "--junitxml=" + x, "-x", "-n", "0"] if False else
       [PY, "-m", "pytest", "-q", "-p", "no:cacheprovider", "--timeout=900", "--continue-on-collection-errors",
        "--junitxml=" + x], cwd=wt, timeout=1800)
    ok = set()
    for tc in ET.parse(x).getroot().iter("testcase"):
        if not list(tc):
            ok.add("%s::%s" % (tc.get("classname"), tc.get("name")))
    os.unlink(x)
    return ok


def verify(mdir):
    mdir = os.path.abspath(mdir)
    base = set(json.load(open("/root/.vp/BASELINE.json"))["stable_pass"])
    wt = mk_wt("verify")
    try:
        # the demo is run from a copy inside the scratch worktree, so that both "cwd" and "parent of the
        # script's directory" resolve `import trie` to the tree under test
        os.makedirs(os.path.join(wt, "_mut"))
        shutil.copy(os.path.join(mdir, "demo.py"), os.path.join(wt, "_mut", "demo.py"))
        rc0, out0 = sh([PY, "_mut/demo.py"], cwd=wt, timeout=600)
        rc, out = sh(["git", "apply", os.path.join(mdir, "patch.diff")], cwd=wt)
        if rc:
            print("patch does not apply:", out)
            return 2
        rc1, out1 = sh([PY, "_mut/demo.py"], cwd=wt, timeout=600)
        imp = sh([PY, "-c", "import trie; print(trie.__file__)"], cwd=wt)[1].strip()
        ok = passes(wt)
        missing = sorted(base - ok)
        if missing:
            # hypothesis deadlines make a few tests flaky when the machine is loaded: a test that fails in the full run is run
            # again on its own (twice) and counts as broken only if it fails there too
            still = []
            for t in missing:
                mod, _, name = t.partition("::")
                node = mod.replace(".", "/") + ".py::" + name
                good = False
                for _ in range(2):
                    rc_t, _o = sh([PY, "-m", "pytest", "-q", "-p", "no:cacheprovider", "--timeout=900", node], cwd=wt, timeout=1800)
                    if rc_t == 0:
                        good = True
                        break
                if not good:
                    still.append(t)
            if len(still) < len(missing):
                print("  flaky under load (passed when run alone):", sorted(set(missing) - set(still))[:5])
            missing = still
        print("demo clean rc=%d, demo patched rc=%d, import %s, baseline tests passing %d/%d" % (rc0, rc1, imp, len(base & ok), len(base)))
        if missing:
            print("  tests broken by the patch:", missing[:5])
        good = rc0 == 0 and rc1 != 0 and not missing
        print("CONFIRMED" if good else "REJECTED")
        if not good:
            print(out0[-600:], "\n---\n", out1[-600:])
        return 0 if good else 1
    finally:
        rm_wt(wt)


def run_checks(mdir, pids, inplace):
    mdir = os.path.abspath(mdir)
    tmp = tempfile.mkdtemp(prefix="seeded-")
    env = dict(os.environ, VERIF_EVIDENCE_DIR=os.path.join(tmp, "ev"), VERIF_REPLAY_DIR=os.path.join(tmp, "replays"))
    if inplace:
        repo = "/repo"
        rc, out = sh(["git", "-C", "/repo", "apply", os.path.join(mdir, "patch.diff")])
    else:
        repo = mk_wt("check")
        env["VERIF_REPO"] = repo
        rc, out = sh(["git", "apply", os.path.join(mdir, "patch.diff")], cwd=repo)
    res = {}
    try:
        if rc:
            print("patch does not apply:", out)
            return 2
        for pid in pids:
            rc, out = sh([PY, os.path.join(VERIF, "harness", "check.py"), pid, "--tier", "quick"], cwd=VERIF, env=env, timeout=3600)
            v = [l for l in out.splitlines() if l.startswith("VIOLATION")]
            detail = [l for l in out.splitlines() if l.strip().startswith(("clause:", "detail:", "first difference"))]
            res[pid] = dict(exit=rc, violation=v[:2], detail=[d[:300] for d in detail[:2]])
            print("%s exit=%d %s" % (pid, rc, " | ".join(v[:1] + [d.strip()[:260] for d in detail[:1]])))
    finally:
        if inplace:
            sh(["git", "-C", "/repo", "checkout", "--", "."])
        else:
            rm_wt(repo)
        shutil.rmtree(tmp, ignore_errors=True)
    print(json.dumps(res))
    return res


def keep(mdir, name, pids):
    """verify + check, then record under /verif/seeded/<name>/"""
    if verify(mdir) != 0:
        return 1
    res = run_checks(mdir, pids, False)
    dst = os.path.join(VERIF, "seeded", name)
    os.makedirs(dst, exist_ok=True)
    for f in ("patch.diff", "demo.py"):
        shutil.copy(os.path.join(mdir, f), os.path.join(dst, f))
    meta = json.load(open(os.path.join(mdir, "meta.json")))
    meta["confirmed_by_me"] = ("scratch worktree of /repo HEAD: demo.py exits 0 on the clean tree and non-zero with patch.diff applied; "
                               "the 215 pinned baseline tests all still pass with the patch (tools/seeded.py verify)")
    meta["checks_run"] = {pid: dict(caught=(r["exit"] == 1), exit=r["exit"], verdict=r["violation"][:1], detail=r["detail"][:1])
                          for pid, r in res.items()}
    meta["caught_by"] = sorted(pid for pid, r in res.items() if r["exit"] == 1)
    json.dump(meta, open(os.path.join(dst, "meta.json"), "w"), indent=1)
    print("kept as", dst, "caught by", meta["caught_by"])
    return 0


def recheck(name, pids):
    """re-run checks against an already recorded seeded change and update its meta.json"""
    dst = os.path.join(VERIF, "seeded", name)
    res = run_checks(dst, pids, False)
    meta = json.load(open(os.path.join(dst, "meta.json")))
    for pid, r in res.items():
        meta.setdefault("checks_run", {})[pid] = dict(caught=(r["exit"] == 1), exit=r["exit"], verdict=r["violation"][:1], detail=r["detail"][:1])
    meta["caught_by"] = sorted(pid for pid, r in meta["checks_run"].items() if r["exit"] == 1)
    json.dump(meta, open(os.path.join(dst, "meta.json"), "w"), indent=1)
    print("rechecked", name, "caught by", meta["caught_by"])
    return 0


def table():
    """markdown table of the recorded seeded changes"""
    rows = ["| seeded change | property | site | needs to manifest | caught by (quick checks) |", "|---|---|---|---|---|"]
    d = os.path.join(VERIF, "seeded")
    for name in sorted(os.listdir(d)):
        if not os.path.isdir(os.path.join(d, name)):
            continue
        m = json.load(open(os.path.join(d, name, "meta.json")))
        ran = m.get("checks_run", {})
        caught = ", ".join("%s (%s)" % (pid, (r.get("detail") or ["?"])[0].replace("clause:", "").strip()[:40] if r.get("detail") else pid)
                           for pid, r in sorted(ran.items()) if r["exit"] == 1)
        missed = ", ".join(pid for pid, r in sorted(ran.items()) if r["exit"] != 1)
        needs = str(m.get("needs_to_manifest", "")).replace("|", "/").replace("\n", " ")[:220]
        rows.append("| %s | %s | %s | %s | %s%s |" % (name, m.get("property", "?"), str(m.get("site", "?")).replace("|", "/")[:60], needs,
                                                     caught or "none", (" — not caught by: " + missed) if missed else ""))
    text = "\n".join(rows)
    if "--write" in sys.argv:
        with open(os.path.join(d, "TABLE.md"), "w") as f:
            f.write("# Seeded changes and the checks that catch them\n\nGenerated by `python3 tools/seeded.py table --write` from "
                    "`seeded/*/meta.json` (each entry: patch.diff, demo.py, meta.json with the outcome of the quick checks run "
                    "against a scratch worktree with the patch applied).\n\n" + text + "\n")
    else:
        print(text)
    return 0


if __name__ == "__main__":
    cmd = sys.argv[1]
    if cmd == "table":
        sys.exit(table())
    if cmd == "recheck":
        sys.exit(recheck(sys.argv[2], sys.argv[3:]))
    if cmd == "keep":
        sys.exit(keep(sys.argv[2], sys.argv[3], sys.argv[4:]))
    if cmd == "verify":
        sys.exit(verify(sys.argv[2]))
    r = run_checks(sys.argv[2], sys.argv[3:], cmd == "inplace")
    sys.exit(0 if isinstance(r, dict) else 2)
