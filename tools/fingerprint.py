#!/usr/bin/env python3
"""/venv/bin/python tools/fingerprint.py [--write] (same interpreter as the checks: `ast.dump` differs between versions): structural fingerprint (sha256 of the docstring-free AST) of every module under /repo/trie.
harness/source_fingerprint.json records the fingerprints of the source the model was transcribed from and reviewed against.
A difference is NOT a violation (a harmless rewrite changes it too): the quick checks only react by exploring three times as
long (`source-drift` line in their output, `source_drift` in the evidence), because a changed function is where the
transcription may no longer say what the code says."""
import ast
import hashlib
import json
import os
import sys

VERIF = os.path.dirname(os.path.dirname(os.path.abspath(__file__)))
PINNED = os.path.join(VERIF, "harness", "source_fingerprint.json")


def strip_doc(tree):
    for node in ast.walk(tree):
        if isinstance(node, (ast.FunctionDef, ast.AsyncFunctionDef, ast.ClassDef, ast.Module)):
            b = node.body
            if b and isinstance(b[0], ast.Expr) and isinstance(getattr(b[0], "value", None), ast.Constant) \
                    and isinstance(b[0].value.value, str):
                node.body = b[1:] or [ast.Pass()]
    return tree


def fingerprints(repo):
    out = {}
    root = os.path.join(repo, "trie")
    for d, _, fs in os.walk(root):
        for f in sorted(fs):
            if f.endswith(".py"):
                p = os.path.join(d, f)
                try:
                    dump = ast.dump(strip_doc(ast.parse(open(p).read())), annotate_fields=False)
                except SyntaxError:
                    dump = "syntax-error"
                out[os.path.relpath(p, repo)] = hashlib.sha256(dump.encode()).hexdigest()
    return out


def drift(repo):
    try:
        pinned = json.load(open(PINNED))
    except Exception:  # noqa
        return ["(no pinned fingerprint)"]
    cur = fingerprints(repo)
    return sorted(k for k in set(pinned) | set(cur) if pinned.get(k) != cur.get(k))


if __name__ == "__main__":
    repo = os.environ.get("VERIF_REPO", "/repo")
    if "--write" in sys.argv:
        json.dump(fingerprints(repo), open(PINNED, "w"), indent=1, sort_keys=True)
        print("wrote", PINNED)
    else:
        print(json.dumps(drift(repo)))
