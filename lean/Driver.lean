import PyTrie.Model.HexDrv
import PyTrie.Model.FogDrv
import PyTrie.Model.BinDrv
import PyTrie.Model.SmtDrv
import PyTrie.Model.EncDrv
import PyTrie.Model.SdbDrv
import PyTrie.Model.ValDrv
/-! `trie_model`: reads one command per line on stdin, writes one reply per line on stdout.
    A command is `<module>.<cmd> arg…`; unknown or ill-formed commands answer `bad-op`. -/
open PyTrie

structure DrvSt where
  hx : HexDrv.St := {}
  fog : FogDrv.St := {}
  bin : BinDrv.St := {}
  smt : SmtDrv.St := {}
  enc : EncDrv.St := {}
  sdb : SdbDrv.St := {}
  val : ValDrv.St := {}

def dispatch (st : DrvSt) (line : String) : DrvSt × String :=
  match (line.splitOn " ").filter (· ≠ "") with
  | [] => (st, "bad-op")
  | head :: args =>
    match head.splitOn "." with
    | ["hx", cmd] => let (s, out) := HexDrv.step st.hx cmd args; ({ st with hx := s }, out)
    | ["fog", cmd] => let (s, out) := FogDrv.step st.fog cmd args; ({ st with fog := s }, out)
    | ["bin", cmd] => let (s, out) := BinDrv.step st.bin cmd args; ({ st with bin := s }, out)
    | ["smt", cmd] => let (s, out) := SmtDrv.step st.smt cmd args; ({ st with smt := s }, out)
    | ["enc", cmd] => let (s, out) := EncDrv.step st.enc cmd args; ({ st with enc := s }, out)
    | ["sdb", cmd] => let (s, out) := SdbDrv.step st.sdb cmd args; ({ st with sdb := s }, out)
    | ["val", cmd] => let (s, out) := ValDrv.step st.val cmd args; ({ st with val := s }, out)
    | _ => (st, "bad-op")

partial def loop (hin hout : IO.FS.Stream) (st : DrvSt) : IO Unit := do
  let line ← hin.getLine
  if line.isEmpty then return ()
  let (st', out) := dispatch st (line.trimAscii.toString)
  hout.putStrLn out
  loop hin hout st'

def main : IO Unit := do
  let hin ← IO.getStdin
  let hout ← IO.getStdout
  loop hin hout {}
