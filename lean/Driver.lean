import PyTrie.Model.HexDrv
/-! `trie_model`: reads one command per line on stdin, writes one reply per line on stdout.
    A command is `<module>.<cmd> arg…`; unknown or ill-formed commands answer `bad-op`. -/
open PyTrie

structure DrvSt where
  hx : HexDrv.St := {}

def dispatch (st : DrvSt) (line : String) : DrvSt × String :=
  match (line.splitOn " ").filter (· ≠ "") with
  | [] => (st, "bad-op")
  | head :: args =>
    match head.splitOn "." with
    | ["hx", cmd] => let (s, out) := HexDrv.step st.hx cmd args; ({ st with hx := s }, out)
    | _ => (st, "bad-op")

partial def loop (hin hout : IO.FS.Stream) (st : DrvSt) : IO Unit := do
  let line ← hin.getLine
  if line.isEmpty then return ()
  let (st', out) := dispatch st (line.trimAscii.toString)
  hout.putStrLn out
  loop hin hout st'

def main : IO Unit := do
  let hin ← IO.getStdin
  let hout ← IO.getStdout
  loop hin hout {}
