import PyTrie.Model.WalkD
import PyTrie.Lemmas.WalkConcrete
import PyTrie.Lemmas.ReadPartial
/-! **The raw-level walk step computes the tree-level walk step, or reports the first missing node.** The tree-level
    step `cstep` (`Model/Walk.lean`) holds tree nodes in its cache and consults the tree; the raw-level step `cstepD`
    (`Model/WalkD.lean`) holds raw node bodies and reads their children from the database as it is now. On a database that
    is partially consistent with the current version and with every cached parent (whatever it holds under the hash of
    one of their nodes is that node's encoding — `VersionsConsistent`), `cstepD` returns `MissingTraversalNode` for the
    first absent node on the way, or exactly the image of `cstep`'s result. So the walk theorems of C09
    (`concrete_finds_stable`, `concrete_sound`, termination) are theorems about the raw-level loop body, which is what
    the correspondence check runs against the code. -/
namespace PyTrie.HexD
open PyTrie PyTrie.Hex PyTrie.Fog PyTrie.HexRaw PyTrie.Walk

variable (H : Bytes → Bytes)

/-- the raw image of a tree-level walk state: cached parents become their raw bodies -/
def toCD (s : CState) : CStateD :=
  ⟨s.fog, s.cache.map (fun e => (e.1, (toItem H e.2.1, e.2.2))), s.met⟩

/-- every cached parent is canonical and partially consistent with the database -/
def CacheOkD (db : Db) (c : Frontier Node) : Prop :=
  ∀ p parent seg, Frontier.get c p = some (parent, seg) → Canon parent ∧ PartialD H db parent

theorem frontier_get_map (c : Frontier Node) (p : Path) :
    Frontier.get (c.map (fun e => (e.1, (toItem H e.2.1, e.2.2)))) p =
      (Frontier.get c p).map (fun e => (toItem H e.1, e.2)) := by
  induction c with
  | nil => rfl
  | cons e c ih =>
    rw [List.map_cons, frontier_get_cons, frontier_get_cons]
    by_cases h : e.1 = p
    · simp [h]
    · simp only [h, ↓reduceIte]; exact ih

/-! ### the cache operations commute with the raw image -/

/-- the raw image of a cache -/
def mapC (c : Frontier Node) : Frontier Item := c.map (fun e => (e.1, (toItem H e.2.1, e.2.2)))

theorem mapC_erase (c : Frontier Node) (p : Path) :
    Frontier.erase (mapC H c) p = mapC H (Frontier.erase c p) := by
  simp only [mapC, Frontier.erase, List.filter_map]
  rfl

theorem mapC_put (c : Frontier Node) (p : Path) (n : Node) (seg : Path) :
    Frontier.put (mapC H c) p (toItem H n, seg) = mapC H (Frontier.put c p (n, seg)) := by
  simp only [Frontier.put, mapC_erase]
  rfl

theorem mapC_foldl_put (pre : Path) (n : Node) (subs : List Path) :
    ∀ c : Frontier Node,
      subs.foldl (fun acc seg => Frontier.put acc (pre ++ seg) (toItem H n, seg)) (mapC H c) =
        mapC H (subs.foldl (fun acc seg => Frontier.put acc (pre ++ seg) (n, seg)) c) := by
  induction subs with
  | nil => intro c; rfl
  | cons s subs ih =>
    intro c
    simp only [List.foldl_cons, mapC_put]
    exact ih _

theorem mapC_add (c : Frontier Node) (pre : Path) (n : Node) (subs : List Path) :
    Frontier.add (mapC H c) pre (toItem H n) subs = mapC H (Frontier.add c pre n subs) := by
  unfold Frontier.add
  by_cases h : pre = []
  · simp only [h, ne_eq, not_true_eq_false, ↓reduceIte]
    exact mapC_foldl_put H [] n subs _
  · simp only [h, ne_eq, not_false_eq_true, ↓reduceIte, mapC_erase]
    exact mapC_foldl_put H pre n subs _

theorem mapC_delete (c : Frontier Node) (p : Path) :
    Frontier.delete (mapC H c) p = mapC H (Frontier.delete c p) := mapC_erase H c p

/-! ### the part of the step after the traversal -/

/-- the part of `cstepD` after the traversal succeeded -/
def cfinishD (s : CStateD) (p : Path) (od : Option AnnD) : Option CStateD :=
  match od with
  | none => none
  | some d =>
    match Fog.explore s.fog p d.subs with
    | .error _ => none
    | .ok fog' =>
      let cache' := if d.subs ≠ [] then Frontier.add s.cache p d.raw d.subs else Frontier.delete s.cache p
      some ⟨fog', cache', if d.value ≠ [] then (p ++ d.suffix, d.value) :: s.met else s.met⟩

theorem cstepD_eq (db : Db) (root : Hash) (s : CStateD) (p : Path) :
    cstepD H db root s p =
      match walkTraverseD H db root s p with
      | .error e => .error e
      | .ok out => .ok (cfinishD s p (descD? out)) := by
  unfold cstepD cfinishD
  cases walkTraverseD H db root s p with
  | error e => rfl
  | ok out =>
    simp only
    cases descD? out with
    | none => rfl
    | some d =>
      simp only
      cases Fog.explore s.fog p d.subs <;> rfl

theorem descD?_toD (out : TravOut) : descD? (TravOut.toD H out) = (descOf? out).map (Ann.toD H) := by
  cases out <;> rfl

theorem cfinishD_toCD (s : CState) (p : Path) (od : Option Ann) :
    cfinishD (toCD H s) p (od.map (Ann.toD H)) = (cfinish s p od).map (toCD H) := by
  cases od with
  | none => rfl
  | some d =>
    simp only [Option.map_some, cfinishD, cfinish, toCD, Ann.toD]
    cases Fog.explore s.fog p d.subs with
    | error e => rfl
    | ok fog' =>
      simp only [Option.map_some, toCD]
      by_cases h : d.subs = []
      · simp only [h, ne_eq, not_true_eq_false, ↓reduceIte]
        exact congrArg (fun c => some (CStateD.mk fog' c _)) (mapC_delete H s.cache p)
      · simp only [h, ne_eq, not_false_eq_true, ↓reduceIte]
        exact congrArg (fun c => some (CStateD.mk fog' c _)) (mapC_add H s.cache p d.raw d.subs)

theorem firstMissingRead_lookup (db : Db) (t : Node) (k pre : Path) (h : Hash) (pre' : Path)
    (hm : firstMissingRead H db t k pre = some (h, pre')) : lookup db h = none := by
  unfold firstMissingRead at hm
  have := List.find?_some hm
  simpa using this

/-- the traversal of one step -/
theorem walkTraverseD_refines (hlen : ∀ b, (H b).length = 32) (db : Db) (root : Hash) (t : Node) (hc : Canon t)
    (hroot : RootPartial H db root t) (hst : PartialD H db t)
    (s : CState) (hcache : CacheOkD H db s.cache) (p : Path) :
    (∃ h pre, walkTraverseD H db root (toCD H s) p = .error (.missing h pre) ∧ lookup db h = none) ∨
    walkTraverseD H db root (toCD H s) p = .ok (TravOut.toD H (match Frontier.get s.cache p with
      | none => traverseOut t p
      | some (parent, seg) => traverseOut parent seg)) := by
  unfold walkTraverseD
  simp only [toCD, frontier_get_map]
  cases hg : Frontier.get s.cache p with
  | some e =>
    obtain ⟨parent, seg⟩ := e
    obtain ⟨hcp, hsp⟩ := hcache p parent seg hg
    simp only [Option.map_some]
    rw [traverseOutD_partial H hlen db parent hcp hsp seg _ (by omega)]
    cases hm : firstMissingRead H db parent seg [] with
    | some e =>
      obtain ⟨h, pre⟩ := e
      exact Or.inl ⟨h, pre, rfl, firstMissingRead_lookup H db _ _ _ _ _ hm⟩
    | none => exact Or.inr rfl
  | none =>
    simp only [Option.map_none]
    have htrav := traverseOutD_partial H hlen db t hc hst p (db.length + p.length + 2) (by omega)
    have hfin : (∃ h pre, traverseOutD H db (db.length + p.length + 2) (toItem H t) p = .error (.missing h pre) ∧
            lookup db h = none) ∨
        traverseOutD H db (db.length + p.length + 2) (toItem H t) p = .ok (TravOut.toD H (traverseOut t p)) := by
      rw [htrav]
      cases hm : firstMissingRead H db t p [] with
      | some e =>
        obtain ⟨h, pre⟩ := e
        exact Or.inl ⟨h, pre, rfl, firstMissingRead_lookup H db _ _ _ _ _ hm⟩
      | none => exact Or.inr rfl
    unfold RootPartial at hroot
    cases hb : isBlank t with
    | true =>
      simp only [hb, ↓reduceIte] at hroot
      subst hroot
      have ht := (isBlank_iff t).1 hb
      subst ht
      have hfetch : fetch H db (.str (blankRoot H)) [] = .ok (toItem H Node.blank) := root_fetch_blank H db
      rw [hfetch]
      exact hfin
    | false =>
      simp only [hb, Bool.false_eq_true, ↓reduceIte] at hroot
      obtain ⟨hr, hne, hl, hd⟩ := hroot
      subst hr
      cases hlk : lookup db (hashOf H t) with
      | none =>
        rw [fetch_hash_none H hlen db t [] hne hlk]
        exact Or.inl ⟨_, _, rfl, hlk⟩
      | some b =>
        have := hl b hlk
        subst this
        rw [fetch_hash_some H hlen db t [] hne hlk hd]
        exact hfin

/-- **one step** -/
theorem cstepD_refines (hlen : ∀ b, (H b).length = 32) (db : Db) (root : Hash) (t : Node) (hc : Canon t)
    (hroot : RootPartial H db root t) (hst : PartialD H db t)
    (s : CState) (hcache : CacheOkD H db s.cache) (p : Path) :
    (∃ h pre, cstepD H db root (toCD H s) p = .error (.missing h pre) ∧ lookup db h = none) ∨
    cstepD H db root (toCD H s) p = .ok ((cstep t s p).map (toCD H)) := by
  rw [cstepD_eq]
  rcases walkTraverseD_refines H hlen db root t hc hroot hst s hcache p with ⟨h, pre, he, hl⟩ | hok
  · rw [he]
    exact Or.inl ⟨h, pre, rfl, hl⟩
  · rw [hok]
    right
    simp only [descD?_toD, cfinishD_toCD]
    rw [cstep_eq, descOf?_eq_desc]
    rfl

/-! ### the cache invariant -/

theorem canon_partial_traverseT (db : Db) (t : Node) :
    ∀ (p : Path), Canon t → PartialD H db t →
      Canon (traverseT t p).1 ∧ PartialD H db (traverseT t p).1 := by
  induction t with
  | blank => intro p hc hs; cases p <;> exact ⟨hc, hs⟩
  | leaf q v =>
    intro p hc hs
    cases p with
    | nil => exact ⟨hc, hs⟩
    | cons a r =>
      rw [traverseT_leaf _ _ _ (by simp)]
      split
      · exact ⟨hc, hs⟩
      · exact ⟨trivial, trivial⟩
  | ext q c ih =>
    intro p hc hs
    cases p with
    | nil => exact ⟨hc, hs⟩
    | cons a r =>
      rw [traverseT_ext _ _ _ (by simp)]
      split
      · exact ih _ hc.2.2 hs.2
      · split
        · exact ⟨hc, hs⟩
        · exact ⟨trivial, trivial⟩
  | branch ch v ih =>
    intro p hc hs
    cases p with
    | nil => exact ⟨hc, hs⟩
    | cons a r =>
      simp only [traverseT]
      exact ih a r (hc.1 a) (hs a).2

theorem canon_partial_simulate (db : Db) (n : Node) (tail : Path) (d : Ann) (hc : Canon n) (hs : PartialD H db n)
    (h : simulate (annotate n) tail = some d) : Canon d.raw ∧ PartialD H db d.raw := by
  cases n with
  | blank =>
    simp [simulate, annotate, rewrapLeaf] at h
  | leaf q v =>
    simp only [simulate, annotate, rewrapLeaf] at h
    by_cases hp : tail <+: q
    · simp only [hp, ↓reduceIte, Option.map_some, Option.some.injEq] at h
      subst h
      exact ⟨hc, trivial⟩
    · simp [hp] at h
  | ext q c =>
    simp only [simulate, annotate, rewrapExt] at h
    split at h
    · cases h
    · next hpre =>
      split at h
      · cases h
      · next hlen =>
        simp only [Option.map_some, Option.some.injEq] at h
        subst h
        simp only [Bool.not_eq_true', decide_eq_false_iff_not, Decidable.not_not] at hpre
        have hle := hpre.length_le
        refine ⟨⟨?_, hc.2.1, hc.2.2⟩, hs⟩
        intro hnil
        have := congrArg List.length hnil
        simp at this
        omega
  | branch ch v =>
    simp only [simulate, annotate, rewrapLeaf, rewrapExt] at h
    split at h
    · simp at h
    · split at h
      · cases h
      · split at h <;> simp at h
    · cases h

theorem canon_partial_desc (db : Db) (v : Node) (hc : Canon v) (hs : PartialD H db v) (p : Path) (d : Ann)
    (h : (traverseOut v p).desc = some d) : Canon d.raw ∧ PartialD H db d.raw := by
  rw [desc_eq] at h
  obtain ⟨h1, h2⟩ := canon_partial_traverseT H db v p hc hs
  unfold descOf at h
  split at h
  · simp only [Option.some.injEq] at h
    subst h
    rw [annotate_raw]
    exact ⟨h1, h2⟩
  · exact canon_partial_simulate H db _ _ d h1 h2 h

theorem cacheOkD_erase {db : Db} {c : Frontier Node} (hc : CacheOkD H db c) (p : Path) :
    CacheOkD H db (Frontier.erase c p) :=
  fun q parent seg h => hc q parent seg (frontier_get_erase c p q _ h)

theorem cacheOkD_put {db : Db} {c : Frontier Node} (hc : CacheOkD H db c) (p seg : Path) (n : Node)
    (hn : Canon n ∧ PartialD H db n) : CacheOkD H db (Frontier.put c p (n, seg)) := by
  intro q parent seg' h
  rcases frontier_get_put c _ q _ _ h with ⟨rfl, h2⟩ | h2
  · cases h2; exact hn
  · exact hc q parent seg' h2

theorem cacheOkD_foldl_put {db : Db} (p : Path) (n : Node) (hn : Canon n ∧ PartialD H db n) (subs : List Path) :
    ∀ c : Frontier Node, CacheOkD H db c →
      CacheOkD H db (subs.foldl (fun acc seg => Frontier.put acc (p ++ seg) (n, seg)) c) := by
  induction subs with
  | nil => intro c hc; exact hc
  | cons s subs ih =>
    intro c hc
    exact ih _ (cacheOkD_put H hc (p ++ s) s n hn)

theorem cacheOkD_add {db : Db} {c : Frontier Node} (hc : CacheOkD H db c) (p : Path) (n : Node)
    (hn : Canon n ∧ PartialD H db n) (subs : List Path) : CacheOkD H db (Frontier.add c p n subs) := by
  unfold Frontier.add
  apply cacheOkD_foldl_put H p n hn subs
  split
  · exact cacheOkD_erase H hc p
  · exact hc

theorem cfinish_cacheOkD (db : Db) (v : Node) (hc : Canon v) (hst : PartialD H db v)
    (s : CState) (hcache : CacheOkD H db s.cache) (p p' : Path) (s' : CState)
    (h : cfinish s p (traverseOut v p').desc = some s') : CacheOkD H db s'.cache := by
  unfold cfinish at h
  cases hd : (traverseOut v p').desc with
  | none => rw [hd] at h; cases h
  | some d =>
    rw [hd] at h
    simp only at h
    cases he : Fog.explore s.fog p d.subs with
    | error e => rw [he] at h; cases h
    | ok fog' =>
      rw [he] at h
      simp only [Option.some.injEq] at h
      subst h
      simp only
      split
      · exact cacheOkD_add H hcache p d.raw (canon_partial_desc H db v hc hst p' d hd) d.subs
      · exact cacheOkD_erase H hcache p

/-- the cache invariant is kept by a successful step: the new entries are nodes of the current version or of a cached parent -/
theorem cstep_cacheOkD (db : Db) (t : Node) (hc : Canon t) (hst : PartialD H db t)
    (s : CState) (hcache : CacheOkD H db s.cache) (p : Path) (s' : CState) (h : cstep t s p = some s') :
    CacheOkD H db s'.cache := by
  rw [cstep_eq] at h
  cases hg : Frontier.get s.cache p with
  | none =>
    rw [hg] at h
    exact cfinish_cacheOkD H db t hc hst s hcache p p s' h
  | some e =>
    obtain ⟨parent, seg⟩ := e
    rw [hg] at h
    obtain ⟨hcp, hsp⟩ := hcache p parent seg hg
    exact cfinish_cacheOkD H db parent hcp hsp s hcache p seg s' h

end PyTrie.HexD
