import PyTrie.Lemmas.HexDbProofs
import PyTrie.Lemmas.RlpRoundTrip
/-! A node with a hashed child is itself hashed (for a 32-byte hash): the child's reference alone
    encodes to 33 bytes. -/
namespace PyTrie.HexD
open PyTrie PyTrie.Hex PyTrie.Hex.Node

variable (H : Bytes → Bytes)

theorem rlpList_cons (x : Item) (xs : List Item) : rlpList (x :: xs) = rlp x ++ rlpList xs := by
  rw [rlpList]

theorem rlp_le_rlpList (x : Item) (l : List Item) (hx : x ∈ l) : (rlp x).length ≤ (rlpList l).length := by
  induction l with
  | nil => cases hx
  | cons y ys ih =>
    rw [rlpList_cons, List.length_append]
    rcases List.mem_cons.1 hx with rfl | h1
    · omega
    · have := ih h1; omega

theorem rlp_le_rlp_list (x : Item) (l : List Item) (hx : x ∈ l) : (rlp x).length ≤ (rlp (.list l)).length := by
  have h1 := rlp_le_rlpList x l hx
  have h2 := rlp_list_length l
  omega

theorem ref_hashed_length (hlen : ∀ b, (H b).length = 32) (c : Node) (h : isHashed H c = true) :
    32 ≤ (rlp (refOf H c)).length := by
  rw [refOf_hashed H c h]
  have := str_length_le (hashOf H c)
  have h2 : (hashOf H c).length = 32 := hlen _
  omega

theorem isHashed_of_length {n : Node} (hb : isBlank n = false) (hl : 32 ≤ (enc H n).length) :
    isHashed H n = true := by
  simp [isHashed, hb, hl]

theorem isHashed_ext_of_child (hlen : ∀ b, (H b).length = 32) (p : Path) (c : Node)
    (h : isHashed H c = true) : isHashed H (ext p c) = true := by
  apply isHashed_of_length H rfl
  have h1 := ref_hashed_length H hlen c h
  have h2 : (rlp (refOf H c)).length ≤ (enc H (ext p c)).length :=
    rlp_le_rlp_list (refOf H c) [.str (hp p false), refOf H c] (by simp)
  omega

theorem isHashed_branch_of_child (hlen : ∀ b, (H b).length = 32) (ch : Nib → Node) (v : Bytes) (i : Nib)
    (h : isHashed H (ch i) = true) : isHashed H (branch ch v) = true := by
  apply isHashed_of_length H rfl
  have h1 := ref_hashed_length H hlen (ch i) h
  have h2 : (rlp (refOf H (ch i))).length ≤ (enc H (branch ch v)).length := by
    unfold enc
    rw [toItem_branch]
    apply rlp_le_rlp_list
    unfold brItems
    apply List.mem_append_left
    exact List.mem_map.2 ⟨i, List.mem_finRange i, rfl⟩
  omega

end PyTrie.HexD
