import PyTrie.Lemmas.WorldMono
import PyTrie.Lemmas.HexEffTree
import PyTrie.Lemmas.MissingProofs
/-! Completeness invariant of a non-pruning trie over a plain dict (C04, C01 at database level):
    after every successful `set` / `delete` every hashed node of the new tree (and the root) is stored
    under its hash with its encoding, the operation never raises on a complete database, and the new
    tree is the tree-level `set` / `delete` of the old one. No assumption on the hashing; collisions are
    excluded by the run-level predicate `NoClobber` (every key written keeps one body). -/
namespace PyTrie.HexW
open PyTrie.Hex hiding get set
open PyTrie.Hex.Node

variable (Hs : Hashing) (blankRootHash : Hash)

/-- every hashed proper subtree is stored under its hash with its encoding -/
def StoredBelow (d : Dict Bytes) : Node → Prop
  | blank => True
  | leaf _ _ => True
  | ext _ c => (Hs.hashed c = true → Dict.get? d (Hs.hashOf c) = some (Hs.encOf c)) ∧ StoredBelow d c
  | branch ch _ => ∀ i, (Hs.hashed (ch i) = true → Dict.get? d (Hs.hashOf (ch i)) = some (Hs.encOf (ch i))) ∧
      StoredBelow d (ch i)

/-- the trie's root pointer is the hash of its tree, the root node is stored, and so is everything below -/
def Complete (d : Dict Bytes) (T : TrieSt) : Prop :=
  (if isBlank T.tree then T.root = blankRootHash
   else T.root = Hs.hashOf T.tree ∧ T.root ≠ blankRootHash ∧ Dict.get? d T.root = some (Hs.encOf T.tree)) ∧
  StoredBelow Hs d T.tree

/-- run-level no-collision predicate for one operation: no key written by the operation is bound
    (before, or by another write of the same operation) to a different body -/
def NoClobber (d : Dict Bytes) (ws : List (Hash × Bytes)) : Prop :=
  (∀ h b b', (h, b) ∈ ws → Dict.get? d h = some b' → b' = b) ∧
  (∀ h b b', (h, b) ∈ ws → (h, b') ∈ ws → b = b')

/-- the writes of one `set` / `delete`: the persists of the tree operation, then the root -/
def opWrites (T : TrieSt) (key : Bytes) (val : Option Bytes) : List (Hash × Bytes) :=
  writesOf (opTree Hs T key val).2 ++
    (if isBlank (opTree Hs T key val).1 then []
     else [(Hs.hashOf (opTree Hs T key val).1, Hs.encOf (opTree Hs T key val).1)])

/-! ### helper predicates -/

/-- a child reference is fine: stored when hashed, and everything below it is stored -/
def Ref (d : Dict Bytes) (n : Node) : Prop :=
  (Hs.hashed n = true → Dict.get? d (Hs.hashOf n) = some (Hs.encOf n)) ∧ StoredBelow Hs d n

theorem storedBelow_ext (d : Dict Bytes) (p : Path) (c : Node) :
    StoredBelow Hs d (ext p c) ↔ Ref Hs d c := Iff.rfl

theorem storedBelow_branch (d : Dict Bytes) (ch : Nib → Node) (v : Bytes) :
    StoredBelow Hs d (branch ch v) ↔ ∀ i, Ref Hs d (ch i) := Iff.rfl

theorem ref_blank (d : Dict Bytes) : Ref Hs d blank :=
  ⟨fun h => by simp [Hs.hashed_blank] at h, trivial⟩

theorem ref_emptyCh (d : Dict Bytes) (i : Nib) : Ref Hs d (emptyCh i) := ref_blank Hs d

theorem ref_upd {d : Dict Bytes} {ch : Nib → Node} {x : Node} (n : Nib)
    (hch : ∀ i, Ref Hs d (ch i)) (hx : Ref Hs d x) : ∀ i, Ref Hs d (upd ch n x i) := by
  intro i; unfold upd; split
  · exact hx
  · exact hch i

/-- every write of the event list is present in `d` -/
def Wr (d : Dict Bytes) (evs : List Ev) : Prop := ∀ h b, (h, b) ∈ writesOf evs → Dict.get? d h = some b

theorem Wr_nil (d : Dict Bytes) : Wr d [] := by intro h b hm; cases hm

theorem Wr_append {d : Dict Bytes} {a b : List Ev} : Wr d (a ++ b) ↔ Wr d a ∧ Wr d b := by
  simp only [Wr, writesOf_append, List.mem_append]
  constructor
  · intro h; exact ⟨fun x y hm => h x y (Or.inl hm), fun x y hm => h x y (Or.inr hm)⟩
  · rintro ⟨h1, h2⟩ x y (hm | hm)
    · exact h1 x y hm
    · exact h2 x y hm

theorem Wr_pruneEv (d : Dict Bytes) (n : Node) : Wr d (pruneEv Hs n) := by
  unfold pruneEv; split <;> simp [Wr, writesOf]

theorem Wr_readEv (d : Dict Bytes) (n : Node) : Wr d (readEv Hs n) := by
  unfold readEv; split <;> simp [Wr, writesOf]

theorem Wr_persistEv {d : Dict Bytes} {n : Node} :
    Wr d (persistEv Hs n) ↔ (Hs.hashed n = true → Dict.get? d (Hs.hashOf n) = some (Hs.encOf n)) := by
  unfold persistEv
  by_cases hh : Hs.hashed n = true
  · simp [hh, Wr, writesOf]
  · simp [hh, Wr, writesOf]

/-- every fetch of the event list finds its key in `d` -/
def ReadsIn (d : Dict Bytes) (evs : List Ev) : Prop := ∀ h, Ev.read h ∈ evs → Dict.contains d h = true

theorem ReadsIn_nil (d : Dict Bytes) : ReadsIn d [] := by intro h hm; cases hm

theorem ReadsIn_append {d : Dict Bytes} {a b : List Ev} : ReadsIn d (a ++ b) ↔ ReadsIn d a ∧ ReadsIn d b := by
  simp only [ReadsIn, List.mem_append]
  constructor
  · intro h; exact ⟨fun x hm => h x (Or.inl hm), fun x hm => h x (Or.inr hm)⟩
  · rintro ⟨h1, h2⟩ x (hm | hm)
    · exact h1 x hm
    · exact h2 x hm

theorem ReadsIn_pruneEv (d : Dict Bytes) (n : Node) : ReadsIn d (pruneEv Hs n) := by
  unfold pruneEv; split <;> simp [ReadsIn]

theorem ReadsIn_persistEv (d : Dict Bytes) (n : Node) : ReadsIn d (persistEv Hs n) := by
  unfold persistEv; split <;> simp [ReadsIn]

theorem ReadsIn_ite (d : Dict Bytes) (c : Prop) [Decidable c] (x : List Ev) (hx : ReadsIn d x) :
    ReadsIn d (if c then [] else x) := by
  split
  · exact ReadsIn_nil d
  · exact hx

theorem contains_of_get? {d : Dict Bytes} {h : Hash} {b : Bytes} (hg : Dict.get? d h = some b) :
    Dict.contains d h = true := by
  cases hc : Dict.contains d h with
  | true => rfl
  | false => rw [Dict.get?_eq_none_of_not_contains d h hc] at hg; cases hg

theorem ReadsIn_readEv {d : Dict Bytes} {n : Node} (hn : Ref Hs d n) : ReadsIn d (readEv Hs n) := by
  unfold readEv
  split
  · next hh =>
    intro h hm
    simp at hm
    cases hm
    exact contains_of_get? (hn.1 hh)
  · exact ReadsIn_nil d

theorem ref_of {d : Dict Bytes} {n : Node} (hs : StoredBelow Hs d n) (hw : Wr d (persistEv Hs n)) : Ref Hs d n :=
  ⟨(Wr_persistEv Hs).1 hw, hs⟩

theorem stored_wrap {d : Dict Bytes} (cm : Path) (br : Node) (hs : StoredBelow Hs d br)
    (hw : Wr d (if cm = [] then [] else persistEv Hs br)) : StoredBelow Hs d (wrap cm br) := by
  unfold wrap
  by_cases hc : cm = []
  · simpa [hc] using hs
  · simp only [hc, if_false] at hw ⊢
    exact ref_of Hs hs hw

theorem ref_wrap {d : Dict Bytes} (pt : Path) (c : Node) (hc : Ref Hs d c)
    (hw : Wr d (if pt = [] then [] else persistEv Hs (wrap pt c))) : Ref Hs d (wrap pt c) := by
  by_cases hp : pt = []
  · simpa [wrap, hp] using hc
  · simp only [hp, if_false] at hw
    refine ref_of Hs ?_ hw
    simp only [wrap, hp, if_false]
    exact hc

/-! ### tree level: `setE` -/

theorem setE_reads (d : Dict Bytes) (t : Node) (k : Path) (v : Bytes) (h : StoredBelow Hs d t) :
    ReadsIn d (setE Hs t k v).2 := by
  induction t generalizing k with
  | blank => simp [setE, ReadsIn_nil]
  | leaf p pv =>
    simp only [setE]
    split <;> simp [ReadsIn_append, ReadsIn_pruneEv, ReadsIn_persistEv, ReadsIn_ite]
  | ext p c ih =>
    have hc : Ref Hs d c := h
    simp only [setE]
    split <;> simp [ReadsIn_append, ReadsIn_pruneEv, ReadsIn_persistEv, ReadsIn_ite, ReadsIn_readEv Hs hc, ih _ hc.2]
  | branch ch bv ih =>
    cases k with
    | nil => simp [setE, ReadsIn_pruneEv]
    | cons n k =>
      have hc : Ref Hs d (ch n) := h n
      simp [setE, ReadsIn_append, ReadsIn_pruneEv, ReadsIn_persistEv, ReadsIn_readEv Hs hc, ih n k hc.2]

theorem setE_stored (d : Dict Bytes) (t : Node) (k : Path) (v : Bytes) (h : StoredBelow Hs d t)
    (hw : Wr d (setE Hs t k v).2) : StoredBelow Hs d (setE Hs t k v).1 := by
  induction t generalizing k with
  | blank => trivial
  | leaf p pv =>
    simp only [setE] at hw ⊢
    generalize (List.take (cpl p k) p) = cm at hw ⊢
    generalize (List.drop (cpl p k) p) = pr at hw ⊢
    generalize (List.drop (cpl p k) k) = kr at hw ⊢
    cases pr <;> cases kr <;> simp only [Wr_append] at hw ⊢
    · trivial
    · exact stored_wrap Hs _ _ (ref_upd Hs _ (ref_emptyCh Hs d) (ref_of Hs trivial hw.1.2)) hw.2
    · exact stored_wrap Hs _ _ (ref_upd Hs _ (ref_emptyCh Hs d) (ref_of Hs trivial hw.1.2)) hw.2
    · exact stored_wrap Hs _ _ (ref_upd Hs _ (ref_upd Hs _ (ref_emptyCh Hs d) (ref_of Hs trivial hw.1.1.2))
        (ref_of Hs trivial hw.1.2)) hw.2
  | ext p c ih =>
    have hc : Ref Hs d c := h
    simp only [setE] at hw ⊢
    generalize (List.take (cpl p k) p) = cm at hw ⊢
    generalize (List.drop (cpl p k) p) = pr at hw ⊢
    generalize (List.drop (cpl p k) k) = kr at hw ⊢
    cases pr with
    | nil =>
      simp only [Wr_append] at hw ⊢
      exact ref_of Hs (ih kr hc.2 hw.1.2) hw.2
    | cons ph pt =>
      cases kr with
      | nil =>
        simp only [Wr_append] at hw ⊢
        exact stored_wrap Hs _ _ (ref_upd Hs _ (ref_emptyCh Hs d) (ref_wrap Hs pt c hc hw.1.2)) hw.2
      | cons kh kt =>
        simp only [Wr_append] at hw ⊢
        exact stored_wrap Hs _ _ (ref_upd Hs _ (ref_upd Hs _ (ref_emptyCh Hs d) (ref_wrap Hs pt c hc hw.1.1.2))
          (ref_of Hs trivial hw.1.2)) hw.2
  | branch ch bv ih =>
    cases k with
    | nil => exact h
    | cons n k =>
      simp only [setE, Wr_append] at hw ⊢
      exact ref_upd Hs n h (ref_of Hs (ih n k (h n).2 hw.1.2) hw.2)

/-! ### tree level: `normalizeE`, `deleteE` -/

theorem normalizeE_reads (d : Dict Bytes) (ch : Nib → Node) (v : Bytes) (h : ∀ i, Ref Hs d (ch i)) :
    ReadsIn d (normalizeE Hs ch v).2 := by
  unfold normalizeE
  split
  · exact ReadsIn_nil d
  · exact ReadsIn_nil d
  · next i _ =>
    split <;> simp [ReadsIn_append, ReadsIn_pruneEv, ReadsIn_readEv Hs (h i)]
  · exact ReadsIn_nil d

theorem normalizeE_stored (d : Dict Bytes) (ch : Nib → Node) (v : Bytes) (h : ∀ i, Ref Hs d (ch i)) :
    StoredBelow Hs d (normalizeE Hs ch v).1 := by
  unfold normalizeE
  split
  · trivial
  · trivial
  · next i _ =>
    have hi := h i
    split
    · trivial
    · next p c e => rw [e] at hi; exact hi.2
    · exact hi
  · exact h

theorem deleteE_reads (d : Dict Bytes) (t : Node) (k : Path) (h : StoredBelow Hs d t) :
    ReadsIn d (deleteE Hs t k).2 := by
  induction t generalizing k with
  | blank => simp [deleteE, ReadsIn_nil]
  | leaf p pv => simp [deleteE, ReadsIn_pruneEv]
  | ext p c ih =>
    have hc : Ref Hs d c := h
    have IH := ih (k.drop p.length) hc.2
    simp only [deleteE]
    split
    · split
      · simp [ReadsIn_append, ReadsIn_pruneEv, ReadsIn_persistEv, ReadsIn_readEv Hs hc, IH]
      · split <;> simp [ReadsIn_append, ReadsIn_pruneEv, ReadsIn_persistEv, ReadsIn_readEv Hs hc, IH]
    · exact ReadsIn_pruneEv Hs d _
  | branch ch bv ih =>
    cases k with
    | nil => simp [deleteE, ReadsIn_append, ReadsIn_pruneEv, normalizeE_reads Hs d ch [] h]
    | cons n k =>
      have hc : Ref Hs d (ch n) := h n
      have IH := ih n k hc.2
      simp only [deleteE]
      split
      · simp [ReadsIn_append, ReadsIn_pruneEv, ReadsIn_persistEv, ReadsIn_readEv Hs hc, IH]
      · split
        · next hb =>
          have e : (deleteE Hs (ch n) k).1 = blank := (isBlank_iff _).1 hb
          have hn := normalizeE_reads Hs d (upd ch n (deleteE Hs (ch n) k).1) bv
            (ref_upd Hs n h (e ▸ ref_blank Hs d))
          simp [ReadsIn_append, ReadsIn_pruneEv, ReadsIn_persistEv, ReadsIn_readEv Hs hc, IH, hn]
        · simp [ReadsIn_append, ReadsIn_pruneEv, ReadsIn_persistEv, ReadsIn_readEv Hs hc, IH]

theorem deleteE_stored (d : Dict Bytes) (t : Node) (k : Path) (h : StoredBelow Hs d t)
    (hw : Wr d (deleteE Hs t k).2) : StoredBelow Hs d (deleteE Hs t k).1 := by
  induction t generalizing k with
  | blank => trivial
  | leaf p pv => simp only [deleteE]; split <;> trivial
  | ext p c ih =>
    have hc : Ref Hs d c := h
    have IH := ih (k.drop p.length) hc.2
    simp only [deleteE] at hw ⊢
    split at hw
    · next hpk =>
      simp only [hpk, if_true]
      generalize deleteE Hs c (k.drop p.length) = r at IH hw ⊢
      split at hw
      · next hr => simp only [hr, if_true]; exact h
      · next hr =>
        simp only [hr]
        split at hw
        · next e => simp only [e]; trivial
        · next p' v' e => simp only [e]; trivial
        · next p' c' e =>
          simp only [e, Wr_append] at hw IH ⊢
          exact IH hw.1.1.2
        · next ch v e =>
          simp only [e, Wr_append] at hw IH ⊢
          exact ref_of Hs (IH hw.1.2) hw.2
    · next hpk => simp only [hpk, if_false]; exact h
  | branch ch bv ih =>
    cases k with
    | nil =>
      simp only [deleteE]
      exact normalizeE_stored Hs d ch [] h
    | cons n k =>
      have hc : Ref Hs d (ch n) := h n
      have IH := ih n k hc.2
      simp only [deleteE] at hw ⊢
      generalize deleteE Hs (ch n) k = r at IH hw ⊢
      split at hw
      · next hr => simp only [hr, if_true]; exact h
      · next hr =>
        simp only [hr]
        split at hw
        · next hb =>
          simp only [hb, if_true]
          have e : r.1 = blank := (isBlank_iff _).1 hb
          exact normalizeE_stored Hs d _ bv (ref_upd Hs n h (e ▸ ref_blank Hs d))
        · next hb =>
          simp only [hb]
          simp only [Wr_append] at hw
          exact ref_upd Hs n h (ref_of Hs (IH hw.1.2) hw.2)

/-! ### dictionary level: applying a clobber-free list of writes -/

def applyWrites (d : Dict Bytes) (ws : List (Hash × Bytes)) : Dict Bytes :=
  ws.foldl (fun d e => Dict.insert d e.1 e.2) d

theorem applyWrites_nil (d : Dict Bytes) : applyWrites d [] = d := rfl
theorem applyWrites_cons (d : Dict Bytes) (e : Hash × Bytes) (ws : List (Hash × Bytes)) :
    applyWrites d (e :: ws) = applyWrites (Dict.insert d e.1 e.2) ws := rfl
theorem applyWrites_append (d : Dict Bytes) (a b : List (Hash × Bytes)) :
    applyWrites d (a ++ b) = applyWrites (applyWrites d a) b := by
  simp [applyWrites, List.foldl_append]

theorem Preserved.refl (d : Dict Bytes) : Preserved d d := fun _ _ h => h
theorem Preserved.trans {a b c : Dict Bytes} (h1 : Preserved a b) (h2 : Preserved b c) : Preserved a c :=
  fun h x hx => h2 h x (h1 h x hx)

theorem applyWrites_noClobber (ws : List (Hash × Bytes)) (d : Dict Bytes) (hnc : NoClobber d ws) :
    Preserved d (applyWrites d ws) ∧ ∀ h b, (h, b) ∈ ws → Dict.get? (applyWrites d ws) h = some b := by
  induction ws generalizing d with
  | nil => exact ⟨Preserved.refl d, fun h b hm => by cases hm⟩
  | cons e ws ih =>
    obtain ⟨h0, b0⟩ := e
    obtain ⟨hn1, hn2⟩ := hnc
    have hp1 : Preserved d (Dict.insert d h0 b0) := by
      intro h b hg
      by_cases he : h = h0
      · subst he
        rw [get?_insert_self]
        rw [hn1 h b0 b (List.mem_cons_self ..) hg]
      · rw [get?_insert_other _ _ _ _ he]; exact hg
    have hnc' : NoClobber (Dict.insert d h0 b0) ws := by
      constructor
      · intro h b b' hm hg
        by_cases he : h = h0
        · subst he
          rw [get?_insert_self] at hg
          rw [← Option.some.inj hg]
          exact hn2 h b0 b (List.mem_cons_self ..) (List.mem_cons_of_mem _ hm)
        · rw [get?_insert_other _ _ _ _ he] at hg
          exact hn1 h b b' (List.mem_cons_of_mem _ hm) hg
      · intro h b b' hm hm'
        exact hn2 h b b' (List.mem_cons_of_mem _ hm) (List.mem_cons_of_mem _ hm')
    obtain ⟨ihp, ihw⟩ := ih _ hnc'
    rw [applyWrites_cons]
    refine ⟨hp1.trans ihp, ?_⟩
    intro h b hm
    rcases List.mem_cons.1 hm with he | hm
    · cases he
      exact ihp h0 b0 (get?_insert_self d h0 b0)
    · exact ihw h b hm

/-! ### executor level -/

theorem runEvs_ok (root key : Bytes) (es : List Ev) (s : OpSt) (hc : s.store.cache = none)
    (hf : s.store.failAfter = none) (hr : ReadsIn s.store.base es) :
    ∃ s', runEvs false root key s es = (s', none) ∧ s'.store.cache = none ∧ s'.store.failAfter = none ∧
      s'.store.base = applyWrites s.store.base (writesOf es) := by
  induction es generalizing s with
  | nil => exact ⟨s, rfl, hc, hf, rfl⟩
  | cons e es ih =>
    have hr' : ReadsIn s.store.base es := fun h hm => hr h (List.mem_cons_of_mem _ hm)
    cases e with
    | read x =>
      have hx : s.store.contains x = true := by
        unfold Store.contains; rw [hc]; exact hr x (List.mem_cons_self ..)
      simp only [runEvs, runEv, hx, if_true, writesOf]
      exact ih s hc hf hr'
    | prune x =>
      simp only [runEvs, runEv, writesOf]
      exact ih s hc hf hr'
    | persist x b =>
      have hw : s.store.write x b =
          some { base := Dict.insert s.store.base x b, cache := none, failAfter := none } := by
        unfold Store.write; rw [hc, hf]
      simp only [runEvs, runEv, setDbValue, hw, writesOf, applyWrites_cons]
      refine ih _ rfl rfl ?_
      intro h hm
      exact Dict.contains_insert_mono _ _ _ _ (hr' h hm)

theorem writeRoot_ok (T : TrieSt) (hp : T.prune = false) (new : Node) (s : OpSt) (hc : s.store.cache = none)
    (hf : s.store.failAfter = none) :
    ∃ s', writeRoot Hs blankRootHash T new s =
        .ok (s', if isBlank new then blankRootHash else Hs.hashOf new) ∧
      s'.store.base = applyWrites s.store.base (if isBlank new then [] else [(Hs.hashOf new, Hs.encOf new)]) := by
  unfold writeRoot
  by_cases hb : isBlank new = true
  · simp only [hb, if_true]
    exact ⟨s, rfl, rfl⟩
  · have hw : s.store.write (Hs.hashOf new) (Hs.encOf new) =
        some { base := Dict.insert s.store.base (Hs.hashOf new) (Hs.encOf new), cache := none,
               failAfter := none } := by
      unfold Store.write; rw [hc, hf]
    simp only [hb, setDbValue, hw, hp]
    exact ⟨_, rfl, rfl⟩

theorem opCore_ok (T : TrieSt) (hp : T.prune = false) (key : Bytes) (val : Option Bytes) (s : OpSt)
    (hc : s.store.cache = none) (hf : s.store.failAfter = none)
    (hroot : (T.root != blankRootHash && !(s.store.contains T.root)) = false)
    (hr : ReadsIn s.store.base (opTree Hs T key val).2) :
    ∃ s4, opCore Hs blankRootHash T key val s =
        (s4, .ok { T with tree := (opTree Hs T key val).1,
                          root := if isBlank (opTree Hs T key val).1 then blankRootHash
                                  else Hs.hashOf (opTree Hs T key val).1 }) ∧
      s4.store.base = applyWrites s.store.base (opWrites Hs T key val) := by
  obtain ⟨s1, h1, hc1, hf1, hb1⟩ := runEvs_ok T.root key (opTree Hs T key val).2 s hc hf hr
  obtain ⟨s3, h3, hb3⟩ := writeRoot_ok Hs blankRootHash T hp (opTree Hs T key val).1 s1 hc1 hf1
  unfold opCore
  rw [hroot]
  simp only [Bool.false_eq_true, if_false]
  rw [hp, h1]
  simp only []
  rw [schedOldRoot_noprune Hs blankRootHash T hp, h3]
  simp only []
  rw [finishPrune_noprune T hp]
  refine ⟨s3, rfl, ?_⟩
  rw [hb3, hb1, opWrites, applyWrites_append]

theorem opTree_reads (d : Dict Bytes) (T : TrieSt) (key : Bytes) (val : Option Bytes)
    (h : StoredBelow Hs d T.tree) : ReadsIn d (opTree Hs T key val).2 := by
  unfold opTree
  split
  · split
    · exact deleteE_reads Hs d _ _ h
    · exact setE_reads Hs d _ _ _ h
  · exact deleteE_reads Hs d _ _ h

theorem opTree_stored (d : Dict Bytes) (T : TrieSt) (key : Bytes) (val : Option Bytes)
    (h : StoredBelow Hs d T.tree) (hw : Wr d (opTree Hs T key val).2) :
    StoredBelow Hs d (opTree Hs T key val).1 := by
  unfold opTree at hw ⊢
  split at hw
  · split at hw
    · next hv => simp only [hv, if_true]; exact deleteE_stored Hs d _ _ h hw
    · next hv => simp only [hv, if_false]; exact setE_stored Hs d _ _ _ h hw
  · exact deleteE_stored Hs d _ _ h hw

theorem opTree_fst (T : TrieSt) (key : Bytes) (val : Option Bytes) (hc : Canon T.tree)
    (hrs : RefSound Hs T.tree (nibs key)) :
    (opTree Hs T key val).1 = (match val with
      | some v => if v = [] then Hex.delete T.tree (nibs key) else Hex.set T.tree (nibs key) v
      | none => Hex.delete T.tree (nibs key)) := by
  unfold opTree
  cases val with
  | none => exact deleteE_fst Hs _ _ hrs hc
  | some v =>
    simp only []
    split
    · exact deleteE_fst Hs _ _ hrs hc
    · exact setE_fst Hs _ _ _

theorem storedBelow_mono (d d' : Dict Bytes) (hp : Preserved d d') (t : Node) (h : StoredBelow Hs d t) :
    StoredBelow Hs d' t := by
  induction t with
  | blank => trivial
  | leaf p v => trivial
  | ext p c ih => exact ⟨fun hh => hp _ _ (h.1 hh), ih h.2⟩
  | branch ch v ih => intro i; exact ⟨fun hh => hp _ _ ((h i).1 hh), ih i (h i).2⟩

/-- completeness of a trie survives any later growth of the database that preserves bindings -/
theorem complete_mono (d d' : Dict Bytes) (hp : Preserved d d') (T : TrieSt) (h : Complete Hs blankRootHash d T) :
    Complete Hs blankRootHash d' T := by
  obtain ⟨h1, h2⟩ := h
  refine ⟨?_, storedBelow_mono Hs d d' hp _ h2⟩
  by_cases hb : isBlank T.tree = true
  · simp only [hb, if_true] at h1 ⊢; exact h1
  · simp only [hb] at h1 ⊢
    exact ⟨h1.1, h1.2.1, hp _ _ h1.2.2⟩

/-- **a non-pruning `set` / `delete` on a complete database succeeds, computes the tree-level operation,
    keeps every old binding and leaves a complete database for the new root**
    (`hblank` is only needed when the new tree is not blank) -/
theorem opSetDel_complete (T : TrieSt) (hp : T.prune = false) (hc : Canon T.tree) (key : Bytes) (val : Option Bytes)
    (s : OpSt) (hcache : s.store.cache = none) (hfa : s.store.failAfter = none)
    (hcomp : Complete Hs blankRootHash s.store.base T)
    (hrs : RefSound Hs T.tree (nibs key))
    (hnc : NoClobber s.store.base (opWrites Hs T key val))
    (hblank : isBlank (opTree Hs T key val).1 = false → Hs.hashOf (opTree Hs T key val).1 ≠ blankRootHash) :
    ∃ T', (opSetDel Hs blankRootHash T key val s).2 = .ok T' ∧
      T'.tree = (match val with
        | some v => if v = [] then Hex.delete T.tree (nibs key) else Hex.set T.tree (nibs key) v
        | none => Hex.delete T.tree (nibs key)) ∧
      T'.prune = false ∧
      Preserved s.store.base (opSetDel Hs blankRootHash T key val s).1.store.base ∧
      Complete Hs blankRootHash (opSetDel Hs blankRootHash T key val s).1.store.base T' := by
  have hsb : StoredBelow Hs s.store.base T.tree := hcomp.2
  have hr : ReadsIn s.store.base (opTree Hs T key val).2 := opTree_reads Hs _ T key val hsb
  have hroot : (T.root != blankRootHash && !(s.store.contains T.root)) = false := by
    have h1 := hcomp.1
    by_cases hb : isBlank T.tree = true
    · simp only [hb, if_true] at h1; simp [h1]
    · simp only [hb] at h1
      have : s.store.contains T.root = true := by
        unfold Store.contains; rw [hcache]; exact contains_of_get? h1.2.2
      simp [this]
  obtain ⟨s4, h4, hb4⟩ :=
    opCore_ok Hs blankRootHash T hp key val { s with pending := [] } hcache hfa hroot hr
  obtain ⟨hpres, hwr⟩ := applyWrites_noClobber _ _ hnc
  have hb4' : s4.store.base = applyWrites s.store.base (opWrites Hs T key val) := hb4
  have e : opSetDel Hs blankRootHash T key val s =
      ({ s4 with pending := [] },
        .ok { T with
          tree := (opTree Hs T key val).1,
          root := if isBlank (opTree Hs T key val).1 then blankRootHash else Hs.hashOf (opTree Hs T key val).1 }) := by
    unfold opSetDel; rw [h4]
  rw [e]
  have hst : StoredBelow Hs s4.store.base (opTree Hs T key val).1 := by
    rw [hb4']
    apply opTree_stored Hs _ T key val (storedBelow_mono Hs _ _ hpres _ hsb)
    intro h b hm
    exact hwr h b (List.mem_append_left _ hm)
  refine ⟨_, rfl, ?_, hp, ?_, ?_, hst⟩
  · have ht := opTree_fst Hs T key val hc hrs
    cases val <;> exact ht
  · show Preserved s.store.base s4.store.base
    rw [hb4']; exact hpres
  · show (if isBlank (opTree Hs T key val).1 then
        (if isBlank (opTree Hs T key val).1 then blankRootHash else Hs.hashOf (opTree Hs T key val).1) = blankRootHash
      else (if isBlank (opTree Hs T key val).1 then blankRootHash else Hs.hashOf (opTree Hs T key val).1) =
          Hs.hashOf (opTree Hs T key val).1 ∧
        (if isBlank (opTree Hs T key val).1 then blankRootHash else Hs.hashOf (opTree Hs T key val).1) ≠ blankRootHash ∧
        Dict.get? s4.store.base
          (if isBlank (opTree Hs T key val).1 then blankRootHash else Hs.hashOf (opTree Hs T key val).1) =
          some (Hs.encOf (opTree Hs T key val).1))
    by_cases hb : isBlank (opTree Hs T key val).1 = true
    · simp only [hb, if_true]
    · simp only [hb]
      refine ⟨by simp, hblank (by simpa using hb), ?_⟩
      rw [hb4']
      apply hwr
      unfold opWrites
      simp only [hb]
      exact List.mem_append_right _ (List.mem_singleton.2 rfl)

/-- the same with the non-collision hypothesis on the new root stated unconditionally (as originally posed) -/
theorem opSetDel_complete_orig (T : TrieSt) (hp : T.prune = false) (hc : Canon T.tree) (key : Bytes) (val : Option Bytes)
    (s : OpSt) (hcache : s.store.cache = none) (hfa : s.store.failAfter = none)
    (hcomp : Complete Hs blankRootHash s.store.base T)
    (hrs : RefSound Hs T.tree (nibs key))
    (hnc : NoClobber s.store.base (opWrites Hs T key val))
    (hblank : Hs.hashOf (opTree Hs T key val).1 ≠ blankRootHash) :
    ∃ T', (opSetDel Hs blankRootHash T key val s).2 = .ok T' ∧
      T'.tree = (match val with
        | some v => if v = [] then Hex.delete T.tree (nibs key) else Hex.set T.tree (nibs key) v
        | none => Hex.delete T.tree (nibs key)) ∧
      T'.prune = false ∧
      Preserved s.store.base (opSetDel Hs blankRootHash T key val s).1.store.base ∧
      Complete Hs blankRootHash (opSetDel Hs blankRootHash T key val s).1.store.base T' := by
  obtain ⟨T', h1, h2, h3, h4, h5⟩ :=
    opSetDel_complete Hs blankRootHash T hp hc key val s hcache hfa hcomp hrs hnc (fun _ => hblank)
  refine ⟨T', h1, ?_, h3, h4, h5⟩
  cases val <;> exact h2

end PyTrie.HexW
