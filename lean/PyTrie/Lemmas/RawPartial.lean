import PyTrie.Lemmas.RawRefines
import PyTrie.Lemmas.RawHistory
import PyTrie.Lemmas.MissingPath
/-! **The raw-level write path on incomplete databases (C07 at raw level).** When some node bodies are absent from the
    database, the raw-level `_set` / `_delete` (`Model/HexRaw.lean`) either finds every node it fetches — and then returns
    exactly what it returns on the complete database — or stops with `missing h` where `h` is the *first* fetch of the
    effect-level event list (`setE` / `deleteE`) that the database cannot answer. Together with the effect-level theorems
    (`C07.set_reads_on_path`, `delete_reads_on_path`, `set_reads_before_writes`) this makes the C07 statements about `set`
    and `delete` statements about the statement-by-statement transcription of the code. -/
namespace PyTrie.HexRaw
open PyTrie PyTrie.Hex PyTrie.HexD PyTrie.Hex.Node
open PyTrie.HexW (OnPath SiblingOnPath)

variable (H : Bytes → Bytes)

/-- partial storage of one child reference: its hash is not mistaken for the blank root, whatever the database holds
    under it is its encoding, and the encoding decodes back -/
def PartialC (db : Db) (c : Node) : Prop :=
  isHashed H c = true → hashOf H c ≠ blankRoot H ∧ (∀ b, lookup db (hashOf H c) = some b → b = enc H c) ∧
    rlpDecode (enc H c) = some (toItem H c)

/-- partial storage of all hashed proper subtrees of `t` -/
def PartialD (db : Db) : Node → Prop
  | blank => True
  | leaf _ _ => True
  | ext _ c => PartialC H db c ∧ PartialD db c
  | branch ch _ => ∀ i, PartialC H db (ch i) ∧ PartialD db (ch i)

/-- the first fetch of an event list that the database cannot answer -/
def firstMissing (db : Db) (evs : List Ev) : Option Hash :=
  (evs.filterMap fun e => match e with | .read h => some h | _ => none).find? fun h => (lookup db h).isNone

/-! ### helpers: `firstMissing` algebra and the outcome of a run on an incomplete database -/

section Helpers
open PyTrie.HexW (NoRead NoPersist noRead_pruneEv noRead_persistEv noRead_append noRead_nil noPersist_pruneEv
  noPersist_readEv noPersist_append noPersist_nil normalizeE_noPersist deleteE_blank_noPersist persistEv_blank)
set_option linter.unusedSimpArgs false

@[simp] theorem firstMissing_nil (db : Db) : firstMissing db [] = none := rfl

theorem firstMissing_append (db : Db) (a b : List Ev) :
    firstMissing db (a ++ b) = (firstMissing db a).or (firstMissing db b) := by
  simp [firstMissing, List.filterMap_append, List.find?_append]

theorem firstMissing_noRead (db : Db) (evs : List Ev) (h : NoRead evs) : firstMissing db evs = none := by
  induction evs with
  | nil => rfl
  | cons e es ih =>
    have hes : NoRead es := fun x hx => h x (List.mem_cons_of_mem _ hx)
    cases e with
    | read x => exact absurd rfl (h _ (List.mem_cons_self ..) x)
    | prune x => simpa [firstMissing] using ih hes
    | persist x b => simpa [firstMissing] using ih hes

@[simp] theorem firstMissing_pruneEv (db : Db) (Hs : Hashing) (n : Node) : firstMissing db (pruneEv Hs n) = none :=
  firstMissing_noRead db _ (by simp)
@[simp] theorem firstMissing_persistEv (db : Db) (Hs : Hashing) (n : Node) : firstMissing db (persistEv Hs n) = none :=
  firstMissing_noRead db _ (by simp)

theorem firstMissing_readEv (db : Db) (c : Node) :
    firstMissing db (readEv (stdHashing H) c) =
      if isHashed H c = true ∧ lookup db (hashOf H c) = none then some (hashOf H c) else none := by
  unfold readEv
  cases hh : isHashed H c with
  | false => simp [stdHashing, hh]
  | true =>
    cases hl : lookup db (hashOf H c) <;> simp [stdHashing, hh, firstMissing, hl]

/-- the outcome of a run whose effect-level event list is `evs` and whose result (if every fetch is answered) is `x`,
    the fetches being answered by `db0` -/
def outP (db0 : Db) (st : St) (evs : List Ev) (x : Item) : Except Err (Item × St) :=
  match firstMissing db0 evs with
  | some h => .error (.missing h)
  | none => .ok (x, st.app evs)

theorem outP_none (db0 : Db) (st : St) (evs : List Ev) (x : Item) (h : firstMissing db0 evs = none) :
    outP db0 st evs x = .ok (x, st.app evs) := by simp [outP, h]

/-- `get_node` on an incomplete database -/
theorem getNodeR_partial (hlen : ∀ b, (H b).length = 32) (db0 : Db) (st : St) (hdb : st.db = db0) (c : Node)
    (hs : PartialC H db0 c) :
    getNodeR H st (refOf H c) = outP db0 st (readEv (stdHashing H) c) (toItem H c) := by
  unfold outP
  rw [firstMissing_readEv]
  unfold readEv
  cases hb : isBlank c with
  | true => rw [(isBlank_iff c).1 hb]; simp [refOf_blank, getNodeR, toItem, stdHashing, isHashed, isBlank]
  | false =>
    cases hh : isHashed H c with
    | false =>
      rw [refOf_embedded H c hb hh]
      obtain ⟨l, hl⟩ := toItem_list H c hb
      simp [hl, getNodeR, stdHashing, hh]
    | true =>
      obtain ⟨hne, hl, hd⟩ := hs hh
      rw [refOf_hashed H c hh]
      have h32 : (hashOf H c).length = 32 := hlen _
      have h1 : hashOf H c ≠ [] := by intro h; rw [h] at h32; simp at h32
      have h2 : ¬ (hashOf H c).length < 32 := by omega
      cases hlk : lookup db0 (hashOf H c) with
      | none => simp [getNodeR, h1, hne, h2, hdb, hlk]
      | some b =>
        have hb' := hl b hlk
        subst hb'
        simp [getNodeR, h1, hne, h2, hdb, hlk, hd, stdHashing, hh, St.app, applyPersists]

/-! ### `_set` -/

theorem setE_leaf_noRead (Hs : Hashing) (p : Path) (pv : Bytes) (k : Path) (v : Bytes) :
    NoRead (setE Hs (leaf p pv) k v).2 := by
  simp only [setE]
  split <;> simp

/-- `_set_kv_node` on an extension of an incomplete database, given the statement for the recursive `_set` on its child -/
theorem rawSetKv_ext_partial (hlen : ∀ b, (H b).length = 32) (fuel : Nat) (db0 : Db) (st : St) (hdb : st.db = db0)
    (p : Path) (c : Node) (k : Path)
    (v : Bytes) (hp : p ≠ []) (hsc : PartialC H db0 c)
    (ih : p.drop (cpl p k) = [] → ∀ st' : St, st'.db = db0 →
      rawSet H fuel st' (toItem H c) (k.drop (cpl p k)) v =
      outP db0 st' (setE (stdHashing H) c (k.drop (cpl p k)) v).2
        (toItem H (setE (stdHashing H) c (k.drop (cpl p k)) v).1)) :
    rawSetKv H (fuel + 1) (st.app (pruneEv (stdHashing H) (ext p c))) (toItem H (ext p c)) p (refOf H c) true k v =
      outP db0 st (setE (stdHashing H) (ext p c) k v).2 (toItem H (setE (stdHashing H) (ext p c) k v).1) := by
  have hsplit : p.take (cpl p k) ++ p.drop (cpl p k) = p := List.take_append_drop _ _
  simp only [rawSetKv, setE, toItem_ext]
  generalize p.drop (cpl p k) = pr at hsplit ih ⊢
  generalize k.drop (cpl p k) = kr at ih ⊢
  generalize p.take (cpl p k) = cm at hsplit ⊢
  cases pr with
  | nil =>
    have : cm = p := by simpa using hsplit
    subst this
    have hg := getNodeR_partial H hlen db0 (st.app (pruneEv (stdHashing H) (ext cm c))) (by simpa using hdb) c hsc
    have hi := ih rfl (st.app (pruneEv (stdHashing H) (ext cm c) ++ readEv (stdHashing H) c)) (by simpa using hdb)
    cases kr <;>
    (simp only [Bool.not_true, Bool.false_eq_true, ↓reduceIte]
     generalize setE (stdHashing H) c _ v = r at hi ⊢
     unfold outP at hg hi ⊢
     simp only [firstMissing_append, firstMissing_pruneEv, firstMissing_persistEv, Option.none_or, Option.or_none]
     cases h1 : firstMissing db0 (readEv (stdHashing H) c) with
     | some h =>
       simp only [h1] at hg
       simp [hg]
     | none =>
       simp only [h1] at hg
       cases h2 : firstMissing db0 r.2 with
       | some h =>
         simp only [h2] at hi
         simp [hg, hi, Except.map]
       | none =>
         simp only [h2] at hi
         simp only [Bool.not_true, Bool.false_eq_true, ↓reduceIte, hg, app_app, hi, Except.map, ne_eq, hp,
           not_false_eq_true, persistNodeR_toItem, fold_ext H, List.append_assoc, Option.none_or])
  | cons ph pt =>
    clear ih hsplit
    have hnone : ∀ evs, NoRead evs → outP db0 st evs = fun x => .ok (x, st.app evs) := by
      intro evs hn; funext x; exact outP_none db0 st evs x (firstMissing_noRead db0 evs hn)
    cases kr <;> simp only [and_true, ↓reduceIte] <;>
    (by_cases hpt : pt = []
     · subst hpt
       simp only [↓reduceIte, wrap_nil', fold_leaf H, persistNodeR_toItem, blank17_eq H, setAt_brItems_child,
         setAt_brItems_val, fold_branch H, app_app]
       by_cases hcm : cm = []
       · subst hcm
         rw [hnone _ (by simp)]
         simp [wrap_nil']
       · rw [hnone _ (by simp [hcm])]
         simp [hcm, wrap_ne hcm, fold_ext H, List.append_assoc]
     · simp only [hpt, ↓reduceIte, wrap_ne hpt, fold_ext H, fold_leaf H, persistNodeR_toItem, blank17_eq H,
         setAt_brItems_child, setAt_brItems_val, fold_branch H, app_app]
       by_cases hcm : cm = []
       · subst hcm
         rw [hnone _ (by simp)]
         simp [wrap_nil']
       · rw [hnone _ (by simp [hcm])]
         simp [hcm, wrap_ne hcm, fold_ext H, List.append_assoc])

/-- **`_set` on an incomplete database** (in terms of `outP`) -/
theorem rawSet_partial_app (hlen : ∀ b, (H b).length = 32) (v : Bytes) (t : Node) :
    Canon t → ∀ (k : Path) (st : St) (fuel : Nat) (db0 : Db), st.db = db0 → PartialD H db0 t →
    2 * k.length + 2 ≤ fuel →
    rawSet H fuel st (toItem H t) k v =
      outP db0 st (setE (stdHashing H) t k v).2 (toItem H (setE (stdHashing H) t k v).1) := by
  induction t with
  | blank =>
    intro _ k st fuel db0 _ _ hf
    obtain ⟨f, rfl⟩ : ∃ f, fuel = f + 1 := ⟨fuel - 1, by omega⟩
    simp [outP, rawSet, classify_blank, pruneNodeR_toItem, setE, pruneEv, stdHashing, isHashed, isBlank, fold_leaf H]
  | leaf p pv =>
    intro _ k st fuel db0 _ _ hf
    obtain ⟨f, rfl⟩ : ∃ f, fuel = f + 2 := ⟨fuel - 2, by omega⟩
    simp only [rawSet, classify_leaf, pruneNodeR_toItem]
    rw [outP_none _ _ _ _ (firstMissing_noRead _ _ (setE_leaf_noRead _ p pv k v))]
    exact rawSetKv_leaf H f st p pv k v
  | ext p c ih =>
    intro hc k st fuel db0 hdb hst hf
    obtain ⟨hpne, _, hcc⟩ := hc
    obtain ⟨hsc, hstc⟩ := hst
    obtain ⟨f, rfl⟩ : ∃ f, fuel = f + 2 := ⟨fuel - 2, by omega⟩
    simp only [rawSet, classify_ext, pruneNodeR_toItem]
    refine rawSetKv_ext_partial H hlen f db0 st hdb p c k v hpne hsc (fun hpr st' hdb' => ?_)
    have := drop_cpl_length p k hpne hpr
    exact ih hcc _ st' f db0 hdb' hstc (by omega)
  | branch ch bv ih =>
    intro hc k st fuel db0 hdb hst hf
    obtain ⟨f, rfl⟩ : ∃ f, fuel = f + 1 := ⟨fuel - 1, by omega⟩
    cases k with
    | nil =>
      simp only [rawSet, classify_branch, pruneNodeR_toItem, setE, setAt_brItems_val, fold_branch H]
      rw [outP_none _ _ _ _ (by simp)]
    | cons a rest =>
      have hg := getNodeR_partial H hlen db0 (st.app (pruneEv (stdHashing H) (branch ch bv))) (by simpa using hdb)
        (ch a) (hst a).1
      have hi := ih a (hc.1 a) rest (st.app (pruneEv (stdHashing H) (branch ch bv) ++ readEv (stdHashing H) (ch a))) f
        db0 (by simpa using hdb) (hst a).2 (by simp at hf; omega)
      simp only [rawSet, classify_branch, pruneNodeR_toItem, brItems_getD, setE]
      generalize setE (stdHashing H) (ch a) rest v = r at hi ⊢
      unfold outP at hg hi ⊢
      simp only [firstMissing_append, firstMissing_pruneEv, firstMissing_persistEv, Option.none_or, Option.or_none]
      cases h1 : firstMissing db0 (readEv (stdHashing H) (ch a)) with
      | some h => simp only [h1] at hg; simp [hg]
      | none =>
        simp only [h1] at hg
        cases h2 : firstMissing db0 r.2 with
        | some h => simp only [h2] at hi; simp [hg, hi]
        | none =>
          simp only [h2] at hi
          simp only [hg, app_app, hi, persistNodeR_toItem, setAt_brItems_child, fold_branch H, List.append_assoc,
            Option.none_or]

/-! ### `_delete` -/

/-- `_normalize_branch_node` on an incomplete database -/
theorem rawNormalize_partial (hlen : ∀ b, (H b).length = 32) (db0 : Db) (st : St) (hdb : st.db = db0)
    (ch : Nib → Node) (v : Bytes) (hw : 1 ≤ weight ch v) (hs : ∀ i, PartialC H db0 (ch i)) :
    rawNormalize H st (brItems H ch v) =
      outP db0 st (normalizeE (stdHashing H) ch v).2 (toItem H (normalizeE (stdHashing H) ch v).1) := by
  unfold rawNormalize
  rw [twoTruthy_brItems H hlen, brItems_getD_16, truthy_str, find_brItems H hlen]
  unfold normalizeE
  unfold weight at hw ⊢
  generalize hl : liveIdx ch = l at hw
  match l, v with
  | [], [] => simp at hw
  | [], b :: bs => simp [outP, fold_leaf H, fold_branch H]
  | [i], b :: bs => simp [outP, fold_leaf H, fold_branch H]
  | i :: j :: r, v =>
    have : 2 ≤ (i :: j :: r).length + if v = [] then 0 else 1 := by simp; omega
    simp only [this, decide_true, ↓reduceIte, fold_branch H, app_nil, outP, firstMissing_nil]
  | [i], [] =>
    have hi : isBlank (ch i) = false := (mem_liveIdx ch i).1 (by simp [hl])
    have hg := getNodeR_partial H hlen db0 st hdb (ch i) (hs i)
    simp only [List.length_cons, List.length_nil, ↓reduceIte, List.head?_cons, Option.map_some, brItems_getD, hg]
    generalize ch i = ci at hi ⊢
    unfold outP
    cases h1 : firstMissing db0 (readEv (stdHashing H) ci) with
    | some h => cases ci <;> simp [firstMissing_append, h1]
    | none =>
      cases ci with
      | blank => simp [isBlank] at hi
      | leaf p lv => simp [firstMissing_append, h1, classify_leaf, pruneNodeR_toItem, toNib_val, fold_leaf H]
      | ext p c => simp [firstMissing_append, h1, classify_ext, pruneNodeR_toItem, toNib_val, fold_ext H]
      | branch ch' v' => simp [firstMissing_append, h1, classify_branch, toNib_val, fold_ext H]

theorem partialC_upd_blank (db : Db) (ch : Nib → Node) (a : Nib) (hs : ∀ i, PartialC H db (ch i)) (i : Nib) :
    PartialC H db (upd ch a blank i) := by
  unfold upd
  split
  · intro h; simp [isHashed, isBlank] at h
  · exact hs i

/-- **`_delete` on an incomplete database** (in terms of `outP`) -/
theorem rawDelete_partial_app (hlen : ∀ b, (H b).length = 32) (t : Node) :
    Canon t → ∀ (k : Path) (st : St) (fuel : Nat) (db0 : Db), st.db = db0 → PartialD H db0 t →
    2 * k.length + 2 ≤ fuel →
    rawDelete H fuel st (toItem H t) k =
      outP db0 st (deleteE (stdHashing H) t k).2 (toItem H (deleteE (stdHashing H) t k).1) := by
  induction t with
  | blank =>
    intro _ k st fuel db0 _ _ hf
    obtain ⟨f, rfl⟩ : ∃ f, fuel = f + 1 := ⟨fuel - 1, by omega⟩
    simp only [rawDelete, classify_blank, pruneNodeR_toItem, deleteE]
    simp [outP, pruneEv, stdHashing, isHashed, isBlank, toItem]
  | leaf p pv =>
    intro _ k st fuel db0 _ _ hf
    obtain ⟨f, rfl⟩ : ∃ f, fuel = f + 1 := ⟨fuel - 1, by omega⟩
    simp only [rawDelete, classify_leaf, pruneNodeR_toItem, deleteE]
    by_cases hkp : k = p
    · subst hkp; simp [outP, toItem]
    · by_cases hpk : p <+: k <;> simp [outP, hkp, hpk]
  | ext p c ih =>
    intro hc k st fuel db0 hdb hst hf
    obtain ⟨hpne, _, hcc⟩ := hc
    obtain ⟨hsc, hstc⟩ := hst
    obtain ⟨f, rfl⟩ : ∃ f, fuel = f + 1 := ⟨fuel - 1, by omega⟩
    simp only [rawDelete, classify_ext, pruneNodeR_toItem, deleteE]
    by_cases hpk : p <+: k
    · have hg := getNodeR_partial H hlen db0 (st.app (pruneEv (stdHashing H) (ext p c))) (by simpa using hdb) c hsc
      have hlp : 0 < p.length := List.length_pos_iff.2 hpne
      have hle := hpk.length_le
      have hi := ih hcc (k.drop p.length) (st.app (pruneEv (stdHashing H) (ext p c) ++ readEv (stdHashing H) c)) f
        db0 (by simpa using hdb) hstc (by simp only [List.length_drop]; omega)
      simp only [hpk, decide_true, Bool.not_true, Bool.false_eq_true, ↓reduceIte, stdHashing_refEq]
      generalize deleteE (stdHashing H) c (k.drop p.length) = r at hi ⊢
      obtain ⟨r1, r2⟩ := r
      unfold outP at hg hi
      cases h1 : firstMissing db0 (readEv (stdHashing H) c) with
      | some h =>
        simp only [h1] at hg
        simp only [hg]
        by_cases he : (refOf H r1 == refOf H c) = true
        · simp [outP, he, firstMissing_append, h1]
        · cases r1 <;> simp [outP, he, firstMissing_append, h1]
      | none =>
        simp only [h1] at hg
        cases h2 : firstMissing db0 r2 with
        | some h =>
          simp only [h2] at hi
          simp only [hg, app_app, hi]
          by_cases he : (refOf H r1 == refOf H c) = true
          · simp [outP, he, firstMissing_append, h1, h2]
          · cases r1 <;> simp [outP, he, firstMissing_append, h1, h2]
        | none =>
          simp only [h2] at hi
          simp only [hg, app_app, hi, persistNodeR_toItem, toItem_beq_blank]
          by_cases he : (refOf H r1 == refOf H c) = true
          · simp [outP, he, firstMissing_append, h1, h2, List.append_assoc]
          · simp only [he, Bool.false_eq_true, ↓reduceIte]
            cases r1 with
            | blank => simp [outP, firstMissing_append, h1, h2, isBlank, toItem, List.append_assoc]
            | leaf p' v' =>
              simp [outP, firstMissing_append, h1, h2, isBlank, classify_leaf, pruneNodeR_toItem, fold_leaf H,
                List.append_assoc]
            | ext p' c' =>
              simp [outP, firstMissing_append, h1, h2, isBlank, classify_ext, pruneNodeR_toItem, fold_ext H,
                List.append_assoc]
            | branch ch' v' =>
              simp [outP, firstMissing_append, h1, h2, isBlank, classify_branch, fold_ext H, List.append_assoc]
    · simp [outP, hpk]
  | branch ch bv ih =>
    intro hc k st fuel db0 hdb hst hf
    obtain ⟨hcc, hw⟩ := hc
    obtain ⟨f, rfl⟩ : ∃ f, fuel = f + 1 := ⟨fuel - 1, by omega⟩
    have hsC : ∀ i, PartialC H db0 (ch i) := fun i => (hst i).1
    cases k with
    | nil =>
      simp only [rawDelete, classify_branch, pruneNodeR_toItem, deleteE, setAt_brItems_val]
      rw [rawNormalize_partial H hlen db0 _ (by simpa using hdb) ch [] (weight_nil_of_two_le ch bv hw) hsC]
      unfold outP
      simp only [firstMissing_append, firstMissing_pruneEv, Option.none_or]
      cases firstMissing db0 (normalizeE (stdHashing H) ch []).2 <;> simp only [app_app]
    | cons a rest =>
      have hg := getNodeR_partial H hlen db0 (st.app (pruneEv (stdHashing H) (branch ch bv))) (by simpa using hdb)
        (ch a) (hsC a)
      have hi := ih a (hcc a) rest (st.app (pruneEv (stdHashing H) (branch ch bv) ++ readEv (stdHashing H) (ch a))) f
        db0 (by simpa using hdb) (hst a).2 (by simp at hf; omega)
      simp only [rawDelete, classify_branch, pruneNodeR_toItem, deleteE, brItems_getD, stdHashing_refEq]
      have hnp := deleteE_blank_noPersist (stdHashing H) (ch a) rest
      generalize deleteE (stdHashing H) (ch a) rest = r at hnp hi ⊢
      obtain ⟨r1, r2⟩ := r
      unfold outP at hg hi
      cases h1 : firstMissing db0 (readEv (stdHashing H) (ch a)) with
      | some h =>
        simp only [h1] at hg
        simp only [hg]
        by_cases he : (refOf H r1 == refOf H (ch a)) = true
        · simp [outP, he, firstMissing_append, h1]
        · cases hb : isBlank r1 <;> simp [outP, he, hb, firstMissing_append, h1]
      | none =>
        simp only [h1] at hg
        cases h2 : firstMissing db0 r2 with
        | some h =>
          simp only [h2] at hi
          simp only [hg, app_app, hi]
          by_cases he : (refOf H r1 == refOf H (ch a)) = true
          · simp [outP, he, firstMissing_append, h1, h2]
          · cases hb : isBlank r1 <;> simp [outP, he, hb, firstMissing_append, h1, h2]
        | none =>
          simp only [h2] at hi
          simp only [hg, app_app, hi, persistNodeR_toItem, refOf_beq_blank H hlen, setAt_brItems_child]
          by_cases he : (refOf H r1 == refOf H (ch a)) = true
          · simp [outP, he, firstMissing_append, h1, h2, fold_branch H, List.append_assoc]
          · simp only [he, Bool.false_eq_true, ↓reduceIte]
            cases hb : isBlank r1 with
            | false => simp [outP, firstMissing_append, h1, h2, fold_branch H, List.append_assoc]
            | true =>
              have e1 : r1 = blank := (isBlank_iff r1).1 hb
              subst e1
              have hnb : weight (upd ch a blank) bv + 1 ≥ weight ch bv := weight_upd_blank ch a bv
              have hn : ∀ st3 : St, st3.db = db0 → rawNormalize H st3 (brItems H (upd ch a blank) bv) =
                  outP db0 st3 (normalizeE (stdHashing H) (upd ch a blank) bv).2
                    (toItem H (normalizeE (stdHashing H) (upd ch a blank) bv).1) :=
                fun st3 h3 => rawNormalize_partial H hlen db0 st3 h3 _ bv (by omega)
                  (partialC_upd_blank H db0 ch a hsC)
              simp only [↓reduceIte]
              rw [hn _ (by rw [app_db_noPersist _ _ (by simp [hnp rfl])]; exact hdb)]
              unfold outP
              simp only [firstMissing_append, firstMissing_pruneEv, firstMissing_persistEv, h1, h2, Option.none_or]
              cases firstMissing db0 (normalizeE (stdHashing H) (upd ch a blank) bv).2 <;>
                simp [List.append_assoc]

theorem firstMissing_some (db : Db) (evs : List Ev) (h : Hash) (hf : firstMissing db evs = some h) :
    lookup db h = none ∧ Ev.read h ∈ evs := by
  unfold firstMissing at hf
  have h1 := List.find?_some hf
  have h2 := List.mem_of_find?_eq_some hf
  refine ⟨by simpa using h1, ?_⟩
  obtain ⟨e, he, hh⟩ := List.mem_filterMap.1 h2
  cases e with
  | read x => simp at hh; subst hh; exact he
  | prune x => simp at hh
  | persist x b => simp at hh

theorem outP_missing (db0 : Db) (st : St) (evs : List Ev) (x : Item) (h : Hash)
    (he : outP db0 st evs x = .error (.missing h)) : lookup db0 h = none ∧ Ev.read h ∈ evs := by
  unfold outP at he
  split at he
  · next h' hf =>
    simp only [Except.error.injEq, Err.missing.injEq] at he
    subst he
    exact firstMissing_some db0 evs _ hf
  · simp at he

end Helpers

/-- **`_set` on an incomplete database** -/
theorem rawSet_partial (hlen : ∀ b, (H b).length = 32) (t : Node) (hc : Canon t) (k : Path) (v : Bytes)
    (st : St) (hst : PartialD H st.db t) (fuel : Nat) (hf : 2 * k.length + 2 ≤ fuel) :
    rawSet H fuel st (toItem H t) k v =
      match firstMissing st.db (setE (stdHashing H) t k v).2 with
      | some h => .error (.missing h)
      | none => .ok (toItem H (setE (stdHashing H) t k v).1,
          { db := applyPersists st.db (setE (stdHashing H) t k v).2, evs := st.evs ++ (setE (stdHashing H) t k v).2 }) :=
  rawSet_partial_app H hlen v t hc k st fuel st.db rfl hst hf

/-- **`_delete` on an incomplete database** -/
theorem rawDelete_partial (hlen : ∀ b, (H b).length = 32) (t : Node) (hc : Canon t) (k : Path)
    (st : St) (hst : PartialD H st.db t) (fuel : Nat) (hf : 2 * k.length + 2 ≤ fuel) :
    rawDelete H fuel st (toItem H t) k =
      match firstMissing st.db (deleteE (stdHashing H) t k).2 with
      | some h => .error (.missing h)
      | none => .ok (toItem H (deleteE (stdHashing H) t k).1,
          { db := applyPersists st.db (deleteE (stdHashing H) t k).2, evs := st.evs ++ (deleteE (stdHashing H) t k).2 }) :=
  rawDelete_partial_app H hlen t hc k st fuel st.db rfl hst hf

/-- a missing node reported by the raw-level `_set` lies on the key's path -/
theorem rawSet_missing_on_path (hlen : ∀ b, (H b).length = 32) (t : Node) (hc : Canon t) (k : Path) (v : Bytes)
    (st : St) (hst : PartialD H st.db t) (fuel : Nat) (hf : 2 * k.length + 2 ≤ fuel) (h : Hash)
    (he : rawSet H fuel st (toItem H t) k v = .error (.missing h)) :
    lookup st.db h = none ∧ OnPath (stdHashing H) t k h := by
  rw [rawSet_partial_app H hlen v t hc k st fuel st.db rfl hst hf] at he
  obtain ⟨h1, h2⟩ := outP_missing _ _ _ _ _ he
  exact ⟨h1, PyTrie.HexW.setE_reads_on_path (stdHashing H) t hc k v h h2⟩

/-- a missing node reported by the raw-level `_delete` lies on the key's path or is the sibling a normalisation reads -/
theorem rawDelete_missing_on_path (hlen : ∀ b, (H b).length = 32) (t : Node) (hc : Canon t) (k : Path)
    (st : St) (hst : PartialD H st.db t) (fuel : Nat) (hf : 2 * k.length + 2 ≤ fuel) (h : Hash)
    (he : rawDelete H fuel st (toItem H t) k = .error (.missing h)) :
    lookup st.db h = none ∧ (OnPath (stdHashing H) t k h ∨ SiblingOnPath (stdHashing H) t k h) := by
  rw [rawDelete_partial_app H hlen t hc k st fuel st.db rfl hst hf] at he
  obtain ⟨h1, h2⟩ := outP_missing _ _ _ _ _ he
  exact ⟨h1, PyTrie.HexW.deleteE_reads_on_path (stdHashing H) t hc k h h2⟩

end PyTrie.HexRaw
