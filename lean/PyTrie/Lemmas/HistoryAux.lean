import PyTrie.Lemmas.PruneBodiesV
import PyTrie.Lemmas.PruneBodiesNP
import PyTrie.Lemmas.WorldBatch
import PyTrie.Lemmas.WorldBatchNP
/-! World-level bookkeeping used by the assembly of whole histories (`Lemmas/FreeHistory.lean`): what `World.setDel`,
    `World.batchEnd` leave in each field of the world on the success path; operations through a `ScratchDB` never touch
    the wrapped database; a complete database holds every live hash as a key. -/
namespace PyTrie.HexW
open PyTrie.Hex hiding get set
open PyTrie.Hex.Node

variable (Hs : Hashing) (blankRootHash : Hash)

/-! ### operations through a `ScratchDB` leave the wrapped database alone (as `Props/C05.lean`) -/

/-- the wrapped database and the fault counter are as before, and the store is still a `ScratchDB` -/
def SameBase (s s' : OpSt) : Prop :=
  s'.store.base = s.store.base ∧ s'.store.failAfter = s.store.failAfter ∧ s'.store.cache.isSome

theorem SameBase.trans {a b c : OpSt} (h1 : SameBase a b) (h2 : SameBase b c) : SameBase a c :=
  ⟨h2.1.trans h1.1, h2.2.1.trans h1.2.1, h2.2.2⟩

theorem write_cache_sameBase (s : Store) (c : Dict (Option Bytes)) (hc : s.cache = some c) (h : Hash) (b : Bytes) :
    ∃ s', s.write h b = some s' ∧ s'.base = s.base ∧ s'.failAfter = s.failAfter ∧ s'.cache.isSome := by
  unfold Store.write; rw [hc]; exact ⟨_, rfl, rfl, rfl, rfl⟩

theorem del_cache_sameBase (s : Store) (c : Dict (Option Bytes)) (hc : s.cache = some c) (h : Hash) :
    ∃ s', s.del h = some s' ∧ s'.base = s.base ∧ s'.failAfter = s.failAfter ∧ s'.cache.isSome := by
  unfold Store.del; rw [hc]; exact ⟨_, rfl, rfl, rfl, rfl⟩

theorem runEv_sameBase (prune : Bool) (root key : Bytes) (s : OpSt) (hs : s.store.cache.isSome) (e : Ev) (s' : OpSt)
    (h : runEv prune root key s e = .ok s') : SameBase s s' := by
  obtain ⟨c, hc⟩ := Option.isSome_iff_exists.1 hs
  cases e with
  | read x => simp only [runEv] at h; split at h <;> simp at h; subst h; exact ⟨rfl, rfl, hs⟩
  | prune x => simp only [runEv] at h; simp at h; subst h; split <;> exact ⟨rfl, rfl, hs⟩
  | persist x b =>
    simp only [runEv, setDbValue] at h
    obtain ⟨st, h1, h2, h3, h4⟩ := write_cache_sameBase s.store c hc x b
    rw [h1] at h
    simp at h; subst h
    exact ⟨h2, h3, h4⟩

theorem runEvs_sameBase (prune : Bool) (root key : Bytes) (s : OpSt) (hs : s.store.cache.isSome) (es : List Ev) :
    SameBase s (runEvs prune root key s es).1 := by
  induction es generalizing s with
  | nil => exact ⟨rfl, rfl, hs⟩
  | cons e es ih =>
    simp only [runEvs]
    split
    · next s' h =>
      obtain ⟨a, b, c⟩ := runEv_sameBase prune root key s hs e s' h
      obtain ⟨a', b', c'⟩ := ih s' c
      exact ⟨a'.trans a, b'.trans b, c'⟩
    · exact ⟨rfl, rfl, hs⟩

theorem pruneStep_sameBase (s : OpSt) (hs : s.store.cache.isSome) (kn : Hash × Nat) (s' : OpSt)
    (h : pruneStep s kn = .ok s') : SameBase s s' := by
  obtain ⟨c, hc⟩ := Option.isSome_iff_exists.1 hs
  simp only [pruneStep] at h
  split at h
  · obtain ⟨st, h1, h2, h3, h4⟩ := del_cache_sameBase s.store c hc kn.1
    rw [h1] at h
    simp at h; subst h
    exact ⟨h2, h3, h4⟩
  · simp at h; subst h; exact ⟨rfl, rfl, hs⟩

theorem completePruning_sameBase (s : OpSt) (hs : s.store.cache.isSome) (l : List (Hash × Nat)) :
    SameBase s (completePruning s l).1 := by
  induction l generalizing s with
  | nil => exact ⟨rfl, rfl, hs⟩
  | cons kn rest ih =>
    simp only [completePruning]
    split
    · next s' h =>
      obtain ⟨a, b, c⟩ := pruneStep_sameBase s hs kn s' h
      obtain ⟨a', b', c'⟩ := ih s' c
      exact ⟨a'.trans a, b'.trans b, c'⟩
    · exact ⟨rfl, rfl, hs⟩

theorem schedOldRoot_sameBase (T : TrieSt) (s : OpSt) (hs : s.store.cache.isSome) :
    SameBase s (schedOldRoot Hs blankRootHash T s) := by
  unfold schedOldRoot; split <;> exact ⟨rfl, rfl, hs⟩

theorem writeRoot_sameBase (T : TrieSt) (new : Node) (s : OpSt) (hs : s.store.cache.isSome) (s' : OpSt) (r : Hash)
    (h : writeRoot Hs blankRootHash T new s = .ok (s', r)) : SameBase s s' := by
  obtain ⟨c, hc⟩ := Option.isSome_iff_exists.1 hs
  unfold writeRoot at h
  split at h
  · simp at h; rw [← h.1]; exact ⟨rfl, rfl, hs⟩
  · obtain ⟨st, w1, w2, w3, w4⟩ := write_cache_sameBase s.store c hc (Hs.hashOf new) (Hs.encOf new)
    simp only [setDbValue, w1] at h
    simp at h; rw [← h.1]; exact ⟨w2, w3, w4⟩

theorem finishPrune_sameBase (T : TrieSt) (s : OpSt) (hs : s.store.cache.isSome) :
    SameBase s (finishPrune T s).1 := by
  unfold finishPrune; split
  · exact completePruning_sameBase s hs _
  · exact ⟨rfl, rfl, hs⟩

theorem opCore_sameBase (T : TrieSt) (key : Bytes) (val : Option Bytes) (s : OpSt) (hs : s.store.cache.isSome) :
    SameBase s (opCore Hs blankRootHash T key val s).1 := by
  unfold opCore
  split
  · exact ⟨rfl, rfl, hs⟩
  · have h1 := runEvs_sameBase T.prune T.root key s hs (opTree Hs T key val).2
    split
    · next s1 x he => rw [he] at h1; exact h1
    · next s1 he =>
      rw [he] at h1
      have h2 := h1.trans (schedOldRoot_sameBase Hs blankRootHash T s1 h1.2.2)
      split
      · exact h2
      · next s3 newRoot hw =>
        have h3 := h2.trans (writeRoot_sameBase Hs blankRootHash T _ _ h2.2.2 s3 newRoot hw)
        have h4 := h3.trans (finishPrune_sameBase T s3 h3.2.2)
        split
        · next s4 x hf => rw [hf] at h4; exact h4
        · next s4 hf => rw [hf] at h4; exact h4

/-- while the block is open the wrapped database is never written, whatever the operation does -/
theorem opSetDel_sameBase (T : TrieSt) (key : Bytes) (val : Option Bytes) (s : OpSt) (hs : s.store.cache.isSome) :
    SameBase s (opSetDel Hs blankRootHash T key val s).1 := by
  unfold opSetDel
  have h := opCore_sameBase Hs blankRootHash T key val { s with pending := [] } hs
  exact ⟨h.1, h.2.1, h.2.2⟩

theorem opSetDel_pending (T : TrieSt) (key : Bytes) (val : Option Bytes) (s : OpSt) :
    (opSetDel Hs blankRootHash T key val s).1.pending = [] := rfl

/-! ### the fields of the world after a successful `setDel` -/

theorem World.noteRoot_fields (w : World) (T : TrieSt) :
    (w.noteRoot T).base = w.base ∧ (w.noteRoot T).failAfter = w.failAfter ∧ (w.noteRoot T).tries = w.tries ∧
    (w.noteRoot T).counts = w.counts ∧ (w.noteRoot T).batch = w.batch := by
  unfold World.noteRoot
  split <;> exact ⟨rfl, rfl, rfl, rfl, rfl⟩

/-- a successful operation on trie `i` -/
theorem World.setDel_trie_ok (w : World) (i : Nat) (key : Bytes) (val : Option Bytes) (T' : TrieSt)
    (hok : (opSetDel Hs blankRootHash w.tries[i]! key val (w.opSt i)).2 = .ok T') :
    (w.setDel Hs blankRootHash (.trie i) key val).1 = .ok () ∧
    (w.setDel Hs blankRootHash (.trie i) key val).2.base =
      (opSetDel Hs blankRootHash w.tries[i]! key val (w.opSt i)).1.store.base ∧
    (w.setDel Hs blankRootHash (.trie i) key val).2.failAfter =
      (opSetDel Hs blankRootHash w.tries[i]! key val (w.opSt i)).1.store.failAfter ∧
    (w.setDel Hs blankRootHash (.trie i) key val).2.tries = w.tries.set! i T' ∧
    (w.setDel Hs blankRootHash (.trie i) key val).2.counts =
      w.counts.set! i (opSetDel Hs blankRootHash w.tries[i]! key val (w.opSt i)).1.counts ∧
    (w.setDel Hs blankRootHash (.trie i) key val).2.batch = w.batch := by
  unfold World.setDel
  simp only []
  rcases hr : opSetDel Hs blankRootHash w.tries[i]! key val (w.opSt i) with ⟨st', r⟩
  rw [hr] at hok
  simp only [] at hok
  subst hok
  simp only []
  obtain ⟨h1, h2, h3, h4, h5⟩ := World.noteRoot_fields
    ({ w with base := st'.store.base, failAfter := st'.store.failAfter, counts := w.counts.set! i st'.counts,
              tries := w.tries.set! i T' } : World) T'
  exact ⟨trivial, h1, h2, h3, h4, h5⟩

/-- a successful operation on the batch trie of the open block -/
theorem World.setDel_batch_ok (w : World) (b : Batch) (hb : w.batch = some b) (key : Bytes) (val : Option Bytes)
    (T' : TrieSt) (hok : (opSetDel Hs blankRootHash b.trie key val (w.batchOpSt b)).2 = .ok T') :
    (w.setDel Hs blankRootHash .batch key val).1 = .ok () ∧
    (w.setDel Hs blankRootHash .batch key val).2.base = w.base ∧
    (w.setDel Hs blankRootHash .batch key val).2.failAfter = w.failAfter ∧
    (w.setDel Hs blankRootHash .batch key val).2.tries = w.tries ∧
    (w.setDel Hs blankRootHash .batch key val).2.counts = w.counts ∧
    ∃ b', (w.setDel Hs blankRootHash .batch key val).2.batch = some b' ∧ b'.outer = b.outer ∧ b'.trie = T' ∧
      (w.setDel Hs blankRootHash .batch key val).2.batchOpSt b' =
        (opSetDel Hs blankRootHash b.trie key val (w.batchOpSt b)).1 := by
  have hsb := opSetDel_sameBase Hs blankRootHash b.trie key val (w.batchOpSt b) rfl
  have hpend := opSetDel_pending Hs blankRootHash b.trie key val (w.batchOpSt b)
  unfold World.setDel
  simp only [hb]
  rcases hr : opSetDel Hs blankRootHash b.trie key val (w.batchOpSt b) with ⟨st', r⟩
  rw [hr] at hok hsb hpend
  simp only [] at hok hpend
  subst hok
  simp only []
  obtain ⟨e1, e2, hsome⟩ := hsb
  simp only [World.batchOpSt] at e1 e2
  obtain ⟨c, hc⟩ := Option.isSome_iff_exists.1 hsome
  obtain ⟨⟨sb, sc, sf⟩, cn, pd⟩ := st'
  simp only [] at hc hpend e1 e2
  subst hc hpend
  obtain ⟨h1, h2, h3, h4, h5⟩ := World.noteRoot_fields
    ({ w with base := sb, failAfter := sf,
              batch := some { b with cache := c, counts := cn, trie := T' } } : World) T'
  refine ⟨trivial, h1.trans e1, h2.trans e2, h3, h4, _, h5, rfl, rfl, ?_⟩
  simp only [World.batchOpSt, Option.getD_some] at h1 h2 ⊢
  rw [h1, h2]

/-! ### the commit loop without write faults -/

theorem commitLoop_none (dd : Bool) (cache : List (Hash × Option Bytes)) (base : Dict Bytes) :
    (commitLoop dd cache base none).1 = true ∧ (commitLoop dd cache base none).2.2 = none := by
  induction cache generalizing base with
  | nil => exact ⟨rfl, rfl⟩
  | cons e rest ih =>
    obtain ⟨k, o⟩ := e
    cases o with
    | some v => simpa [commitLoop] using ih (Dict.insert base k v)
    | none => simpa [commitLoop] using ih (if dd then Dict.erase base k else base)

/-- normal exit of the block, no write fault injected: the commit completes -/
theorem World.batchEnd_false_eq (w : World) (b : Batch) (hb : w.batch = some b) (hfa : w.failAfter = none) :
    w.batchEnd false =
      (.ok (), { w with base := (commitLoop (w.tries[b.outer]!).prune b.cache w.base none).2.1,
                        failAfter := none, batch := none,
                        tries := w.tries.set! b.outer
                          { tree := b.trie.tree, root := b.trie.root, prune := (w.tries[b.outer]!).prune },
                        counts := if (w.tries[b.outer]!).prune then w.counts.set! b.outer b.counts else w.counts }) := by
  obtain ⟨h1, h2⟩ := commitLoop_none (w.tries[b.outer]!).prune b.cache w.base
  simp only [World.batchEnd, hb, Bool.false_eq_true, ↓reduceIte, hfa]
  generalize commitLoop (w.tries[b.outer]!).prune b.cache w.base none = q at h1 h2 ⊢
  obtain ⟨ok, base', fa'⟩ := q
  simp only at h1 h2
  subst h1 h2
  simp only [↓reduceIte]

theorem World.batchEnd_true_eq (w : World) (b : Batch) (hb : w.batch = some b) :
    w.batchEnd true = (.ok (), { w with batch := none }) := by
  simp [World.batchEnd, hb]

/-! ### a complete database holds every live hash as a key -/

theorem sumCh_pos' {f : Nib → Nat} (h : 0 < sumCh f) : ∃ i, 0 < f i :=
  Classical.byContradiction fun hn => by
    have : f = fun _ => 0 := funext fun i => by
      have : ¬ 0 < f i := fun hi => hn ⟨i, hi⟩
      omega
    rw [this, sumCh_zero] at h
    exact absurd h (by decide)

theorem ref_occ_contains' (d : Dict Bytes) (t : Node) (hr : Ref Hs d t) (h : Hash) (hp : 0 < occ Hs t h) :
    Dict.contains d h = true := by
  have hself : ∀ n, Ref Hs d n → 0 < self Hs n h → Dict.contains d h = true := by
    intro n hn hs
    unfold self at hs
    split at hs
    · next hc => rw [← hc.2]; exact contains_of_get? (hn.1 hc.1)
    · cases hs
  induction t with
  | blank => simp [occ] at hp
  | leaf p v => exact hself _ hr (by simpa [occ] using hp)
  | ext p c ih =>
    simp only [occ] at hp
    by_cases hs : 0 < self Hs (ext p c) h
    · exact hself _ hr hs
    · exact ih hr.2 (by omega)
  | branch ch v ih =>
    simp only [occ] at hp
    by_cases hs : 0 < self Hs (branch ch v) h
    · exact hself _ hr hs
    · obtain ⟨i, hi⟩ := sumCh_pos' (f := fun i => occ Hs (ch i) h) (by omega)
      exact ih i (hr.2 i) hi

/-- on a complete database every referenced hash is a key -/
theorem complete_keys' (d : Dict Bytes) (T : TrieSt) (hc : Complete Hs blankRootHash d T) (h : Hash)
    (hp : 0 < occRoot Hs T.tree h) : Dict.contains d h = true := by
  unfold occRoot at hp
  by_cases hpp : 0 < occProper Hs T.tree h
  · have hsb := hc.2
    cases ht : T.tree with
    | blank => rw [ht] at hpp; simp [occProper] at hpp
    | leaf p v => rw [ht] at hpp; simp [occProper] at hpp
    | ext p c =>
      rw [ht] at hpp hsb
      exact ref_occ_contains' Hs d c hsb h hpp
    | branch ch v =>
      rw [ht] at hpp hsb
      obtain ⟨i, hi⟩ := sumCh_pos' (f := fun i => occ Hs (ch i) h) hpp
      exact ref_occ_contains' Hs d (ch i) (hsb i) h hi
  · split at hp
    · next hb =>
      have h1 := hc.1
      simp only [hb.1, Bool.false_eq_true, ↓reduceIte] at h1
      rw [← hb.2, ← h1.1]
      exact contains_of_get? h1.2.2
    · omega

theorem complete_root (d : Dict Bytes) (T : TrieSt) (hc : Complete Hs blankRootHash d T) :
    if isBlank T.tree then T.root = blankRootHash else T.root = Hs.hashOf T.tree ∧ T.root ≠ blankRootHash := by
  have h := hc.1
  split at h
  · next hb => simpa [hb] using h
  · next hb => simp only [hb]; exact ⟨h.1, h.2.1⟩

end PyTrie.HexW
