import PyTrie.Lemmas.PruneDict
import PyTrie.Lemmas.HexEff
/-! Exact behaviour of `runEvs` and `completePruning` on a pruning trie over a plain dict without
    injected write failures (C06). -/
namespace PyTrie.HexW
open PyTrie.Hex hiding get set
open PyTrie.Hex.Node

theorem Store.contains_plain (s : Store) (hc : s.cache = none) (h : Hash) :
    s.contains h = s.base.contains h := by
  unfold Store.contains; rw [hc]

theorem cntPrune_cons (e : Ev) (es : List Ev) (h : Hash) :
    cntPrune (e :: es) h = cntPrune es h + (if e = Ev.prune h then 1 else 0) := by
  unfold cntPrune
  rw [List.count_cons]
  simp only [beq_iff_eq]

theorem cntPersist_cons (e : Ev) (es : List Ev) (h : Hash) :
    cntPersist (e :: es) h = cntPersist es h + (if isPersistOf h e = true then 1 else 0) := by
  unfold cntPersist
  rw [List.countP_cons]

/-- state after a successful event list -/
structure RunSpec (s : OpSt) (es : List Ev) (s' : OpSt) : Prop where
  cache : s'.store.cache = none
  fa : s'.store.failAfter = none
  nodup : NoDupKeys s'.pending
  pos : PosVals s'.pending
  counts : ∀ h, s'.counts.val h = s.counts.val h + cntPersist es h
  pending : ∀ h, s'.pending.val h = s.pending.val h + cntPrune es h
  keys : ∀ h, s'.store.base.contains h = true ↔ (s.store.base.contains h = true ∨ 0 < cntPersist es h)

theorem runEvs_spec (root key : Bytes) (es : List Ev) (s : OpSt)
    (hc : s.store.cache = none) (hfa : s.store.failAfter = none)
    (hnd : NoDupKeys s.pending) (hpos : PosVals s.pending)
    (hreads : ∀ h, Ev.read h ∈ es → s.store.base.contains h = true) :
    ∃ s', runEvs true root key s es = (s', none) ∧ RunSpec s es s' := by
  induction es generalizing s with
  | nil =>
    exact ⟨s, rfl, hc, hfa, hnd, hpos, fun h => by simp, fun h => by simp, fun h => by simp⟩
  | cons e es ih =>
    cases e with
    | read x =>
      have hx : s.store.contains x = true := by
        rw [Store.contains_plain _ hc]; exact hreads x (List.mem_cons_self ..)
      obtain ⟨s', h1, h2⟩ := ih s hc hfa hnd hpos (fun h hm => hreads h (List.mem_cons_of_mem _ hm))
      refine ⟨s', ?_, h2.cache, h2.fa, h2.nodup, h2.pos, ?_, ?_, ?_⟩
      · simp only [runEvs, runEv, hx, ↓reduceIte]; exact h1
      · intro h; rw [h2.counts, cntPersist_cons]; simp [isPersistOf]
      · intro h; rw [h2.pending, cntPrune_cons]; simp
      · intro h; rw [h2.keys, cntPersist_cons]; simp [isPersistOf]
    | prune x =>
      obtain ⟨s', h1, h2⟩ := ih { s with pending := s.pending.inc x } hc hfa (hnd.inc x) (hpos.inc x)
        (fun h hm => hreads h (List.mem_cons_of_mem _ hm))
      refine ⟨s', ?_, h2.cache, h2.fa, h2.nodup, h2.pos, ?_, ?_, ?_⟩
      · simp only [runEvs, runEv, ↓reduceIte]; exact h1
      · intro h; rw [h2.counts, cntPersist_cons]; simp [isPersistOf]
      · intro h
        rw [h2.pending, cntPrune_cons, Counts.val_inc]
        simp only [Ev.prune.injEq]
        by_cases hx : h = x
        · subst hx; simp; omega
        · have hx' : ¬ x = h := fun e => hx e.symm
          simp [hx, hx']
      · intro h; rw [h2.keys, cntPersist_cons]; simp [isPersistOf]
    | persist x b =>
      have hw : s.store.write x b = some { s.store with base := Dict.insert s.store.base x b } := by
        unfold Store.write; rw [hc, hfa]; simp [hc, hfa]
      obtain ⟨s', h1, h2⟩ := ih
        { s with store := { s.store with base := Dict.insert s.store.base x b }, counts := s.counts.inc x }
        hc hfa hnd hpos
        (fun h hm => (Dict.contains_insert _ _ _ _).2 (Or.inl (hreads h (List.mem_cons_of_mem _ hm))))
      refine ⟨s', ?_, h2.cache, h2.fa, h2.nodup, h2.pos, ?_, ?_, ?_⟩
      · simp only [runEvs, runEv, setDbValue, hw, ↓reduceIte]; exact h1
      · intro h
        rw [h2.counts, cntPersist_cons, Counts.val_inc]
        simp only [isPersistOf, beq_iff_eq]
        by_cases hx : h = x
        · subst hx; simp; omega
        · have hx' : ¬ x = h := fun e => hx e.symm
          simp [hx, hx']
      · intro h; rw [h2.pending, cntPrune_cons]; simp
      · intro h
        rw [h2.keys, cntPersist_cons, Dict.contains_insert]
        simp only [isPersistOf, beq_iff_eq]
        by_cases hx : h = x
        · subst hx; simp
        · have hx' : ¬ x = h := fun e => hx e.symm
          simp [hx, hx']

/-- one step of `_complete_pruning` on a plain dict holding the key -/
theorem pruneStep_spec (s : OpSt) (kn : Hash × Nat) (hc : s.store.cache = none)
    (hk : s.store.base.contains kn.1 = true) :
    ∃ s', pruneStep s kn = .ok s' ∧ s'.store.cache = none ∧ s'.pending = s.pending ∧
      s'.store.failAfter = s.store.failAfter ∧
      (∀ k, s'.counts.val k = if k = kn.1 then s.counts.val k - kn.2 else s.counts.val k) ∧
      (∀ k, s'.store.base.contains k = true ↔
        (s.store.base.contains k = true ∧ (k = kn.1 → kn.2 < s.counts.val k))) := by
  unfold pruneStep
  simp only
  split
  · next hle =>
    have hd : s.store.del kn.1 = some { s.store with base := Dict.erase s.store.base kn.1 } := by
      unfold Store.del; rw [hc]; simp [hk, hc]
    rw [hd]
    refine ⟨_, rfl, hc, rfl, rfl, ?_, ?_⟩
    · intro k
      simp only [Counts.val_erase]
      split
      · next e => subst e; omega
      · rfl
    · intro k
      simp only [Dict.contains_erase]
      constructor
      · rintro ⟨a, b⟩; exact ⟨a, fun e => absurd e b⟩
      · rintro ⟨a, b⟩
        refine ⟨a, fun e => ?_⟩
        have := b e
        subst e
        omega
  · next hlt =>
    refine ⟨_, rfl, hc, rfl, rfl, ?_, ?_⟩
    · intro k
      simp only [Counts.val_insert]
      split
      · next e => subst e; rfl
      · rfl
    · intro k
      constructor
      · intro a; exact ⟨a, fun e => by subst e; omega⟩
      · exact fun a => a.1

/-- `_complete_pruning` over a list of distinct keys, all present, none over-pruned: counts drop by the
    pending amounts, exactly the keys that reach zero are deleted, and nothing raises -/
theorem completePruning_spec (l : List (Hash × Nat)) (hnd : NoDupKeys l) (s : OpSt)
    (hc : s.store.cache = none)
    (hk : ∀ e ∈ l, s.store.base.contains e.1 = true) :
    ∃ s', completePruning s l = (s', none) ∧ s'.store.cache = none ∧ s'.pending = s.pending ∧
      s'.store.failAfter = s.store.failAfter ∧
      (∀ k, s'.counts.val k = s.counts.val k - Counts.val l k) ∧
      (∀ k, s'.store.base.contains k = true ↔
        (s.store.base.contains k = true ∧ (Dict.contains l k = true → Counts.val l k < s.counts.val k))) := by
  induction l generalizing s with
  | nil =>
    refine ⟨s, rfl, hc, rfl, rfl, fun k => by simp [Counts.val_nil], fun k => ?_⟩
    simp [Dict.contains_nil]
  | cons kn rest ih =>
    have hnd' := hnd
    unfold NoDupKeys at hnd'
    rw [List.map_cons, List.nodup_cons] at hnd'
    obtain ⟨s1, h1, hc1, hp1, hf1, hcnt1, hkeys1⟩ :=
      pruneStep_spec s kn hc (hk kn (List.mem_cons_self ..))
    have hne : ∀ e ∈ rest, e.1 ≠ kn.1 := by
      intro e he heq
      apply hnd'.1
      rw [← heq]
      exact List.mem_map.2 ⟨e, he, rfl⟩
    have hk1 : ∀ e ∈ rest, s1.store.base.contains e.1 = true := by
      intro e he
      rw [hkeys1]
      exact ⟨hk e (List.mem_cons_of_mem _ he), fun h => absurd h (hne e he)⟩
    obtain ⟨s2, h2, hc2, hp2, hf2, hcnt2, hkeys2⟩ := ih hnd'.2 s1 hc1 hk1
    have hrest : Dict.contains rest kn.1 = false := by
      cases hb : Dict.contains rest kn.1
      · rfl
      · exact absurd ((Dict.contains_iff_mem_keys rest kn.1).1 hb) hnd'.1
    refine ⟨s2, ?_, hc2, hp2.trans hp1, hf2.trans hf1, ?_, ?_⟩
    · simp only [completePruning, h1]; exact h2
    · intro k
      rw [hcnt2, hcnt1, Counts.val_cons]
      by_cases hkk : k = kn.1
      · subst hkk
        simp [Counts.val_of_not_contains rest _ hrest]
      · have hkk' : (kn.1 == k) = false := by simpa using (fun e => hkk (Eq.symm e))
        simp [hkk, hkk']
    · intro k
      rw [hkeys2, hkeys1, hcnt1, Dict.contains_cons, Counts.val_cons]
      by_cases hkk : k = kn.1
      · subst hkk
        simp [hrest, Counts.val_of_not_contains rest _ hrest]
      · have hkk' : (kn.1 == k) = false := by simpa using (fun e => hkk (Eq.symm e))
        simp [hkk, hkk']

end PyTrie.HexW
