import PyTrie.Lemmas.WorldComplete
import PyTrie.Lemmas.HexNodeAt
import PyTrie.Lemmas.PruneDict
/-! Helpers for `Lemmas/PartialInv.lean`.

* `AllBelow Hs P t`: every hashed proper subtree of `t` satisfies `P` (`StoredBelow`, `StoredD`, `PartialD` are instances).
* the tree-level core of completeness (`WorldComplete.lean`: `setE_stored`, `deleteE_stored`, `opTree_stored`) for an
  arbitrary node predicate: every hashed proper subtree of the new tree is a hashed proper subtree of the old tree or a
  node persisted by the operation.
* `OnlyAdds` for every `set` / `delete`, whatever its outcome (success, missing node, failing write, failing prune),
  pruning on or off, plain dict or scratch cache: every binding of the exit base is a binding of the entry base or one of
  the operation's writes.
* the shape of the trie a successful `set` / `delete` returns. -/
namespace PyTrie.HexW
open PyTrie.Hex hiding get set
open PyTrie.Hex.Node

variable (Hs : Hashing) (blankRootHash : Hash)

/-- every hashed proper subtree satisfies `P` -/
def AllBelow (P : Node → Prop) : Node → Prop
  | blank => True
  | leaf _ _ => True
  | ext _ c => (Hs.hashed c = true → P c) ∧ AllBelow P c
  | branch ch _ => ∀ i, (Hs.hashed (ch i) = true → P (ch i)) ∧ AllBelow P (ch i)

/-- a child reference is fine: `P` when hashed, and everything below it -/
def RefP (P : Node → Prop) (n : Node) : Prop := (Hs.hashed n = true → P n) ∧ AllBelow Hs P n

/-- every hashed node whose (hash, encoding) is one of the writes of the event list satisfies `P` -/
def WrP (P : Node → Prop) (evs : List Ev) : Prop :=
  ∀ h b, (h, b) ∈ writesOf evs → ∀ n, Hs.hashed n = true → Hs.hashOf n = h → Hs.encOf n = b → P n

variable {P : Node → Prop}

theorem allBelow_mono2 {P R Q : Node → Prop} (hq : ∀ n, Hs.hashed n = true → P n → R n → Q n) (t : Node)
    (hp : AllBelow Hs P t) (hr : AllBelow Hs R t) : AllBelow Hs Q t := by
  induction t with
  | blank => trivial
  | leaf p v => trivial
  | ext p c ih => exact ⟨fun hh => hq c hh (hp.1 hh) (hr.1 hh), ih hp.2 hr.2⟩
  | branch ch v ih => intro i; exact ⟨fun hh => hq _ hh ((hp i).1 hh) ((hr i).1 hh), ih i (hp i).2 (hr i).2⟩

theorem allBelow_mono {P Q : Node → Prop} (hq : ∀ n, Hs.hashed n = true → P n → Q n) (t : Node)
    (hp : AllBelow Hs P t) : AllBelow Hs Q t :=
  allBelow_mono2 Hs (fun n hh h _ => hq n hh h) t hp hp

/-- on a canonical tree, a property of all hashed nodes reachable by `nodeAt` holds of all hashed proper subtrees -/
theorem allBelow_of_nodeAt (t : Node) (hc : Canon t)
    (h : ∀ q m, nodeAt t q = some m → Hs.hashed m = true → P m) : AllBelow Hs P t := by
  induction t with
  | blank => trivial
  | leaf p v => trivial
  | ext p c ih =>
    obtain ⟨hpne, _, hcc⟩ := hc
    refine ⟨fun hh => h (p ++ []) c (nodeAt_ext_append p c [] c (by simp [nodeAt]) hpne) hh, ?_⟩
    exact ih hcc (fun q m hq hh => h (p ++ q) m (nodeAt_ext_append p c q m hq hpne) hh)
  | branch ch v ih =>
    intro i
    refine ⟨fun hh => h [i] (ch i) (by simp [nodeAt]) hh, ?_⟩
    exact ih i (hc.1 i) (fun q m hq hh => h (i :: q) m (by simpa [nodeAt] using hq) hh)

theorem refP_blank : RefP Hs P blank :=
  ⟨fun h => by simp [Hs.hashed_blank] at h, trivial⟩

theorem refP_emptyCh (i : Nib) : RefP Hs P (emptyCh i) := refP_blank Hs

theorem refP_upd {ch : Nib → Node} {x : Node} (n : Nib)
    (hch : ∀ i, RefP Hs P (ch i)) (hx : RefP Hs P x) : ∀ i, RefP Hs P (upd ch n x i) := by
  intro i; unfold upd; split
  · exact hx
  · exact hch i

theorem WrP_append {a b : List Ev} : WrP Hs P (a ++ b) ↔ WrP Hs P a ∧ WrP Hs P b := by
  simp only [WrP, writesOf_append, List.mem_append]
  constructor
  · intro h; exact ⟨fun x y hm => h x y (Or.inl hm), fun x y hm => h x y (Or.inr hm)⟩
  · rintro ⟨h1, h2⟩ x y (hm | hm)
    · exact h1 x y hm
    · exact h2 x y hm

theorem WrP_persistEv {n : Node} (hw : WrP Hs P (persistEv Hs n)) (hh : Hs.hashed n = true) : P n := by
  unfold persistEv at hw
  simp only [hh, if_true] at hw
  exact hw _ _ (by simp [writesOf]) n hh rfl rfl

theorem refP_of {n : Node} (hs : AllBelow Hs P n) (hw : WrP Hs P (persistEv Hs n)) : RefP Hs P n :=
  ⟨WrP_persistEv Hs hw, hs⟩

theorem allBelow_wrap (cm : Path) (br : Node) (hs : AllBelow Hs P br)
    (hw : WrP Hs P (if cm = [] then [] else persistEv Hs br)) : AllBelow Hs P (wrap cm br) := by
  unfold wrap
  by_cases hc : cm = []
  · simpa [hc] using hs
  · simp only [hc, if_false] at hw ⊢
    exact refP_of Hs hs hw

theorem refP_wrap (pt : Path) (c : Node) (hc : RefP Hs P c)
    (hw : WrP Hs P (if pt = [] then [] else persistEv Hs (wrap pt c))) : RefP Hs P (wrap pt c) := by
  by_cases hp : pt = []
  · simpa [wrap, hp] using hc
  · simp only [hp, if_false] at hw
    refine refP_of Hs ?_ hw
    simp only [wrap, hp, if_false]
    exact hc

/-! ### tree level -/

theorem setE_allBelow (t : Node) (k : Path) (v : Bytes) (h : AllBelow Hs P t)
    (hw : WrP Hs P (setE Hs t k v).2) : AllBelow Hs P (setE Hs t k v).1 := by
  induction t generalizing k with
  | blank => trivial
  | leaf p pv =>
    simp only [setE] at hw ⊢
    generalize (List.take (cpl p k) p) = cm at hw ⊢
    generalize (List.drop (cpl p k) p) = pr at hw ⊢
    generalize (List.drop (cpl p k) k) = kr at hw ⊢
    cases pr <;> cases kr <;> simp only [WrP_append] at hw ⊢
    · trivial
    · exact allBelow_wrap Hs _ _ (refP_upd Hs _ (refP_emptyCh Hs) (refP_of Hs trivial hw.1.2)) hw.2
    · exact allBelow_wrap Hs _ _ (refP_upd Hs _ (refP_emptyCh Hs) (refP_of Hs trivial hw.1.2)) hw.2
    · exact allBelow_wrap Hs _ _ (refP_upd Hs _ (refP_upd Hs _ (refP_emptyCh Hs) (refP_of Hs trivial hw.1.1.2))
        (refP_of Hs trivial hw.1.2)) hw.2
  | ext p c ih =>
    have hc : RefP Hs P c := h
    simp only [setE] at hw ⊢
    generalize (List.take (cpl p k) p) = cm at hw ⊢
    generalize (List.drop (cpl p k) p) = pr at hw ⊢
    generalize (List.drop (cpl p k) k) = kr at hw ⊢
    cases pr with
    | nil =>
      simp only [WrP_append] at hw ⊢
      exact refP_of Hs (ih kr hc.2 hw.1.2) hw.2
    | cons ph pt =>
      cases kr with
      | nil =>
        simp only [WrP_append] at hw ⊢
        exact allBelow_wrap Hs _ _ (refP_upd Hs _ (refP_emptyCh Hs) (refP_wrap Hs pt c hc hw.1.2)) hw.2
      | cons kh kt =>
        simp only [WrP_append] at hw ⊢
        exact allBelow_wrap Hs _ _ (refP_upd Hs _ (refP_upd Hs _ (refP_emptyCh Hs) (refP_wrap Hs pt c hc hw.1.1.2))
          (refP_of Hs trivial hw.1.2)) hw.2
  | branch ch bv ih =>
    cases k with
    | nil => exact h
    | cons n k =>
      simp only [setE, WrP_append] at hw ⊢
      exact refP_upd Hs n h (refP_of Hs (ih n k (h n).2 hw.1.2) hw.2)

theorem normalizeE_allBelow (ch : Nib → Node) (v : Bytes) (h : ∀ i, RefP Hs P (ch i)) :
    AllBelow Hs P (normalizeE Hs ch v).1 := by
  unfold normalizeE
  split
  · trivial
  · trivial
  · next i _ =>
    have hi := h i
    split
    · trivial
    · next p c e => rw [e] at hi; exact hi.2
    · exact hi
  · exact h

theorem deleteE_allBelow (t : Node) (k : Path) (h : AllBelow Hs P t)
    (hw : WrP Hs P (deleteE Hs t k).2) : AllBelow Hs P (deleteE Hs t k).1 := by
  induction t generalizing k with
  | blank => trivial
  | leaf p pv => simp only [deleteE]; split <;> trivial
  | ext p c ih =>
    have hc : RefP Hs P c := h
    have IH := ih (k.drop p.length) hc.2
    simp only [deleteE] at hw ⊢
    split at hw
    · next hpk =>
      simp only [hpk, if_true]
      generalize deleteE Hs c (k.drop p.length) = r at IH hw ⊢
      split at hw
      · next hr => simp only [hr, if_true]; exact h
      · next hr =>
        simp only [hr]
        split at hw
        · next e => simp only [e]; trivial
        · next p' v' e => simp only [e]; trivial
        · next p' c' e =>
          simp only [e, WrP_append] at hw IH ⊢
          exact IH hw.1.1.2
        · next ch v e =>
          simp only [e, WrP_append] at hw IH ⊢
          exact refP_of Hs (IH hw.1.2) hw.2
    · next hpk => simp only [hpk, if_false]; exact h
  | branch ch bv ih =>
    cases k with
    | nil =>
      simp only [deleteE]
      exact normalizeE_allBelow Hs ch [] h
    | cons n k =>
      have hc : RefP Hs P (ch n) := h n
      have IH := ih n k hc.2
      simp only [deleteE] at hw ⊢
      generalize deleteE Hs (ch n) k = r at IH hw ⊢
      split at hw
      · next hr => simp only [hr, if_true]; exact h
      · next hr =>
        simp only [hr]
        split at hw
        · next hb =>
          simp only [hb, if_true]
          have e : r.1 = blank := (isBlank_iff _).1 hb
          exact normalizeE_allBelow Hs _ bv (refP_upd Hs n h (e ▸ refP_blank Hs))
        · next hb =>
          simp only [hb]
          simp only [WrP_append] at hw
          exact refP_upd Hs n h (refP_of Hs (IH hw.1.2) hw.2)

/-- **every hashed proper subtree of the new tree is one of the old tree or a node persisted by the operation** -/
theorem opTree_allBelow (T : TrieSt) (key : Bytes) (val : Option Bytes)
    (h : AllBelow Hs P T.tree) (hw : WrP Hs P (opTree Hs T key val).2) :
    AllBelow Hs P (opTree Hs T key val).1 := by
  unfold opTree at hw ⊢
  split at hw
  · split at hw
    · next hv => simp only [hv, if_true]; exact deleteE_allBelow Hs _ _ h hw
    · next hv => simp only [hv, if_false]; exact setE_allBelow Hs _ _ _ h hw
  · exact deleteE_allBelow Hs _ _ h hw

/-! ### executor level: the exit base only holds entry bindings and the operation's writes, whatever happens -/

theorem OnlyAdds.refl (d : Dict Bytes) (ws : List (Hash × Bytes)) : OnlyAdds d d ws := fun _ _ h => Or.inl h

theorem get?_erase_sub (d : Dict Bytes) (k h : Hash) (b : Bytes) (hg : Dict.get? (Dict.erase d k) h = some b) :
    Dict.get? d h = some b := by
  by_cases he : h = k
  · subst he; rw [Dict.get?_erase_self] at hg; cases hg
  · rw [Dict.get?_erase_other d k h he] at hg; exact hg

theorem OnlyAdds.insert {d d' : Dict Bytes} {ws : List (Hash × Bytes)} (g : OnlyAdds d d' ws) (h : Hash) (b : Bytes)
    (hm : (h, b) ∈ ws) : OnlyAdds d (Dict.insert d' h b) ws := by
  intro h0 b0 h0b
  by_cases he : h0 = h
  · subst he
    rw [get?_insert_self] at h0b
    cases h0b
    exact Or.inr hm
  · rw [get?_insert_other _ _ _ _ he] at h0b
    exact g h0 b0 h0b

theorem OnlyAdds.erase {d d' : Dict Bytes} {ws : List (Hash × Bytes)} (g : OnlyAdds d d' ws) (k : Hash) :
    OnlyAdds d (Dict.erase d' k) ws :=
  fun h b hg => g h b (get?_erase_sub d' k h b hg)

theorem write_adds (d : Dict Bytes) (ws : List (Hash × Bytes)) (st st' : Store) (h : Hash) (b : Bytes)
    (g : OnlyAdds d st.base ws) (hm : (h, b) ∈ ws) (hw : st.write h b = some st') : OnlyAdds d st'.base ws := by
  unfold Store.write at hw
  split at hw
  · cases hw; exact g
  · split at hw
    · cases hw
    · cases hw; exact g.insert h b hm
    · cases hw; exact g.insert h b hm

theorem del_adds (d : Dict Bytes) (ws : List (Hash × Bytes)) (st st' : Store) (h : Hash)
    (g : OnlyAdds d st.base ws) (hw : st.del h = some st') : OnlyAdds d st'.base ws := by
  unfold Store.del at hw
  split at hw
  · cases hw; exact g
  · split at hw
    · cases hw; exact g.erase h
    · cases hw

theorem setDbValue_adds (d : Dict Bytes) (ws : List (Hash × Bytes)) (p : Bool) (s s' : OpSt) (h : Hash) (b : Bytes)
    (g : OnlyAdds d s.store.base ws) (hm : (h, b) ∈ ws) (hw : setDbValue p s h b = .ok s') :
    OnlyAdds d s'.store.base ws := by
  unfold setDbValue at hw
  split at hw
  · cases hw
  · next st hst => cases hw; exact write_adds d ws _ _ h b g hm hst

theorem runEv_adds (d : Dict Bytes) (ws : List (Hash × Bytes)) (p : Bool) (root key : Bytes) (s s' : OpSt) (e : Ev)
    (g : OnlyAdds d s.store.base ws) (hsub : ∀ x ∈ writesOf [e], x ∈ ws) (hw : runEv p root key s e = .ok s') :
    OnlyAdds d s'.store.base ws := by
  cases e with
  | read x => simp only [runEv] at hw; split at hw <;> cases hw; exact g
  | persist x b =>
    simp only [runEv] at hw
    exact setDbValue_adds d ws p s s' x b g (hsub _ (by simp [writesOf])) hw
  | prune x => simp only [runEv] at hw; cases hw; split <;> exact g

theorem runEvs_adds (d : Dict Bytes) (ws : List (Hash × Bytes)) (p : Bool) (root key : Bytes) (es : List Ev) (s : OpSt)
    (g : OnlyAdds d s.store.base ws) (hsub : ∀ x ∈ writesOf es, x ∈ ws) :
    OnlyAdds d (runEvs p root key s es).1.store.base ws := by
  induction es generalizing s with
  | nil => exact g
  | cons e es ih =>
    simp only [runEvs]
    have hsub' : ∀ x ∈ writesOf es, x ∈ ws := fun x hx => hsub x (writesOf_subset_cons e es x hx)
    cases h : runEv p root key s e with
    | ok s' =>
      refine ih s' (runEv_adds d ws p root key s s' e g ?_ h) hsub'
      intro x hx
      apply hsub
      cases e <;> simp [writesOf] at hx ⊢
      exact Or.inl hx
    | error x => exact g

theorem pruneStep_adds (d : Dict Bytes) (ws : List (Hash × Bytes)) (s s' : OpSt) (kn : Hash × Nat)
    (g : OnlyAdds d s.store.base ws) (hw : pruneStep s kn = .ok s') : OnlyAdds d s'.store.base ws := by
  unfold pruneStep at hw
  simp only at hw
  split at hw
  · split at hw
    · cases hw
    · next st hst => cases hw; exact del_adds d ws _ _ _ g hst
  · cases hw; exact g

theorem completePruning_adds (d : Dict Bytes) (ws : List (Hash × Bytes)) (l : List (Hash × Nat)) (s : OpSt)
    (g : OnlyAdds d s.store.base ws) : OnlyAdds d (completePruning s l).1.store.base ws := by
  induction l generalizing s with
  | nil => exact g
  | cons kn rest ih =>
    simp only [completePruning]
    cases h : pruneStep s kn with
    | ok s' => exact ih s' (pruneStep_adds d ws s s' kn g h)
    | error x => exact g

theorem schedOldRoot_base (T : TrieSt) (s : OpSt) :
    (schedOldRoot Hs blankRootHash T s).store.base = s.store.base := by
  unfold schedOldRoot; split <;> rfl

/-- **every `set` / `delete`, whatever its outcome**: each binding of the exit base is a binding of the entry base or
    one of the operation's writes -/
theorem opCore_adds (T : TrieSt) (key : Bytes) (val : Option Bytes) (s : OpSt) :
    OnlyAdds s.store.base (opCore Hs blankRootHash T key val s).1.store.base (opWrites Hs T key val) := by
  have g0 : OnlyAdds s.store.base s.store.base (opWrites Hs T key val) := OnlyAdds.refl _ _
  unfold opCore
  split
  · exact g0
  · have h1 := runEvs_adds s.store.base (opWrites Hs T key val) T.prune T.root key (opTree Hs T key val).2 s g0
      (fun x hx => List.mem_append_left _ hx)
    generalize runEvs T.prune T.root key s (opTree Hs T key val).2 = r at h1
    obtain ⟨s1, o⟩ := r
    cases o with
    | some x => exact h1
    | none =>
      simp only
      have h2 : OnlyAdds s.store.base (schedOldRoot Hs blankRootHash T s1).store.base (opWrites Hs T key val) := by
        rw [schedOldRoot_base]; exact h1
      cases hw : writeRoot Hs blankRootHash T (opTree Hs T key val).1 (schedOldRoot Hs blankRootHash T s1) with
      | error x => exact h2
      | ok r =>
        obtain ⟨s3, nr⟩ := r
        have h3 : OnlyAdds s.store.base s3.store.base (opWrites Hs T key val) := by
          unfold writeRoot at hw
          split at hw
          · cases hw; exact h2
          · next hb =>
            split at hw
            · next s' hs' =>
              cases hw
              refine setDbValue_adds _ _ _ _ _ _ _ h2 ?_ hs'
              unfold opWrites
              simp only [hb]
              exact List.mem_append_right _ (List.mem_singleton.2 rfl)
            · cases hw
        simp only
        have h4 : OnlyAdds s.store.base (finishPrune T s3).1.store.base (opWrites Hs T key val) := by
          unfold finishPrune
          split
          · exact completePruning_adds _ _ s3.pending s3 h3
          · exact h3
        generalize finishPrune T s3 = q at h4
        obtain ⟨s4, o4⟩ := q
        cases o4 <;> exact h4

theorem opSetDel_adds (T : TrieSt) (key : Bytes) (val : Option Bytes) (s : OpSt) :
    OnlyAdds s.store.base (opSetDel Hs blankRootHash T key val s).1.store.base (opWrites Hs T key val) :=
  opCore_adds Hs blankRootHash T key val { s with pending := [] }

/-- the trie a successful `set` / `delete` returns -/
theorem opCore_ok_shape (T : TrieSt) (key : Bytes) (val : Option Bytes) (s : OpSt) (T' : TrieSt)
    (h : (opCore Hs blankRootHash T key val s).2 = .ok T') :
    T' = { T with tree := (opTree Hs T key val).1,
                  root := if isBlank (opTree Hs T key val).1 then blankRootHash
                          else Hs.hashOf (opTree Hs T key val).1 } := by
  unfold opCore at h
  split at h
  · cases h
  · split at h
    · cases h
    · split at h
      · cases h
      · next s3 newRoot h3 =>
        split at h
        · cases h
        · simp only at h
          cases h
          have r3 : newRoot = if isBlank (opTree Hs T key val).1 then blankRootHash
              else Hs.hashOf (opTree Hs T key val).1 := by
            unfold writeRoot at h3
            split at h3
            · next hb => cases h3; simp [hb]
            · next hb =>
              split at h3
              · cases h3; simp [hb]
              · cases h3
          rw [r3]

theorem opSetDel_ok_shape (T : TrieSt) (key : Bytes) (val : Option Bytes) (s : OpSt) (T' : TrieSt)
    (h : (opSetDel Hs blankRootHash T key val s).2 = .ok T') :
    T' = { T with tree := (opTree Hs T key val).1,
                  root := if isBlank (opTree Hs T key val).1 then blankRootHash
                          else Hs.hashOf (opTree Hs T key val).1 } :=
  opCore_ok_shape Hs blankRootHash T key val { s with pending := [] } T' h

end PyTrie.HexW
