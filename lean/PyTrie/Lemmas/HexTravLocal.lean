import PyTrie.Lemmas.HexNodeAt
/-! Reduction of a traversal `traverseT t p` to a one-step ("local") traversal at the node
    `nodeAt t tr` where the walk stops, plus the one-step case analysis. -/
namespace PyTrie.Hex
open Node

theorem cpl_comm (p k : Path) : cpl p k = cpl k p := by
  induction p generalizing k with
  | nil => cases k <;> simp [cpl]
  | cons a as ih =>
    cases k with
    | nil => simp [cpl]
    | cons b bs =>
      simp only [cpl]
      by_cases h : a = b
      · subst h; simp [ih bs]
      · have h' : ¬ b = a := fun e => h e.symm
        simp [h, h']

theorem cpl_drop_right_nil_iff (p k : Path) : k.drop (cpl p k) = [] ↔ k <+: p := by
  rw [cpl_comm]; exact cpl_drop_left_nil_iff k p

theorem traverseT_ext (q : Path) (c : Node) (k : Path) (hk : k ≠ []) :
    traverseT (ext q c) k =
      if q <+: k then traverseT c (k.drop q.length)
      else if k <+: q then (ext q c, k) else (blank, []) := by
  cases k with
  | nil => exact absurd rfl hk
  | cons a k =>
    simp only [traverseT, cpl_drop_left_nil_iff, cpl_drop_right_nil_iff]
    split
    · next h => obtain ⟨r, hr⟩ := h; rw [← hr, cpl_append_left]
    · rfl

theorem traverseT_leaf (q : Path) (v : Bytes) (k : Path) (hk : k ≠ []) :
    traverseT (leaf q v) k = if k <+: q then (leaf q v, k) else (blank, []) := by
  cases k with
  | nil => exact absurd rfl hk
  | cons a k => simp only [traverseT]

theorem traverseT_nil (t : Node) : traverseT t [] = (t, []) := by
  cases t <;> rfl

/-- contents below a node boundary -/
theorem get_nodeAt (t : Node) (tr : Path) (n : Node) (h : nodeAt t tr = some n) (k : Path) :
    get t (tr ++ k) = get n k := by
  induction t generalizing tr with
  | blank =>
    cases tr with
    | nil => simp [nodeAt] at h; subst h; rfl
    | cons a r => simp [nodeAt] at h
  | leaf q v =>
    cases tr with
    | nil => simp [nodeAt] at h; subst h; rfl
    | cons a r => simp [nodeAt] at h
  | ext q c ih =>
    cases tr with
    | nil => simp [nodeAt] at h; subst h; rfl
    | cons a r =>
      simp only [nodeAt] at h
      split at h
      · next hq =>
        obtain ⟨r', hr'⟩ := hq
        rw [← hr'] at h ⊢
        simp only [List.drop_left] at h
        simp [get, ih _ h]
      · simp at h
  | branch ch v ih =>
    cases tr with
    | nil => simp [nodeAt] at h; subst h; rfl
    | cons a r =>
      simp only [nodeAt] at h
      simp [get, ih a _ h]

theorem canon_nodeAt (t : Node) (hc : Canon t) (tr : Path) (n : Node) (h : nodeAt t tr = some n) :
    Canon n := by
  induction t generalizing tr with
  | blank =>
    cases tr with
    | nil => simp [nodeAt] at h; subst h; exact hc
    | cons a r => simp [nodeAt] at h
  | leaf q v =>
    cases tr with
    | nil => simp [nodeAt] at h; subst h; exact hc
    | cons a r => simp [nodeAt] at h
  | ext q c ih =>
    cases tr with
    | nil => simp [nodeAt] at h; subst h; exact hc
    | cons a r =>
      simp only [nodeAt] at h
      split at h
      · exact ih hc.2.2 _ h
      · simp at h
  | branch ch v ih =>
    cases tr with
    | nil => simp [nodeAt] at h; subst h; exact hc
    | cons a r =>
      simp only [nodeAt] at h
      exact ih a (hc.1 a) _ h

/-- `traverse_from(node obtained at prefix, segment)` = `traverse(prefix ++ segment)` on trees -/
theorem traverseT_nodeAt (t : Node) (p : Path) (n : Node) (hn : nodeAt t p = some n) (s : Path) :
    traverseT n s = traverseT t (p ++ s) := by
  induction t generalizing p with
  | blank =>
    cases p with
    | nil => simp [nodeAt] at hn; subst hn; rfl
    | cons a r => simp [nodeAt] at hn
  | leaf q v =>
    cases p with
    | nil => simp [nodeAt] at hn; subst hn; rfl
    | cons a r => simp [nodeAt] at hn
  | ext q c ih =>
    cases p with
    | nil => simp [nodeAt] at hn; subst hn; rfl
    | cons a r =>
      simp only [nodeAt] at hn
      split at hn
      · next hq =>
        obtain ⟨r', hr'⟩ := hq
        rw [← hr'] at hn ⊢
        simp only [List.drop_left] at hn
        have hne : q ++ r' ++ s ≠ [] := by rw [hr']; simp
        rw [traverseT_ext _ _ _ hne, ih _ hn]
        simp [List.append_assoc]
      · simp at hn
  | branch ch v ih =>
    cases p with
    | nil => simp [nodeAt] at hn; subst hn; rfl
    | cons a r =>
      simp only [nodeAt] at hn
      simp [traverseT, ih a _ hn]

/-- the traversal of `rem` from `n` is decided by `n` alone -/
def Local : Node → Path → Prop
  | _, [] => True
  | blank, _ :: _ => True
  | leaf _ _, _ :: _ => True
  | ext q _, k@(_ :: _) => ¬ q <+: k
  | branch _ _, _ :: _ => False

/-- every traversal is a walk along node boundaries followed by a one-step traversal -/
theorem trav_local (t : Node) (hc : Canon t) (p : Path) :
    ∃ tr n rem, nodeAt t tr = some n ∧ Canon n ∧ p = tr ++ rem ∧
      traverseT t p = traverseT n rem ∧ Local n rem := by
  induction t generalizing p with
  | blank => exact ⟨[], blank, p, rfl, trivial, rfl, rfl, by cases p <;> trivial⟩
  | leaf q v => exact ⟨[], leaf q v, p, rfl, hc, rfl, rfl, by cases p <;> trivial⟩
  | ext q c ih =>
    cases p with
    | nil => exact ⟨[], ext q c, [], rfl, hc, rfl, rfl, trivial⟩
    | cons a r =>
      by_cases hq : q <+: a :: r
      · obtain ⟨r', hr'⟩ := hq
        obtain ⟨tr, n, rem, h1, h2, h3, h4, h5⟩ := ih hc.2.2 r'
        refine ⟨q ++ tr, n, rem, nodeAt_ext_append q c tr n h1 hc.1, h2, ?_, ?_, h5⟩
        · rw [← hr', h3]; simp
        · rw [traverseT_ext _ _ _ (by simp), if_pos ⟨r', hr'⟩, ← hr']
          simpa using h4
      · exact ⟨[], ext q c, a :: r, rfl, hc, rfl, rfl, hq⟩
  | branch ch v ih =>
    cases p with
    | nil => exact ⟨[], branch ch v, [], rfl, hc, rfl, rfl, trivial⟩
    | cons a r =>
      obtain ⟨tr, n, rem, h1, h2, h3, h4, h5⟩ := ih a (hc.1 a) r
      exact ⟨a :: tr, n, rem, by simpa [nodeAt] using h1, h2, by simp [h3], by simpa [traverseT] using h4, h5⟩

/-- the four ways a one-step traversal ends -/
theorem local_cases (n : Node) (rem : Path) (hL : Local n rem) :
    (rem = [] ∧ traverseT n rem = (n, [])) ∨
    (rem ≠ [] ∧ traverseT n rem = (blank, []) ∧ ∀ k, rem <+: k → get n k = []) ∨
    (rem ≠ [] ∧ ∃ q v, n = leaf q v ∧ rem <+: q ∧ traverseT n rem = (n, rem)) ∨
    (rem ≠ [] ∧ ∃ q c, n = ext q c ∧ rem <+: q ∧ ¬ q <+: rem ∧ traverseT n rem = (n, rem)) := by
  cases rem with
  | nil => exact Or.inl ⟨rfl, traverseT_nil n⟩
  | cons a r =>
    have hne : a :: r ≠ [] := by simp
    right
    cases n with
    | blank => exact Or.inl ⟨hne, rfl, fun _ _ => rfl⟩
    | leaf q v =>
      rw [traverseT_leaf _ _ _ hne]
      by_cases hpre : a :: r <+: q
      · exact Or.inr (Or.inl ⟨hne, q, v, rfl, hpre, by simp [hpre]⟩)
      · refine Or.inl ⟨hne, by simp [hpre], ?_⟩
        intro k hk
        simp only [get]
        split
        · next e => subst e; exact absurd hk hpre
        · rfl
    | ext q c =>
      have hq : ¬ q <+: a :: r := hL
      rw [traverseT_ext _ _ _ hne]
      by_cases hpre : a :: r <+: q
      · exact Or.inr (Or.inr ⟨hne, q, c, rfl, hpre, hq, by simp [hq, hpre]⟩)
      · refine Or.inl ⟨hne, by simp [hq, hpre], ?_⟩
        intro k hk
        simp only [get]
        split
        · next hqk =>
          rcases List.prefix_or_prefix_of_prefix hqk hk with h | h
          · exact absurd h hq
          · exact absurd h hpre
        · rfl
    | branch ch v => exact absurd hL (by simp [Local])

end PyTrie.Hex
