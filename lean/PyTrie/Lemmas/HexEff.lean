import PyTrie.Lemmas.HexCanon2
import PyTrie.Model.HexEff
/-! Reference-count balance of the effect-instrumented `setE`, for every hashing. -/
namespace PyTrie.Hex
open Node
variable (Hs : Hashing)

theorem setE_fst (t : Node) (k : Path) (v : Bytes) : (setE Hs t k v).1 = set t k v := by
  induction t generalizing k with
  | blank => rfl
  | leaf p pv =>
    simp only [setE, set]
    generalize (List.drop (cpl p k) p) = pr; generalize (List.drop (cpl p k) k) = kr
    cases pr <;> cases kr <;> rfl
  | ext p c ih =>
    simp only [setE, set]
    generalize (List.drop (cpl p k) p) = pr; generalize (List.drop (cpl p k) k) = kr
    cases pr <;> cases kr <;> simp [ih]
  | branch ch bv ih => cases k <;> simp [setE, set, ih]

/-! ### reference-count balance -/
def cntPrune (evs : List Ev) (h : Hash) : Nat := evs.count (Ev.prune h)
def isPersistOf (h : Hash) : Ev → Bool
  | .persist h' _ => h' == h
  | _ => false
def cntPersist (evs : List Ev) (h : Hash) : Nat := evs.countP (isPersistOf h)

def self (n : Node) (h : Hash) : Nat := if Hs.hashed n ∧ Hs.hashOf n = h then 1 else 0

def sumCh (f : Nib → Nat) : Nat := ((List.finRange 16).map f).sum

/-- number of hashed subtrees (including the node itself) whose hash is `h` -/
def occ : Node → Hash → Nat
  | blank, _ => 0
  | leaf p v, h => self Hs (leaf p v) h
  | ext p c, h => self Hs (ext p c) h + occ c h
  | branch ch v, h => self Hs (branch ch v) h + sumCh (fun i => occ (ch i) h)

def occProper : Node → Hash → Nat
  | blank, _ => 0
  | leaf _ _, _ => 0
  | ext _ c, h => occ Hs c h
  | branch ch _, h => sumCh (fun i => occ Hs (ch i) h)

theorem occ_eq (n : Node) (h : Hash) : occ Hs n h = self Hs n h + occProper Hs n h := by
  cases n <;> simp [occ, occProper, self, Hs.hashed_blank]

/-! counting lemmas -/
theorem sum_map_upd_aux (l : List Nib) (g : Nib → Nat) (i : Nib) (a : Nat) (hn : l.Nodup) :
    (l.map (fun j => if j = i then a else g j)).sum + (if i ∈ l then g i else 0) =
    (l.map g).sum + (if i ∈ l then a else 0) := by
  induction l with
  | nil => simp
  | cons x xs ih =>
    have hx : x ∉ xs := (List.nodup_cons.1 hn).1
    have := ih (List.nodup_cons.1 hn).2
    simp only [List.map_cons, List.sum_cons, List.mem_cons]
    by_cases hxi : x = i
    · subst hxi
      simp only [↓reduceIte, true_or, hx] at *
      omega
    · have hix : ¬ i = x := fun h => hxi h.symm
      simp only [hxi, hix, ↓reduceIte, false_or] at *
      omega

theorem sumCh_upd (g : Nib → Nat) (i : Nib) (a : Nat) :
    sumCh (fun j => if j = i then a else g j) + g i = sumCh g + a := by
  have := sum_map_upd_aux (List.finRange 16) g i a (List.nodup_finRange 16)
  simpa [sumCh, List.mem_finRange] using this

theorem sumCh_occ_upd (ch : Nib → Node) (i : Nib) (x : Node) (h : Hash) :
    sumCh (fun j => occ Hs (upd ch i x j) h) + occ Hs (ch i) h =
    sumCh (fun j => occ Hs (ch j) h) + occ Hs x h := by
  have := sumCh_upd (fun j => occ Hs (ch j) h) i (occ Hs x h)
  have e : (fun j => occ Hs (upd ch i x j) h) = (fun j => if j = i then occ Hs x h else occ Hs (ch j) h) := by
    funext j; unfold upd; split <;> rfl
  rw [e]; exact this

theorem sum_map_zero {α} (l : List α) : (l.map (fun _ => 0)).sum = 0 := by
  induction l <;> simp_all
theorem sumCh_zero : sumCh (fun _ => 0) = 0 := by simp [sumCh, sum_map_zero]

theorem sumCh_occ_emptyCh (h : Hash) : sumCh (fun j => occ Hs (emptyCh j) h) = 0 := by
  simp [emptyCh, occ, sumCh, sum_map_zero]

@[simp] theorem cntPrune_append (a b : List Ev) (h : Hash) :
    cntPrune (a ++ b) h = cntPrune a h + cntPrune b h := by simp [cntPrune]
@[simp] theorem cntPersist_append (a b : List Ev) (h : Hash) :
    cntPersist (a ++ b) h = cntPersist a h + cntPersist b h := by simp [cntPersist]
@[simp] theorem cntPrune_nil (h : Hash) : cntPrune [] h = 0 := rfl
@[simp] theorem cntPersist_nil (h : Hash) : cntPersist [] h = 0 := rfl
@[simp] theorem cntPrune_pruneEv (n : Node) (h : Hash) : cntPrune (pruneEv Hs n) h = self Hs n h := by
  unfold pruneEv self cntPrune; split <;> simp_all [List.count_cons]
@[simp] theorem cntPersist_pruneEv (n : Node) (h : Hash) : cntPersist (pruneEv Hs n) h = 0 := by
  unfold pruneEv cntPersist; split <;> simp [isPersistOf]
@[simp] theorem cntPrune_persistEv (n : Node) (h : Hash) : cntPrune (persistEv Hs n) h = 0 := by
  unfold persistEv cntPrune; split <;> simp
@[simp] theorem cntPersist_persistEv (n : Node) (h : Hash) : cntPersist (persistEv Hs n) h = self Hs n h := by
  unfold persistEv self cntPersist; split <;> simp_all [isPersistOf]
@[simp] theorem cntPrune_readEv (n : Node) (h : Hash) : cntPrune (readEv Hs n) h = 0 := by
  unfold readEv cntPrune; split <;> simp
@[simp] theorem cntPersist_readEv (n : Node) (h : Hash) : cntPersist (readEv Hs n) h = 0 := by
  unfold readEv cntPersist; split <;> simp [isPersistOf]

theorem occ_wrap (c : Path) (n : Node) (h : Hash) :
    occ Hs (wrap c n) h = (if c = [] then 0 else self Hs (ext c n) h) + occ Hs n h := by
  unfold wrap; split <;> simp [occ]

theorem occProper_wrap (c : Path) (n : Node) (h : Hash) :
    occProper Hs (wrap c n) h = if c = [] then occProper Hs n h else occ Hs n h := by
  unfold wrap; split <;> simp [occProper]

theorem wrap_nil (n : Node) : wrap [] n = n := rfl
theorem wrap_of_ne {c : Path} (h : c ≠ []) (n : Node) : wrap c n = ext c n := by simp [wrap, h]

theorem sumCh_single (x : Node) (i : Nib) (h : Hash) :
    sumCh (fun j => occ Hs (upd emptyCh i x j) h) = occ Hs x h := by
  have := sumCh_occ_upd Hs emptyCh i x h
  rw [sumCh_occ_emptyCh] at this
  simpa [emptyCh, occ] using this

theorem sumCh_pair (x y : Node) (i j : Nib) (hij : i ≠ j) (h : Hash) :
    sumCh (fun l => occ Hs (upd (upd emptyCh i x) j y l) h) = occ Hs x h + occ Hs y h := by
  have := sumCh_occ_upd Hs (upd emptyCh i x) j y h
  rw [sumCh_single] at this
  have e : upd emptyCh i x j = blank := by
    unfold upd; split
    · next e => exact absurd e.symm hij
    · rfl
  simpa [e, occ] using this

/-- Every hash gains exactly as many references as are persisted and loses as many as are pruned. -/
theorem setE_balance (t : Node) (k : Path) (v : Bytes) (h : Hash) :
    occProper Hs (setE Hs t k v).1 h + cntPrune (setE Hs t k v).2 h =
    occ Hs t h + cntPersist (setE Hs t k v).2 h := by
  induction t generalizing k with
  | blank => simp [setE, occ, occProper]
  | leaf p pv =>
    have hne := cpl_head_ne p k
    simp only [setE]
    generalize (List.take (cpl p k) p) = cm
    generalize (List.drop (cpl p k) p) = pr at hne
    generalize (List.drop (cpl p k) k) = kr at hne
    cases pr <;> cases kr
    · simp [occ, occProper]
    · simp only [occProper_wrap]
      by_cases hc : cm = [] <;> simp [hc, occ, occProper, sumCh_single] <;> omega
    · simp only [occProper_wrap]
      by_cases hc : cm = [] <;> simp [hc, occ, occProper, sumCh_single] <;> omega
    · next ph pt kh kt =>
      have hd := hne ph kh pt kt rfl rfl
      simp only [occProper_wrap]
      by_cases hc : cm = [] <;> simp [hc, occ, occProper, sumCh_pair Hs _ _ _ _ hd] <;> omega
  | ext p c ih =>
    have hne := cpl_head_ne p k
    simp only [setE]
    generalize (List.take (cpl p k) p) = cm
    generalize (List.drop (cpl p k) p) = pr at hne
    generalize (List.drop (cpl p k) k) = kr at hne
    cases pr with
    | nil =>
      have := ih kr
      simp only [occProper, occ, cntPrune_append, cntPersist_append, cntPrune_pruneEv, cntPrune_readEv,
        cntPersist_pruneEv, cntPersist_readEv, cntPrune_persistEv, cntPersist_persistEv]
      rw [occ_eq Hs (setE Hs c kr v).1]
      omega
    | cons ph pt =>
      cases kr with
      | nil =>
        simp only [occProper_wrap]
        by_cases hc : cm = [] <;> by_cases hpt : pt = [] <;>
          simp [hc, hpt, occ, occProper, sumCh_single, wrap_nil, wrap_of_ne] <;> omega
      | cons kh kt =>
        have hd := hne ph kh pt kt rfl rfl
        simp only [occProper_wrap]
        by_cases hc : cm = [] <;> by_cases hpt : pt = [] <;>
          simp [hc, hpt, occ, occProper, sumCh_pair Hs _ _ _ _ hd, wrap_nil, wrap_of_ne] <;> omega
  | branch ch bv ih =>
    cases k with
    | nil => simp [setE, occ, occProper]; omega
    | cons n k =>
      have := ih n k
      have hs := sumCh_occ_upd Hs ch n (setE Hs (ch n) k v).1 h
      simp only [setE, occProper, occ, cntPrune_append, cntPersist_append, cntPrune_pruneEv, cntPrune_readEv,
        cntPersist_pruneEv, cntPersist_readEv, cntPrune_persistEv, cntPersist_persistEv]
      rw [occ_eq Hs (setE Hs (ch n) k v).1] at hs
      omega

end PyTrie.Hex
