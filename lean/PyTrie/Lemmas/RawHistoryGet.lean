import PyTrie.Lemmas.RawHistory
import PyTrie.Lemmas.HexDbProofs
/-! Reads after a raw-level history: the database-level `get` (`HexD.getD`: `HexaryTrie.get` over rlp-decoded nodes
    fetched from the database) on the root hash and database produced by the raw-level run returns the map model's value. -/
namespace PyTrie.HexRaw
open PyTrie PyTrie.Hex PyTrie.HexD PyTrie.HexW
open PyTrie.Props.C01 (Op run spec applyOp)

variable (H : Bytes → Bytes)

/-- a node, if hashed, is in the database under its hash (≠ blank root) and its encoding decodes back -/
def NodeOk (db : Db) (n : Node) : Prop :=
  isHashed H n = true → hashOf H n ≠ blankRoot H ∧ lookup db (hashOf H n) = some (enc H n) ∧
    rlpDecode (enc H n) = some (toItem H n)

/-- every node on the path of a key is fine when the root is and everything below is stored -/
theorem nodeOk_getProof (db : Db) (t : Node) : StoredD H db t → NodeOk H db t →
    ∀ (k : Path), ∀ n ∈ getProof t k, NodeOk H db n := by
  induction t with
  | blank => intro _ _ k n hn; simp [getProof] at hn
  | leaf p v =>
    intro _ h0 k n hn
    simp only [getProof, List.mem_singleton] at hn
    subst hn; exact h0
  | ext p c ih =>
    intro hs h0 k n hn
    simp only [getProof] at hn
    split at hn
    · rcases List.mem_cons.1 hn with rfl | hn
      · exact h0
      · exact ih hs.2 hs.1 _ n hn
    · simp only [List.mem_singleton] at hn
      subst hn; exact h0
  | branch ch v ih =>
    intro hs h0 k n hn
    cases k with
    | nil =>
      simp only [getProof, List.mem_singleton] at hn
      subst hn; exact h0
    | cons a r =>
      simp only [getProof] at hn
      rcases List.mem_cons.1 hn with rfl | hn
      · exact h0
      · exact ih a (hs a).2 (hs a).1 r n hn

/-- a node that is not hashed has a short encoding, which decodes back -/
theorem decode_of_not_hashed (n : Node) (h : isHashed H n = false) :
    rlpDecode (enc H n) = some (toItem H n) := by
  apply rlpDecode_rlp_of_length_lt
  cases hb : isBlank n with
  | true =>
    rw [(isBlank_iff n).1 hb]
    have := enc_blank H
    simp only [enc] at this
    rw [this]; decide
  | false =>
    simp only [isHashed, hb, Bool.not_false, Bool.true_and, decide_eq_false_iff_not, Nat.not_le] at h
    simp only [enc] at h
    omega

theorem decode_of_nodeOk (db : Db) (n : Node) (h : NodeOk H db n) :
    rlpDecode (enc H n) = some (toItem H n) := by
  cases hh : isHashed H n with
  | true => exact (h hh).2.2
  | false => exact decode_of_not_hashed H n hh

/-- on a database agreeing with a complete dict, `getD` returns the tree-level `get` -/
theorem getD_of_complete (hlen : ∀ b, (H b).length = 32) (T : TrieSt) (hc : Canon T.tree) (d : Dict Bytes)
    (hcomp : Complete (stdHashing H) (blankRoot H) d T)
    (hbk : Dict.get? d (blankRoot H) = none) (hsm : ∀ h b, Dict.get? d h = some b → b.length < 2 ^ 64)
    (db : Db) (hag : DbAgrees db d) (k : Path) :
    getD H db T.root k = .ok (Hex.get T.tree k) := by
  have hst : StoredD H db T.tree := storedD_of_storedBelow H hag hbk hsm T.tree hcomp.2
  have h1 := hcomp.1
  -- the root pointer is the root hash; the root node, when not blank, is stored
  have hroot : T.root = rootHash H T.tree ∧
      (isBlank T.tree = false → hashOf H T.tree ≠ blankRoot H ∧
        lookup db (hashOf H T.tree) = some (enc H T.tree) ∧
        rlpDecode (enc H T.tree) = some (toItem H T.tree)) := by
    cases hb : isBlank T.tree with
    | true =>
      rw [hb] at h1
      simp only [if_true] at h1
      refine ⟨?_, fun h => by cases h⟩
      rw [h1, (isBlank_iff T.tree).1 hb]
      simp [rootHash, enc_blank, blankRoot]
    | false =>
      rw [hb] at h1
      simp only [Bool.false_eq_true, if_false] at h1
      obtain ⟨hr, _, hg⟩ := h1
      have hr' : T.root = hashOf H T.tree := hr
      rw [hr'] at hg
      exact ⟨hr, fun _ => storedC_of H hag hbk hsm T.tree hg⟩
  obtain ⟨hr, hrn⟩ := hroot
  have h0 : NodeOk H db T.tree := fun hh => hrn (isBlank_of_isHashed H _ hh)
  have hall := nodeOk_getProof H db T.tree hst h0 k
  rw [hr]
  apply getD_of_path H hlen T.tree hc db k
  · intro n hn
    exact decode_of_nodeOk H db n (hall n hn)
  · intro n hn hs
    rcases hs with he | hh
    · rw [he] at hn ⊢
      have hb : isBlank T.tree = false := by
        cases hb : isBlank T.tree with
        | false => rfl
        | true => rw [(isBlank_iff T.tree).1 hb] at hn; simp [getProof] at hn
      obtain ⟨a, b, _⟩ := hrn hb
      exact ⟨a, b⟩
    · obtain ⟨a, b, _⟩ := hall n hn hh
      exact ⟨a, b⟩

/-- **end to end at raw level**: run any history through the raw-level `set`/`delete`, then look any key up through the
    database: the value is the last one stored under that key (`b""` if none / deleted) -/
theorem rawRun_get (hlen : ∀ b, (H b).length = 32) (ops : List Op) (T : TrieSt) (s : OpSt)
    (h : ReachOps (stdHashing H) (blankRoot H) false ops T s)
    (hbk : Dict.get? s.store.base (blankRoot H) = none)
    (hsm : ∀ h b, Dict.get? s.store.base h = some b → b.length < 2 ^ 64) (key : Bytes) :
    ∃ db, rawRun H ops (blankRoot H, []) = .ok (rootHash H (run ops), db) ∧
      getD H db (rootHash H (run ops)) (nibs key) = .ok (spec ops key) := by
  obtain ⟨db, hrun, hag⟩ := rawRun_is_world_run H hlen ops T s h hbk hsm
  obtain ⟨htree, _, _, _, hdb⟩ := reachOps_inv _ _ false ops T s h
  simp only [Bool.false_eq_true, if_false] at hdb
  have hcanon : Canon T.tree := htree ▸ PyTrie.Props.C01.canon_run ops
  have hget := getD_of_complete H hlen T hcanon s.store.base hdb hbk hsm db hag (nibs key)
  have hroot : T.root = rootHash H (run ops) := by
    have h1 := hdb.1
    rw [← htree]
    cases hb : isBlank T.tree with
    | true =>
      rw [hb] at h1
      simp only [if_true] at h1
      rw [h1, (isBlank_iff T.tree).1 hb]
      simp [rootHash, enc_blank, blankRoot]
    | false =>
      rw [hb] at h1
      simp only [Bool.false_eq_true, if_false] at h1
      exact h1.1
  refine ⟨db, hroot ▸ hrun, ?_⟩
  rw [← hroot, hget, htree, PyTrie.Props.C01.run_get]


end PyTrie.HexRaw
