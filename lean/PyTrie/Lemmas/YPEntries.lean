import PyTrie.Lemmas.HexIterProofs
/-! Structural description of `itemsOf` (generalised over the prefix accumulator of `preorder`):
    `ent t pre` is the list of (absolute key, value) pairs stored below `t` reached via `pre`. -/
namespace PyTrie.Hex
open Node

/-- contents of a subtree with absolute keys, by structural recursion -/
def ent : Node → Path → List (Path × Bytes)
  | blank, _ => []
  | leaf p v, pre => if v ≠ [] then [(pre ++ p, v)] else []
  | ext p c, pre => ent c (pre ++ p)
  | branch ch v, pre =>
    (if v ≠ [] then [(pre, v)] else []) ++ (List.finRange 16).flatMap fun x => ent (ch x) (pre ++ [x])

theorem ent_of_isBlank {t : Node} (h : isBlank t = true) (pre : Path) : ent t pre = [] := by
  cases t <;> simp_all [isBlank, ent]

theorem filterMap_flatMap' {α β γ} (f : β → Option γ) (g : α → List β) (l : List α) :
    (l.flatMap g).filterMap f = l.flatMap (fun a => (g a).filterMap f) := by
  induction l with
  | nil => rfl
  | cons a l ih => simp [List.flatMap_cons, List.filterMap_append, ih]

theorem preorder_filterMap_itemKey (t : Node) (pre : Path) :
    (preorder t pre).filterMap itemKey = ent t pre := by
  induction t generalizing pre with
  | blank => simp [preorder, itemKey, annotate, ent]
  | leaf p v =>
    by_cases hv : v = [] <;> simp [preorder, itemKey, annotate, ent, hv]
  | ext p c ih =>
    simp only [preorder, List.filterMap_cons, ent]
    have : itemKey (pre, ext p c) = none := by simp [itemKey, annotate]
    rw [this]
    exact ih _
  | branch ch v ih =>
    simp only [preorder, List.filterMap_cons, ent, filterMap_flatMap']
    have hfl : ((List.finRange 16).flatMap fun a =>
          (if isBlank (ch a) then [] else preorder (ch a) (pre ++ [a])).filterMap itemKey) =
        (List.finRange 16).flatMap fun x => ent (ch x) (pre ++ [x]) := by
      congr 1
      funext a
      cases hb : isBlank (ch a) with
      | true => simp [ent_of_isBlank hb]
      | false => simp [ih a]
    rw [hfl]
    by_cases hv : v = [] <;> simp [itemKey, annotate, hv]

theorem ent_append (t : Node) (a b : Path) :
    ent t (a ++ b) = (ent t b).map (fun e => (a ++ e.1, e.2)) := by
  induction t generalizing b with
  | blank => simp [ent]
  | leaf p v => by_cases hv : v = [] <;> simp [ent, hv]
  | ext p c ih => simp only [ent, List.append_assoc]; exact ih _
  | branch ch v ih =>
    simp only [ent, List.map_append, List.map_flatMap, List.append_assoc]
    congr 1
    · by_cases hv : v = [] <;> simp [hv]
    · congr 1
      funext x
      exact ih x _

theorem itemsOf_eq_ent (t : Node) : itemsOf t = ent t [] := by
  rw [itemsOf_eq, preorder_filterMap_itemKey]

theorem ent_eq_map_itemsOf (t : Node) (pre : Path) :
    ent t pre = (itemsOf t).map (fun e => (pre ++ e.1, e.2)) := by
  rw [itemsOf_eq_ent, ← ent_append, List.append_nil]

/-- every key below `t` reached via `pre` starts with `pre` -/
theorem ent_prefix (t : Node) (pre : Path) (e : Path × Bytes) (h : e ∈ ent t pre) :
    ∃ s, e.1 = pre ++ s := by
  rw [ent_eq_map_itemsOf] at h
  obtain ⟨e0, _, rfl⟩ := List.mem_map.1 h
  exact ⟨e0.1, rfl⟩

theorem mem_ent_iff (t : Node) (hc : Canon t) (pre : Path) (e : Path × Bytes) :
    e ∈ ent t pre ↔ ∃ k, e = (pre ++ k, get t k) ∧ get t k ≠ [] := by
  rw [ent_eq_map_itemsOf, List.mem_map]
  constructor
  · rintro ⟨⟨k, v⟩, hm, rfl⟩
    obtain ⟨hv, hg⟩ := (itemsOf_mem t hc k v).1 hm
    subst hg
    exact ⟨k, rfl, hv⟩
  · rintro ⟨k, rfl, hk⟩
    exact ⟨(k, get t k), (itemsOf_mem t hc k _).2 ⟨hk, rfl⟩, rfl⟩

/-- a non-blank canonical subtree has at least one entry -/
theorem ent_ne_nil (t : Node) (hc : Canon t) (hb : isBlank t = false) (pre : Path) :
    ent t pre ≠ [] := by
  obtain ⟨k, hk⟩ := exists_key t hc hb
  have : (pre ++ k, get t k) ∈ ent t pre := (mem_ent_iff t hc pre _).2 ⟨k, rfl, hk⟩
  intro h
  rw [h] at this
  simp at this

/-- a canonical branch has at least two -/
theorem ent_branch_two (ch : Nib → Node) (v : Bytes) (hc : Canon (branch ch v)) (pre : Path) :
    2 ≤ (ent (branch ch v) pre).length := by
  obtain ⟨k1, k2, hne, h1, h2⟩ := branch_two_keys ch v hc
  refine two_le_length_of_mem ((mem_ent_iff _ hc pre _).2 ⟨k1, rfl, h1⟩)
    ((mem_ent_iff _ hc pre _).2 ⟨k2, rfl, h2⟩) ?_
  intro h
  simp only [Prod.mk.injEq, List.append_cancel_left_eq] at h
  exact hne h.1

theorem flatMap_single_ite {α β} [DecidableEq α] (l : List α) (hl : l.Nodup) (x : α) (hx : x ∈ l)
    (A : List β) : (l.flatMap fun y => if y = x then A else []) = A := by
  induction l with
  | nil => simp at hx
  | cons a l ih =>
    simp only [List.nodup_cons] at hl
    simp only [List.flatMap_cons]
    by_cases hax : a = x
    · subst hax
      have : (l.flatMap fun y => if y = a then A else []) = [] := by
        rw [List.flatMap_eq_nil_iff]
        intro y hy
        have : y ≠ a := fun e => hl.1 (e ▸ hy)
        simp [this]
      simp [this]
    · have hx' : x ∈ l := by
        rcases List.mem_cons.1 hx with h | h
        · exact absurd h.symm hax
        · exact h
      simp [hax, ih hl.2 hx']

theorem filter_flatMap' {α β} (p : β → Bool) (g : α → List β) (l : List α) :
    (l.flatMap g).filter p = l.flatMap (fun a => (g a).filter p) := by
  induction l with
  | nil => rfl
  | cons a l ih => simp [List.flatMap_cons, List.filter_append, ih]

theorem getElem?_prefix_snoc (pre s : Path) (y : Nib) :
    (pre ++ [y] ++ s)[pre.length]? = some y := by
  simp

/-- entries of the subtree under nibble `y` all have nibble `y` at position `‖pre‖` -/
theorem ent_child_filter (t : Node) (pre : Path) (x y : Nib) :
    (ent t (pre ++ [y])).filter (fun e => e.1[pre.length]? = some x) =
      if y = x then ent t (pre ++ [y]) else [] := by
  by_cases hyx : y = x
  · subst hyx
    simp only [↓reduceIte, List.filter_eq_self]
    intro e he
    obtain ⟨s, hs⟩ := ent_prefix t _ e he
    rw [hs, getElem?_prefix_snoc]
    simp
  · simp only [hyx, ↓reduceIte, List.filter_eq_nil_iff]
    intro e he
    obtain ⟨s, hs⟩ := ent_prefix t _ e he
    rw [hs, getElem?_prefix_snoc]
    simp [hyx]

/-- filtering a branch's entries by the nibble after `pre` gives the child's entries -/
theorem ent_branch_filter (ch : Nib → Node) (v : Bytes) (pre : Path) (x : Nib) :
    (ent (branch ch v) pre).filter (fun e => e.1[pre.length]? = some x) = ent (ch x) (pre ++ [x]) := by
  simp only [ent, List.filter_append, filter_flatMap', ent_child_filter]
  have h1 : (if v ≠ [] then [(pre, v)] else []).filter (fun e => e.1[pre.length]? = some x) = [] := by
    by_cases hv : v = [] <;> simp [hv]
  rw [h1, List.nil_append]
  have h2 : (fun a => if a = x then ent (ch a) (pre ++ [a]) else []) =
      (fun a => if a = x then ent (ch x) (pre ++ [x]) else []) := by
    funext a
    by_cases ha : a = x
    · subst ha; rfl
    · simp [ha]
  rw [h2]
  exact flatMap_single_ite _ (List.nodup_finRange 16) x (List.mem_finRange x) _

/-- the branch's own value entry is found iff the value is non-empty -/
theorem ent_branch_find (ch : Nib → Node) (v : Bytes) (pre : Path) :
    (match (ent (branch ch v) pre).find? (fun e => e.1.length = pre.length) with
      | some e => e.2
      | none => []) = v := by
  by_cases hv : v = []
  · subst hv
    have : (ent (branch ch []) pre).find? (fun e => e.1.length = pre.length) = none := by
      rw [List.find?_eq_none]
      intro e he
      simp only [ent, ne_eq, not_true_eq_false, ↓reduceIte, List.nil_append, List.mem_flatMap] at he
      obtain ⟨y, _, he⟩ := he
      obtain ⟨s, hs⟩ := ent_prefix _ _ e he
      simp [hs]
    rw [this]
  · simp [ent, hv]

theorem ent_branch_find? (ch : Nib → Node) (v : Bytes) (pre : Path) :
    (ent (branch ch v) pre).find? (fun e => e.1.length = pre.length) =
      if v = [] then none else some (pre, v) := by
  by_cases hv : v = []
  · subst hv
    simp only [↓reduceIte]
    rw [List.find?_eq_none]
    intro e he
    simp only [ent, ne_eq, not_true_eq_false, ↓reduceIte, List.nil_append, List.mem_flatMap] at he
    obtain ⟨y, _, he⟩ := he
    obtain ⟨s, hs⟩ := ent_prefix _ _ e he
    simp [hs]
  · simp [ent, hv]

end PyTrie.Hex
