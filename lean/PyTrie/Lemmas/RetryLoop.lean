import PyTrie.Lemmas.MissingPath
/-! C07, the retry loop: one failed attempt followed by supplying the reported node strictly decreases
    `#outstanding fetches + (1 if the root node is still to be fetched)`. -/
namespace PyTrie.HexW
open PyTrie.Hex hiding get set
open PyTrie.Hex.Node

variable (Hs : Hashing) (blankRootHash : Hash)

theorem Dict.get?_of_contains {α} (d : Dict α) (h : Hash) (hc : Dict.contains d h = true) :
    ∃ b, Dict.get? d h = some b := by
  unfold Dict.get?
  cases hf : d.find? (fun e => e.1 == h) with
  | some e => exact ⟨e.2, rfl⟩
  | none =>
    exfalso
    simp only [Dict.contains, List.any_eq_true] at hc
    obtain ⟨e, he, hp⟩ := hc
    exact (List.find?_eq_none.1 hf e he) hp

/-- 1 when the root fetch of `get` / `set` / `delete` would fail, else 0 -/
def rootFlag (T : TrieSt) (st : Store) : Nat :=
  if (T.root != blankRootHash && !(st.contains T.root)) = true then 1 else 0

theorem rootFlag_le (T : TrieSt) (st st' : Store)
    (hmono : ∀ x, st.contains x = true → st'.contains x = true) :
    rootFlag blankRootHash T st' ≤ rootFlag blankRootHash T st := by
  unfold rootFlag
  cases hs : st.contains T.root with
  | true => simp [hmono _ hs]
  | false => cases hb : (T.root != blankRootHash) <;> cases hs' : st'.contains T.root <;> simp

theorem rootFlag_le_one (T : TrieSt) (st : Store) : rootFlag blankRootHash T st ≤ 1 := by
  unfold rootFlag; split <;> omega

theorem absent_filter_le (L : List Hash) (st st' : Store)
    (hmono : ∀ x, st.contains x = true → st'.contains x = true) :
    (L.filter (fun h => !(st'.contains h))).length ≤ (L.filter (fun h => !(st.contains h))).length := by
  apply filter_length_le
  intro x hx
  cases hsx : st.contains x
  · rfl
  · rw [hmono x hsx] at hx; simp at hx

theorem absent_filter_lt (L : List Hash) (st st' : Store)
    (hmono : ∀ x, st.contains x = true → st'.contains x = true)
    (h : Hash) (hm : h ∈ L) (habs : st.contains h = false) (hself : st'.contains h = true) :
    (L.filter (fun h => !(st'.contains h))).length < (L.filter (fun h => !(st.contains h))).length := by
  apply filter_length_lt _ _ _ _ h hm
  · simp [habs]
  · simp [hself]
  · intro x hx
    cases hsx : st.contains x
    · rfl
    · rw [hmono x hsx] at hx; simp at hx

/-- one failed lookup, then the reported hash becomes present (nothing else disappears): the hash was absent, it is
    the root's (and the root is not the blank root) or one of the path fetches, and the measure drops -/
theorem opGet_retry_step (T : TrieSt) (key : Bytes) (s : OpSt) (h root rk : Bytes) (pre : Option Path) (st' : Store)
    (he : opGet Hs blankRootHash T key s = .error (.missingTrieNode h root rk pre))
    (hself : st'.contains h = true) (hmono : ∀ x, s.store.contains x = true → st'.contains x = true) :
    s.store.contains h = false ∧
    ((T.root ≠ blankRootHash ∧ h = T.root) ∨ h ∈ (traverseReads Hs T.tree (nibs key) []).map (·.1)) ∧
    (outstanding Hs T key st').length + rootFlag blankRootHash T st' <
      (outstanding Hs T key s.store).length + rootFlag blankRootHash T s.store := by
  have hle : (outstanding Hs T key st').length ≤ (outstanding Hs T key s.store).length :=
    absent_filter_le _ _ _ hmono
  have hfle := rootFlag_le blankRootHash T s.store st' hmono
  unfold opGet at he
  split at he
  · next hr =>
    simp only [Except.error.injEq, Exn.missingTrieNode.injEq] at he
    obtain ⟨rfl, rfl, rfl, rfl⟩ := he
    have h1 : rootFlag blankRootHash T s.store = 1 := by simp [rootFlag, hr]
    have h0 : rootFlag blankRootHash T st' = 0 := by simp [rootFlag, hself]
    simp at hr
    exact ⟨hr.2, .inl ⟨hr.1, rfl⟩, by omega⟩
  · split at he
    · next h' pre' hf =>
      simp only [Except.error.injEq, Exn.missingTrieNode.injEq] at he
      obtain ⟨rfl, rfl, rfl, rfl⟩ := he
      have hm := List.mem_of_find?_eq_some hf
      have hp := List.find?_some hf
      simp at hp
      have hm' : h' ∈ (traverseReads Hs T.tree (nibs key) []).map (·.1) := List.mem_map.2 ⟨_, hm, rfl⟩
      have hlt : (outstanding Hs T key st').length < (outstanding Hs T key s.store).length :=
        absent_filter_lt _ _ _ hmono h' hm' hp hself
      exact ⟨hp, .inr hm', by omega⟩
    · split at he <;> simp at he

/-- where a `MissingTrieNode` of `set` / `delete` comes from: the root fetch, or one of the `read` events -/
theorem opCore_missing_where (T : TrieSt) (key : Bytes) (val : Option Bytes) (s : OpSt)
    (h root rk : Bytes) (pre : Option Path)
    (he : (opCore Hs blankRootHash T key val s).2 = .error (.missingTrieNode h root rk pre)) :
    ((T.root != blankRootHash && !(s.store.contains T.root)) = true ∧ h = T.root) ∨
      Ev.read h ∈ (opTree Hs T key val).2 := by
  unfold opCore at he
  split at he
  · next hr =>
    simp at he
    exact .inl ⟨hr, he.1.symm⟩
  · have hm := runEvs_missing_mem T.prune T.root key s (opTree Hs T key val).2 h root rk pre
    split at he
    · next s1 x hx =>
      simp only [Except.error.injEq] at he
      rw [hx] at hm
      exact .inr (hm (by rw [he]))
    · next s1 hx =>
      split at he
      · next x hw =>
        have := writeRoot_error_kind Hs blankRootHash T _ _ x hw
        subst this
        simp at he
      · next s3 newRoot hw =>
        split at he
        · next s4 x hf =>
          obtain ⟨w, rfl⟩ := finishPrune_error_kind T s3 x (by rw [hf])
          simp at he
        · simp at he

theorem opSetDel_retry_step (T : TrieSt) (key : Bytes) (val : Option Bytes) (s : OpSt) (h root rk : Bytes)
    (pre : Option Path) (st' : Store)
    (he : (opSetDel Hs blankRootHash T key val s).2 = .error (.missingTrieNode h root rk pre))
    (hself : st'.contains h = true) (hmono : ∀ x, s.store.contains x = true → st'.contains x = true) :
    s.store.contains h = false ∧
    ((T.root ≠ blankRootHash ∧ h = T.root) ∨ Ev.read h ∈ (opTree Hs T key val).2) ∧
    (outstandingOp Hs T key val st').length + rootFlag blankRootHash T st' <
      (outstandingOp Hs T key val s.store).length + rootFlag blankRootHash T s.store := by
  have hle : (outstandingOp Hs T key val st').length ≤ (outstandingOp Hs T key val s.store).length :=
    absent_filter_le _ _ _ hmono
  have hfle := rootFlag_le blankRootHash T s.store st' hmono
  unfold opSetDel at he
  have habs : s.store.contains h = false :=
    (opCore_missing Hs blankRootHash T key val { s with pending := [] } h root rk pre _ rfl he).2.2.1
  rcases opCore_missing_where Hs blankRootHash T key val _ h root rk pre he with ⟨hr, rfl⟩ | hm
  · have hr' : (T.root != blankRootHash && !(s.store.contains T.root)) = true := hr
    have h1 : rootFlag blankRootHash T s.store = 1 := by simp [rootFlag, hr']
    have h0 : rootFlag blankRootHash T st' = 0 := by simp [rootFlag, hself]
    simp at hr'
    exact ⟨habs, .inl ⟨hr'.1, rfl⟩, by omega⟩
  · have hm' : h ∈ (opTree Hs T key val).2.filterMap (fun e => match e with | .read h => some h | _ => none) :=
      List.mem_filterMap.2 ⟨_, hm, rfl⟩
    have hlt : (outstandingOp Hs T key val st').length < (outstandingOp Hs T key val s.store).length :=
      absent_filter_lt _ _ _ hmono h hm' habs hself
    exact ⟨habs, .inr hm, by omega⟩

/-- a `set` / `delete` that returns a trie returns the tree-level result -/
theorem opSetDel_ok_tree (T : TrieSt) (key : Bytes) (val : Option Bytes) (s : OpSt) (T' : TrieSt)
    (h1 : (opSetDel Hs blankRootHash T key val s).2 = .ok T') : T'.tree = (opTree Hs T key val).1 := by
  unfold opSetDel at h1
  simp only at h1
  unfold opCore at h1
  split at h1
  · cases h1
  · split at h1
    · cases h1
    · split at h1
      · cases h1
      · split at h1
        · cases h1
        · simp only [Except.ok.injEq] at h1
          rw [← h1]

end PyTrie.HexW
