import PyTrie.Lemmas.FreeView
import PyTrie.Lemmas.FreeHistory
import PyTrie.Props.C05
/-! C05 stated directly for the tree-free world (`Model/HexFree.lean` `FWorld` — the transcription of `squash_changes` that is
    run against the code): operations inside a block never touch the wrapped database, the outer trie or its counts; a block
    left by an exception restores the world exactly; a failing commit keeps the outer root and counts; a successful commit
    adopts the batch root. No run-level hypothesis: these hold for every world, every key, every value, every fault position. -/
namespace PyTrie.HexFree
open PyTrie PyTrie.Hex PyTrie.HexW PyTrie.HexRaw PyTrie.Props.C05

variable (H : Bytes → Bytes)

theorem schedOldRootF_base (F : Free) (rootNode : Item) (s : OpSt) (hs : s.store.cache.isSome) :
    Props.C05.SameBase s (schedOldRootF H F rootNode s) := by
  unfold schedOldRootF; split <;> exact ⟨rfl, rfl, hs⟩

theorem writeRootF_base (F : Free) (new : Item) (s : OpSt) (hs : s.store.cache.isSome) (s' : OpSt) (r : Hash)
    (h : writeRootF H F new s = .ok (s', r)) : Props.C05.SameBase s s' := by
  obtain ⟨c, hc⟩ := Option.isSome_iff_exists.1 hs
  unfold writeRootF at h
  split at h
  · simp at h; rw [← h.1]; exact ⟨rfl, rfl, hs⟩
  · obtain ⟨st, w1, w2, w3, w4⟩ := write_cache_base s.store c hc (H (rlp new)) (rlp new)
    simp only [setDbValue, w1] at h
    simp at h; rw [← h.1]; exact ⟨w2, w3, w4⟩

theorem finishF_base (p : Bool) (s : OpSt) (hs : s.store.cache.isSome) :
    Props.C05.SameBase s (if p then completePruning s s.pending else (s, none)).1 := by
  split
  · exact completePruning_base s hs _
  · exact ⟨rfl, rfl, hs⟩

theorem freeCore_base (F : Free) (key : Bytes) (val : Option Bytes) (s : OpSt) (hs : s.store.cache.isSome) :
    Props.C05.SameBase s (freeCore H F key val s).1 := by
  unfold freeCore
  split
  · exact ⟨rfl, rfl, hs⟩
  · exact ⟨rfl, rfl, hs⟩
  · next rootNode _ =>
    have h1 := runEvs_base F.prune F.root key s hs (bodyT H (storeDb s.store) rootNode key val).1.evs
    dsimp only
    split
    · next s1 x he => rw [he] at h1; exact h1
    · next s1 he =>
      rw [he] at h1
      have h2 := h1.trans (schedOldRootF_base H F rootNode s1 h1.2.2)
      split
      · exact h1
      · exact h1
      · split
        · exact h2
        · next s3 newRoot hw =>
          have h3 := h2.trans (writeRootF_base H F _ _ h2.2.2 s3 newRoot hw)
          have h4 := h3.trans (finishF_base F.prune s3 h3.2.2)
          split
          · next s4 x hf => rw [hf] at h4; exact h4
          · next s4 hf => rw [hf] at h4; exact h4

/-- while the block is open the wrapped database is never written, whatever the operation does -/
theorem freeSetDel_base (F : Free) (key : Bytes) (val : Option Bytes) (s : OpSt) (hs : s.store.cache.isSome) :
    Props.C05.SameBase s (freeSetDel H F key val s).1 := by
  unfold freeSetDel
  have h := freeCore_base H F key val { s with pending := [] } hs
  exact ⟨h.1, h.2.1, h.2.2⟩

/-- a sequence of `set` / `delete` calls on the batch trie of the open block, whatever each returns or raises -/
def FWorld.batchRun (w : FWorld) (ops : List (Bytes × Option Bytes)) : FWorld :=
  ops.foldl (fun w o => (w.setDel H true o.1 o.2).2) w

/-- one operation on the batch trie leaves the wrapped database, the fault counter, the outer trie and its counts alone -/
theorem fw_batch_op_leaves_outer (w : FWorld) (key : Bytes) (val : Option Bytes) :
    let w' := (w.setDel H true key val).2
    w'.base = w.base ∧ w'.failAfter = w.failAfter ∧ w'.outer = w.outer ∧ w'.counts = w.counts ∧
    (w.batch.isSome → w'.batch.isSome) := by
  cases hb : w.batch with
  | none => simp [FWorld.setDel, hb]
  | some b =>
    simp only [FWorld.setDel, hb, Bool.not_true, Bool.false_eq_true, ↓reduceIte]
    have h := freeSetDel_base H b.trie key val (w.batchOpSt b) rfl
    generalize freeSetDel H b.trie key val (w.batchOpSt b) = q at h
    obtain ⟨st', r⟩ := q
    obtain ⟨h1, h2, _⟩ := h
    simp only [FWorld.batchOpSt] at h1 h2
    dsimp only
    cases r with
    | ok F' => exact ⟨h1, h2, rfl, rfl, fun _ => rfl⟩
    | error e => exact ⟨h1, h2, rfl, rfl, fun _ => rfl⟩

theorem fw_batchRun_leaves_outer (w : FWorld) (ops : List (Bytes × Option Bytes)) :
    (FWorld.batchRun H w ops).base = w.base ∧ (FWorld.batchRun H w ops).failAfter = w.failAfter ∧
    (FWorld.batchRun H w ops).outer = w.outer ∧ (FWorld.batchRun H w ops).counts = w.counts ∧
    (w.batch.isSome → (FWorld.batchRun H w ops).batch.isSome) := by
  induction ops generalizing w with
  | nil => exact ⟨rfl, rfl, rfl, rfl, id⟩
  | cons o ops ih =>
    obtain ⟨a1, a2, a3, a4, a5⟩ := fw_batch_op_leaves_outer H w o.1 o.2
    obtain ⟨b1, b2, b3, b4, b5⟩ := ih (w.setDel H true o.1 o.2).2
    simp only [FWorld.batchRun, List.foldl_cons] at b1 b2 b3 b4 b5 ⊢
    exact ⟨b1.trans a1, b2.trans a2, b3.trans a3, b4.trans a4, fun h => b5 (a5 h)⟩

theorem fw_batchRun_begin (w : FWorld) (ops : List (Bytes × Option Bytes)) :
    ∃ b, FWorld.batchRun H w.batchBegin ops =
      { base := w.base, failAfter := w.failAfter, outer := w.outer, counts := w.counts, batch := some b } := by
  obtain ⟨h1, h2, h3, h4, h5⟩ := fw_batchRun_leaves_outer H w.batchBegin ops
  generalize FWorld.batchRun H w.batchBegin ops = wb at h1 h2 h3 h4 h5
  obtain ⟨ba, fa, ou, co, bt⟩ := wb
  simp only [FWorld.batchBegin] at h1 h2 h3 h4 h5
  cases bt with
  | none => simp at h5
  | some b => exact ⟨b, by simp [h1, h2, h3, h4]⟩

/-- **a block left by an exception restores the world exactly** — after any operations inside it -/
theorem fw_abort_restores (w : FWorld) (hb : w.batch = none) (ops : List (Bytes × Option Bytes)) :
    ((FWorld.batchRun H w.batchBegin ops).batchEnd true).2 = w := by
  obtain ⟨b, hw⟩ := fw_batchRun_begin H w ops
  rw [hw]
  obtain ⟨ba, fa, ou, co, bt⟩ := w
  simp only at hb
  subst hb
  simp [FWorld.batchEnd]

/-- **a commit that fails** (a write of the wrapped database raises, at any position) keeps the outer root and counts; the
    block is closed; the database holds a prefix of the commit's writes (`commitLoop`) -/
theorem fw_commit_failure_keeps_outer (w : FWorld) (hb : w.batch = none) (ops : List (Bytes × Option Bytes)) :
    let wb := FWorld.batchRun H w.batchBegin ops
    (wb.batchEnd false).1 = .error .writeFailed →
    (wb.batchEnd false).2.outer = w.outer ∧ (wb.batchEnd false).2.counts = w.counts ∧ (wb.batchEnd false).2.batch = none := by
  obtain ⟨b, hw⟩ := fw_batchRun_begin H w ops
  intro wb
  have hwb : wb = _ := hw
  rw [hwb]
  simp only [FWorld.batchEnd, Bool.false_eq_true, ↓reduceIte]
  generalize commitLoop w.outer.prune b.cache w.base w.failAfter = q
  obtain ⟨ok, base', fa'⟩ := q
  cases ok with
  | true => simp
  | false => simp

/-- **a commit that succeeds** adopts the batch trie's root, keeps the prune flag, adopts the batch counts iff pruning -/
theorem fw_commit_adopts_root (w : FWorld) (hb : w.batch = none) (ops : List (Bytes × Option Bytes)) :
    let wb := FWorld.batchRun H w.batchBegin ops
    (wb.batchEnd false).1 = .ok () →
    ∃ b, wb.batch = some b ∧ (wb.batchEnd false).2.outer = { w.outer with root := b.trie.root } ∧
      (wb.batchEnd false).2.counts = (if w.outer.prune then b.counts else w.counts) ∧ (wb.batchEnd false).2.batch = none ∧
      (wb.batchEnd false).2.base = (commitLoop w.outer.prune b.cache w.base w.failAfter).2.1 := by
  obtain ⟨b, hw⟩ := fw_batchRun_begin H w ops
  intro wb
  have hwb : wb = _ := hw
  rw [hwb]
  simp only [FWorld.batchEnd, Bool.false_eq_true, ↓reduceIte]
  generalize hq : commitLoop w.outer.prune b.cache w.base w.failAfter = q
  obtain ⟨ok, base', fa'⟩ := q
  cases ok with
  | true => intro _; exact ⟨b, rfl, by simp [hq]⟩
  | false => simp

end PyTrie.HexFree
