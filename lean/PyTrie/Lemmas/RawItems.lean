import PyTrie.Lemmas.RawPrims
/-! How the list operations of the raw code (`node[i] = x`, truthiness of items, the first truthy index)
    act on the 17 items of an encoded branch. -/
namespace PyTrie.HexRaw
open PyTrie.Hex PyTrie.HexD PyTrie.Hex.Node

variable (H : Bytes → Bytes)

theorem brItems_getElem? (ch : Nib → Node) (v : Bytes) (j : Nat) :
    (brItems H ch v)[j]? =
      if h : j < 16 then some (refOf H (ch ⟨j, h⟩)) else if j = 16 then some (.str v) else none := by
  unfold brItems
  by_cases h : j < 16
  · simp [h, List.getElem?_append_left]
  · have : ((List.finRange 16).map (fun i => refOf H (ch i))).length ≤ j := by simp; omega
    rw [List.getElem?_append_right this]
    simp only [h, ↓reduceDIte, List.length_map, List.length_finRange]
    by_cases h16 : j = 16
    · simp [h16]
    · have : j - 16 ≠ 0 := by omega
      simp [h16, this]

theorem setAt_brItems_child (ch : Nib → Node) (v : Bytes) (i : Nib) (x : Node) :
    setAt (brItems H ch v) i.val (refOf H x) = brItems H (upd ch i x) v := by
  apply List.ext_getElem?
  intro j
  simp only [setAt, List.getElem?_set, brItems_getElem?, brItems_length]
  have hi := i.isLt
  by_cases h : j < 16
  · by_cases hij : i.val = j
    · have : (⟨j, h⟩ : Nib) = i := Fin.ext hij.symm
      have h17 : i.val < 17 := by omega
      simp [hij, h, upd, this]
      omega
    · have : ¬ (⟨j, h⟩ : Nib) = i := fun e => hij (by rw [← e])
      simp [hij, h, upd, this]
  · have hij : ¬ i.val = j := by omega
    simp [hij, h]

theorem setAt_brItems_val (ch : Nib → Node) (v v' : Bytes) :
    setAt (brItems H ch v) 16 (.str v') = brItems H ch v' := by
  apply List.ext_getElem?
  intro j
  simp only [setAt, List.getElem?_set, brItems_getElem?, brItems_length]
  by_cases h : j < 16
  · have : ¬ 16 = j := by omega
    simp [h, this]
  · by_cases h16 : j = 16
    · simp [h16]
    · have : ¬ 16 = j := by omega
      simp [h, h16, this]

theorem blank17_eq : blank17 = brItems H emptyCh [] := by
  unfold blank17 brItems
  simp only [emptyCh, refOf_blank]
  rfl

theorem replicate16_eq (pv : Bytes) : List.replicate 16 (Item.str []) ++ [.str pv] = brItems H emptyCh pv := by
  unfold brItems
  simp only [emptyCh, refOf_blank]
  rfl

theorem toItem_leaf (p : Path) (v : Bytes) : toItem H (leaf p v) = .list [leafKey p, .str v] := rfl
theorem toItem_ext (p : Path) (c : Node) : toItem H (ext p c) = .list [extKey p, refOf H c] := rfl

/-! ### truthiness -/

theorem refOf_ne_blank (hlen : ∀ b, (H b).length = 32) (c : Node) (hb : isBlank c = false) :
    refOf H c ≠ .str [] := by
  cases hh : isHashed H c with
  | false =>
    rw [refOf_embedded H c hb hh]
    obtain ⟨l, hl⟩ := toItem_list H c hb
    simp [hl]
  | true =>
    rw [refOf_hashed H c hh]
    have h32 : (hashOf H c).length = 32 := hlen _
    intro h
    injection h with h
    rw [h] at h32; simp at h32

theorem truthy_refOf (hlen : ∀ b, (H b).length = 32) (c : Node) : truthy (refOf H c) = !isBlank c := by
  cases hb : isBlank c with
  | true => rw [(isBlank_iff c).1 hb]; simp [refOf_blank, truthy]
  | false =>
    have := refOf_ne_blank H hlen c hb
    unfold truthy
    split
    · next h => exact absurd h this
    · rfl

theorem truthy_str (v : Bytes) : truthy (.str v) = !decide (v = []) := by
  cases v <;> simp [truthy]

theorem twoTruthy_brItems (hlen : ∀ b, (H b).length = 32) (ch : Nib → Node) (v : Bytes) :
    twoTruthy (brItems H ch v) = decide (2 ≤ weight ch v) := by
  have e : (truthy ∘ fun i => refOf H (ch i)) = fun i => !isBlank (ch i) := by
    funext i; simp [truthy_refOf H hlen]
  unfold twoTruthy brItems weight liveIdx
  rw [List.filter_append, List.filter_map, List.length_append, List.length_map, e]
  cases v with
  | nil => simp [truthy]
  | cons a r =>
    have : (List.filter truthy [Item.str (a :: r)]).length = 1 := rfl
    rw [this]
    simp

theorem range16 : List.range 16 = (List.finRange 16).map (·.val) := by decide

theorem find_brItems (hlen : ∀ b, (H b).length = 32) (ch : Nib → Node) (v : Bytes) :
    (List.range 16).find? (fun i => truthy ((brItems H ch v).getD i (.str []))) =
      (liveIdx ch).head?.map (·.val) := by
  rw [range16, List.find?_map]
  have e : ((fun i => truthy ((brItems H ch v).getD i (.str []))) ∘ fun (x : Nib) => x.val) =
      fun i => !isBlank (ch i) := by
    funext i; simp only [Function.comp, brItems_getD, truthy_refOf H hlen]
  rw [e, liveIdx, List.head?_filter]

end PyTrie.HexRaw
