import PyTrie.Model.Sdb
import PyTrie.Lemmas.WorldMonoDict
/-! ScratchDB (C17): a batch is a list of buffered actions applied to a fresh ScratchDB over any
    pre-existing wrapped database. -/
namespace PyTrie.Sdb
open PyTrie.HexW

/-- a buffered action -/
inductive Act where
  | write (k v : Bytes)
  | delete (k : Bytes)

def Act.key : Act → Bytes
  | .write k _ => k
  | .delete k => k

def applyAct (s : Sdb) : Act → Sdb
  | .write k v => setItem s k v
  | .delete k => delItem s k

def runActs (s : Sdb) (acts : List Act) : Sdb := acts.foldl applyAct s

/-- the latest buffered action on a key: `none` = never touched, `some none` = deleted, `some (some v)` = written -/
def lastAct : List Act → Bytes → Option (Option Bytes)
  | [], _ => none
  | a :: rest, k =>
    match lastAct rest k with
    | some x => some x
    | none => if a.key = k then (match a with | .write _ v => some (some v) | .delete _ => some none) else none

/-- the wrapped dict is a well-formed dict: no key occurs twice -/
def NoDupKeys {α} (d : Dict α) : Prop := (d.map (·.1)).Nodup

/-! ### helper lemmas on `Dict` -/

theorem get?_insert {α} (d : Dict α) (k k' : Bytes) (x : α) :
    Dict.get? (Dict.insert d k x) k' = if k' = k then some x else Dict.get? d k' := by
  by_cases h : k' = k
  · subst h; simp [Dict.get?_insert_self']
  · simp [h, Dict.get?_insert_other' d k k' x h]

theorem contains_iff_mem_keys {α} (d : Dict α) (k : Bytes) :
    Dict.contains d k = true ↔ k ∈ d.map (·.1) := by
  simp only [Dict.contains, List.any_eq_true, List.mem_map, beq_iff_eq]

theorem keys_map_overwrite {α} (d : Dict α) (k : Bytes) (x : α) :
    (d.map (fun e => if e.1 == k then (k, x) else e)).map (·.1) = d.map (·.1) := by
  induction d with
  | nil => rfl
  | cons e r ih =>
    simp only [List.map_cons, ih]
    congr 1
    cases he : (e.1 == k)
    · simp
    · simpa using (Eq.symm (by simpa using he : e.1 = k))

theorem NoDupKeys.insert {α} {d : Dict α} (h : NoDupKeys d) (k : Bytes) (x : α) :
    NoDupKeys (Dict.insert d k x) := by
  unfold NoDupKeys Dict.insert
  split
  · rw [keys_map_overwrite]; exact h
  · next hc =>
    have hc' : k ∉ d.map (·.1) := fun hm => hc ((contains_iff_mem_keys d k).2 hm)
    rw [List.map_append, List.nodup_append]
    refine ⟨h, by simp, ?_⟩
    intro a ha b hb
    simp only [List.map_cons, List.map_nil, List.mem_singleton] at hb
    subst hb
    intro hab; subst hab; exact hc' ha

theorem get?_eq_none_of_not_mem_keys {α} (d : Dict α) (k : Bytes) (h : k ∉ d.map (·.1)) :
    Dict.get? d k = none := by
  apply Dict.get?_eq_none_of_not_contains
  cases hc : Dict.contains d k
  · rfl
  · exact absurd ((contains_iff_mem_keys d k).1 hc) h

theorem get?_erase {α} (d : Dict α) (k k' : Bytes) :
    Dict.get? (Dict.erase d k) k' = if k' = k then none else Dict.get? d k' := by
  induction d with
  | nil => simp [Dict.erase, Dict.get?_nil]
  | cons e r ih =>
    unfold Dict.erase at ih ⊢
    rw [List.filter_cons]
    cases he : (e.1 == k)
    · have hne : e.1 ≠ k := by simpa using he
      simp only [Bool.not_false, if_true]
      rw [Dict.get?_cons, Dict.get?_cons, ih]
      cases he' : (e.1 == k')
      · simp
      · have : e.1 = k' := by simpa using he'
        have hk : k' ≠ k := by rw [← this]; exact hne
        simp [hk]
    · have hek : e.1 = k := by simpa using he
      simp only [Bool.not_true, Bool.false_eq_true, if_false]
      rw [ih, Dict.get?_cons]
      by_cases hk : k' = k
      · simp [hk]
      · have : (e.1 == k') = false := by
          rw [hek]; simpa using (Ne.symm hk)
        simp [hk, this]

/-! ### `runActs` / `lastAct` -/

theorem applyAct_wrapped (s : Sdb) (a : Act) : (applyAct s a).wrapped = s.wrapped := by
  cases a <;> rfl

theorem runActs_wrapped (s : Sdb) (acts : List Act) : (runActs s acts).wrapped = s.wrapped := by
  induction acts generalizing s with
  | nil => rfl
  | cons a rest ih =>
    show (runActs (applyAct s a) rest).wrapped = _
    rw [ih, applyAct_wrapped]

/-- while the batch is open the wrapped database is never written -/
theorem wrapped_untouched (w : Dict Bytes) (acts : List Act) :
    (runActs { wrapped := w, cache := [] } acts).wrapped = w :=
  runActs_wrapped _ _

theorem applyAct_cache_get? (s : Sdb) (a : Act) (k : Bytes) :
    Dict.get? (applyAct s a).cache k =
      if a.key = k then (match a with | .write _ v => some (some v) | .delete _ => some none)
      else Dict.get? s.cache k := by
  cases a with
  | write k0 v =>
    show Dict.get? (Dict.insert _ k0 (some v)) k = _
    rw [get?_insert]
    simp only [Act.key]
    by_cases h : k = k0
    · subst h; simp
    · have h' : ¬ k0 = k := fun e => h e.symm
      simp [h, h']
  | delete k0 =>
    show Dict.get? (Dict.insert _ k0 none) k = _
    rw [get?_insert]
    simp only [Act.key]
    by_cases h : k = k0
    · subst h; simp
    · have h' : ¬ k0 = k := fun e => h e.symm
      simp [h, h']

theorem applyAct_nodup (s : Sdb) (a : Act) (h : NoDupKeys s.cache) : NoDupKeys (applyAct s a).cache := by
  cases a with
  | write k0 v => exact h.insert k0 (some v)
  | delete k0 => exact h.insert k0 none

theorem runActs_cache (s : Sdb) (acts : List Act) (k : Bytes) (hs : NoDupKeys s.cache) :
    Dict.get? (runActs s acts).cache k =
      (match lastAct acts k with | some x => some x | none => Dict.get? s.cache k) ∧
    NoDupKeys (runActs s acts).cache := by
  induction acts generalizing s with
  | nil => exact ⟨rfl, hs⟩
  | cons a rest ih =>
    have := ih (applyAct s a) (applyAct_nodup s a hs)
    refine ⟨?_, this.2⟩
    show Dict.get? (runActs (applyAct s a) rest).cache k = _
    rw [this.1]
    simp only [lastAct]
    cases lastAct rest k with
    | some x => rfl
    | none =>
      simp only [applyAct_cache_get?]
      by_cases h : a.key = k
      · simp only [h, if_true]; cases a <;> rfl
      · simp only [h, if_false]

/-- the buffer records exactly the latest action per key -/
theorem cache_lastAct (w : Dict Bytes) (acts : List Act) (k : Bytes) :
    Dict.get? (runActs { wrapped := w, cache := [] } acts).cache k = lastAct acts k ∧
    NoDupKeys (runActs { wrapped := w, cache := [] } acts).cache := by
  have := runActs_cache { wrapped := w, cache := [] } acts k List.nodup_nil
  refine ⟨?_, this.2⟩
  rw [this.1]
  cases lastAct acts k <;> rfl

/-- reads see the latest buffered write; a key whose latest buffered action is a delete (or that was
    never touched) reads through to the wrapped database -/
theorem read_latest (w : Dict Bytes) (acts : List Act) (k : Bytes) :
    getItem (runActs { wrapped := w, cache := [] } acts) k =
      match lastAct acts k with
      | some (some v) => some v
      | _ => Dict.get? w k := by
  unfold getItem
  rw [(cache_lastAct w acts k).1, wrapped_untouched]
  cases lastAct acts k with
  | none => rfl
  | some o => cases o <;> rfl

theorem contains_latest (w : Dict Bytes) (acts : List Act) (k : Bytes) :
    contains (runActs { wrapped := w, cache := [] } acts) k =
      match lastAct acts k with
      | some (some _) => true
      | _ => Dict.contains w k := by
  unfold contains
  rw [(cache_lastAct w acts k).1, wrapped_untouched]
  cases lastAct acts k with
  | none => rfl
  | some o => cases o <;> rfl

/-! ### the commit loop -/

theorem NoDupKeys.tail {α} {e : Bytes × α} {r : Dict α} (h : NoDupKeys (e :: r)) :
    e.1 ∉ r.map (·.1) ∧ NoDupKeys r := by
  unfold NoDupKeys at h ⊢
  rw [List.map_cons, List.nodup_cons] at h
  exact h

theorem commitLoop_none_ok (dd : Bool) (cache : Dict (Option Bytes)) (base : Dict Bytes) :
    (commitLoop dd cache base none).1 = true := by
  induction cache generalizing base with
  | nil => rfl
  | cons e rest ih =>
    obtain ⟨k, v⟩ := e
    cases v with
    | none => simp only [commitLoop]; exact ih _
    | some v => simp only [commitLoop]; exact ih _

theorem commitLoop_none_get? (dd : Bool) (cache : Dict (Option Bytes)) (base : Dict Bytes)
    (hc : NoDupKeys cache) (k : Bytes) :
    Dict.get? (commitLoop dd cache base none).2.1 k =
      match Dict.get? cache k with
      | some (some v) => some v
      | some none => if dd then none else Dict.get? base k
      | none => Dict.get? base k := by
  induction cache generalizing base with
  | nil => rfl
  | cons e rest ih =>
    obtain ⟨k0, v0⟩ := e
    obtain ⟨hnm, hr⟩ := hc.tail
    rw [Dict.get?_cons]
    by_cases hk : k0 = k
    · subst hk
      have hrest : Dict.get? rest k0 = none := get?_eq_none_of_not_mem_keys rest k0 hnm
      simp only [beq_self_eq_true, if_true]
      cases v0 with
      | none =>
        simp only [commitLoop]
        rw [ih _ hr, hrest]
        cases dd
        · simp
        · simp [get?_erase]
      | some v =>
        simp only [commitLoop]
        rw [ih _ hr, hrest]
        simp [get?_insert]
    · have hb : (k0 == k) = false := by simpa using hk
      have hk' : ¬ k = k0 := fun e => hk e.symm
      simp only [hb, Bool.false_eq_true, if_false]
      cases v0 with
      | none =>
        simp only [commitLoop]
        rw [ih _ hr]
        cases dd
        · simp
        · simp [get?_erase, hk']
      | some v =>
        simp only [commitLoop]
        rw [ih _ hr]
        simp [get?_insert, hk']

theorem commitLoop_get?_sub (dd : Bool) (cache : Dict (Option Bytes)) (base : Dict Bytes) (fa : Option Nat)
    (hc : NoDupKeys cache) (k v : Bytes)
    (h : Dict.get? (commitLoop dd cache base fa).2.1 k = some v) :
    Dict.get? base k = some v ∨ Dict.get? cache k = some (some v) := by
  induction cache generalizing base fa with
  | nil => exact Or.inl h
  | cons e rest ih =>
    obtain ⟨k0, v0⟩ := e
    obtain ⟨hnm, hr⟩ := hc.tail
    rw [Dict.get?_cons]
    by_cases hk : k0 = k
    · subst hk
      have hrest : Dict.get? rest k0 = none := get?_eq_none_of_not_mem_keys rest k0 hnm
      simp only [beq_self_eq_true, if_true]
      cases v0 with
      | none =>
        simp only [commitLoop] at h
        rcases ih _ _ hr h with h' | h'
        · cases dd
          · exact Or.inl (by simpa using h')
          · simp [get?_erase] at h'
        · rw [hrest] at h'; cases h'
      | some v1 =>
        cases fa with
        | none =>
          simp only [commitLoop] at h
          rcases ih _ _ hr h with h' | h'
          · rw [get?_insert] at h'; simp at h'; exact Or.inr (by rw [h'])
          · rw [hrest] at h'; cases h'
        | some n =>
          cases n with
          | zero => simp only [commitLoop] at h; exact Or.inl h
          | succ n =>
            simp only [commitLoop] at h
            rcases ih _ _ hr h with h' | h'
            · rw [get?_insert] at h'; simp at h'; exact Or.inr (by rw [h'])
            · rw [hrest] at h'; cases h'
    · have hb : (k0 == k) = false := by simpa using hk
      have hk' : ¬ k = k0 := fun e => hk e.symm
      simp only [hb, Bool.false_eq_true, if_false]
      cases v0 with
      | none =>
        simp only [commitLoop] at h
        rcases ih _ _ hr h with h' | h'
        · cases dd
          · exact Or.inl (by simpa using h')
          · rw [if_pos rfl, get?_erase, if_neg hk'] at h'; exact Or.inl h'
        · exact Or.inr h'
      | some v1 =>
        cases fa with
        | none =>
          simp only [commitLoop] at h
          rcases ih _ _ hr h with h' | h'
          · rw [get?_insert, if_neg hk'] at h'; exact Or.inl h'
          · exact Or.inr h'
        | some n =>
          cases n with
          | zero => simp only [commitLoop] at h; exact Or.inl h
          | succ n =>
            simp only [commitLoop] at h
            rcases ih _ _ hr h with h' | h'
            · rw [get?_insert, if_neg hk'] at h'; exact Or.inl h'
            · exact Or.inr h'

/-- **normal exit**: every buffered write is applied with last-write-wins, buffered deletes are
    applied only if deletes were requested, everything else is left alone; the buffer is empty -/
theorem commit_spec (w : Dict Bytes) (hw : NoDupKeys w) (acts : List Act) (dd : Bool) (k : Bytes) :
    let r := commit (runActs { wrapped := w, cache := [] } acts) dd none
    r.1 = true ∧ r.2.1.cache = [] ∧
    Dict.get? r.2.1.wrapped k =
      match lastAct acts k with
      | some (some v) => some v
      | some none => if dd then none else Dict.get? w k
      | none => Dict.get? w k := by
  intro r
  have _ := hw
  refine ⟨commitLoop_none_ok _ _ _, rfl, ?_⟩
  show Dict.get? (commitLoop dd _ _ none).2.1 k = _
  rw [commitLoop_none_get? dd _ _ (cache_lastAct w acts k).2 k, (cache_lastAct w acts k).1,
    wrapped_untouched]

/-- **exceptional exit**: the wrapped database is exactly as it was and the buffer is empty -/
theorem abort_spec (w : Dict Bytes) (acts : List Act) :
    abort (runActs { wrapped := w, cache := [] } acts) = { wrapped := w, cache := [] } := by
  unfold abort
  rw [wrapped_untouched]

/-- a commit whose n-th write fails still empties the buffer, and every binding of the wrapped
    database afterwards is an old one or a buffered write -/
theorem commit_failure_spec (w : Dict Bytes) (acts : List Act) (dd : Bool) (n : Nat) :
    let r := commit (runActs { wrapped := w, cache := [] } acts) dd (some n)
    r.2.1.cache = [] ∧
    ∀ k v, Dict.get? r.2.1.wrapped k = some v → Dict.get? w k = some v ∨ lastAct acts k = some (some v) := by
  intro r
  refine ⟨rfl, ?_⟩
  intro k v h
  have h' : Dict.get? (commitLoop dd (runActs { wrapped := w, cache := [] } acts).cache
      (runActs { wrapped := w, cache := [] } acts).wrapped (some n)).2.1 k = some v := h
  have := commitLoop_get?_sub dd _ _ _ (cache_lastAct w acts k).2 k v h'
  rw [(cache_lastAct w acts k).1, wrapped_untouched] at this
  exact this

end PyTrie.Sdb
