import PyTrie.Model.Bin
/-! Helper lemmas for the binary trie on trees (invariant `WF`: leaf values and kv paths non-empty). -/
namespace PyTrie.Bin
open BNode

def WF : BNode → Prop
  | leaf v => v ≠ []
  | kv p c => p ≠ [] ∧ WF c
  | branch l r => WF l ∧ WF r

theorem cpl_le_left (p k : Bits) : cpl p k ≤ p.length := by
  induction p generalizing k with
  | nil => simp [cpl]
  | cons a as ih => cases k with
    | nil => simp [cpl]
    | cons b bs => simp only [cpl]; split <;> simp [ih]

theorem cpl_eq_length_iff (p k : Bits) : cpl p k = p.length ↔ p <+: k := by
  induction p generalizing k with
  | nil => simp [cpl]
  | cons a as ih =>
    cases k with
    | nil => simp [cpl]
    | cons b bs =>
      simp only [cpl, List.cons_prefix_cons]
      split
      · next h => subst h; simp [ih]
      · next h => simp [h]

theorem wf_mkKv (p : Bits) (s : BNode) (hp : p ≠ []) (hs : WF s) : WF (mkKv p s) := by
  cases s with
  | leaf v => exact ⟨hp, hs⟩
  | kv p2 c2 => exact ⟨by simp [hp], hs.2⟩
  | branch l r => exact ⟨hp, hs⟩

theorem wf_bset (t : BNode) (k : Bits) (v : Bytes) (sub : Bool) (ht : WF t) (t' : BNode)
    (h : bset t k v sub = .ok (some t')) : WF t' := by
  induction t generalizing k t' with
  | leaf x =>
    simp only [bset] at h
    split at h
    · cases h
    · split at h
      · cases h
      · split at h
        · next hv => cases h; exact hv
        · cases h
  | kv p c ih =>
    obtain ⟨hp, hc⟩ := ht
    simp only [bset] at h
    split at h
    · split at h <;> cases h
    · split at h
      · cases h
      · split at h
        · split at h
          · cases h
          · cases h
          · next s hs => cases h; exact wf_mkKv p s hp (ih _ hc s hs)
        · next hk hsub hpre =>
          split at h
          · cases h; exact ⟨hp, hc⟩
          · next hv =>
            split at h
            · cases h
            · next hlen =>
              cases h
              have hn : cpl p k < p.length := by
                have := cpl_le_left p k
                have : cpl p k ≠ p.length := fun e => hpre ((cpl_eq_length_iff p k).1 e)
                omega
              have hval : WF (if k.length = cpl p k + 1 then leaf v else kv (k.drop (cpl p k + 1)) (leaf v)) := by
                have hv' : v ≠ [] := fun e => hv (Or.inl e)
                split
                · exact hv'
                · exact ⟨by simp; omega, hv'⟩
              have hold : WF (if p.length = cpl p k + 1 then c else kv (p.drop (cpl p k + 1)) c) := by
                split
                · exact hc
                · exact ⟨by simp; omega, hc⟩
              have hnew : WF (if (k.drop (cpl p k)).head? = some true then
                  branch (if p.length = cpl p k + 1 then c else kv (p.drop (cpl p k + 1)) c)
                    (if k.length = cpl p k + 1 then leaf v else kv (k.drop (cpl p k + 1)) (leaf v))
                else branch (if k.length = cpl p k + 1 then leaf v else kv (k.drop (cpl p k + 1)) (leaf v))
                    (if p.length = cpl p k + 1 then c else kv (p.drop (cpl p k + 1)) c)) := by
                split
                · exact ⟨hold, hval⟩
                · exact ⟨hval, hold⟩
              split
              · exact hnew
              · next hn0 =>
                refine ⟨fun e => ?_, hnew⟩
                rcases List.take_eq_nil_iff.1 e with h | h
                · exact hn0 h
                · exact hp h
  | branch l r ihl ihr =>
    obtain ⟨hl, hr⟩ := ht
    cases k with
    | nil => simp only [bset] at h; split at h <;> cases h
    | cons b k' =>
      simp only [bset] at h
      split at h
      · split at h
        · cases h
        · cases h; exact wf_mkKv _ _ (by simp) hr
        · next nl hnl => cases h; exact ⟨ihl _ hl nl hnl, hr⟩
      · split at h
        · cases h
        · cases h; exact wf_mkKv _ _ (by simp) hl
        · next nr hnr => cases h; exact ⟨hl, ihr _ hr nr hnr⟩



theorem bget_leaf (v : Bytes) (k : Bits) : bget (leaf v) k = if k = [] then some v else none := rfl
theorem bget_kv (p : Bits) (c : BNode) (k : Bits) :
    bget (kv p c) k = if k = [] then none else if p <+: k then bget c (k.drop p.length) else none := rfl
theorem bget_branch_nil (l r : BNode) : bget (branch l r) [] = none := rfl
theorem bget_branch_cons (l r : BNode) (b : Bool) (k : Bits) :
    bget (branch l r) (b :: k) = if b = false then bget l k else bget r k := rfl

theorem bget_mkKv (p : Bits) (s : BNode) (hs : WF s) (k : Bits) : bget (mkKv p s) k = bget (kv p s) k := by
  cases s with
  | leaf v => rfl
  | branch l r => rfl
  | kv p2 c2 =>
    have hp2 : p2 ≠ [] := hs.1
    simp only [mkKv, bget_kv]
    by_cases hk : k = []
    · simp [hk]
    · simp only [hk, ↓reduceIte]
      by_cases hpre : p <+: k
      · obtain ⟨r, rfl⟩ := hpre
        simp only [List.prefix_append, ↓reduceIte, List.drop_left, List.prefix_append_right_inj,
          List.length_append]
        by_cases hr : r = []
        · subst hr; simp [hp2]
        · simp only [hr, ↓reduceIte]
          by_cases h2 : p2 <+: r
          · obtain ⟨r2, rfl⟩ := h2
            simp
          · simp [h2]
      · have : ¬ (p ++ p2 <+: k) := fun h => hpre ((List.prefix_append _ _).trans h)
        simp [hpre, this]

/-- value node built for the remainder `kt` of the new key -/
def valNode (kt : Bits) (v : Bytes) : BNode := if kt = [] then leaf v else kv kt (leaf v)
def oldNode (pt : Bits) (c : BNode) : BNode := if pt = [] then c else kv pt c

theorem bget_valNode (kt : Bits) (v : Bytes) (r : Bits) :
    bget (valNode kt v) r = if r = kt then some v else none := by
  unfold valNode
  split
  · next h => subst h; rfl
  · next h =>
    simp only [bget_kv, bget_leaf]
    by_cases hr : r = []
    · subst hr; simp; exact h
    · simp only [hr, ↓reduceIte]
      by_cases hp : kt <+: r
      · obtain ⟨x, rfl⟩ := hp
        simp
      · have : r ≠ kt := fun e => hp (e ▸ List.prefix_refl _)
        simp [hp, this]

theorem bget_oldNode (pt : Bits) (c : BNode) (r : Bits) :
    bget (oldNode pt c) r = if pt = [] then bget c r else
      (if r = [] then none else if pt <+: r then bget c (r.drop pt.length) else none) := by
  unfold oldNode; split <;> rfl

theorem cpl_decomp (p k : Bits) (hp : cpl p k < p.length) (hk : cpl p k < k.length) :
    ∃ cm pb pt kb kt, p = cm ++ pb :: pt ∧ k = cm ++ kb :: kt ∧ pb ≠ kb ∧ cm.length = cpl p k := by
  induction p generalizing k with
  | nil => simp at hp
  | cons a as ih =>
    cases k with
    | nil => simp at hk
    | cons b bs =>
      simp only [cpl] at hp hk ⊢
      split at hp
      · next e =>
        subst e
        simp only [↓reduceIte] at hk ⊢
        obtain ⟨cm, pb, pt, kb, kt, h1, h2, h3, h4⟩ := ih bs (by simpa using hp) (by simpa using hk)
        exact ⟨a :: cm, pb, pt, kb, kt, by simp [h1], by simp [h2], h3, by simp [h4]⟩
      · next e =>
        exact ⟨[], a, as, b, bs, rfl, rfl, e, by simp [e]⟩

theorem cpl_append_cons (cm : Bits) (pb kb : Bool) (pt kt : Bits) (h : pb ≠ kb) :
    cpl (cm ++ pb :: pt) (cm ++ kb :: kt) = cm.length := by
  induction cm with
  | nil => simp [cpl, h]
  | cons a as ih => simp [cpl, ih]

theorem bset_ne_none (t : BNode) (k : Bits) (v : Bytes) (hv : v ≠ []) :
    bset t k v false ≠ .ok none := by
  induction t generalizing k with
  | leaf x => simp only [bset]; split <;> simp
  | kv p c ih =>
    simp only [bset]
    split
    · simp
    · simp only [Bool.false_eq_true, false_and, ↓reduceIte]
      split
      · have := ih (k.drop p.length)
        split <;> simp_all
      · simp only [hv, false_or, ↓reduceIte]
        split
        · simp
        · simp
  | branch l r ihl ihr =>
    cases k with
    | nil => simp [bset]
    | cons b k1 =>
      simp only [bset]
      split
      · split <;> simp
      · split <;> simp

/-- map semantics of a successful non-empty store -/
theorem bget_bset (t : BNode) (k : Bits) (v : Bytes) (hv : v ≠ []) (ht : WF t) (t' : BNode)
    (h : bset t k v false = .ok (some t')) (k' : Bits) :
    bget t' k' = if k' = k then some v else bget t k' := by
  induction t generalizing k t' k' with
  | leaf x =>
    simp only [bset] at h
    split at h
    · cases h
    · next hk =>
      have hk : k = [] := by simpa using hk
      subst hk
      simp at h
      cases h
      simp only [bget_leaf]; split <;> simp_all
  | kv p c ih =>
    obtain ⟨hp, hc⟩ := ht
    simp only [bset] at h
    split at h
    · simp at h
    · next hk =>
      simp only [Bool.false_eq_true, false_and, ↓reduceIte] at h
      split at h
      · next hpre =>
        obtain ⟨kr, rfl⟩ := hpre
        simp only [List.drop_left] at h
        split at h
        · cases h
        · cases h
        · next s hs =>
          cases h
          have hws := wf_bset c kr v false hc s hs
          rw [bget_mkKv p s hws, bget_kv, bget_kv]
          by_cases hk' : k' = []
          · subst hk'; simp [hk]
          · simp only [hk', ↓reduceIte]
            by_cases hpre' : p <+: k'
            · obtain ⟨r, rfl⟩ := hpre'
              simp [ih kr hc s hs r]
            · have : k' ≠ p ++ kr := fun e => hpre' (e ▸ List.prefix_append _ _)
              simp [hpre', this]
      · next hpre =>
        simp only [hv, false_or, ↓reduceIte] at h
        split at h
        · cases h
        · next hlen =>
          have hn : cpl p k < p.length := by
            have := cpl_le_left p k
            have : cpl p k ≠ p.length := fun e => hpre ((cpl_eq_length_iff p k).1 e)
            omega
          obtain ⟨cm, pb, pt, kb, kt, rfl, rfl, hne, hcm⟩ := cpl_decomp p k hn (by omega)
          simp only [cpl_append_cons cm pb kb pt kt hne] at h
          have e1 : (cm ++ kb :: kt).length = cm.length + 1 ↔ kt = [] := by simp
          have e2 : (cm ++ pb :: pt).length = cm.length + 1 ↔ pt = [] := by simp
          have e3 : List.drop (cm.length + 1) (cm ++ kb :: kt) = kt := by
            rw [show cm ++ kb :: kt = (cm ++ [kb]) ++ kt by simp]; exact List.drop_left' (by simp)
          have e4 : List.drop (cm.length + 1) (cm ++ pb :: pt) = pt := by
            rw [show cm ++ pb :: pt = (cm ++ [pb]) ++ pt by simp]; exact List.drop_left' (by simp)
          have e5 : (List.drop cm.length (cm ++ kb :: kt)).head? = some kb := by simp
          have e6 : List.take cm.length (cm ++ pb :: pt) = cm := by simp
          have e7 : cm.length = 0 ↔ cm = [] := by simp
          simp only [e1, e2, e3, e4, e5, e6, e7, Option.some.injEq] at h
          cases h
          change bget (if cm = [] then
              (if kb = true then branch (oldNode pt c) (valNode kt v) else branch (valNode kt v) (oldNode pt c))
            else kv cm (if kb = true then branch (oldNode pt c) (valNode kt v) else branch (valNode kt v) (oldNode pt c))) k' = _
          -- reduce to lookups below the common part
          have key : ∀ r, bget (if kb = true then branch (oldNode pt c) (valNode kt v)
                else branch (valNode kt v) (oldNode pt c)) r =
              if r = kb :: kt then some v else bget (kv (pb :: pt) c) r := by
            intro r
            cases r with
            | nil => cases kb <;> simp [bget_branch_nil, bget_kv]
            | cons b r' =>
              cases kb <;> cases pb <;> cases b <;>
                simp_all [bget_branch_cons, bget_valNode, bget_oldNode, bget_kv] <;> grind
          by_cases hcm0 : cm = []
          · subst hcm0; simp only [↓reduceIte, List.nil_append]; exact key k'
          · simp only [hcm0, ↓reduceIte, bget_kv]
            by_cases hk' : k' = []
            · subst hk'; simp; 
            · simp only [hk', ↓reduceIte]
              by_cases hpre' : cm <+: k'
              · obtain ⟨r, rfl⟩ := hpre'
                simp only [List.prefix_append, ↓reduceIte, List.drop_left, key r, bget_kv,
                  List.append_cancel_left_eq, List.prefix_append_right_inj, List.length_append]
                by_cases hr : r = []
                · subst hr; simp
                · simp [hr]
              · have h1 : k' ≠ cm ++ kb :: kt := fun e => hpre' (e ▸ List.prefix_append _ _)
                have h2 : ¬ (cm ++ pb :: pt <+: k') := fun e => hpre' ((List.prefix_append _ _).trans e)
                simp [hpre', h1, h2]
  | branch l r ihl ihr =>
    obtain ⟨hl, hr⟩ := ht
    cases k with
    | nil => simp [bset] at h
    | cons b k1 =>
      simp only [bset] at h
      split at h
      · next hb =>
        subst hb
        split at h
        · cases h
        · next hnone => exact absurd hnone (bset_ne_none l k1 v hv)
        · next nl hnl =>
          cases h
          cases k' with
          | nil => simp [bget_branch_nil]
          | cons b' k2 =>
            simp only [bget_branch_cons]
            cases b' <;> simp [ihl k1 hl nl hnl k2]
      · next hb =>
        have hb : b = true := by simpa using hb
        subst hb
        split at h
        · cases h
        · next hnone => exact absurd hnone (bset_ne_none r k1 v hv)
        · next nr hnr =>
          cases h
          cases k' with
          | nil => simp [bget_branch_nil]
          | cons b' k2 =>
            simp only [bget_branch_cons]
            cases b' <;> simp [ihr k1 hr nr hnr k2]


end PyTrie.Bin
