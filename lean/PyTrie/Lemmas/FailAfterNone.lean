import PyTrie.Model.HexWorld
/-! With no write fault injected (`failAfter = none`) no operation of the executor ever introduces one. -/
namespace PyTrie.HexW
open PyTrie.Hex hiding get set

variable (Hs : Hashing) (blankRootHash : Hash)

theorem write_fa (st st' : Store) (h : Hash) (b : Bytes) (hfa : st.failAfter = none) (hw : st.write h b = some st') :
    st'.failAfter = none := by
  unfold Store.write at hw
  split at hw
  · cases hw; exact hfa
  · rw [hfa] at hw; cases hw; rfl

theorem del_fa (st st' : Store) (h : Hash) (hfa : st.failAfter = none) (hw : st.del h = some st') :
    st'.failAfter = none := by
  unfold Store.del at hw
  split at hw
  · cases hw; exact hfa
  · split at hw
    · cases hw; exact hfa
    · cases hw

theorem setDbValue_fa (p : Bool) (s s' : OpSt) (h : Hash) (b : Bytes) (hfa : s.store.failAfter = none)
    (hw : setDbValue p s h b = .ok s') : s'.store.failAfter = none := by
  unfold setDbValue at hw
  split at hw
  · cases hw
  · next st hst => cases hw; exact write_fa _ _ _ _ hfa hst

theorem runEv_fa (p : Bool) (root key : Bytes) (s s' : OpSt) (e : Ev) (hfa : s.store.failAfter = none)
    (hw : runEv p root key s e = .ok s') : s'.store.failAfter = none := by
  cases e with
  | read h => simp only [runEv] at hw; split at hw <;> cases hw; exact hfa
  | persist h b => exact setDbValue_fa p s s' h b hfa hw
  | prune h => simp only [runEv] at hw; cases hw; split <;> exact hfa

theorem runEvs_fa (p : Bool) (root key : Bytes) (s : OpSt) (es : List Ev) (hfa : s.store.failAfter = none) :
    (runEvs p root key s es).1.store.failAfter = none := by
  induction es generalizing s with
  | nil => exact hfa
  | cons e es ih =>
    simp only [runEvs]
    cases h : runEv p root key s e with
    | ok s' => exact ih s' (runEv_fa p root key s s' e hfa h)
    | error x => exact hfa

theorem pruneStep_fa (s s' : OpSt) (kn : Hash × Nat) (hfa : s.store.failAfter = none)
    (hw : pruneStep s kn = .ok s') : s'.store.failAfter = none := by
  unfold pruneStep at hw
  simp only at hw
  split at hw
  · split at hw
    · cases hw
    · next st hst => cases hw; exact del_fa _ _ _ hfa hst
  · cases hw; exact hfa

theorem completePruning_fa (s : OpSt) (l : List (Hash × Nat)) (hfa : s.store.failAfter = none) :
    (completePruning s l).1.store.failAfter = none := by
  induction l generalizing s with
  | nil => exact hfa
  | cons kn rest ih =>
    simp only [completePruning]
    cases h : pruneStep s kn with
    | ok s' => exact ih s' (pruneStep_fa s s' kn hfa h)
    | error x => exact hfa

theorem schedOldRoot_fa (T : TrieSt) (s : OpSt) (hfa : s.store.failAfter = none) :
    (schedOldRoot Hs blankRootHash T s).store.failAfter = none := by
  unfold schedOldRoot; split <;> exact hfa

theorem opCore_fa (T : TrieSt) (key : Bytes) (val : Option Bytes) (s : OpSt) (hfa : s.store.failAfter = none) :
    (opCore Hs blankRootHash T key val s).1.store.failAfter = none := by
  unfold opCore
  split
  · exact hfa
  · have h1 := runEvs_fa T.prune T.root key s (opTree Hs T key val).2 hfa
    generalize runEvs T.prune T.root key s (opTree Hs T key val).2 = r at h1
    obtain ⟨s1, o⟩ := r
    cases o with
    | some x => exact h1
    | none =>
      simp only
      have h2 := schedOldRoot_fa Hs blankRootHash T s1 h1
      cases hw : writeRoot Hs blankRootHash T (opTree Hs T key val).1 (schedOldRoot Hs blankRootHash T s1) with
      | error x => exact h2
      | ok r =>
        obtain ⟨s3, nr⟩ := r
        have h3 : s3.store.failAfter = none := by
          unfold writeRoot at hw
          split at hw
          · cases hw; exact h2
          · split at hw
            · next s' hs' => cases hw; exact setDbValue_fa _ _ _ _ _ h2 hs'
            · cases hw
        simp only
        have h4 : (finishPrune T s3).1.store.failAfter = none := by
          unfold finishPrune
          split
          · exact completePruning_fa s3 s3.pending h3
          · exact h3
        generalize finishPrune T s3 = q at h4
        obtain ⟨s4, o4⟩ := q
        cases o4 <;> exact h4

/-- `set` / `delete` never introduces a write fault -/
theorem failAfter_none_preserved (T : TrieSt) (key : Bytes) (val : Option Bytes) (s : OpSt)
    (hfa : s.store.failAfter = none) : (opSetDel Hs blankRootHash T key val s).1.store.failAfter = none := by
  unfold opSetDel
  exact opCore_fa Hs blankRootHash T key val { s with pending := [] } hfa

end PyTrie.HexW
