import PyTrie.Model.Iter
import PyTrie.Lemmas.FogProofs
import PyTrie.Lemmas.HexIterProofs
import PyTrie.Lemmas.HexTravProofs
/-! `NodeIterator.nodes()` — the fog + frontier-cache loop — yields exactly the depth-first pre-order
    of the trie (`preorder t []`), for every canonical tree. -/
namespace PyTrie.Hex
open PyTrie.Fog Node

/-- every cache entry `p ↦ (parent, seg)` holds a node of the trie at a prefix `q` with `q ++ seg = p` -/
def CacheOk (t : Node) (c : Frontier Node) : Prop :=
  ∀ p parent seg, Frontier.get c p = some (parent, seg) → ∃ q, q ++ seg = p ∧ nodeAt t q = some parent

/-! ### the frontier cache -/

theorem frontier_get_cons {α : Type} (e : Path × (α × Path)) (c : Frontier α) (q : Path) :
    Frontier.get (e :: c) q = if e.1 = q then some e.2 else Frontier.get c q := by
  by_cases h : e.1 = q <;> simp [Frontier.get, h]

theorem frontier_get_erase_eq {α : Type} (c : Frontier α) (p q : Path) :
    Frontier.get (Frontier.erase c p) q = if q = p then none else Frontier.get c q := by
  induction c with
  | nil => simp [Frontier.get, Frontier.erase]
  | cons e c ih =>
    by_cases h1 : e.1 = p
    · have e1 : Frontier.erase (e :: c) p = Frontier.erase c p := by simp [Frontier.erase, h1]
      rw [e1, ih, frontier_get_cons]
      by_cases hqp : q = p
      · simp [hqp]
      · have : ¬ e.1 = q := fun h' => hqp (h' ▸ h1)
        simp [hqp, this]
    · have e1 : Frontier.erase (e :: c) p = e :: Frontier.erase c p := by simp [Frontier.erase, h1]
      rw [e1, frontier_get_cons, frontier_get_cons, ih]
      by_cases h2 : e.1 = q
      · have : ¬ q = p := fun h' => h1 (h2 ▸ h')
        simp [h2, this]
      · simp [h2]

theorem frontier_get_erase {α : Type} (c : Frontier α) (p q : Path) (v : α × Path)
    (h : Frontier.get (Frontier.erase c p) q = some v) : Frontier.get c q = some v := by
  rw [frontier_get_erase_eq] at h
  split at h
  · cases h
  · exact h

theorem frontier_get_put {α : Type} (c : Frontier α) (p q : Path) (v w : α × Path)
    (h : Frontier.get (Frontier.put c p v) q = some w) : (q = p ∧ w = v) ∨ Frontier.get c q = some w := by
  by_cases hpq : p = q
  · subst hpq
    left
    simpa [Frontier.get, Frontier.put] using h.symm
  · right
    have : Frontier.get (Frontier.erase c p) q = some w := by
      simpa [Frontier.get, Frontier.put, List.find?_cons, hpq] using h
    exact frontier_get_erase c p q w this

theorem cacheOk_nil (t : Node) : CacheOk t [] := by
  intro p parent seg h
  simp [Frontier.get] at h

theorem cacheOk_erase {t : Node} {c : Frontier Node} (hc : CacheOk t c) (p : Path) :
    CacheOk t (Frontier.erase c p) :=
  fun q parent seg h => hc q parent seg (frontier_get_erase c p q _ h)

theorem cacheOk_put {t : Node} {c : Frontier Node} (hc : CacheOk t c) (p seg : Path) (n : Node)
    (hn : nodeAt t p = some n) : CacheOk t (Frontier.put c (p ++ seg) (n, seg)) := by
  intro q parent seg' h
  rcases frontier_get_put c _ q _ _ h with ⟨rfl, h2⟩ | h2
  · cases h2; exact ⟨p, rfl, hn⟩
  · exact hc q parent seg' h2

theorem cacheOk_foldl_put {t : Node} (p : Path) (n : Node) (hn : nodeAt t p = some n) (subs : List Path) :
    ∀ c : Frontier Node, CacheOk t c →
      CacheOk t (subs.foldl (fun acc seg => Frontier.put acc (p ++ seg) (n, seg)) c) := by
  induction subs with
  | nil => intro c hc; exact hc
  | cons s subs ih => intro c hc; exact ih _ (cacheOk_put hc p s n hn)

theorem cacheOk_add {t : Node} {c : Frontier Node} (hc : CacheOk t c) (p : Path) (n : Node)
    (hn : nodeAt t p = some n) (subs : List Path) : CacheOk t (Frontier.add c p n subs) := by
  unfold Frontier.add
  apply cacheOk_foldl_put p n hn
  split
  · exact cacheOk_erase hc p
  · exact hc

theorem cacheOk_delete {t : Node} {c : Frontier Node} (hc : CacheOk t c) (p : Path) :
    CacheOk t (Frontier.delete c p) := cacheOk_erase hc p

/-! ### the fog with its left-most element `p` in front -/

/-- everything in `rest` lies to the right of the whole subtree below `p` -/
def Below (p : Path) (rest : Fog) : Prop := ∀ r ∈ rest, ∀ s, plt (p ++ s) r = true

theorem below_head {p : Path} {rest : Fog} (hb : Below p rest) : ∀ r ∈ rest, plt p r = true := by
  intro r hr
  simpa using hb r hr []

theorem below_append {p : Path} {rest : Fog} (hb : Below p rest) (q : Path) : Below (p ++ q) rest := by
  intro r hr s
  rw [List.append_assoc]
  exact hb r hr (q ++ s)

theorem nearestRight_nil_nil : nearestRight ([] : Fog) [] = .error .perfect := rfl

theorem nearestRight_head (p : Path) (rest : Fog) (h : ∀ r ∈ rest, plt p r = true) :
    nearestRight (p :: rest) [] = .ok p := by
  cases p with
  | cons a p' => simp [nearestRight, bisect]
  | nil =>
    cases rest with
    | nil => simp [nearestRight, bisect]
    | cons r rs =>
      have hr := h r List.mem_cons_self
      simp [nearestRight, bisect, hr]

theorem erase_head (p : Path) (rest : Fog) (h : ∀ r ∈ rest, plt p r = true) :
    erase (p :: rest) p = rest := by
  unfold erase
  rw [List.filter_cons]
  simp only [decide_true, Bool.not_true, Bool.false_eq_true, ↓reduceIte]
  apply List.filter_eq_self.2
  intro r hr
  have := plt_ne (h r hr)
  simp [Ne.symm this]

theorem insert_front (rest : Fog) (x : Path) (h : ∀ r ∈ rest, plt x r = true) :
    insert rest x = x :: rest := by
  cases rest with
  | nil => rfl
  | cons r rs => simp [Fog.insert, h r List.mem_cons_self]

theorem insert_mid (A rest : Fog) (x : Path) (hA : ∀ a ∈ A, plt a x = true)
    (hr : ∀ r ∈ rest, plt x r = true) : insert (A ++ rest) x = A ++ x :: rest := by
  induction A with
  | nil => exact insert_front rest x hr
  | cons a A ih =>
    have ha := hA a List.mem_cons_self
    have h1 : plt x a = false := plt_asymm ha
    have h2 : x ≠ a := (plt_ne ha).symm
    simp [Fog.insert, h1, h2, ih (fun b hb => hA b (List.mem_cons_of_mem _ hb))]

theorem foldl_insert_front (L : Fog) (rest : Fog) (hr : ∀ x ∈ L, ∀ r ∈ rest, plt x r = true) :
    ∀ A : Fog, Sorted (A ++ L) → L.foldl insert (A ++ rest) = A ++ L ++ rest := by
  induction L with
  | nil => intro A _; simp
  | cons x L ih =>
    intro A hs
    have hp := List.pairwise_append.1 hs
    rw [List.foldl_cons, insert_mid A rest x (fun a ha => hp.2.2 a ha x List.mem_cons_self)
      (hr x List.mem_cons_self)]
    have hs' : Sorted ((A ++ [x]) ++ L) := by simpa using hs
    have := ih (fun y hy => hr y (List.mem_cons_of_mem _ hy)) (A ++ [x]) hs'
    simpa using this

theorem explore_head (p : Path) (rest : Fog) (subs : List Path) (hb : ∀ r ∈ rest, plt p r = true)
    (hnd : subs.Nodup) (hanti : ∀ a ∈ subs, ∀ b ∈ subs, a <+: b → a = b) :
    explore (p :: rest) p subs = .ok ((subs.map (p ++ ·)).foldl insert rest) := by
  rw [explore_eq_ok_iff]
  refine ⟨⟨List.mem_cons_self, hnd, hanti⟩, ?_⟩
  rw [erase_head p rest hb]

/-! ### nodes and traversals -/

theorem annotate_raw (n : Node) : (annotate n).raw = n := by cases n <;> rfl

theorem traverseT_of_nodeAt {t : Node} {p : Path} {n : Node} (h : nodeAt t p = some n) :
    traverseT t p = (n, []) := by
  have := traverseT_nodeAt t p n h []
  rw [traverseT_nil, List.append_nil] at this
  exact this.symm

theorem traverseOut_of_traverseT {t : Node} {p : Path} {n : Node} (h : traverseT t p = (n, [])) :
    traverseOut t p = .node (annotate n) := by
  simp [traverseOut, h]

theorem nodeAt_ext_of_ne (q : Path) (c : Node) (k : Path) (hk : k ≠ []) :
    nodeAt (ext q c) k = if q <+: k then nodeAt c (k.drop q.length) else none := by
  cases k with
  | nil => exact absurd rfl hk
  | cons a r => rfl

theorem nodeAt_append (t : Node) (p : Path) (n : Node) (hn : nodeAt t p = some n) (s : Path) (m : Node)
    (hm : nodeAt n s = some m) : nodeAt t (p ++ s) = some m := by
  induction t generalizing p with
  | blank =>
    cases p with
    | nil => simp [nodeAt] at hn; subst hn; simpa using hm
    | cons a r => simp [nodeAt] at hn
  | leaf q v =>
    cases p with
    | nil => simp [nodeAt] at hn; subst hn; simpa using hm
    | cons a r => simp [nodeAt] at hn
  | ext q c ih =>
    cases p with
    | nil => simp [nodeAt] at hn; subst hn; simpa using hm
    | cons a r =>
      simp only [nodeAt] at hn
      split at hn
      · next hq =>
        obtain ⟨r', hr'⟩ := hq
        rw [← hr'] at hn ⊢
        simp only [List.drop_left] at hn
        have hne : q ++ r' ++ s ≠ [] := by rw [hr']; simp
        rw [nodeAt_ext_of_ne _ _ _ hne, List.append_assoc, if_pos (List.prefix_append _ _),
          List.drop_left]
        exact ih r' hn
      · simp at hn
  | branch ch v ih =>
    cases p with
    | nil => simp [nodeAt] at hn; subst hn; simpa using hm
    | cons a r =>
      simp only [nodeAt] at hn
      simpa [nodeAt] using ih a r hn

/-! ### one iteration of the loop -/

theorem nodesLoop_nil (t : Node) (k : Nat) (cache : Frontier Node) : nodesLoop t k [] cache = [] := by
  cases k with
  | zero => rfl
  | succ k => simp [nodesLoop, nearestRight_nil_nil]

theorem nodesLoop_step (t n : Node) (f : Nat) (fog fog' : Fog) (cache : Frontier Node) (p : Path)
    (hnr : nearestRight fog [] = .ok p) (hn : nodeAt t p = some n) (hc : CacheOk t cache)
    (he : explore fog p (annotate n).subs = .ok fog') :
    ∃ cache', CacheOk t cache' ∧
      nodesLoop t (f + 1) fog cache = (p, n) :: nodesLoop t f fog' cache' := by
  have htr := traverseT_of_nodeAt hn
  refine ⟨if (annotate n).subs ≠ [] then Frontier.add cache p n (annotate n).subs
      else Frontier.delete cache p, ?_, ?_⟩
  · split
    · exact cacheOk_add hc p n hn _
    · exact cacheOk_delete hc p
  · rw [nodesLoop]
    simp only [hnr]
    cases hg : Frontier.get cache p with
    | none =>
      simp only [traverseOut_of_traverseT htr, he, annotate_raw]
    | some v =>
      obtain ⟨parent, seg⟩ := v
      obtain ⟨q, hq, hpar⟩ := hc p parent seg hg
      have h2 : traverseT parent seg = (n, []) := by
        rw [traverseT_nodeAt t q parent hpar seg, hq]; exact htr
      simp only [traverseOut_of_traverseT h2, he, annotate_raw]

/-! ### a whole subtree -/

/-- with the unexplored prefix `p` of the node `n` at the front of the fog and everything else to the
    right of the subtree, the loop emits the pre-order of `n` and continues with the rest -/
def LoopOn (t n : Node) : Prop :=
  ∀ (p : Path) (rest : Fog) (cache : Frontier Node) (k : Nat),
    nodeAt t p = some n → CacheOk t cache → Below p rest →
    ∃ cache', CacheOk t cache' ∧
      nodesLoop t ((preorder n p).length + k) (p :: rest) cache =
        preorder n p ++ nodesLoop t k rest cache'

theorem loopOn_nosubs (t n : Node) (hsubs : (annotate n).subs = [])
    (hpre : ∀ p, preorder n p = [(p, n)]) : LoopOn t n := by
  intro p rest cache k hn hc hb
  have hh := below_head hb
  have he : explore (p :: rest) p (annotate n).subs = .ok rest := by
    rw [hsubs, explore_head p rest [] hh (by simp) (by simp)]; rfl
  obtain ⟨cache', hc', h⟩ := nodesLoop_step t n k (p :: rest) rest cache p
    (nearestRight_head p rest hh) hn hc he
  refine ⟨cache', hc', ?_⟩
  rw [hpre p]
  simpa [Nat.add_comm] using h

theorem loopOn_ext (t : Node) (q : Path) (c : Node) (hq : q ≠ []) (ih : LoopOn t c) :
    LoopOn t (ext q c) := by
  intro p rest cache k hn hc hb
  have hh := below_head hb
  have he : explore (p :: rest) p (annotate (ext q c)).subs = .ok ((p ++ q) :: rest) := by
    have : (annotate (ext q c)).subs = [q] := rfl
    rw [this, explore_head p rest [q] hh (by simp) (by simp)]
    simp only [List.map_cons, List.map_nil, List.foldl_cons, List.foldl_nil]
    rw [insert_front rest (p ++ q) (fun r hr => hb r hr q)]
  obtain ⟨cache1, hc1, h1⟩ := nodesLoop_step t (ext q c) ((preorder c (p ++ q)).length + k)
    (p :: rest) ((p ++ q) :: rest) cache p (nearestRight_head p rest hh) hn hc he
  have hnc : nodeAt t (p ++ q) = some c := by
    apply nodeAt_append t p _ hn q c
    rw [nodeAt_ext_of_ne q c q hq]
    simp [nodeAt_nil]
  obtain ⟨cache2, hc2, h2⟩ := ih (p ++ q) rest cache1 k hnc hc1 (below_append hb q)
  refine ⟨cache2, hc2, ?_⟩
  have hlen : (preorder (ext q c) p).length + k = (preorder c (p ++ q)).length + k + 1 := by
    simp [preorder]; omega
  rw [hlen, h1, h2]
  simp [preorder]

/-! ### the children of a branch, left to right -/

theorem below_child {p : Path} {rest : Fog} (hb : Below p rest) (i : Nib) (is : List Nib)
    (hi : ∀ j ∈ is, i < j) : Below (p ++ [i]) (is.map (fun j => p ++ [j]) ++ rest) := by
  intro r hr s
  rcases List.mem_append.1 hr with hr | hr
  · obtain ⟨j, hj, rfl⟩ := List.mem_map.1 hr
    rw [List.append_assoc, plt_append_left]
    exact (plt_cons _ _ _ _).2 (Or.inl (hi j hj))
  · exact below_append hb [i] r hr s

theorem loop_children (t : Node) (ch : Nib → Node) (p : Path) (ih : ∀ i, LoopOn t (ch i))
    (hn : ∀ i, nodeAt t (p ++ [i]) = some (ch i)) (rest : Fog) (hb : Below p rest) :
    ∀ (is : List Nib), is.Pairwise (· < ·) → ∀ (cache : Frontier Node) (k : Nat), CacheOk t cache →
      ∃ cache', CacheOk t cache' ∧
        nodesLoop t ((is.flatMap fun i => preorder (ch i) (p ++ [i])).length + k)
            (is.map (fun j => p ++ [j]) ++ rest) cache =
          (is.flatMap fun i => preorder (ch i) (p ++ [i])) ++ nodesLoop t k rest cache' := by
  intro is
  induction is with
  | nil => intro _ cache k hc; exact ⟨cache, hc, by simp⟩
  | cons i is ihs =>
    intro hp cache k hc
    have ⟨hi, hp'⟩ := List.pairwise_cons.1 hp
    obtain ⟨cache1, hc1, h1⟩ := ih i (p ++ [i]) (is.map (fun j => p ++ [j]) ++ rest) cache
      ((is.flatMap fun i => preorder (ch i) (p ++ [i])).length + k) (hn i) hc (below_child hb i is hi)
    obtain ⟨cache2, hc2, h2⟩ := ihs hp' cache1 k hc1
    refine ⟨cache2, hc2, ?_⟩
    simp only [List.flatMap_cons, List.length_append, List.map_cons, List.cons_append,
      List.append_assoc]
    rw [Nat.add_assoc, h1, h2]

theorem flatMap_filter_eq {α β : Type} (l : List α) (f : α → Bool) (g : α → List β) :
    (l.filter f).flatMap g = l.flatMap (fun x => if f x then g x else []) := by
  induction l with
  | nil => rfl
  | cons x l ih =>
    by_cases h : f x <;> simp [h, ih]

theorem preorder_branch_live (ch : Nib → Node) (v : Bytes) (p : Path) :
    preorder (branch ch v) p =
      (p, branch ch v) :: (liveIdx ch).flatMap fun i => preorder (ch i) (p ++ [i]) := by
  rw [preorder, liveIdx, flatMap_filter_eq]
  refine congrArg _ (congrArg (fun f => List.flatMap f (List.finRange 16)) (funext fun i => ?_))
  cases isBlank (ch i) <;> simp

theorem liveIdx_pairwise (ch : Nib → Node) : (liveIdx ch).Pairwise (· < ·) :=
  (List.pairwise_lt_finRange 16).sublist List.filter_sublist

theorem sorted_children (p : Path) (is : List Nib) (h : is.Pairwise (· < ·)) :
    Sorted (is.map (fun j => p ++ [j])) := by
  unfold Sorted
  rw [List.pairwise_map]
  refine h.imp ?_
  intro a b hab
  rw [plt_append_left]
  exact (plt_cons _ _ _ _).2 (Or.inl hab)

theorem loopOn_branch (t : Node) (ch : Nib → Node) (v : Bytes) (ih : ∀ i, LoopOn t (ch i)) :
    LoopOn t (branch ch v) := by
  intro p rest cache k hn hc hb
  have hh := below_head hb
  have hsubs : (annotate (branch ch v)).subs = (liveIdx ch).map (fun i => [i]) := rfl
  have he : explore (p :: rest) p (annotate (branch ch v)).subs =
      .ok ((liveIdx ch).map (fun j => p ++ [j]) ++ rest) := by
    rw [hsubs, explore_head p rest _ hh]
    · rw [List.map_map]
      have := foldl_insert_front ((liveIdx ch).map (fun j => p ++ [j])) rest ?_ []
        (by simpa using sorted_children p _ (liveIdx_pairwise ch))
      · simp only [List.nil_append] at this
        exact congrArg Except.ok this
      · intro x hx r hr
        obtain ⟨j, _, rfl⟩ := List.mem_map.1 hx
        exact hb r hr [j]
    · rw [List.Nodup, List.pairwise_map]
      exact (liveIdx_nodup ch).imp (fun h e => h (by simpa using e))
    · intro a ha b hb' hab
      obtain ⟨i, _, rfl⟩ := List.mem_map.1 ha
      obtain ⟨j, _, rfl⟩ := List.mem_map.1 hb'
      exact hab.eq_of_length rfl
  obtain ⟨cache1, hc1, h1⟩ := nodesLoop_step t (branch ch v)
    (((liveIdx ch).flatMap fun i => preorder (ch i) (p ++ [i])).length + k)
    (p :: rest) _ cache p (nearestRight_head p rest hh) hn hc he
  have hnc : ∀ i, nodeAt t (p ++ [i]) = some (ch i) := by
    intro i
    apply nodeAt_append t p _ hn [i] (ch i)
    simp [nodeAt, nodeAt_nil]
  obtain ⟨cache2, hc2, h2⟩ := loop_children t ch p ih hnc rest hb (liveIdx ch) (liveIdx_pairwise ch)
    cache1 k hc1
  refine ⟨cache2, hc2, ?_⟩
  rw [preorder_branch_live]
  simp only [List.length_cons]
  rw [show ∀ a : Nat, a + 1 + k = a + k + 1 by omega, h1, h2]
  rfl

theorem loopOn (t n : Node) (hc : Canon n) : LoopOn t n := by
  induction n with
  | blank => exact loopOn_nosubs t blank rfl (fun _ => rfl)
  | leaf q v => exact loopOn_nosubs t (leaf q v) rfl (fun _ => rfl)
  | ext q c ih => exact loopOn_ext t q c hc.1 (ih hc.2.2)
  | branch ch v ih => exact loopOn_branch t ch v (fun i => ih i (hc.1 i))

/-- with enough fuel the loop of `nodes()` produces the pre-order sequence: every node once, parents
    before children, children left to right, each the node `traverse(prefix)` returns -/
theorem nodesOf_eq_preorder (t : Node) (hc : Canon t) (fuel : Nat) (hf : (preorder t []).length < fuel) :
    nodesOf t fuel = preorder t [] := by
  obtain ⟨k, rfl⟩ : ∃ k, fuel = (preorder t []).length + k := ⟨fuel - (preorder t []).length, by omega⟩
  obtain ⟨cache', _, h⟩ := loopOn t t hc [] [] [] k (nodeAt_nil t) (cacheOk_nil t)
    (by intro r hr; simp at hr)
  unfold nodesOf Fog.init
  rw [h, nodesLoop_nil, List.append_nil]

end PyTrie.Hex
