import PyTrie.Lemmas.WalkDRun
import PyTrie.Lemmas.WalkDDefined
import PyTrie.Lemmas.VersionsConsistent
/-! A fog-guided walk interleaved with a history of `set` / `delete` calls of the executor (pruning on or off): the steps
    of the walk see the executor's database and root as they are at that moment. The premise `SchedOk` of the raw-level
    walk theorems is discharged from the run-level premise `ReachVersions` of the history; hence the walk over the
    executor's own databases never raises, is sound, and finds every stable key. -/
namespace PyTrie.HexFree
open PyTrie PyTrie.Hex PyTrie.HexD PyTrie.HexW PyTrie.HexRaw PyTrie.Fog PyTrie.Walk
open PyTrie.Props.C01 (Op run spec applyOp)

variable (H : Bytes → Bytes)

/-- an event of the interleaving: a mutation of the trie, or a step of the walk at a prefix -/
inductive WEv where
  | op (o : Op)
  | step (p : Path)

def opsOf : List WEv → List Op
  | [] => []
  | .op o :: r => o :: opsOf r
  | .step _ :: r => opsOf r

/-- the steps of the walk with what the executor's state is at each of them (a call that raises leaves the trie as it was) -/
def schedOf : TrieSt → OpSt → List WEv → List StepT
  | _, _, [] => []
  | T, s, .step p :: r => ⟨s.store.base, T.root, T.tree, p⟩ :: schedOf T s r
  | T, s, .op o :: r =>
    match opSetDel (stdHashing H) (blankRoot H) T (opKey o) (opVal o) s with
    | (s', .ok T') => schedOf T' s' r
    | (s', .error _) => schedOf T s' r

def initT (prune : Bool) : TrieSt := { tree := .blank, root := blankRoot H, prune := prune }
def initS : OpSt := { store := { base := [], cache := none, failAfter := none }, counts := [], pending := [] }

/-! ### the state of the executor after the events -/

/-- the executor's state after the events (same recursion as `schedOf`) -/
def stateOf : TrieSt → OpSt → List WEv → TrieSt × OpSt
  | T, s, [] => (T, s)
  | T, s, .step _ :: r => stateOf T s r
  | T, s, .op o :: r =>
    match opSetDel (stdHashing H) (blankRoot H) T (opKey o) (opVal o) s with
    | (s', .ok T') => stateOf T' s' r
    | (s', .error _) => stateOf T s' r

theorem opsOf_append (a b : List WEv) : opsOf (a ++ b) = opsOf a ++ opsOf b := by
  induction a with
  | nil => rfl
  | cons e a ih =>
    cases e with
    | op o => simp only [List.cons_append, opsOf, ih]
    | step p => simp only [List.cons_append, opsOf, ih]

theorem schedOf_append (a b : List WEv) : ∀ (T : TrieSt) (s : OpSt),
    schedOf H T s (a ++ b) = schedOf H T s a ++ schedOf H (stateOf H T s a).1 (stateOf H T s a).2 b := by
  induction a with
  | nil => intro T s; rfl
  | cons e a ih =>
    intro T s
    cases e with
    | step p => simp only [List.cons_append, schedOf, stateOf, ih]
    | op o =>
      simp only [List.cons_append, schedOf, stateOf]
      rcases hq : opSetDel (stdHashing H) (blankRoot H) T (opKey o) (opVal o) s with ⟨s', r⟩
      cases r with
      | ok T' => simp only [ih]
      | error e => simp only [ih]

theorem stateOf_append (a b : List WEv) : ∀ (T : TrieSt) (s : OpSt),
    stateOf H T s (a ++ b) = stateOf H (stateOf H T s a).1 (stateOf H T s a).2 b := by
  induction a with
  | nil => intro T s; rfl
  | cons e a ih =>
    intro T s
    cases e with
    | step p => simp only [List.cons_append, stateOf, ih]
    | op o =>
      simp only [List.cons_append, stateOf]
      rcases hq : opSetDel (stdHashing H) (blankRoot H) T (opKey o) (opVal o) s with ⟨s', r⟩
      cases r with
      | ok T' => simp only [ih]
      | error e => simp only [ih]

/-- the two physical side conditions hold at every state of a `ReachVersions` history -/
theorem reachVersions_side (prune : Bool) (ops : List Op) (T : TrieSt) (s : OpSt)
    (h : ReachVersions H prune ops T s) :
    Dict.get? s.store.base (blankRoot H) = none ∧
    (∀ h b, Dict.get? s.store.base h = some b → b.length < 2 ^ 64) := by
  cases h with
  | init => exact ⟨rfl, fun h b hg => by cases hg⟩
  | step ops T s o T' _ _ _ _ _ hbk hsm _ => exact ⟨hbk, hsm⟩

/-- snoc inversion of a history -/
theorem reachVersions_snoc_inv (prune : Bool) (ops : List Op) (o : Op) (T' : TrieSt) (s' : OpSt)
    (h : ReachVersions H prune (ops ++ [o]) T' s') :
    ∃ T s, ReachVersions H prune ops T s ∧
      s' = (opSetDel (stdHashing H) (blankRoot H) T (opKey o) (opVal o) s).1 ∧
      (opSetDel (stdHashing H) (blankRoot H) T (opKey o) (opVal o) s).2 = .ok T' := by
  generalize hq : ops ++ [o] = l at h
  cases h with
  | init => simp at hq
  | step ops0 T s o0 T' hr _ _ _ _ _ _ hok =>
    obtain ⟨h1, h2⟩ := List.append_inj' hq rfl
    cases h2
    subst h1
    exact ⟨T, s, hr, rfl, hok⟩

/-- the per-step facts at a state of the history -/
theorem step_facts (prune : Bool) (ops : List Op) (T : TrieSt) (s : OpSt)
    (h : ReachVersions H prune ops T s) :
    T.tree = run ops ∧ Canon T.tree ∧ RootPartial H s.store.base T.root T.tree ∧
    (isBlank T.tree = false → (lookup s.store.base T.root).isSome) ∧ StoredD H s.store.base T.tree := by
  have hnc := reachVersions_nc H prune ops T s h
  obtain ⟨hbk, hsm⟩ := reachVersions_side H prune ops T s h
  have hcomp := reachOpsNC_complete (stdHashing H) (blankRoot H) prune ops T s hnc
  have htree : T.tree = run ops :=
    (reachOps_tree (stdHashing H) (blankRoot H) prune ops T s
      (reachOpsNC_reachOps (stdHashing H) (blankRoot H) prune ops T s hnc)).1
  have hcanon : Canon T.tree := htree ▸ PyTrie.Props.C01.canon_run ops
  have hag : DbAgrees s.store.base s.store.base := fun _ => rfl
  have hst : StoredD H s.store.base T.tree := storedD_of_storedBelow H hag hbk hsm T.tree hcomp.2
  have hp := partial_of_complete H T s.store.base hcomp hbk hsm
  refine ⟨htree, hcanon, hp.1, ?_, hst⟩
  intro hb
  have h1 := hcomp.1
  rw [hb] at h1
  simp only [Bool.false_eq_true, if_false] at h1
  obtain ⟨_, _, hg⟩ := h1
  show (Dict.get? s.store.base T.root).isSome
  rw [hg]; rfl

/-- `SchedOk` in the form that composes over `++` -/
def SchedOk' (sched : List StepT) : Prop :=
  (∀ e ∈ sched, Canon e.t ∧ RootPartial H e.db e.root e.t ∧ (isBlank e.t = false → (lookup e.db e.root).isSome) ∧
      StoredD H e.db e.t) ∧
  sched.Pairwise (fun e e' => PartialD H e'.db e.t)

theorem schedOk_of' (sched : List StepT) (h : SchedOk' H sched) : SchedOk H sched := by
  obtain ⟨h1, h2⟩ := h
  refine ⟨h1, ?_⟩
  intro i j hi hj
  rcases Nat.lt_or_eq_of_le hi with hlt | rfl
  · exact (List.pairwise_iff_getElem.1 h2) i j (by omega) hj hlt
  · exact storedD_partialD H _ _ (h1 _ (List.getElem_mem hj)).2.2.2

/-- the whole invariant, by snoc induction on the events (stated for the reversed list) -/
theorem history_inv (prune : Bool) (rev : List WEv) : ∀ (T : TrieSt) (s : OpSt),
    ReachVersions H prune (opsOf rev.reverse) T s →
    stateOf H (initT H prune) initS rev.reverse = (T, s) ∧
    SchedOk' H (schedOf H (initT H prune) initS rev.reverse) ∧
    (∀ e ∈ schedOf H (initT H prune) initS rev.reverse,
      ∃ i, i ≤ (opsOf rev.reverse).length ∧ e.t = run ((opsOf rev.reverse).take i)) := by
  induction rev with
  | nil =>
    intro T s h
    simp only [List.reverse_nil, opsOf] at h
    generalize hq : ([] : List Op) = l at h
    cases h with
    | init =>
      refine ⟨rfl, ⟨?_, List.Pairwise.nil⟩, ?_⟩
      · intro e he; cases he
      · intro e he; cases he
    | step ops T s o T' _ _ _ _ _ _ _ _ => simp at hq
  | cons ev rev ih =>
    intro T s h
    simp only [List.reverse_cons] at h ⊢
    rw [opsOf_append] at h ⊢
    rw [schedOf_append, stateOf_append]
    cases ev with
    | step p =>
      simp only [opsOf, List.append_nil] at h ⊢
      obtain ⟨hst, ⟨hok1, hok2⟩, hver⟩ := ih T s h
      rw [hst]
      simp only [stateOf, schedOf]
      obtain ⟨htree, hcanon, hroot, hrootIn, hstored⟩ := step_facts H prune _ T s h
      refine ⟨trivial, ⟨?_, ?_⟩, ?_⟩
      · intro e he
        rcases List.mem_append.1 he with he | he
        · exact hok1 e he
        · simp only [List.mem_singleton] at he
          subst he
          exact ⟨hcanon, hroot, hrootIn, hstored⟩
      · rw [List.pairwise_append]
        refine ⟨hok2, List.pairwise_singleton _ _, ?_⟩
        intro a ha b hb
        simp only [List.mem_singleton] at hb
        subst hb
        obtain ⟨i, hi, hta⟩ := hver a ha
        rw [hta]
        exact (all_versions_consistent H prune _ T s h i hi).2
      · intro e he
        rcases List.mem_append.1 he with he | he
        · exact hver e he
        · simp only [List.mem_singleton] at he
          subst he
          exact ⟨_, Nat.le_refl _, by rw [List.take_length]; exact htree⟩
    | op o =>
      simp only [opsOf] at h ⊢
      obtain ⟨T0, s0, hr, hs', hok⟩ := reachVersions_snoc_inv H prune _ o T s h
      obtain ⟨hst, hok', hver⟩ := ih T0 s0 hr
      rw [hst]
      have hq : opSetDel (stdHashing H) (blankRoot H) T0 (opKey o) (opVal o) s0 = (s, .ok T) := by
        rw [hs', ← hok]
      simp only [stateOf, schedOf, hq, List.append_nil]
      refine ⟨trivial, hok', ?_⟩
      intro e he
      obtain ⟨i, hi, hte⟩ := hver e he
      refine ⟨i, by simp only [List.length_append]; omega, ?_⟩
      rw [List.take_append_of_le_length hi]
      exact hte

set_option linter.unusedVariables false in -- `hlen` is kept for uniformity with the raw-level theorems
/-- **`SchedOk` holds along every executor history** -/
theorem schedOk_of_history (hlen : ∀ b, (H b).length = 32) (prune : Bool) (evs : List WEv) (T : TrieSt) (s : OpSt)
    (h : ReachVersions H prune (opsOf evs) T s) :
    SchedOk H (schedOf H (initT H prune) initS evs) := by
  have := history_inv H prune evs.reverse T s (by rw [List.reverse_reverse]; exact h)
  rw [List.reverse_reverse] at this
  exact schedOk_of' H _ this.2.1

/-- every version a step of the schedule sees is the tree of a prefix of the history -/
theorem schedOf_versions (prune : Bool) (evs : List WEv) (T : TrieSt) (s : OpSt)
    (h : ReachVersions H prune (opsOf evs) T s) :
    ∀ e ∈ schedOf H (initT H prune) initS evs, ∃ i, i ≤ (opsOf evs).length ∧ e.t = run ((opsOf evs).take i) := by
  have := history_inv H prune evs.reverse T s (by rw [List.reverse_reverse]; exact h)
  rw [List.reverse_reverse] at this
  exact this.2.2

/-- **the walk over the executor's own databases**: never raises; sound; finds every key whose value is the same after
    every prefix of the history -/
theorem walk_over_history (hlen : ∀ b, (H b).length = 32) (prune : Bool) (evs : List WEv) (T : TrieSt) (s : OpSt)
    (h : ReachVersions H prune (opsOf evs) T s) :
    let sched := schedOf H (initT H prune) initS evs
    (crunDR H cstartD (sched.map StepT.toD) = .ok none) ∨
    ∃ s' : CState, crunDR H cstartD (sched.map StepT.toD) = .ok (some (toCD H s')) ∧
      (∀ k v, (k, v) ∈ s'.met → v ≠ [] ∧ ∃ i, i ≤ (opsOf evs).length ∧ get (run ((opsOf evs).take i)) k = v) ∧
      -- the versions that count are the ones the walk's steps saw (the trie at the moments of the steps)
      (s'.fog = [] → ∀ k val, val ≠ [] → (∀ e ∈ sched, get e.t k = val) → (k, val) ∈ s'.met) := by
  intro sched
  rcases crunDR_is_tree_run H hlen sched (schedOk_of_history H hlen prune evs T s h) with hn | ⟨s', hrun, hsound, hfind⟩
  · exact Or.inl hn
  · refine Or.inr ⟨s', hrun, ?_, hfind⟩
    intro k v hm
    obtain ⟨e, he, hne, hg⟩ := hsound k v hm
    obtain ⟨i, hi, hte⟩ := schedOf_versions H prune evs T s h e he
    exact ⟨hne, i, hi, by rw [← hte]; exact hg⟩

/-- … and when every prefix is taken from the fog of that moment the walk runs to the end of the schedule -/
theorem walk_over_history_never_stuck (hlen : ∀ b, (H b).length = 32) (prune : Bool) (evs : List WEv) (T : TrieSt) (s : OpSt)
    (h : ReachVersions H prune (opsOf evs) T s)
    (hfog : InFogRun H cstartD ((schedOf H (initT H prune) initS evs).map StepT.toD)) :
    ∃ s' : CState, crunDR H cstartD ((schedOf H (initT H prune) initS evs).map StepT.toD) = .ok (some (toCD H s')) :=
  crunDR_defined H hlen _ (schedOk_of_history H hlen prune evs T s h) hfog

end PyTrie.HexFree
