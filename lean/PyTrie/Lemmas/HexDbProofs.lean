import PyTrie.Lemmas.HexTrav
import PyTrie.Model.HexDb
/-! Layer D ↔ Layer T: reading a canonical tree back through a database of encoded nodes.
    No assumption on the hash function beyond its 32-byte output; collisions are excluded by
    run-level predicates about the concrete database (`Resolves`, `Compatible`). -/
namespace PyTrie.HexD
open PyTrie.Hex PyTrie.Hex.Node

theorem toNat_pack (a b : Nat) (ha : a < 16) (hb : b < 16) : (UInt8.ofNat (a * 16 + b)).toNat = a * 16 + b := by
  simp; omega

theorem toNib_val (a : Nib) : toNib a.val = a := by
  simp [toNib]

def unpack (bs : Bytes) : Path := bs.flatMap fun x => [toNib (x.toNat / 16), toNib (x.toNat % 16)]

theorem unpack_pack : ∀ (l : Path), l.length % 2 = 0 → unpack (packNibs (l.map (·.val))) = l
  | [], _ => rfl
  | [a], h => by simp at h
  | a :: b :: r, h => by
    have ih := unpack_pack r (by simp at h; omega)
    simp only [unpack] at ih ⊢
    simp only [List.map_cons, packNibs, List.flatMap_cons, ih, toNat_pack a.val b.val a.isLt b.isLt]
    have h1 : (a.val * 16 + b.val) / 16 = a.val := by omega
    have h2 : (a.val * 16 + b.val) % 16 = b.val := by omega
    simp [h1, h2, toNib_val]

theorem hpDecode_pack (f x : Nat) (hf : f < 16) (hx : x < 16) (l : Path) (hl : l.length % 2 = 0) :
    hpDecode (packNibs (f :: x :: l.map (·.val))) =
      some (if f = 1 ∨ f = 3 then toNib x :: l else l, decide (f = 2 ∨ f = 3)) := by
  have := unpack_pack l hl
  simp only [unpack] at this
  have h1 : (f * 16 + x) / 16 = f := by omega
  have h2 : (f * 16 + x) % 16 = x := by omega
  simp only [packNibs, hpDecode, this, toNat_pack f x hf hx, h1, h2]

theorem hpDecode_hp (p : Path) (t : Bool) : hpDecode (hp p t) = some (p, t) := by
  unfold hp
  simp only [List.length_map]
  by_cases hodd : p.length % 2 = 1
  · simp only [hodd, ↓reduceIte]
    match p, hodd with
    | a :: r, hodd =>
      have hr : r.length % 2 = 0 := by simp at hodd; omega
      rw [List.map_cons, hpDecode_pack _ _ (by split <;> omega) a.isLt r hr]
      cases t <;> simp [toNib_val]
  · simp only [hodd, ↓reduceIte]
    have hr : p.length % 2 = 0 := by omega
    rw [hpDecode_pack _ _ (by split <;> omega) (by omega) p hr]
    cases t <;> simp

variable (H : Bytes → Bytes)

/-- the decoder inverts the encoder on the nodes on the key's path (the only ones ever decoded) -/
def DecOkOn (t : Node) (k : Path) : Prop := ∀ n ∈ getProof t k, rlpDecode (enc H n) = some (toItem H n)

/-- the database answers for node `n` with its encoding, and its hash is not mistaken for the blank root -/
def Resolves (db : Db) (n : Node) : Prop :=
  hashOf H n ≠ blankRoot H ∧ lookup db (hashOf H n) = some (enc H n)

/-- whatever the database holds under the hash of `n` is the encoding of `n` (it may hold nothing) -/
def Compatible (db : Db) (n : Node) : Prop :=
  hashOf H n ≠ blankRoot H ∧ ∀ b, lookup db (hashOf H n) = some b → b = enc H n

/-- `n` is stored under its hash: the root always, other nodes when their encoding has ≥ 32 bytes -/
def Stored (t n : Node) : Prop := n = t ∨ isHashed H n = true

/-- the 17 items of an encoded branch -/
def brItems (ch : Nib → Node) (v : Bytes) : List Item :=
  (List.finRange 16).map (fun i => refOf H (ch i)) ++ [.str v]

theorem brItems_length (ch : Nib → Node) (v : Bytes) : (brItems H ch v).length = 17 := by
  simp [brItems]

theorem brItems_getD (ch : Nib → Node) (v : Bytes) (a : Nib) :
    (brItems H ch v).getD a.val (.str []) = refOf H (ch a) := by
  have : a.val < ((List.finRange 16).map (fun i => refOf H (ch i))).length := by simp
  simp [brItems, List.getD_eq_getElem?_getD, List.getElem?_append_left this]

theorem brItems_getD_16 (ch : Nib → Node) (v : Bytes) :
    (brItems H ch v).getD 16 (.str []) = .str v := by
  simp [brItems, List.getD_eq_getElem?_getD]

theorem toItem_branch (ch : Nib → Node) (v : Bytes) : toItem H (branch ch v) = .list (brItems H ch v) := rfl

theorem classify_blank : classify (toItem H blank) = .blank := by
  simp [toItem, classify]

theorem classify_leaf (p : Path) (v : Bytes) : classify (toItem H (leaf p v)) = .leaf p (.str v) := by
  simp [toItem, classify, hpDecode_hp]

theorem classify_ext (p : Path) (c : Node) : classify (toItem H (ext p c)) = .ext p (refOf H c) := by
  simp [toItem, classify, hpDecode_hp, refOf]

theorem classify_list17 (l : List Item) (h : l.length = 17) : classify (.list l) = .branch l := by
  unfold classify
  split
  · next heq => cases heq
  · next heq => cases heq
  · next heq => cases heq; simp at h
  · next heq => cases heq; simp [h]
  
theorem classify_branch (ch : Nib → Node) (v : Bytes) :
    classify (toItem H (branch ch v)) = .branch (brItems H ch v) := 
  classify_list17 _ (brItems_length H ch v)


theorem toItem_list (c : Node) (hb : isBlank c = false) : ∃ l, toItem H c = .list l := by
  cases c with
  | blank => simp [isBlank] at hb
  | leaf p v => exact ⟨_, rfl⟩
  | ext p c => exact ⟨_, rfl⟩
  | branch ch v => exact ⟨_, rfl⟩

theorem getNode_hash (hlen : ∀ b, (H b).length = 32) (db : Db) (n : Node)
    (hne : hashOf H n ≠ blankRoot H) :
    getNode H db (.str (hashOf H n)) =
      match lookup db (hashOf H n) with
      | none => .error (.missing (hashOf H n))
      | some b => match rlpDecode b with
        | some it => .ok it
        | none => .error .invalid := by
  have h32 : (hashOf H n).length = 32 := hlen _
  have h1 : hashOf H n ≠ [] := by intro h; rw [h] at h32; simp at h32
  have h2 : ¬ (hashOf H n).length < 32 := by omega
  simp only [getNode, h1, hne, h2, ↓reduceIte]
  cases lookup db (hashOf H n) with
  | none => rfl
  | some b => simp only []; cases rlpDecode b <;> rfl

theorem fetch_hash_some (hlen : ∀ b, (H b).length = 32) (db : Db) (n : Node) (used : Path)
    (hne : hashOf H n ≠ blankRoot H) (hl : lookup db (hashOf H n) = some (enc H n))
    (hd : rlpDecode (enc H n) = some (toItem H n)) :
    fetch H db (.str (hashOf H n)) used = .ok (toItem H n) := by
  simp only [fetch, getNode_hash H hlen db n hne, hl, hd]

theorem fetch_hash_none (hlen : ∀ b, (H b).length = 32) (db : Db) (n : Node) (used : Path)
    (hne : hashOf H n ≠ blankRoot H) (hl : lookup db (hashOf H n) = none) :
    fetch H db (.str (hashOf H n)) used = .error (.missing (hashOf H n) used) := by
  simp only [fetch, getNode_hash H hlen db n hne, hl]

theorem refOf_blank : refOf H blank = .str [] := by simp [refOf, toItem, mkRef]

theorem refOf_hashed (c : Node) (h : isHashed H c = true) : refOf H c = .str (hashOf H c) := by
  simp only [isHashed, Bool.and_eq_true, Bool.not_eq_true', decide_eq_true_eq] at h
  obtain ⟨l, hl⟩ := toItem_list H c h.1
  have h2 := h.2
  simp only [enc, hl] at h2
  have : ¬ (rlp (.list l)).length < 32 := by omega
  simp only [refOf, hashOf, enc, hl, mkRef, this, ↓reduceIte]

theorem refOf_embedded (c : Node) (hb : isBlank c = false) (h : isHashed H c = false) :
    refOf H c = toItem H c := by
  simp only [isHashed, hb, Bool.not_false, Bool.true_and, decide_eq_false_iff_not, Nat.not_le] at h
  obtain ⟨l, hl⟩ := toItem_list H c hb
  simp only [enc, hl] at h
  simp only [refOf, hl, mkRef, h, ↓reduceIte]

theorem fetch_blank (db : Db) (used : Path) : fetch H db (refOf H blank) used = .ok (toItem H blank) := by
  simp [refOf_blank, fetch, getNode, toItem]

theorem fetch_embedded (db : Db) (c : Node) (used : Path) (hb : isBlank c = false)
    (h : isHashed H c = false) : fetch H db (refOf H c) used = .ok (toItem H c) := by
  rw [refOf_embedded H c hb h]
  obtain ⟨l, hl⟩ := toItem_list H c hb
  simp [hl, fetch, getNode]

/-- fetching a child reference succeeds when the child, if stored, resolves and decodes -/
theorem fetch_ref_ok (hlen : ∀ b, (H b).length = 32) (db : Db) (c : Node) (used : Path)
    (hr : isHashed H c = true → Resolves H db c ∧ rlpDecode (enc H c) = some (toItem H c)) :
    fetch H db (refOf H c) used = .ok (toItem H c) := by
  cases hb : isBlank c with
  | true => rw [(isBlank_iff c).1 hb]; exact fetch_blank H db used
  | false =>
    cases hh : isHashed H c with
    | false => exact fetch_embedded H db c used hb hh
    | true =>
      obtain ⟨⟨hne, hl⟩, hd⟩ := hr hh
      rw [refOf_hashed H c hh]
      exact fetch_hash_some H hlen db c used hne hl hd

theorem traverseD_nil (db : Db) (fuel : Nat) (node : Item) (used : Path) :
    traverseD H db fuel node [] used = .ok (node, []) := by
  cases fuel <;> simp [traverseD]

theorem getProof_ext_append (p : Path) (c : Node) (r : Path) :
    getProof (ext p c) (p ++ r) = ext p c :: getProof c r := by
  simp [getProof]

theorem mem_getProof_self (c : Node) (k : Path) (hb : isBlank c = false) : c ∈ getProof c k := by
  cases c with
  | blank => simp [isBlank] at hb
  | leaf p v => simp [getProof]
  | ext p c => simp only [getProof]; split <;> simp
  | branch ch v => cases k <;> simp [getProof]

theorem isBlank_of_isHashed (c : Node) (h : isHashed H c = true) : isBlank c = false := by
  simp only [isHashed, Bool.and_eq_true, Bool.not_eq_true'] at h
  exact h.1

theorem mem_getProof_hashed (c : Node) (k : Path) (h : isHashed H c = true) : c ∈ getProof c k :=
  mem_getProof_self c k (isBlank_of_isHashed H c h)

/-- the decoder-side traversal of an honest encoded tree follows the tree traversal -/
theorem trav_ok (hlen : ∀ b, (H b).length = 32) (db : Db) (t : Node) :
    Canon t → ∀ (k : Path) (fuel : Nat) (used : Path), k.length ≤ fuel →
    (∀ n ∈ getProof t k, isHashed H n = true → Resolves H db n) →
    (∀ n ∈ getProof t k, rlpDecode (enc H n) = some (toItem H n)) →
    traverseD H db fuel (toItem H t) k used = .ok (toItem H (traverseT t k).1, (traverseT t k).2) := by
  induction t with
  | blank =>
    intro _ k fuel used hf _ _
    cases k with
    | nil => simp [traverseD_nil, traverseT]
    | cons a rest =>
      cases fuel with
      | zero => simp at hf
      | succ fuel => simp only [traverseD, classify_blank, traverseT]; rfl
  | leaf p v =>
    intro _ k fuel used hf _ _
    cases k with
    | nil => simp [traverseD_nil, traverseT]
    | cons a rest =>
      cases fuel with
      | zero => simp at hf
      | succ fuel =>
        simp only [traverseD, classify_leaf, traverseT]
        split <;> simp [toItem]
  | ext p c ih =>
    intro hc k fuel used hf hres hdec
    obtain ⟨hpne, hbr, hcc⟩ := hc
    cases k with
    | nil => simp [traverseD_nil, traverseT]
    | cons a rest =>
      cases fuel with
      | zero => simp at hf
      | succ fuel =>
        simp only [traverseD, classify_ext, traverseT]
        by_cases hpre : p <+: a :: rest
        · have h1 := (cpl_drop_left_nil_iff p (a :: rest)).2 hpre
          obtain ⟨r, hr⟩ := hpre
          rw [← hr] at hres hdec hf ⊢
          rw [getProof_ext_append] at hres hdec
          have hlp : 0 < p.length := List.length_pos_iff.2 hpne
          have hf' : r.length ≤ fuel := by simp at hf; omega
          simp only [cpl_append_left, List.drop_left, List.take_left, ↓reduceIte, List.drop_eq_nil_of_le (Nat.le_refl _)]
          rw [fetch_ref_ok H hlen db c _ (fun hh =>
            have hm := List.mem_cons_of_mem _ (mem_getProof_hashed H c r hh)
            ⟨hres c hm hh, hdec c hm⟩)]
          exact ih hcc r fuel _ hf' (fun n hn => hres n (List.mem_cons_of_mem _ hn))
            (fun n hn => hdec n (List.mem_cons_of_mem _ hn))
        · have h1 : ¬ (p.drop (cpl p (a :: rest)) = []) := fun h => hpre ((cpl_drop_left_nil_iff _ _).1 h)
          simp only [h1, ↓reduceIte]
          split <;> simp [toItem]
  | branch ch v ih =>
    intro hc k fuel used hf hres hdec
    cases k with
    | nil => simp [traverseD_nil, traverseT]
    | cons a rest =>
      cases fuel with
      | zero => simp at hf
      | succ fuel =>
        simp only [traverseD, classify_branch, traverseT, brItems_getD]
        simp only [getProof] at hres hdec
        rw [fetch_ref_ok H hlen db (ch a) _ (fun hh =>
            have hm := List.mem_cons_of_mem _ (mem_getProof_hashed H (ch a) rest hh)
            ⟨hres (ch a) hm hh, hdec (ch a) hm⟩)]
        exact ih a (hc.1 a) rest fuel _ (by simpa using hf) (fun n hn => hres n (List.mem_cons_of_mem _ hn))
            (fun n hn => hdec n (List.mem_cons_of_mem _ hn))

/-- `_get` on the result of the traversal -/
def finishD (node : Item) (rem : Path) : Except TErr Bytes :=
  match classify node with
  | .blank => .ok []
  | .leaf p (.str v) => .ok (if rem = p then v else [])
  | .leaf p (.list _) => if rem = p then .error .invalid else .ok []
  | .ext _ _ => .ok []
  | .branch l => if rem ≠ [] then .error .invalid
                 else match l.getD 16 (.str []) with
                   | .str v => .ok v
                   | .list _ => .error .invalid
  | .invalid => .error .invalid

theorem getD_eq_of (db : Db) (root : Hash) (key : Path) (rn node : Item) (rem : Path)
    (hf : fetch H db (.str root) [] = .ok rn)
    (ht : traverseD H db (fuelFor db key) rn key [] = .ok (node, rem)) :
    getD H db root key = finishD node rem := by
  simp only [getD, hf, ht]; rfl

theorem getD_err_of_fetch (db : Db) (root : Hash) (key : Path) (e : TErr)
    (hf : fetch H db (.str root) [] = .error e) : getD H db root key = .error e := by
  simp only [getD, hf]

theorem getD_err_of_trav (db : Db) (root : Hash) (key : Path) (rn : Item) (e : TErr)
    (hf : fetch H db (.str root) [] = .ok rn)
    (ht : traverseD H db (fuelFor db key) rn key [] = .error e) : getD H db root key = .error e := by
  simp only [getD, hf, ht]

theorem finishD_trav (t : Node) (hc : Canon t) (k : Path) :
    finishD (toItem H (traverseT t k).1) (traverseT t k).2 = .ok (get t k) := by
  have hg := getT_eq_get t hc k
  unfold getT at hg
  generalize hr : traverseT t k = r at hg
  obtain ⟨n, rem⟩ := r
  cases n with
  | blank => simpa [finishD, classify_blank] using hg
  | leaf p v => simpa [finishD, classify_leaf] using hg
  | ext p c => simpa [finishD, classify_ext] using hg
  | branch ch v =>
    have := traverse_branch_rem t k ch v rem hr
    subst this
    simp only [finishD, classify_branch, brItems_getD_16]
    simpa using hg

theorem enc_blank : enc H blank = [0x80] := by
  simp [enc, toItem, rlp, rlpLen]

theorem root_fetch_blank (db : Db) : fetch H db (.str (rootHash H blank)) [] = .ok (toItem H blank) := by
  simp [fetch, getNode, rootHash, enc_blank, blankRoot, toItem]

/-- **completeness of the reader**: if every stored node on the key's path resolves, the
    database lookup returns exactly the contents of the tree -/
theorem getD_of_path (hlen : ∀ b, (H b).length = 32)
    (t : Node) (hc : Canon t) (db : Db) (k : Path) (hdec : DecOkOn H t k)
    (hres : ∀ n ∈ getProof t k, Stored H t n → Resolves H db n) :
    getD H db (rootHash H t) k = .ok (get t k) := by
  have hfetch : fetch H db (.str (rootHash H t)) [] = .ok (toItem H t) := by
    cases hb : isBlank t with
    | true => rw [(isBlank_iff t).1 hb]; exact root_fetch_blank H db
    | false =>
      have hm := mem_getProof_self t k hb
      obtain ⟨hne, hl⟩ := hres t hm (Or.inl rfl)
      exact fetch_hash_some H hlen db t [] hne hl (hdec t hm)
  have htrav := trav_ok H hlen db t hc k (fuelFor db k) [] (by simp [fuelFor]; omega)
    (fun n hn hh => hres n hn (Or.inr hh)) hdec
  rw [getD_eq_of H db _ k _ _ _ hfetch htrav]
  exact finishD_trav H t hc k

/-- fetching a child reference from a compatible database: the honest node, or a missing-node report -/
theorem fetch_ref_compat (hlen : ∀ b, (H b).length = 32) (db : Db) (c : Node) (used : Path)
    (hr : isHashed H c = true → Compatible H db c ∧ rlpDecode (enc H c) = some (toItem H c)) :
    (fetch H db (refOf H c) used = .ok (toItem H c) ∧
        (isHashed H c = true → lookup db (hashOf H c) ≠ none)) ∨
    (isHashed H c = true ∧ lookup db (hashOf H c) = none ∧
        fetch H db (refOf H c) used = .error (.missing (hashOf H c) used)) := by
  cases hh : isHashed H c with
  | false => exact Or.inl ⟨fetch_ref_ok H hlen db c used (fun h => by simp [hh] at h), by simp⟩
  | true =>
    obtain ⟨⟨hne, hl⟩, hd⟩ := hr hh
    cases hlk : lookup db (hashOf H c) with
    | none =>
      refine Or.inr ⟨rfl, rfl, ?_⟩
      rw [refOf_hashed H c hh]
      exact fetch_hash_none H hlen db c used hne hlk
    | some b =>
      refine Or.inl ⟨?_, by simp⟩
      have := hl b hlk
      subst this
      exact fetch_ref_ok H hlen db c used (fun _ => ⟨⟨hne, hlk⟩, hd⟩)

/-- a stored node below the current one that the database lacks stops the traversal -/
theorem trav_miss (hlen : ∀ b, (H b).length = 32) (db : Db) (n : Node)
    (hnh : isHashed H n = true) (hmiss : lookup db (hashOf H n) = none) (t : Node) :
    Canon t → ∀ (k : Path) (fuel : Nat) (used : Path), k.length ≤ fuel →
    (∀ m ∈ getProof t k, isHashed H m = true → Compatible H db m) →
    (∀ m ∈ getProof t k, rlpDecode (enc H m) = some (toItem H m)) →
    n ∈ getProof t k → n ≠ t →
    ∃ h u, traverseD H db fuel (toItem H t) k used = .error (.missing h u) := by
  induction t with
  | blank => intro _ k fuel used _ _ _ hn _; simp [getProof] at hn
  | leaf p v => intro _ k fuel used _ _ _ hn hne; simp [getProof] at hn; exact absurd hn hne
  | ext p c ih =>
    intro hc k fuel used hf hcomp hdec hn hne
    obtain ⟨hpne, hbr, hcc⟩ := hc
    by_cases hpre : p <+: k
    · obtain ⟨r, hr⟩ := hpre
      subst hr
      rw [getProof_ext_append] at hcomp hdec hn
      have hn' : n ∈ getProof c r := by
        rcases List.mem_cons.1 hn with h | h
        · exact absurd h hne
        · exact h
      have hlp : 0 < p.length := List.length_pos_iff.2 hpne
      match p, hpne, hlp with
      | a :: p', _, _ =>
      cases fuel with
      | zero => simp at hf
      | succ fuel =>
        have hf' : r.length ≤ fuel := by simp at hf; omega
        have h1 := (cpl_drop_left_nil_iff (a :: p') ((a :: p') ++ r)).2 (List.prefix_append _ _)
        rw [List.cons_append]
        simp only [traverseD, classify_ext]
        rw [← List.cons_append]
        simp only [cpl_append_left, List.drop_left, List.take_left, ↓reduceIte, List.drop_eq_nil_of_le (Nat.le_refl _)]
        rcases fetch_ref_compat H hlen db c (used ++ (a :: p')) (fun hh =>
            have hm := List.mem_cons_of_mem _ (mem_getProof_hashed H c r hh)
            ⟨hcomp c hm hh, hdec c hm⟩) with ⟨hok, hlk⟩ | ⟨_, _, herr⟩
        · rw [hok]
          have hnc : n ≠ c := fun e => hlk (e ▸ hnh) (e ▸ hmiss)
          exact ih hcc r fuel _ hf' (fun m hm => hcomp m (List.mem_cons_of_mem _ hm))
            (fun m hm => hdec m (List.mem_cons_of_mem _ hm)) hn' hnc
        · rw [herr]; exact ⟨_, _, rfl⟩
    · simp [getProof, hpre] at hn
      exact absurd hn hne
  | branch ch v ih =>
    intro hc k fuel used hf hcomp hdec hn hne
    cases k with
    | nil => simp [getProof] at hn; exact absurd hn hne
    | cons a rest =>
      simp only [getProof] at hcomp hdec hn
      have hn' : n ∈ getProof (ch a) rest := by
        rcases List.mem_cons.1 hn with h | h
        · exact absurd h hne
        · exact h
      cases fuel with
      | zero => simp at hf
      | succ fuel =>
        simp only [traverseD, classify_branch, brItems_getD]
        rcases fetch_ref_compat H hlen db (ch a) (used ++ [a]) (fun hh =>
            have hm := List.mem_cons_of_mem _ (mem_getProof_hashed H (ch a) rest hh)
            ⟨hcomp (ch a) hm hh, hdec (ch a) hm⟩) with ⟨hok, hlk⟩ | ⟨_, _, herr⟩
        · rw [hok]
          have hnc : n ≠ ch a := fun e => hlk (e ▸ hnh) (e ▸ hmiss)
          exact ih a (hc.1 a) rest fuel _ (by simpa using hf) (fun m hm => hcomp m (List.mem_cons_of_mem _ hm))
            (fun m hm => hdec m (List.mem_cons_of_mem _ hm)) hn' hnc
        · rw [herr]; exact ⟨_, _, rfl⟩

/-- a stored node on the key's path that the database does not have makes the lookup fail with a
    missing-node report -/
theorem getD_withheld (hlen : ∀ b, (H b).length = 32)
    (t : Node) (hc : Canon t) (db : Db) (k : Path) (hdec : DecOkOn H t k)
    (hcomp : ∀ n ∈ getProof t k, Stored H t n → Compatible H db n)
    (n : Node) (hn : n ∈ getProof t k) (hs : Stored H t n) (hmiss : lookup db (hashOf H n) = none) :
    ∃ h used, getD H db (rootHash H t) k = .error (.missing h used) := by
  cases hb : isBlank t with
  | true => rw [(isBlank_iff t).1 hb] at hn; simp [getProof] at hn
  | false =>
    have hm := mem_getProof_self t k hb
    obtain ⟨hne, hl⟩ := hcomp t hm (Or.inl rfl)
    cases hlk : lookup db (hashOf H t) with
    | none =>
      exact ⟨_, _, getD_err_of_fetch H db _ k _ (fetch_hash_none H hlen db t [] hne hlk)⟩
    | some b =>
      have := hl b hlk
      subst this
      have hfetch := fetch_hash_some H hlen db t [] hne hlk (hdec t hm)
      have hnt : n ≠ t := fun e => by rw [e, hlk] at hmiss; cases hmiss
      have hnh : isHashed H n = true := hs.resolve_left hnt
      obtain ⟨h, u, htr⟩ := trav_miss H hlen db n hnh hmiss t hc k (fuelFor db k) []
        (by simp [fuelFor]; omega) (fun m hm hh => hcomp m hm (Or.inr hh)) hdec hn hnt
      exact ⟨h, u, getD_err_of_trav H db _ k _ _ hfetch htr⟩

/-- **soundness of the reader**: if the database never contradicts the honest tree on the key's
    path, the lookup returns the honest value or reports a missing node — never another value -/
theorem getD_sound (hlen : ∀ b, (H b).length = 32)
    (t : Node) (hc : Canon t) (db : Db) (k : Path) (hdec : DecOkOn H t k)
    (hcomp : ∀ n ∈ getProof t k, Stored H t n → Compatible H db n) :
    getD H db (rootHash H t) k = .ok (get t k) ∨ ∃ h used, getD H db (rootHash H t) k = .error (.missing h used) := by
  by_cases hex : ∃ n, n ∈ getProof t k ∧ Stored H t n ∧ lookup db (hashOf H n) = none
  · obtain ⟨n, hn, hs, hmiss⟩ := hex
    exact Or.inr (getD_withheld H hlen t hc db k hdec hcomp n hn hs hmiss)
  · refine Or.inl (getD_of_path H hlen t hc db k hdec (fun n hn hs => ?_))
    obtain ⟨hne, hl⟩ := hcomp n hn hs
    refine ⟨hne, ?_⟩
    cases hlk : lookup db (hashOf H n) with
    | none => exact absurd ⟨n, hn, hs, hlk⟩ hex
    | some b => rw [hl b hlk]

end PyTrie.HexD
