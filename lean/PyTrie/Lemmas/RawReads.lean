import PyTrie.Model.HexRawT
import PyTrie.Lemmas.RawAtomic
/-! **Every fetch the raw level records was answered by the database.** `Answered st`: each `read h` in the event list
    of a raw-level state names a key of that state's database. The raw-level `get_node` / `_prune_node` / `_persist_node` /
    `_set` / `_delete` / `_normalize_branch_node` (`Model/HexRawT.lean`) preserve it on *every* input (the database only
    grows). With `Quiet` (`Lemmas/RawAtomic.lean`) this gives: the events recorded by a call that stops at a missing node
    are prune marks and fetches of keys of the *entry* database. -/
namespace PyTrie.HexRawT
open PyTrie PyTrie.Hex PyTrie.HexD PyTrie.HexRaw
open PyTrie.HexW (NoPersist)

variable (H : Bytes → Bytes)

/-- every recorded fetch names a key of the database -/
def Answered (st : St) : Prop := ∀ h, Ev.read h ∈ st.evs → (lookup st.db h).isSome = true

theorem answered_nil (db : Db) : Answered { db := db, evs := [] } := by
  intro h hm; simp at hm

theorem lookup_cons_isSome (db : Db) (k : Hash) (b : Bytes) (h : Hash) (hs : (lookup db h).isSome = true) :
    (lookup ((k, b) :: db) h).isSome = true := by
  unfold lookup at hs ⊢
  simp only [List.find?_cons]
  cases (k == h) <;> simp_all

theorem answered_prune (st : St) (node : Item) (hg : Answered st) : Answered (pruneNodeR H st node) := by
  unfold pruneNodeR
  split
  · intro h hm
    simp only [List.mem_append, List.mem_singleton] at hm
    rcases hm with hm | hm
    · exact hg h hm
    · cases hm
  · exact hg

theorem answered_persist (st : St) (node : Item) (hg : Answered st) : Answered (persistNodeR H st node).2 := by
  unfold persistNodeR
  split
  · intro h hm
    simp only [List.mem_append, List.mem_singleton] at hm
    rcases hm with hm | hm
    · exact lookup_cons_isSome _ _ _ _ (hg h hm)
    · cases hm
  · exact hg

theorem answered_getNodeR (st : St) (ref it : Item) (st' : St) (h : getNodeR H st ref = .ok (it, st'))
    (hg : Answered st) : Answered st' := by
  unfold getNodeR at h
  split at h
  · simp at h; rw [← h.2]; exact hg
  · split at h
    · simp at h; rw [← h.2]; exact hg
    split at h
    · simp at h; rw [← h.2]; exact hg
    split at h
    · split at h
      · simp at h; rw [← h.2]; exact hg
      · simp at h
    · split at h
      · simp at h
      · next b hb =>
        split at h
        · simp at h; rw [← h.2]
          intro x hm
          simp only [List.mem_append, List.mem_singleton] at hm
          rcases hm with hm | hm
          · exact hg x hm
          · cases hm; simp [hb]
        · simp at h

theorem answered_getNodeT (st : St) (ref : Item) (hg : Answered st) : Answered (getNodeT H st ref).1 := by
  unfold getNodeT
  cases hr : getNodeR H st ref with
  | error e => exact hg
  | ok r => obtain ⟨it, st'⟩ := r; exact answered_getNodeR H st ref it st' hr hg

/-- the last step of `_set_kv_node`, from the outcome of its three-way `if` -/
def kvFinish (node : Item) (value : Bytes) (common : Path) (inner : St × Except Err (Option Item)) : St × Except Err Item :=
  match inner with
  | (st1, .error e) => (st1, .error e)
  | (st1, .ok none) =>
    match node with
    | .list [k, _] => (st1, .ok (.list [k, .str value]))
    | _ => (st1, .error .invalid)
  | (st1, .ok (some newNode)) =>
    if common ≠ [] then
      let (ref, st2) := persistNodeR H st1 newNode
      (st2, .ok (.list [extKey common, ref]))
    else (st1, .ok newNode)

theorem answered_kvFinish (node : Item) (value : Bytes) (common : Path) (inner : St × Except Err (Option Item))
    (hg : Answered inner.1) : Answered (kvFinish H node value common inner).1 := by
  obtain ⟨st1, r⟩ := inner
  unfold kvFinish
  cases r with
  | error e => exact hg
  | ok o =>
    cases o with
    | none => simp only []; split <;> exact hg
    | some newNode =>
      simp only []
      split
      · exact answered_persist H st1 newNode hg
      · exact hg

theorem answered_set_both (fuel : Nat) :
    (∀ (st : St) (node : Item) (key : Path) (value : Bytes),
      Answered st → Answered (rawSetT H fuel st node key value).1) ∧
    (∀ (st : St) (node : Item) (p : Path) (x : Item) (isExt : Bool) (key : Path) (value : Bytes),
      Answered st → Answered (rawSetKvT H fuel st node p x isExt key value).1) := by
  induction fuel with
  | zero => constructor <;> intros <;> simpa [rawSetT, rawSetKvT]
  | succ fuel ih =>
    obtain ⟨ih1, ih2⟩ := ih
    constructor
    · intro st node key value hg
      simp only [rawSetT]
      have hp := answered_prune H st node hg
      generalize pruneNodeR H st node = st' at hp ⊢
      cases classify node with
      | blank => exact hp
      | invalid => exact hp
      | leaf p x => exact ih2 _ _ _ _ _ _ _ hp
      | ext p x => exact ih2 _ _ _ _ _ _ _ hp
      | branch l =>
        cases key with
        | nil => exact hp
        | cons a rest =>
          simp only []
          generalize l.getD a.val (.str []) = ref
          have hq := answered_getNodeT H st' ref hp
          generalize getNodeT H st' ref = g at hq ⊢
          obtain ⟨st1, g⟩ := g
          cases g with
          | error e => exact hq
          | ok sub =>
            simp only [] at hq ⊢
            have hr := ih1 st1 sub rest value hq
            generalize rawSetT H fuel st1 sub rest value = r at hr ⊢
            obtain ⟨st2, r⟩ := r
            cases r with
            | error e => exact hr
            | ok a => exact answered_persist H st2 a hr
    · intro st node p x isExt key value hg
      simp only [rawSetKvT]
      generalize p.drop (cpl p key) = ckr
      generalize key.drop (cpl p key) = tkr
      generalize p.take (cpl p key) = common
      refine answered_kvFinish H node value common _ ?_
      have hsub : ∀ tk : Path, Answered (match getNodeT H st x with
          | (st1, .error e) => (st1, .error e)
          | (st1, .ok sub) =>
            match rawSetT H fuel st1 sub tk value with
            | (st2, .error e) => (st2, .error e)
            | (st2, .ok r) => (st2, .ok (some r)) : St × Except Err (Option Item)).1 := by
        intro tk
        have hq := answered_getNodeT H st x hg
        generalize getNodeT H st x = g at hq ⊢
        obtain ⟨st1, g⟩ := g
        cases g with
        | error e => exact hq
        | ok sub =>
          simp only [] at hq ⊢
          have hr := ih1 st1 sub tk value hq
          generalize rawSetT H fuel st1 sub tk value = r at hr ⊢
          obtain ⟨st2, r⟩ := r
          cases r <;> exact hr
      have hslot : ∀ crest : Path, Answered (if crest = [] ∧ isExt = true then (x, st)
          else persistNodeR H st (Item.list [if isExt = true then extKey crest else leafKey crest, x])).2 := by
        intro crest
        split
        · exact hg
        · exact answered_persist H st _ hg
      cases ckr with
      | nil =>
        cases tkr with
        | nil =>
          simp only []
          split
          · exact hg
          · exact hsub []
        | cons t0 trest =>
          simp only []
          split
          · exact hsub (t0 :: trest)
          · exact answered_persist H st _ hg
      | cons c0 crest =>
        cases tkr with
        | nil => exact hslot crest
        | cons t0 trest => exact answered_persist H _ _ (hslot crest)

theorem answered_rawSetT (fuel : Nat) (st : St) (node : Item) (key : Path) (value : Bytes) (hg : Answered st) :
    Answered (rawSetT H fuel st node key value).1 := (answered_set_both H fuel).1 st node key value hg

theorem answered_normalizeT (st : St) (l : List Item) (hg : Answered st) : Answered (rawNormalizeT H st l).1 := by
  simp only [rawNormalizeT]
  generalize (List.range 16).find? _ = o
  split
  · exact hg
  split
  · exact hg
  cases o with
  | none => exact hg
  | some idx =>
    simp only []
    generalize l.getD idx (.str []) = ref
    have hq := answered_getNodeT H st ref hg
    generalize getNodeT H st ref = g at hq ⊢
    obtain ⟨st1, g⟩ := g
    cases g with
    | error e => exact hq
    | ok sub =>
      simp only [] at hq ⊢
      cases classify sub with
      | leaf p x => exact answered_prune H st1 sub hq
      | ext p x => exact answered_prune H st1 sub hq
      | branch l' => exact hq
      | blank => exact hq
      | invalid => exact hq

theorem answered_rawDeleteT (fuel : Nat) : ∀ (st : St) (node : Item) (key : Path), Answered st →
    Answered (rawDeleteT H fuel st node key).1 := by
  induction fuel with
  | zero => intro st node key hg; simpa [rawDeleteT]
  | succ fuel ih =>
    intro st node key hg
    simp only [rawDeleteT]
    have hp := answered_prune H st node hg
    generalize pruneNodeR H st node = st' at hp ⊢
    cases classify node with
    | blank => exact hp
    | invalid => exact hp
    | leaf p x =>
      simp only []
      split
      · exact hp
      split <;> exact hp
    | ext p x =>
      simp only []
      split
      · exact hp
      have hq := answered_getNodeT H st' x hp
      generalize getNodeT H st' x = g at hq ⊢
      obtain ⟨st1, g⟩ := g
      cases g with
      | error e => exact hq
      | ok sub =>
        simp only [] at hq ⊢
        have hr := ih st1 sub (key.drop p.length) hq
        generalize rawDeleteT H fuel st1 sub (key.drop p.length) = r at hr ⊢
        obtain ⟨st2, r⟩ := r
        cases r with
        | error e => exact hr
        | ok newSub =>
          simp only [] at hr ⊢
          have hps := answered_persist H st2 newSub hr
          generalize persistNodeR H st2 newSub = ps at hps ⊢
          obtain ⟨enc, st3⟩ := ps
          simp only [] at hps ⊢
          split
          · exact hps
          split
          · exact hps
          cases classify newSub with
          | leaf p' x' => exact answered_prune H st3 newSub hps
          | ext p' x' => exact answered_prune H st3 newSub hps
          | branch l' => exact hps
          | blank => exact hps
          | invalid => exact hps
    | branch l =>
      cases key with
      | nil => exact answered_normalizeT H st' _ hp
      | cons a rest =>
        simp only []
        generalize l.getD a.val (.str []) = ref
        have hq := answered_getNodeT H st' ref hp
        generalize getNodeT H st' ref = g at hq ⊢
        obtain ⟨st1, g⟩ := g
        cases g with
        | error e => exact hq
        | ok sub =>
          simp only [] at hq ⊢
          have hr := ih st1 sub rest hq
          generalize rawDeleteT H fuel st1 sub rest = r at hr ⊢
          obtain ⟨st2, r⟩ := r
          cases r with
          | error e => exact hr
          | ok newSub =>
            simp only [] at hr ⊢
            have hps := answered_persist H st2 newSub hr
            generalize persistNodeR H st2 newSub = ps at hps ⊢
            obtain ⟨enc, st3⟩ := ps
            simp only [] at hps ⊢
            split
            · exact hps
            split
            · exact answered_normalizeT H st3 _ hps
            · exact hps

/-- the events of a call that stopped at a missing node: no writes, and every fetch is a key of the entry database -/
theorem quiet_answered_reads (db : Db) (st' : St) (hq : Quiet { db := db, evs := [] } st') (ha : Answered st') :
    NoPersist st'.evs ∧ ∀ h, Ev.read h ∈ st'.evs → (lookup db h).isSome = true := by
  obtain ⟨hdb, evs', he, hnp⟩ := hq
  simp only [List.nil_append] at he
  refine ⟨he ▸ hnp, fun h hm => ?_⟩
  have := ha h hm
  rwa [hdb] at this

end PyTrie.HexRawT
