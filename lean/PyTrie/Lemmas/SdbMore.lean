import PyTrie.Lemmas.SdbProofs
/-! More ScratchDB lemmas (C17, continued): `copy()`, uniqueness of keys through the commit loop,
    `runActs` from an arbitrary start state. -/
namespace PyTrie.Sdb
open PyTrie.HexW

/-! ### `NoDupKeys` through `erase` / `commitLoop` -/

theorem NoDupKeys.erase' {α} {d : Dict α} (h : NoDupKeys d) (k : Bytes) : NoDupKeys (Dict.erase d k) := by
  unfold NoDupKeys Dict.erase at *
  induction d with
  | nil => exact List.nodup_nil
  | cons e r ih =>
    rw [List.map_cons, List.nodup_cons] at h
    rw [List.filter_cons]
    split
    · rw [List.map_cons, List.nodup_cons]
      refine ⟨?_, ih h.2⟩
      intro hm
      apply h.1
      rw [List.mem_map] at hm ⊢
      obtain ⟨x, hx, hx1⟩ := hm
      exact ⟨x, (List.mem_filter.1 hx).1, hx1⟩
    · exact ih h.2

theorem commitLoop_nodup (dd : Bool) (cache : Dict (Option Bytes)) (base : Dict Bytes) (fa : Option Nat)
    (hb : NoDupKeys base) : NoDupKeys (commitLoop dd cache base fa).2.1 := by
  induction cache generalizing base fa with
  | nil => exact hb
  | cons e rest ih =>
    obtain ⟨k0, v0⟩ := e
    cases v0 with
    | none =>
      simp only [commitLoop]
      apply ih
      cases dd
      · exact hb
      · exact hb.erase' k0
    | some v =>
      cases fa with
      | none => simp only [commitLoop]; exact ih _ _ (hb.insert k0 v)
      | some n =>
        cases n with
        | zero => simp only [commitLoop]; exact hb
        | succ n => simp only [commitLoop]; exact ih _ _ (hb.insert k0 v)

/-! ### `copy()` -/

theorem foldl_insert_get? {α} (cache : Dict α) (acc : Dict α) (hc : NoDupKeys cache) (k : Bytes) :
    Dict.get? (cache.foldl (fun acc e => Dict.insert acc e.1 e.2) acc) k =
      (match Dict.get? cache k with | some x => some x | none => Dict.get? acc k) ∧
    (NoDupKeys acc → NoDupKeys (cache.foldl (fun acc e => Dict.insert acc e.1 e.2) acc)) := by
  induction cache generalizing acc with
  | nil => exact ⟨rfl, id⟩
  | cons e rest ih =>
    obtain ⟨k0, v0⟩ := e
    obtain ⟨hnm, hr⟩ := hc.tail
    have := ih (Dict.insert acc k0 v0) hr
    rw [List.foldl_cons]
    refine ⟨?_, fun ha => this.2 (ha.insert k0 v0)⟩
    rw [this.1, Dict.get?_cons, get?_insert]
    by_cases hk : k0 = k
    · subst hk
      rw [get?_eq_none_of_not_mem_keys rest k0 hnm]
      simp
    · have hb : (k0 == k) = false := by simpa using hk
      have hk' : ¬ k = k0 := fun e => hk e.symm
      simp only [hb, Bool.false_eq_true, if_false, hk']

theorem get?_map_some (w : Dict Bytes) (k : Bytes) :
    Dict.get? (w.map fun e => (e.1, some e.2)) k = (Dict.get? w k).map some := by
  induction w with
  | nil => rfl
  | cons e r ih =>
    rw [List.map_cons, Dict.get?_cons, Dict.get?_cons, ih]
    cases (e.1 == k) <;> simp

theorem nodup_map_some (w : Dict Bytes) (hw : NoDupKeys w) :
    NoDupKeys (w.map fun e => ((e.1, some e.2) : Bytes × Option Bytes)) := by
  unfold NoDupKeys at *
  rw [List.map_map]
  exact hw

theorem keys_filterMap_sub (m : Dict (Option Bytes)) (k : Bytes)
    (h : k ∈ (m.filterMap fun e => e.2.map fun v => (e.1, v)).map (·.1)) : k ∈ m.map (·.1) := by
  rw [List.mem_map] at h ⊢
  obtain ⟨x, hx, hx1⟩ := h
  rw [List.mem_filterMap] at hx
  obtain ⟨e, he, hex⟩ := hx
  refine ⟨e, he, ?_⟩
  obtain ⟨k0, v0⟩ := e
  cases v0 with
  | none => simp at hex
  | some v =>
    simp only [Option.map_some, Option.some.injEq] at hex
    subst hex
    exact hx1

theorem get?_filterMap (m : Dict (Option Bytes)) (hm : NoDupKeys m) (k : Bytes) :
    Dict.get? (m.filterMap fun e => e.2.map fun v => (e.1, v)) k =
      match Dict.get? m k with
      | some (some v) => some v
      | _ => none := by
  induction m with
  | nil => rfl
  | cons e r ih =>
    obtain ⟨k0, v0⟩ := e
    obtain ⟨hnm, hr⟩ := hm.tail
    rw [Dict.get?_cons]
    cases v0 with
    | none =>
      rw [List.filterMap_cons_none (by rfl)]
      by_cases hk : k0 = k
      · subst hk
        simp only [beq_self_eq_true, if_true]
        apply get?_eq_none_of_not_mem_keys
        exact fun h => hnm (keys_filterMap_sub r k0 h)
      · have hb : (k0 == k) = false := by simpa using hk
        simp only [hb, Bool.false_eq_true, if_false]
        exact ih hr
    | some v =>
      rw [List.filterMap_cons_some (b := (k0, v)) (by rfl), Dict.get?_cons]
      by_cases hk : k0 = k
      · subst hk
        simp
      · have hb : (k0 == k) = false := by simpa using hk
        simp only [hb, Bool.false_eq_true, if_false]
        exact ih hr

theorem copy_get? (s : Sdb) (hw : NoDupKeys s.wrapped) (hc : NoDupKeys s.cache) (k : Bytes) :
    Dict.get? (copy s) k =
      match Dict.get? s.cache k with
      | some (some v) => some v
      | some none => none
      | none => Dict.get? s.wrapped k := by
  unfold copy
  have hf := foldl_insert_get? s.cache (s.wrapped.map fun e => (e.1, some e.2)) hc k
  simp only
  rw [get?_filterMap _ (hf.2 (nodup_map_some _ hw)) k, hf.1, get?_map_some]
  cases Dict.get? s.cache k with
  | some x => cases x <;> rfl
  | none => cases Dict.get? s.wrapped k <;> rfl

end PyTrie.Sdb
