import PyTrie.Lemmas.HexTravLocal
/-! What `traverse` / `traverse_from` return, stated in terms of the *contents* of a canonical tree. -/
namespace PyTrie.Hex
open Node

/-- the description of the position reached: the annotated node, or the simulated node when the
    traversal ended inside a leaf or extension -/
def TravOut.desc : TravOut → Option Ann
  | .node a => some a
  | .partialPath _ _ _ sim => sim


/-! ### helpers -/

/-- `desc` as a function of the raw traversal result -/
def descOf (r : Node × Path) : Option Ann :=
  if r.2 = [] then some (annotate r.1) else simulate (annotate r.1) r.2

theorem desc_eq (t : Node) (p : Path) : (traverseOut t p).desc = descOf (traverseT t p) := by
  unfold traverseOut descOf
  generalize traverseT t p = r
  obtain ⟨n, rem⟩ := r
  simp only
  split <;> rfl

theorem descOf_nil (n : Node) : descOf (n, []) = some (annotate n) := by simp [descOf]

theorem descOf_ne (n : Node) (rem : Path) (h : rem ≠ []) :
    descOf (n, rem) = simulate (annotate n) rem := by simp [descOf, h]

theorem simulate_leaf (rem q' : Path) (v : Bytes) :
    simulate (annotate (leaf (rem ++ q') v)) rem = some ⟨[], v, q', leaf q' v, .leaf⟩ := by
  simp [simulate, annotate, rewrapLeaf]

theorem simulate_ext (rem q' : Path) (c : Node) (h : q' ≠ []) :
    simulate (annotate (ext (rem ++ q') c)) rem = some ⟨[q'], [], [], ext q' c, .ext⟩ := by
  simp [simulate, annotate, rewrapExt, h]

theorem traverseOut_partial {t : Node} {p tr : Path} {a : Ann} {tail : Path} {sim : Option Ann}
    (h : traverseOut t p = .partialPath tr a tail sim) :
    ∃ n', traverseT t p = (n', tail) ∧ tail ≠ [] ∧ a = annotate n' ∧
      sim = simulate (annotate n') tail ∧ tr = p.take (p.length - tail.length) := by
  unfold traverseOut at h
  generalize traverseT t p = r at h
  obtain ⟨n', rem'⟩ := r
  simp only at h
  split at h
  · cases h
  · next hne =>
    cases h
    exact ⟨n', rfl, hne, rfl, rfl, rfl⟩

/-- what a one-step traversal describes -/
theorem local_desc (n : Node) (rem : Path) (hL : Local n rem) :
    (rem = [] ∧ traverseT n rem = (n, []) ∧ descOf (traverseT n rem) = some (annotate n)) ∨
    (rem ≠ [] ∧ traverseT n rem = (blank, []) ∧ descOf (traverseT n rem) = some (annotate blank) ∧
      ∀ k, rem <+: k → get n k = []) ∨
    (rem ≠ [] ∧ ∃ q' v, n = leaf (rem ++ q') v ∧ traverseT n rem = (n, rem) ∧
      descOf (traverseT n rem) = some ⟨[], v, q', leaf q' v, .leaf⟩) ∨
    (rem ≠ [] ∧ ∃ q' c, q' ≠ [] ∧ n = ext (rem ++ q') c ∧ traverseT n rem = (n, rem) ∧
      descOf (traverseT n rem) = some ⟨[q'], [], [], ext q' c, .ext⟩) := by
  rcases local_cases n rem hL with ⟨h1, h2⟩ | ⟨h1, h2, h3⟩ | ⟨h1, q, v, rfl, ⟨q', rfl⟩, h2⟩ |
      ⟨h1, q, c, rfl, ⟨q', rfl⟩, hnq, h2⟩
  · exact Or.inl ⟨h1, h2, by rw [h2, descOf_nil]⟩
  · exact Or.inr (Or.inl ⟨h1, h2, by rw [h2, descOf_nil], h3⟩)
  · exact Or.inr (Or.inr (Or.inl ⟨h1, q', v, rfl, h2, by rw [h2, descOf_ne _ _ h1, simulate_leaf]⟩))
  · have hq' : q' ≠ [] := by
      intro e; subst e; simp at hnq
    exact Or.inr (Or.inr (Or.inr ⟨h1, q', c, hq', rfl, h2, by rw [h2, descOf_ne _ _ h1, simulate_ext _ _ _ hq']⟩))

/-! ### one-step versions -/

theorem blank_local (n : Node) (hc : Canon n) (rem : Path) (hL : Local n rem) :
    (traverseT n rem).1 = blank ↔ ∀ k', get n (rem ++ k') = [] := by
  rcases local_desc n rem hL with ⟨rfl, h2, _⟩ | ⟨h1, h2, _, h3⟩ | ⟨h1, q', v, rfl, h2, _⟩ |
      ⟨h1, q', c, hq', rfl, h2, _⟩
  · rw [h2]
    constructor
    · intro e k'; simp only at e; subst e; rfl
    · intro h; exact eq_blank_of_no_keys n hc (fun k => by simpa using h k)
  · rw [h2]
    exact ⟨fun _ k' => h3 _ (List.prefix_append _ _), fun _ => rfl⟩
  · rw [h2]
    constructor
    · intro e; simp at e
    · intro h
      have := h q'
      simp [get] at this
      exact absurd this hc
  · rw [h2]
    constructor
    · intro e; simp at e
    · intro h
      obtain ⟨_, hbr, hcc⟩ := hc
      have hb : isBlank c = false := by cases c <;> simp_all [isBranch, isBlank]
      obtain ⟨k0, hk0⟩ := exists_key c hcc hb
      have := h (q' ++ k0)
      rw [← List.append_assoc] at this
      simp [get] at this
      exact absurd this hk0

theorem covers_local (n : Node) (rem : Path) (hL : Local n rem) (d : Ann)
    (hd : descOf (traverseT n rem) = some d) (k' : Path) (hk : get n (rem ++ k') ≠ []) :
    (k' = d.suffix ∧ d.value = get n (rem ++ k')) ∨ (∃ s ∈ d.subs, s <+: k') := by
  rcases local_desc n rem hL with ⟨rfl, _, h2⟩ | ⟨h1, _, _, h3⟩ | ⟨h1, q', v, rfl, _, h2⟩ |
      ⟨h1, q', c, hq', rfl, _, h2⟩
  · rw [h2] at hd
    simp only [Option.some.injEq] at hd
    subst hd
    simp only [List.nil_append] at hk ⊢
    cases n with
    | blank => exact absurd rfl hk
    | leaf q v =>
      have := leaf_key_eq q v k' hk
      subst this
      exact Or.inl ⟨rfl, by simp [annotate, get]⟩
    | ext q c => exact Or.inr ⟨q, by simp [annotate], ext_key_prefix q c k' hk⟩
    | branch ch v =>
      cases k' with
      | nil => exact Or.inl ⟨rfl, rfl⟩
      | cons a r =>
        right
        refine ⟨[a], ?_, by simp⟩
        simp only [annotate, List.mem_map]
        refine ⟨a, (mem_liveIdx ch a).2 ?_, rfl⟩
        cases hb : isBlank (ch a) with
        | false => rfl
        | true => exact absurd (get_blank_of_isBlank hb r) hk
  · exact absurd (h3 _ (List.prefix_append _ _)) hk
  · rw [h2] at hd
    simp only [Option.some.injEq] at hd
    subst hd
    have := leaf_key_eq _ _ _ hk
    have e : k' = q' := List.append_cancel_left this
    subst e
    exact Or.inl ⟨rfl, by simp [get]⟩
  · rw [h2] at hd
    simp only [Option.some.injEq] at hd
    subst hd
    have := ext_key_prefix _ _ _ hk
    rw [List.prefix_append_right_inj] at this
    exact Or.inr ⟨q', by simp, this⟩

theorem value_local (n : Node) (rem : Path) (hL : Local n rem) (d : Ann)
    (hd : descOf (traverseT n rem) = some d) (hv : d.value ≠ []) :
    get n (rem ++ d.suffix) = d.value := by
  rcases local_desc n rem hL with ⟨rfl, _, h2⟩ | ⟨h1, _, h2, _⟩ | ⟨h1, q', v, rfl, _, h2⟩ |
      ⟨h1, q', c, hq', rfl, _, h2⟩
  · rw [h2] at hd
    simp only [Option.some.injEq] at hd
    subst hd
    cases n with
    | blank => exact absurd rfl hv
    | leaf q v => simp [annotate, get]
    | ext q c => exact absurd rfl hv
    | branch ch v => simp [annotate, get]
  · rw [h2] at hd
    simp only [Option.some.injEq] at hd
    subst hd
    exact absurd rfl hv
  · rw [h2] at hd
    simp only [Option.some.injEq] at hd
    subst hd
    simp [get]
  · rw [h2] at hd
    simp only [Option.some.injEq] at hd
    subst hd
    exact absurd rfl hv

theorem key_below_ext (q : Path) (c : Node) (hc : Canon (ext q c)) :
    ∃ k0, get c k0 ≠ [] := by
  obtain ⟨_, hbr, hcc⟩ := hc
  have hb : isBlank c = false := by cases c <;> simp_all [isBranch, isBlank]
  exact exists_key c hcc hb

theorem subs_local (n : Node) (hc : Canon n) (rem : Path) (hL : Local n rem) (d : Ann)
    (hd : descOf (traverseT n rem) = some d) :
    (∀ s ∈ d.subs, s ≠ [] ∧ ∃ k', s <+: k' ∧ get n (rem ++ k') ≠ []) ∧
    (∀ s₁ ∈ d.subs, ∀ s₂ ∈ d.subs, s₁ <+: s₂ → s₁ = s₂) := by
  rcases local_desc n rem hL with ⟨rfl, _, h2⟩ | ⟨h1, _, h2, _⟩ | ⟨h1, q', v, rfl, _, h2⟩ |
      ⟨h1, q', c, hq', rfl, _, h2⟩
  · rw [h2] at hd
    simp only [Option.some.injEq] at hd
    subst hd
    cases n with
    | blank => simp [annotate]
    | leaf q v => simp [annotate]
    | ext q c =>
      obtain ⟨k0, hk0⟩ := key_below_ext q c hc
      simp only [annotate, List.mem_singleton, List.nil_append]
      refine ⟨?_, ?_⟩
      · rintro s rfl
        exact ⟨hc.1, s ++ k0, List.prefix_append _ _, by simpa [get] using hk0⟩
      · rintro s₁ rfl s₂ rfl _; rfl
    | branch ch v =>
      simp only [annotate, List.mem_map, List.nil_append]
      refine ⟨?_, ?_⟩
      · rintro s ⟨i, hi, rfl⟩
        obtain ⟨k0, hk0⟩ := exists_key (ch i) (hc.1 i) ((mem_liveIdx ch i).1 hi)
        exact ⟨by simp, i :: k0, by simp, by simpa [get] using hk0⟩
      · rintro s₁ ⟨i, _, rfl⟩ s₂ ⟨j, _, rfl⟩ h
        simpa using h
  · rw [h2] at hd
    simp only [Option.some.injEq] at hd
    subst hd
    simp [annotate]
  · rw [h2] at hd
    simp only [Option.some.injEq] at hd
    subst hd
    simp
  · rw [h2] at hd
    simp only [Option.some.injEq] at hd
    subst hd
    obtain ⟨k0, hk0⟩ := key_below_ext _ c hc
    simp only [List.mem_singleton]
    refine ⟨?_, ?_⟩
    · rintro s rfl
      refine ⟨hq', s ++ k0, List.prefix_append _ _, ?_⟩
      rw [← List.append_assoc]
      simpa [get] using hk0
    · rintro s₁ rfl s₂ rfl _; rfl

theorem from_sim_leaf (rem q' : Path) (v : Bytes) (hrem : rem ≠ []) (s : Path) :
    descOf (traverseT (leaf q' v) s) = descOf (traverseT (leaf (rem ++ q') v) (rem ++ s)) := by
  have hne : rem ++ s ≠ [] := by simp [hrem]
  rw [traverseT_leaf _ _ _ hne]
  cases s with
  | nil =>
    rw [traverseT_nil, descOf_nil]
    simp only [List.append_nil, List.prefix_append, ↓reduceIte]
    rw [descOf_ne _ _ hrem, simulate_leaf]
    rfl
  | cons a r =>
    have hs : a :: r ≠ [] := by simp
    rw [traverseT_leaf _ _ _ hs]
    simp only [List.prefix_append_right_inj]
    by_cases h : a :: r <+: q'
    · obtain ⟨q'', rfl⟩ := h
      simp only [List.prefix_append, ↓reduceIte]
      rw [descOf_ne _ _ hs, descOf_ne _ _ hne, simulate_leaf, ← List.append_assoc, simulate_leaf]
    · simp only [h, ↓reduceIte]

theorem from_sim_ext (rem q' : Path) (c : Node) (hrem : rem ≠ []) (hq' : q' ≠ []) (s : Path) :
    descOf (traverseT (ext q' c) s) = descOf (traverseT (ext (rem ++ q') c) (rem ++ s)) := by
  have hne : rem ++ s ≠ [] := by simp [hrem]
  rw [traverseT_ext _ _ _ hne]
  cases s with
  | nil =>
    rw [traverseT_nil, descOf_nil]
    have : ¬ (rem ++ q' <+: rem) := by
      intro h
      have := h.length_le
      have : q'.length = 0 := by simp at this; omega
      exact hq' (List.length_eq_zero_iff.1 this)
    simp only [List.append_nil, this, List.prefix_append, ↓reduceIte]
    rw [descOf_ne _ _ hrem, simulate_ext _ _ _ hq']
    rfl
  | cons a r =>
    have hs : a :: r ≠ [] := by simp
    rw [traverseT_ext _ _ _ hs]
    simp only [List.prefix_append_right_inj]
    by_cases h : q' <+: a :: r
    · simp only [h, ↓reduceIte]
      obtain ⟨x, hx⟩ := h
      rw [← hx, ← List.append_assoc]
      simp
    · simp only [h, ↓reduceIte]
      by_cases h2 : a :: r <+: q'
      · obtain ⟨q'', rfl⟩ := h2
        have hq'' : q'' ≠ [] := by
          intro e; subst e; simp at h
        simp only [List.prefix_append, ↓reduceIte]
        rw [descOf_ne _ _ hs, descOf_ne _ _ hne, simulate_ext _ _ _ hq'', ← List.append_assoc,
          simulate_ext _ _ _ hq'']
      · simp only [h2, ↓reduceIte]

/-! ### the eight statements -/

/-- `root_node` = `traverse(())` = the annotated root -/
theorem traverse_nil (t : Node) : traverseOut t [] = .node (annotate t) := by
  simp [traverseOut, traverseT_nil]

/-- blank exactly when no stored key starts with the path -/
theorem traverse_blank_iff (t : Node) (hc : Canon t) (p : Path) :
    (traverseT t p).1 = blank ↔ ∀ k, p <+: k → get t k = [] := by
  obtain ⟨tr, n, rem, h1, h2, rfl, h4, h5⟩ := trav_local t hc p
  rw [h4, blank_local n h2 rem h5]
  constructor
  · rintro h k ⟨k', rfl⟩
    rw [List.append_assoc, get_nodeAt t tr n h1]
    exact h k'
  · intro h k'
    rw [← get_nodeAt t tr n h1, ← List.append_assoc]
    exact h _ (List.prefix_append _ _)

/-- a traversal that ends inside a leaf or extension always has a simulated node -/
theorem traverse_partial_sim (t : Node) (hc : Canon t) (p tr tail : Path) (a : Ann) (sim : Option Ann)
    (h : traverseOut t p = .partialPath tr a tail sim) :
    sim.isSome = true ∧ tr ++ tail = p ∧ tail ≠ [] ∧ (a.kind = .leaf ∨ a.kind = .ext) := by
  obtain ⟨n', hT, hne, rfl, rfl, rfl⟩ := traverseOut_partial h
  obtain ⟨tr0, n, rem, h1, h2, rfl, h4, h5⟩ := trav_local t hc p
  rw [h4] at hT
  rcases local_desc n rem h5 with ⟨rfl, e, _⟩ | ⟨_, e, _, _⟩ | ⟨hr, q', v, rfl, e, e2⟩ |
      ⟨hr, q', c, hq', rfl, e, e2⟩
  · rw [e] at hT; simp only [Prod.mk.injEq] at hT; exact absurd hT.2.symm hne
  · rw [e] at hT; simp only [Prod.mk.injEq] at hT; exact absurd hT.2.symm hne
  · rw [e] at hT; simp only [Prod.mk.injEq] at hT
    obtain ⟨rfl, rfl⟩ := hT
    refine ⟨by rw [simulate_leaf]; rfl, by simp, hne, Or.inl rfl⟩
  · rw [e] at hT; simp only [Prod.mk.injEq] at hT
    obtain ⟨rfl, rfl⟩ := hT
    refine ⟨by rw [simulate_ext _ _ _ hq']; rfl, by simp, hne, Or.inr rfl⟩

/-- **the description covers the contents below the path**: every stored key that starts with `p`
    is either `p ++ suffix` carrying the described value, or continues through exactly one listed sub-segment -/
theorem traverse_covers (t : Node) (hc : Canon t) (p : Path) (d : Ann)
    (hd : (traverseOut t p).desc = some d) (k : Path) (hpk : p <+: k) (hk : get t k ≠ []) :
    (k = p ++ d.suffix ∧ d.value = get t k) ∨ (∃ s ∈ d.subs, (p ++ s) <+: k) := by
  obtain ⟨tr, n, rem, h1, h2, rfl, h4, h5⟩ := trav_local t hc p
  obtain ⟨k', rfl⟩ := hpk
  rw [desc_eq, h4] at hd
  rw [List.append_assoc, get_nodeAt t tr n h1] at hk ⊢
  rw [← List.append_assoc]
  rcases covers_local n rem h5 d hd k' hk with ⟨e1, e2⟩ | ⟨s, hs, hsk⟩
  · exact Or.inl ⟨by rw [e1], e2⟩
  · exact Or.inr ⟨s, hs, by rwa [List.prefix_append_right_inj]⟩

/-- the described value is really stored at `p ++ suffix` -/
theorem traverse_value (t : Node) (hc : Canon t) (p : Path) (d : Ann)
    (hd : (traverseOut t p).desc = some d) (hv : d.value ≠ []) : get t (p ++ d.suffix) = d.value := by
  obtain ⟨tr, n, rem, h1, h2, rfl, h4, h5⟩ := trav_local t hc p
  rw [desc_eq, h4] at hd
  rw [List.append_assoc, get_nodeAt t tr n h1]
  exact value_local n rem h5 d hd hv

/-- every listed sub-segment is non-empty, leads to at least one stored key, and no two of them are
    prefixes of one another -/
theorem traverse_subs (t : Node) (hc : Canon t) (p : Path) (d : Ann)
    (hd : (traverseOut t p).desc = some d) :
    (∀ s ∈ d.subs, s ≠ [] ∧ ∃ k, (p ++ s) <+: k ∧ get t k ≠ []) ∧
    (∀ s₁ ∈ d.subs, ∀ s₂ ∈ d.subs, s₁ <+: s₂ → s₁ = s₂) := by
  obtain ⟨tr, n, rem, h1, h2, rfl, h4, h5⟩ := trav_local t hc p
  rw [desc_eq, h4] at hd
  obtain ⟨l1, l2⟩ := subs_local n h2 rem h5 d hd
  refine ⟨?_, l2⟩
  intro s hs
  obtain ⟨hne, k', hsk, hk⟩ := l1 s hs
  refine ⟨hne, tr ++ rem ++ k', by rwa [List.prefix_append_right_inj], ?_⟩
  rwa [List.append_assoc, get_nodeAt t tr n h1]

/-- `traverse_from(node obtained at prefix, segment)` does what `traverse(prefix ++ segment)` does -/
theorem traverse_from_eq (t : Node) (p : Path) (n : Node) (hn : nodeAt t p = some n) (s : Path) :
    traverseT n s = traverseT t (p ++ s) :=
  traverseT_nodeAt t p n hn s

/-- … also when started from the simulated node of a position inside a leaf or extension: the
    remainder is described identically -/
theorem traverse_from_sim (t : Node) (hc : Canon t) (p tr tail : Path) (a sim : Ann)
    (h : traverseOut t p = .partialPath tr a tail (some sim)) (s : Path) :
    (traverseOut sim.raw s).desc = (traverseOut t (p ++ s)).desc := by
  obtain ⟨n', hT, hne, rfl, hsim, rfl⟩ := traverseOut_partial h
  obtain ⟨tr0, n, rem, h1, h2, rfl, h4, h5⟩ := trav_local t hc p
  rw [h4] at hT
  rw [desc_eq, desc_eq, List.append_assoc, ← traverseT_nodeAt t tr0 n h1]
  rcases local_desc n rem h5 with ⟨rfl, e, _⟩ | ⟨_, e, _, _⟩ | ⟨hr, q', v, rfl, e, e2⟩ |
      ⟨hr, q', c, hq', rfl, e, e2⟩
  · rw [e] at hT; simp only [Prod.mk.injEq] at hT; exact absurd hT.2.symm hne
  · rw [e] at hT; simp only [Prod.mk.injEq] at hT; exact absurd hT.2.symm hne
  · rw [e] at hT; simp only [Prod.mk.injEq] at hT
    obtain ⟨rfl, rfl⟩ := hT
    rw [simulate_leaf] at hsim
    simp only [Option.some.injEq] at hsim
    subst hsim
    exact from_sim_leaf _ q' v hne s
  · rw [e] at hT; simp only [Prod.mk.injEq] at hT
    obtain ⟨rfl, rfl⟩ := hT
    rw [simulate_ext _ _ _ hq'] at hsim
    simp only [Option.some.injEq] at hsim
    subst hsim
    exact from_sim_ext _ q' c hne hq' s

end PyTrie.Hex
