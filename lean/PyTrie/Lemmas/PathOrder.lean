import PyTrie.Model.HexTrav
/-! Order theory of `plt` (Python's tuple order on nibble paths), and first-hit lemmas for
    `find?` / `findSome?` over `List.finRange`. -/
namespace PyTrie.Hex

theorem plt_irrefl (a : Path) : plt a a = false := by
  induction a with
  | nil => rfl
  | cons x xs ih => simp [plt, ih]

theorem plt_cons (a b : Nib) (as bs : Path) :
    plt (a :: as) (b :: bs) = true ↔ a.val < b.val ∨ (a = b ∧ plt as bs = true) := by
  simp only [plt, Fin.lt_def]
  by_cases h1 : a.val < b.val
  · simp [h1]
  · by_cases h2 : b.val < a.val
    · have : a ≠ b := fun e => by subst e; omega
      simp [h1, h2, this]
    · have : a = b := Fin.ext (by omega)
      subst this; simp

theorem plt_cons_false (a b : Nib) (as bs : Path) :
    plt (a :: as) (b :: bs) = false ↔ b.val < a.val ∨ (a = b ∧ plt as bs = false) := by
  simp only [plt, Fin.lt_def]
  by_cases h1 : a.val < b.val
  · have : a ≠ b := fun e => by subst e; omega
    simp [h1, this]; omega
  · by_cases h2 : b.val < a.val
    · simp [h1, h2]
    · have : a = b := Fin.ext (by omega)
      subst this; simp

@[simp] theorem plt_nil_right (k : Path) : plt k [] = false := by cases k <;> rfl

theorem plt_nil_left (k : Path) : plt [] k = true ↔ k ≠ [] := by cases k <;> simp [plt]

@[simp] theorem plt_nil_cons (a : Nib) (k : Path) : plt [] (a :: k) = true := rfl

@[simp] theorem plt_cons_same (a : Nib) (as bs : Path) : plt (a :: as) (a :: bs) = plt as bs := by
  simp [plt]

theorem plt_trans {a b c : Path} (h1 : plt a b = true) (h2 : plt b c = true) : plt a c = true := by
  induction a generalizing b c with
  | nil => cases b <;> cases c <;> simp_all [plt]
  | cons x xs ih =>
    cases b with
    | nil => simp [plt] at h1
    | cons y ys =>
      cases c with
      | nil => simp [plt] at h2
      | cons z zs =>
        rw [plt_cons] at *
        rcases h1 with h1 | ⟨rfl, h1⟩ <;> rcases h2 with h2 | ⟨rfl, h2⟩
        · left; omega
        · left; exact h1
        · left; exact h2
        · right; exact ⟨rfl, ih h1 h2⟩

theorem plt_total (a b : Path) : plt a b = true ∨ a = b ∨ plt b a = true := by
  induction a generalizing b with
  | nil => cases b <;> simp [plt]
  | cons x xs ih =>
    cases b with
    | nil => simp [plt]
    | cons y ys =>
      simp only [plt]
      rcases Nat.lt_trichotomy x.val y.val with h | h | h
      · left; simp [Fin.lt_def, h]
      · have : x = y := Fin.ext h
        subst this
        simp only [Fin.lt_irrefl, ↓reduceIte]
        rcases ih ys with h | h | h
        · exact Or.inl h
        · exact Or.inr (Or.inl (by rw [h]))
        · exact Or.inr (Or.inr h)
      · right; right
        have h1 : y < x := h
        simp [h1]

theorem plt_asymm {a b : Path} (h : plt a b = true) : plt b a = false := by
  cases hb : plt b a with
  | false => rfl
  | true => have := plt_trans h hb; rw [plt_irrefl] at this; exact absurd this (by simp)

theorem prefix_le {q k : Path} (h : q <+: k) : plt k q = false := by
  induction q generalizing k with
  | nil => cases k <;> rfl
  | cons x xs ih =>
    cases k with
    | nil => simp at h
    | cons y ys =>
      have ⟨hxy, hp⟩ := List.cons_prefix_cons.1 h
      subst hxy
      simp [plt, ih hp]

/-- anything between a prefix of `k` and `k` itself has that prefix too -/
theorem prefix_between {q l k : Path} (hq : q <+: k) (h1 : plt l q = false) (h2 : plt k l = false) :
    q <+: l := by
  induction q generalizing l k with
  | nil => exact List.nil_prefix
  | cons x xs ih =>
    cases k with
    | nil => simp at hq
    | cons y ys =>
      have ⟨hxy, hp⟩ := List.cons_prefix_cons.1 hq
      subst hxy
      cases l with
      | nil => simp [plt] at h1
      | cons z zs =>
        rw [plt_cons_false] at h1 h2
        rcases h1 with h1 | ⟨rfl, h1⟩
        · rcases h2 with h2 | ⟨rfl, h2⟩
          · omega
          · omega
        · rcases h2 with h2 | ⟨_, h2⟩
          · omega
          · exact List.cons_prefix_cons.2 ⟨rfl, ih hp h1 h2⟩

/-- a common prefix does not matter -/
@[simp] theorem plt_append_left (p a b : Path) : plt (p ++ a) (p ++ b) = plt a b := by
  induction p with
  | nil => rfl
  | cons x xs ih => simp [ih]

theorem plt_append_right_self (p q : Path) (hq : q ≠ []) : plt p (p ++ q) = true := by
  have := plt_append_left p [] q
  rw [List.append_nil] at this
  rw [this]; exact (plt_nil_left q).2 hq

/-- `p` lies to the left of the key: so does everything below `p` -/
theorem plt_take_true {p key : Path} (h : plt p (key.take p.length) = true) (k' : Path) :
    plt key (p ++ k') = false := by
  induction p generalizing key with
  | nil => simp at h
  | cons x xs ih =>
    cases key with
    | nil => simp at h
    | cons y ys =>
      simp only [List.length_cons, List.take_succ_cons, plt_cons] at h
      simp only [List.cons_append, plt_cons_false]
      rcases h with h | ⟨rfl, h⟩
      · exact Or.inl h
      · exact Or.inr ⟨rfl, ih h⟩

/-- `p` is not to the left of the key and the key does not go through `p`: everything below `p`
    lies to the right of the key -/
theorem plt_take_false {p key : Path} (h : plt p (key.take p.length) = false) (hp : ¬ p <+: key)
    (k' : Path) : plt key (p ++ k') = true := by
  induction p generalizing key with
  | nil => exact absurd List.nil_prefix hp
  | cons x xs ih =>
    cases key with
    | nil => rfl
    | cons y ys =>
      simp only [List.length_cons, List.take_succ_cons, plt_cons_false] at h
      simp only [List.cons_append, plt_cons]
      rcases h with h | ⟨rfl, h⟩
      · exact Or.inl h
      · refine Or.inr ⟨rfl, ih h ?_⟩
        intro hx
        exact hp (List.cons_prefix_cons.2 ⟨rfl, hx⟩)

theorem plt_take_of_prefix {p key : Path} (hp : p <+: key) : plt p (key.take p.length) = false := by
  obtain ⟨r, rfl⟩ := hp
  simp [plt_irrefl]

theorem plt_single_take_one (i : Nib) (key : Path) :
    plt [i] (key.take 1) = true ↔ ∃ a rest, key = a :: rest ∧ i.val < a.val := by
  cases key with
  | nil => simp
  | cons a rest =>
    simp only [List.take_succ_cons, List.take_zero, plt_cons, plt_nil_right]
    constructor
    · rintro (h | ⟨_, h⟩)
      · exact ⟨a, rest, rfl, h⟩
      · simp at h
    · rintro ⟨a', rest', e, h⟩
      simp only [List.cons.injEq] at e
      obtain ⟨rfl, _⟩ := e
      exact Or.inl h

/-! ### first hit over `finRange` -/

theorem finRange_split_lt {n : Nat} {l₁ l₂ : List (Fin n)} {a : Fin n}
    (h : List.finRange n = l₁ ++ a :: l₂) (j : Fin n) : j ∈ l₁ ↔ j < a := by
  have hp := List.pairwise_lt_finRange n
  rw [h, List.pairwise_append] at hp
  obtain ⟨_, h2, h3⟩ := hp
  constructor
  · intro hj; exact h3 j hj a List.mem_cons_self
  · intro hj
    have hm : j ∈ l₁ ++ a :: l₂ := h ▸ List.mem_finRange j
    rcases List.mem_append.1 hm with hm | hm
    · exact hm
    · rcases List.mem_cons.1 hm with rfl | hm
      · exact absurd hj (Fin.lt_irrefl _)
      · have := (List.pairwise_cons.1 h2).1 j hm
        exact absurd (Fin.lt_trans hj this) (Fin.lt_irrefl _)

theorem findSome_finRange_some {n : Nat} {β} {f : Fin n → Option β} {b : β}
    (h : (List.finRange n).findSome? f = some b) : ∃ i, f i = some b ∧ ∀ j, j < i → f j = none := by
  obtain ⟨l₁, a, l₂, hl, ha, hn⟩ := List.findSome?_eq_some_iff.1 h
  exact ⟨a, ha, fun j hj => hn j ((finRange_split_lt hl j).2 hj)⟩

theorem findSome_finRange_none {n : Nat} {β} {f : Fin n → Option β}
    (h : (List.finRange n).findSome? f = none) (i : Fin n) : f i = none :=
  List.findSome?_eq_none_iff.1 h i (List.mem_finRange i)

theorem find_finRange_some {n : Nat} {p : Fin n → Bool} {i : Fin n}
    (h : (List.finRange n).find? p = some i) : p i = true ∧ ∀ j, j < i → p j = false := by
  obtain ⟨hi, as, bs, hl, hn⟩ := List.find?_eq_some_iff_append.1 h
  refine ⟨hi, fun j hj => ?_⟩
  have := hn j ((finRange_split_lt hl j).2 hj)
  simpa using this

theorem find_finRange_none {n : Nat} {p : Fin n → Bool}
    (h : (List.finRange n).find? p = none) (i : Fin n) : p i = false := by
  have := List.find?_eq_none.1 h i (List.mem_finRange i)
  simpa using this


/-! additional order lemmas (fog proofs) -/
theorem plt_ne {a b : Path} (h : plt a b = true) : a ≠ b := by
  intro e; subst e; rw [plt_irrefl] at h; exact absurd h (by simp)

theorem plt_of_le_of_lt {a b c : Path} (h1 : plt b a = false) (h2 : plt b c = true) : plt a c = true := by
  rcases plt_total a b with h | h | h
  · exact plt_trans h h2
  · subst h; exact h2
  · rw [h] at h1; exact absurd h1 (by simp)

theorem plt_of_lt_of_le {a b c : Path} (h1 : plt a b = true) (h2 : plt c b = false) : plt a c = true := by
  rcases plt_total b c with h | h | h
  · exact plt_trans h1 h
  · subst h; exact h1
  · rw [h] at h2; exact absurd h2 (by simp)

theorem plt_antisymm {a b : Path} (h1 : plt a b = false) (h2 : plt b a = false) : a = b := by
  rcases plt_total a b with h | h | h
  · rw [h] at h1; exact absurd h1 (by simp)
  · exact h
  · rw [h] at h2; exact absurd h2 (by simp)

end PyTrie.Hex
