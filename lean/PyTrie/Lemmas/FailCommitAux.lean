import PyTrie.Lemmas.FreeHistory
import PyTrie.Lemmas.HistoryBlocksAux
/-! General facts for blocks whose commit is cut short by the database (`Props/HistoryFailCommit.lean`): what
    `World.batchEnd false` leaves behind when the commit loop reports a failure, that a prefix of a non-deleting commit
    with a consistent cache keeps every binding of the wrapped database, and that injecting / clearing a write fault keeps
    the two worlds in step. -/
namespace PyTrie.HexW
open PyTrie.Hex hiding get set
open PyTrie.Hex.Node

/-- with unique keys an entry's value is what `get?` reads -/
theorem Dict.get?_of_mem_nodup {α} (d : Dict α) (hd : NoDupKeys d) (h : Hash) (x : α) (hm : (h, x) ∈ d) :
    Dict.get? d h = some x := by
  induction d with
  | nil => cases hm
  | cons a r ih =>
    rw [Dict.get?_cons]
    unfold NoDupKeys at hd
    rw [List.map_cons, List.nodup_cons] at hd
    rcases List.mem_cons.1 hm with h1 | h1
    · subst h1
      simp
    · have hne : (a.1 == h) = false := by
        cases hb : (a.1 == h)
        · rfl
        · exfalso
          apply hd.1
          rw [beq_iff_eq.1 hb]
          exact List.mem_map.2 ⟨(h, x), h1, rfl⟩
      simp only [hne, Bool.false_eq_true, ↓reduceIte]
      exact ih hd.2 h1

/-- **a prefix of a non-deleting commit keeps every binding of the wrapped database** when every buffered write of a key
    the wrapped database holds carries the same body -/
theorem commitLoop_preserved (cache : Dict (Option Bytes)) (base : Dict Bytes) (fa : Option Nat)
    (hnd : NoDupKeys cache)
    (hcons : CacheConsistent { base := base, cache := some cache, failAfter := fa }) :
    Preserved base (commitLoop false cache base fa).2.1 := by
  rcases (commitLoop_noDeletes cache base fa).1 with h | ⟨h, b, b', hm, hne, hg⟩
  · exact h
  · exfalso
    apply hne
    have hm' : (h, some b') ∈ cache := by
      obtain ⟨e, he, hh⟩ := List.mem_filterMap.1 hm
      obtain ⟨k, o⟩ := e
      cases o with
      | none => simp at hh
      | some v =>
        simp only [Option.map_some, Option.some.injEq, Prod.mk.injEq] at hh
        obtain ⟨rfl, rfl⟩ := hh
        exact he
    exact (hcons cache h b' b rfl (Dict.get?_of_mem_nodup cache hnd h (some b') hm') hg).symm

/-- leaving a block whose commit is cut short: only the database (a prefix of the commit), the fault counter and the
    block change -/
theorem World.batchEnd_failed_eq (w : World) (b : Batch) (hb : w.batch = some b)
    (hfail : (w.batchEnd false).1 = .error .writeFailed) :
    (w.batchEnd false).2 =
      { w with base := (commitLoop (w.tries[b.outer]!).prune b.cache w.base w.failAfter).2.1,
               failAfter := (commitLoop (w.tries[b.outer]!).prune b.cache w.base w.failAfter).2.2,
               batch := none } := by
  unfold World.batchEnd at hfail ⊢
  rw [hb] at hfail ⊢
  simp only [Bool.false_eq_true, if_false] at hfail ⊢
  rcases hcl : commitLoop (w.tries[b.outer]!).prune b.cache w.base w.failAfter with ⟨ok, base', fa'⟩
  rw [hcl] at hfail
  cases ok with
  | true => simp at hfail
  | false => simp

end PyTrie.HexW

namespace PyTrie.HexFree
open PyTrie PyTrie.Hex PyTrie.HexD PyTrie.HexW PyTrie.HexRaw PyTrie.HexRawT

/-- injecting the same write fault on both sides keeps the worlds in step -/
theorem sim_setFail (fw : FWorld) (w : World) (h : Sim fw w) (fa : Option Nat) :
    Sim { fw with failAfter := fa } { w with failAfter := fa } := by
  obtain ⟨hbase, _, hsz, hcsz, hout, hcnt, hbt⟩ := h
  exact ⟨hbase, rfl, hsz, hcsz, hout, hcnt, hbt⟩

end PyTrie.HexFree
