import PyTrie.Lemmas.PruneBodiesV
import PyTrie.Lemmas.WorldBatchNP
/-! **Bodies through a `squash_changes` block on a NON-pruning trie.** The batch trie is a pruning trie over a `ScratchDB`
    whose reference counts start empty although the wrapped database `base0` is not (the clamped-counter situation of
    `Lemmas/WorldBatchNP.lean`): it may buffer a delete for a node that is still referenced. Such a node was a key of
    `base0`, and `ScratchDB.__getitem__` reads through a buffered delete to the wrapped database, so the node stays
    readable — with the right body, because a buffered write of a key that the wrapped database already holds carries the
    same body (`CacheConsistent`, maintained under the run-level no-collision predicate over the view). Hence the view
    stays complete through the block and the database is complete for the new root after the commit (which pushes no
    deletes). This discharges the completeness hypothesis of the lockstep theorems for blocks on a non-pruning trie. -/
namespace PyTrie.HexW
open PyTrie.Hex hiding get set
open PyTrie.Hex.Node
open PyTrie.HexFree (storeDb)

variable (Hs : Hashing) (blankRootHash : Hash)

/-- a buffered write of a key the wrapped database holds carries the body the wrapped database holds -/
def CacheConsistent (st : Store) : Prop :=
  ∀ c h b b', st.cache = some c → Dict.get? c h = some (some b) → Dict.get? st.base h = some b' → b = b'

theorem cacheConsistent_begin (base : Dict Bytes) (fa : Option Nat) :
    CacheConsistent { base := base, cache := some [], failAfter := fa } := by
  intro c h b b' hc hg _
  simp only [Option.some.injEq] at hc
  subst hc
  rw [Dict.get?_nil] at hg
  cases hg

/-- with a consistent cache, the store reads every binding of the wrapped database as the wrapped database has it -/
theorem CacheConsistent.get?_of_base {st : Store} (hcons : CacheConsistent st) (h : Hash) (b' : Bytes)
    (hb : Dict.get? st.base h = some b') : st.get? h = some b' := by
  unfold Store.get?
  cases hc : st.cache with
  | none => exact hb
  | some c =>
    simp only []
    cases hg : Dict.get? c h with
    | none => exact hb
    | some o =>
      cases o with
      | none => exact hb
      | some b => simp only []; rw [hcons c h b b' hc hg hb]

/-! ### the exit read view of an operation: the entry read view after the writes, or — under a buffered delete — the
    wrapped database -/

/-- every hash reads as in the dict `D`, or reads through to the wrapped database -/
def ReadsThru (st : Store) (D : Dict Bytes) : Prop :=
  ∀ x, st.get? x = Dict.get? D x ∨ st.get? x = Dict.get? st.base x

theorem ReadsAs.readsThru {st : Store} {D : Dict Bytes} (h : ReadsAs st D) : ReadsThru st D := fun x => Or.inl (h x)

theorem Store.del_readsThru (s : Store) (h : Hash) (s' : Store) (hd : s.del h = some s')
    (D : Dict Bytes) (hD : ReadsThru s D) : ReadsThru s' D := by
  obtain ⟨base, cache, fa⟩ := s
  cases cache with
  | some c =>
    simp only [Store.del, Option.some.injEq] at hd
    subst hd
    intro x
    by_cases hx : x = h
    · subst hx
      right
      simp only [Store.get?]
      rw [Dict.get?_insert_self']
    · have := hD x
      simp only [Store.get?] at this ⊢
      rw [Dict.get?_insert_other' c h x _ hx]
      exact this
  | none =>
    simp only [Store.del] at hd
    split at hd
    · simp only [Option.some.injEq] at hd
      subst hd
      intro x
      right
      simp only [Store.get?]
    · cases hd

theorem pruneStep_readsThru (s : OpSt) (kn : Hash × Nat) (s' : OpSt) (h : pruneStep s kn = .ok s')
    (D : Dict Bytes) (hD : ReadsThru s.store D) : ReadsThru s'.store D := by
  unfold pruneStep at h
  simp only at h
  split at h
  · split at h
    · cases h
    · next st hd =>
      cases h
      exact Store.del_readsThru s.store kn.1 st hd D hD
  · cases h
    exact hD

theorem completePruning_readsThru (l : List (Hash × Nat)) (s s' : OpSt) (h : completePruning s l = (s', none))
    (D : Dict Bytes) (hD : ReadsThru s.store D) : ReadsThru s'.store D := by
  induction l generalizing s with
  | nil =>
    simp only [completePruning] at h
    cases h
    exact hD
  | cons kn rest ih =>
    simp only [completePruning] at h
    split at h
    · next s1 h1 => exact ih s1 h (pruneStep_readsThru s kn s1 h1 D hD)
    · cases h

theorem finishPrune_readsThru (T : TrieSt) (s s' : OpSt) (h : finishPrune T s = (s', none))
    (D : Dict Bytes) (hD : ReadsThru s.store D) : ReadsThru s'.store D := by
  unfold finishPrune at h
  split at h
  · exact completePruning_readsThru _ s s' h D hD
  · cases h
    exact hD

/-- a successful `set` / `delete` over any store: every hash reads at exit as in the entry read view after all the
    operation's writes, or reads through to the wrapped database (a delete was buffered for it) -/
theorem opCore_readsThru (T : TrieSt) (key : Bytes) (val : Option Bytes) (s : OpSt) (T' : TrieSt)
    (h : (opCore Hs blankRootHash T key val s).2 = .ok T') (D : Dict Bytes) (hD : ReadsAs s.store D) :
    ReadsThru (opCore Hs blankRootHash T key val s).1.store (applyWrites D (opWrites Hs T key val)) ∧
      T' = { T with tree := (opTree Hs T key val).1,
                    root := if isBlank (opTree Hs T key val).1 then blankRootHash
                            else Hs.hashOf (opTree Hs T key val).1 } := by
  unfold opCore at h ⊢
  split
  · next hr => rw [if_pos hr] at h; cases h
  · next hr =>
    rw [if_neg hr] at h
    split
    · next s1 x h1 => rw [h1] at h; cases h
    · next s1 h1 =>
      rw [h1] at h
      simp only at h
      have r1 := runEvs_readsAs T.prune T.root key _ s s1 h1 D hD
      have hst := schedOldRoot_store Hs blankRootHash T s1
      split
      · next x h3 => rw [h3] at h; cases h
      · next s3 newRoot h3 =>
        rw [h3] at h
        simp only at h
        obtain ⟨r3, e3⟩ := writeRoot_readsAs Hs blankRootHash T _ _ s3 newRoot h3 _ (by rw [hst]; exact r1)
        split
        · next s4 x h4 => rw [h4] at h; cases h
        · next s4 h4 =>
          rw [h4] at h
          simp only at h
          rw [← applyWrites_append] at r3
          refine ⟨finishPrune_readsThru T s3 s4 h4 _ r3.readsThru, ?_⟩
          cases h
          rw [e3]

/-- one operation of the batch trie keeps the view complete for its new root, and the cache consistent -/
theorem opSetDel_np_complete_view (base0 : Dict Bytes) (T : TrieSt) (hc : Canon T.tree) (key : Bytes) (val : Option Bytes) (s : OpSt)
    (hinv : BatchInvNP Hs blankRootHash base0 T s) (hcons : CacheConsistent s.store)
    (hcomp : Complete Hs blankRootHash (storeDb s.store) T)
    (hrs : RefSound Hs T.tree (nibs key))
    (hnc : NoClobber (storeDb s.store) (opWrites Hs T key val))
    (hblank : isBlank (opTree Hs T key val).1 = false → Hs.hashOf (opTree Hs T key val).1 ≠ blankRootHash)
    (T' : TrieSt) (hok : (opSetDel Hs blankRootHash T key val s).2 = .ok T') :
    Complete Hs blankRootHash (storeDb (opSetDel Hs blankRootHash T key val s).1.store) T' ∧
    CacheConsistent (opSetDel Hs blankRootHash T key val s).1.store := by
  obtain ⟨T'', hok', _, hpi⟩ := opSetDel_batchInvNP Hs blankRootHash base0 T hc key val s hinv hrs hblank
  rw [hok] at hok'
  cases hok'
  have hnd : s.store.CacheNoDup := by
    obtain ⟨c, hc, hn⟩ := hinv.cached
    intro c' hc'
    rw [hc] at hc'
    cases hc'
    exact hn
  -- the exit read view
  have hok2 : (opCore Hs blankRootHash T key val { s with pending := [] }).2 = .ok T' := hok
  obtain ⟨hrt, hT'⟩ := opCore_readsThru Hs blankRootHash T key val { s with pending := [] } T' hok2 (storeDb s.store)
    (readsAs_storeDb s.store hnd)
  have hrt' : ReadsThru (opSetDel Hs blankRootHash T key val s).1.store
      (applyWrites (storeDb s.store) (opWrites Hs T key val)) := hrt
  generalize (opSetDel Hs blankRootHash T key val s).1 = sf at hpi hrt'
  have hndf : sf.store.CacheNoDup := by
    obtain ⟨c, hc, hn⟩ := hpi.cached
    intro c' hc'
    rw [hc] at hc'
    cases hc'
    exact hn
  obtain ⟨hpres, hwr⟩ := applyWrites_noClobber _ _ hnc
  -- every binding of the wrapped database is in the entry read view after the writes
  have hbase : ∀ h b', Dict.get? base0 h = some b' →
      Dict.get? (applyWrites (storeDb s.store) (opWrites Hs T key val)) h = some b' := by
    intro h b' hb
    apply hpres
    rw [← readsAs_storeDb s.store hnd h]
    exact hcons.get?_of_base h b' (by rw [hinv.base]; exact hb)
  have hst1 : StoredBelow Hs (applyWrites (storeDb s.store) (opWrites Hs T key val)) (opTree Hs T key val).1 := by
    apply opTree_stored Hs _ T key val (storedBelow_mono Hs _ _ hpres _ hcomp.2)
    intro h b hm
    exact hwr h b (List.mem_append_left _ hm)
  have htree : T'.tree = (opTree Hs T key val).1 := by rw [hT']
  have hroot := hpi.root
  -- the entry read view after the writes is complete for the new root
  have hcD : Complete Hs blankRootHash (applyWrites (storeDb s.store) (opWrites Hs T key val)) T' := by
    refine ⟨?_, by rw [htree]; exact hst1⟩
    cases hb : isBlank T'.tree
    · rw [hb] at hroot
      simp only [Bool.false_eq_true, if_false] at hroot ⊢
      refine ⟨hroot.1, hroot.2, ?_⟩
      rw [hroot.1, htree]
      apply hwr
      unfold opWrites
      rw [htree] at hb
      simp only [hb, Bool.false_eq_true, if_false]
      exact List.mem_append_right _ (List.mem_singleton.2 rfl)
    · rw [hb] at hroot
      simp only [if_true] at hroot ⊢
      exact hroot
  refine ⟨?_, ?_⟩
  · -- the exit read view agrees with it on every live hash
    refine complete_agree Hs blankRootHash T' T' rfl rfl ?_ hcD
    intro h hp
    rw [← readsAs_storeDb sf.store hndf h]
    rcases hrt' h with e | e
    · exact e
    · have hr := hpi.readable h hp
      rw [PyTrie.HexFree.contains_eq_isSome_get?, e, hpi.base] at hr
      rw [e, hpi.base]
      cases hg : Dict.get? base0 h with
      | none => rw [hg] at hr; cases hr
      | some b' => exact (hbase h b' hg).symm
  · intro c h b b' hcc hg hb
    rw [hpi.base] at hb
    have hget : sf.store.get? h = some b := by
      unfold Store.get?
      rw [hcc]
      simp only [hg]
    have hE := hbase h b' hb
    rcases hrt' h with e | e
    · rw [hget, hE] at e
      exact Option.some.inj e
    · rw [hget, hpi.base, hb] at e
      exact Option.some.inj e

/-! ### the commit loop without deletes: bodies -/

/-- `batch_commit(do_deletes=False)` without write faults, unique cache keys: the committed database holds under `h`
    what the `ScratchDB` read under `h` -/
theorem commitLoop_noDeletes_get? (cache : Dict (Option Bytes)) (base : Dict Bytes) (hnd : NoDupKeys cache) (h : Hash)
    (fa : Option Nat) :
    Dict.get? (commitLoop false cache base none).2.1 h =
      Store.get? { base := base, cache := some cache, failAfter := fa } h := by
  simp only [Store.get?]
  induction cache generalizing base with
  | nil => simp [commitLoop, Dict.get?_nil]
  | cons e rest ih =>
    obtain ⟨k, o⟩ := e
    have hnd' := hnd
    unfold NoDupKeys at hnd'
    rw [List.map_cons, List.nodup_cons] at hnd'
    have hrest : Dict.contains rest k = false := by
      cases hb : Dict.contains rest k
      · rfl
      · exact absurd ((Dict.contains_iff_mem_keys rest k).1 hb) hnd'.1
    rw [Dict.get?_cons]
    cases o with
    | some v =>
      have e : (commitLoop false ((k, some v) :: rest) base none).2.1 =
          (commitLoop false rest (Dict.insert base k v) none).2.1 := by simp [commitLoop]
      rw [e, ih _ hnd'.2]
      by_cases hk : k = h
      · subst hk
        rw [Dict.get?_eq_none_of_not_contains rest k hrest, get?_insert_self]
        simp
      · have hk' : (k == h) = false := by simpa using hk
        simp only [hk', Bool.false_eq_true, if_false]
        rw [get?_insert_other _ _ _ _ (fun e => hk e.symm)]
    | none =>
      have e : (commitLoop false ((k, none) :: rest) base none).2.1 =
          (commitLoop false rest base none).2.1 := by simp [commitLoop]
      rw [e, ih _ hnd'.2]
      by_cases hk : k = h
      · subst hk
        rw [Dict.get?_eq_none_of_not_contains rest k hrest]
        simp
      · have hk' : (k == h) = false := by simpa using hk
        simp only [hk', Bool.false_eq_true, if_false]

/-- a successful commit on a non-pruning outer trie (no deletes are pushed) leaves the database complete for the new root,
    and keeps every binding it had -/
theorem commit_np_complete (base0 : Dict Bytes) (T : TrieSt) (s : OpSt) (hinv : BatchInvNP Hs blankRootHash base0 T s)
    (hcons : CacheConsistent s.store) (c : Dict (Option Bytes)) (hcache : s.store.cache = some c)
    (hcomp : Complete Hs blankRootHash (storeDb s.store) T) :
    Complete Hs blankRootHash (commitLoop false c base0 none).2.1 { T with prune := false } ∧
    Preserved base0 (commitLoop false c base0 none).2.1 := by
  obtain ⟨c', hc', hnd⟩ := hinv.cached
  rw [hcache] at hc'
  simp only [Option.some.injEq] at hc'
  subst hc'
  have hcnd : s.store.CacheNoDup := by
    intro c' hc'
    rw [hcache] at hc'
    cases hc'
    exact hnd
  have hg : ∀ h, Dict.get? (commitLoop false c base0 none).2.1 h = s.store.get? h := by
    intro h
    rw [commitLoop_noDeletes_get? c base0 hnd h s.store.failAfter]
    unfold Store.get?
    rw [hcache, hinv.base]
  refine ⟨?_, ?_⟩
  · refine complete_agree Hs blankRootHash T { T with prune := false } rfl rfl ?_ hcomp
    intro h _
    rw [hg h]
    exact readsAs_storeDb s.store hcnd h
  · intro h b hb
    rw [hg h]
    exact hcons.get?_of_base h b (by rw [hinv.base]; exact hb)

end PyTrie.HexW
