import PyTrie.Lemmas.MissingProofs
/-! Every fetch (`Ev.read`) of `setE` / `deleteE` is the hash of a hashed proper subtree of the old tree. -/
namespace PyTrie.HexW
open PyTrie.Hex hiding get set
open PyTrie.Hex.Node

variable (Hs : Hashing)

theorem not_mem_of_noRead {l : List Ev} (hn : NoRead l) (h : Hash) : Ev.read h ∉ l :=
  fun hm => hn _ hm h rfl

theorem mem_readEv {n : Node} {h : Hash} (hm : Ev.read h ∈ readEv Hs n) :
    Hs.hashed n = true ∧ Hs.hashOf n = h := by
  unfold readEv at hm
  split at hm
  · next hh => simp at hm; exact ⟨hh, hm.symm⟩
  · cases hm

theorem occ_pos_of_hashed {n : Node} (hh : Hs.hashed n = true) : 0 < occ Hs n (Hs.hashOf n) := by
  rw [occ_eq]; simp [self, hh]; omega

theorem le_sum_map_of_mem (l : List Nib) (g : Nib → Nat) (i : Nib) (hi : i ∈ l) : g i ≤ (l.map g).sum := by
  induction l with
  | nil => cases hi
  | cons x xs ih =>
    simp only [List.map_cons, List.sum_cons]
    rcases List.mem_cons.1 hi with rfl | h1
    · omega
    · have := ih h1; omega

theorem le_sumCh (g : Nib → Nat) (i : Nib) : g i ≤ sumCh g :=
  le_sum_map_of_mem _ g i (List.mem_finRange i)

theorem occProper_le_occ (n : Node) (h : Hash) : occProper Hs n h ≤ occ Hs n h := by
  rw [occ_eq]; omega

theorem occProper_ext_pos_of_read {p : Path} {c : Node} {h : Hash} (hm : Ev.read h ∈ readEv Hs c) :
    0 < occProper Hs (ext p c) h := by
  obtain ⟨hh, rfl⟩ := mem_readEv Hs hm
  exact occ_pos_of_hashed Hs hh

theorem occProper_branch_pos_of_read {ch : Nib → Node} {v : Bytes} {n : Nib} {h : Hash}
    (hm : Ev.read h ∈ readEv Hs (ch n)) : 0 < occProper Hs (branch ch v) h := by
  obtain ⟨hh, rfl⟩ := mem_readEv Hs hm
  have h1 := occ_pos_of_hashed Hs hh
  have h2 := le_sumCh (fun i => occ Hs (ch i) (Hs.hashOf (ch n))) n
  simp only [occProper]
  omega

theorem occProper_branch_pos_of_child {ch : Nib → Node} {v : Bytes} {n : Nib} {h : Hash}
    (hm : 0 < occProper Hs (ch n) h) : 0 < occProper Hs (branch ch v) h := by
  have h1 := occProper_le_occ Hs (ch n) h
  have h2 := le_sumCh (fun i => occ Hs (ch i) h) n
  simp only [occProper]
  omega

theorem occProper_ext_pos_of_child {p : Path} {c : Node} {h : Hash}
    (hm : 0 < occProper Hs c h) : 0 < occProper Hs (ext p c) h := by
  have h1 := occProper_le_occ Hs c h
  simp only [occProper]
  omega

theorem setE_leaf_noRead (p : Path) (pv : Bytes) (k : Path) (v : Bytes) : NoRead (setE Hs (leaf p pv) k v).2 := by
  simp only [setE]
  split <;> simp

theorem setE_reads_occ (t : Node) (k : Path) (v : Bytes) (h : Hash) (hm : Ev.read h ∈ (setE Hs t k v).2) :
    0 < occProper Hs t h := by
  induction t generalizing k with
  | blank => simp [setE] at hm
  | leaf p pv => exact absurd hm (not_mem_of_noRead (setE_leaf_noRead Hs p pv k v) h)
  | ext p c ih =>
    simp only [setE] at hm
    split at hm
    · next kr _ _ =>
      simp only [List.mem_append] at hm
      rcases hm with ((h1 | h1) | h1) | h1
      · exact absurd h1 (not_mem_of_noRead (noRead_pruneEv Hs _) h)
      · exact occProper_ext_pos_of_read Hs h1
      · exact occProper_ext_pos_of_child Hs (ih _ h1)
      · exact absurd h1 (not_mem_of_noRead (noRead_persistEv Hs _) h)
    · exfalso; revert hm; apply not_mem_of_noRead; simp
    · exfalso; revert hm; apply not_mem_of_noRead; simp
  | branch ch bv ih =>
    cases k with
    | nil =>
      simp only [setE] at hm
      exact absurd hm (not_mem_of_noRead (noRead_pruneEv Hs _) h)
    | cons n k =>
      simp only [setE, List.mem_append] at hm
      rcases hm with ((h1 | h1) | h1) | h1
      · exact absurd h1 (not_mem_of_noRead (noRead_pruneEv Hs _) h)
      · exact occProper_branch_pos_of_read Hs h1
      · exact occProper_branch_pos_of_child Hs (ih n k h1)
      · exact absurd h1 (not_mem_of_noRead (noRead_persistEv Hs _) h)

/-- a fetch of `_normalize_branch_node` is a hashed child -/
theorem normalizeE_reads_occ (ch : Nib → Node) (v : Bytes) (h : Hash) (hm : Ev.read h ∈ (normalizeE Hs ch v).2) :
    ∃ i, Hs.hashed (ch i) = true ∧ Hs.hashOf (ch i) = h := by
  unfold normalizeE at hm
  split at hm
  · cases hm
  · cases hm
  · next i _ =>
    split at hm
    · simp only [List.mem_append] at hm
      rcases hm with h1 | h1
      · exact ⟨i, mem_readEv Hs h1⟩
      · exact absurd h1 (not_mem_of_noRead (noRead_pruneEv Hs _) h)
    · simp only [List.mem_append] at hm
      rcases hm with h1 | h1
      · exact ⟨i, mem_readEv Hs h1⟩
      · exact absurd h1 (not_mem_of_noRead (noRead_pruneEv Hs _) h)
    · exact ⟨i, mem_readEv Hs hm⟩
  · cases hm

theorem occProper_branch_pos_of_hashed {ch : Nib → Node} {v : Bytes} {i : Nib}
    (hh : Hs.hashed (ch i) = true) : 0 < occProper Hs (branch ch v) (Hs.hashOf (ch i)) := by
  have h1 := occ_pos_of_hashed Hs hh
  have h2 := le_sumCh (fun j => occ Hs (ch j) (Hs.hashOf (ch i))) i
  simp only [occProper]
  omega

theorem deleteE_reads_occ (t : Node) (k : Path) (h : Hash) (hm : Ev.read h ∈ (deleteE Hs t k).2) :
    0 < occProper Hs t h := by
  induction t generalizing k with
  | blank => simp [deleteE] at hm
  | leaf p pv =>
    simp only [deleteE] at hm
    exact absurd hm (not_mem_of_noRead (noRead_pruneEv Hs _) h)
  | ext p c ih =>
    simp only [deleteE] at hm
    have IH := ih (k.drop p.length)
    have hevs : ∀ r : Node × List Ev, (Ev.read h ∈ r.2 → 0 < occProper Hs c h) →
        Ev.read h ∈ pruneEv Hs (ext p c) ++ readEv Hs c ++ r.2 ++ persistEv Hs r.1 →
        0 < occProper Hs (ext p c) h := by
      intro r hr hm
      simp only [List.mem_append] at hm
      rcases hm with ((h1 | h1) | h1) | h1
      · exact absurd h1 (not_mem_of_noRead (noRead_pruneEv Hs _) h)
      · exact occProper_ext_pos_of_read Hs h1
      · exact occProper_ext_pos_of_child Hs (hr h1)
      · exact absurd h1 (not_mem_of_noRead (noRead_persistEv Hs _) h)
    split at hm
    · generalize deleteE Hs c (k.drop p.length) = r at IH hm
      split at hm
      · exact hevs r IH hm
      · split at hm
        · exact hevs r IH hm
        · rcases List.mem_append.1 hm with h1 | h1
          · exact hevs r IH h1
          · exact absurd h1 (not_mem_of_noRead (noRead_pruneEv Hs _) h)
        · rcases List.mem_append.1 hm with h1 | h1
          · exact hevs r IH h1
          · exact absurd h1 (not_mem_of_noRead (noRead_pruneEv Hs _) h)
        · exact hevs r IH hm
    · exact absurd hm (not_mem_of_noRead (noRead_pruneEv Hs _) h)
  | branch ch v ih =>
    cases k with
    | nil =>
      simp only [deleteE, List.mem_append] at hm
      rcases hm with h1 | h1
      · exact absurd h1 (not_mem_of_noRead (noRead_pruneEv Hs _) h)
      · obtain ⟨i, hh, rfl⟩ := normalizeE_reads_occ Hs ch [] h h1
        exact occProper_branch_pos_of_hashed Hs hh
    | cons n k =>
      have IH := ih n k
      simp only [deleteE] at hm
      have hevs : ∀ r : Node × List Ev, (Ev.read h ∈ r.2 → 0 < occProper Hs (ch n) h) →
          Ev.read h ∈ pruneEv Hs (branch ch v) ++ readEv Hs (ch n) ++ r.2 ++ persistEv Hs r.1 →
          0 < occProper Hs (branch ch v) h := by
        intro r hr hm
        simp only [List.mem_append] at hm
        rcases hm with ((h1 | h1) | h1) | h1
        · exact absurd h1 (not_mem_of_noRead (noRead_pruneEv Hs _) h)
        · exact occProper_branch_pos_of_read Hs h1
        · exact occProper_branch_pos_of_child Hs (hr h1)
        · exact absurd h1 (not_mem_of_noRead (noRead_persistEv Hs _) h)
      generalize deleteE Hs (ch n) k = r at IH hm
      split at hm
      · exact hevs r IH hm
      · split at hm
        · next hb =>
          rcases List.mem_append.1 hm with h1 | h1
          · exact hevs r IH h1
          · obtain ⟨i, hh, rfl⟩ := normalizeE_reads_occ Hs _ _ h h1
            by_cases hin : i = n
            · subst hin
              have e : r.1 = blank := (isBlank_iff _).1 hb
              simp [upd, e, Hs.hashed_blank] at hh
            · have e : upd ch n r.1 i = ch i := by simp [upd, hin]
              rw [e] at hh ⊢
              exact occProper_branch_pos_of_hashed Hs hh
        · exact hevs r IH hm

end PyTrie.HexW
