import PyTrie.Lemmas.WalkDRun
/-! Composition of `wstep_decreases` over whole walks: number of steps + measure of the remaining fog ≤ measure at the start,
    for abstract runs (`wrun`), and the raw-level run (`crunDR`) as an abstract run OF THE SAME LENGTH over versions of the
    schedule. -/
namespace PyTrie.Walk
open PyTrie PyTrie.Hex PyTrie.Fog

theorem length_le_mu (L : Nat) (f : Fog) : f.length ≤ mu L f := by
  induction f with
  | nil => simp [mu]
  | cons x xs ih =>
    rw [mu_cons, List.length_cons]
    have : 0 < 17 ^ (L + 1 - x.length) := Nat.pow_pos (by omega)
    omega

/-- a successful step was taken at an unexplored prefix -/
theorem wstep_mem {s s' : WState} {t : Node} {p : Path} (h : wstep s t p = some s') : p ∈ s.fog := by
  obtain ⟨d, f', _, hf, _⟩ := wstep_some h
  exact ((explore_eq_ok_iff s.fog p d.subs f').1 hf).1.1

/-- steps taken + measure left ≤ measure at the start -/
theorem wrun_bound (L : Nat) (sched : List (Node × Path)) :
    ∀ (s s' : WState), Wf s.fog → Grounded L s.fog → (∀ e ∈ sched, Canon e.1) →
      (∀ e ∈ sched, ∀ k, get e.1 k ≠ [] → k.length ≤ L) → wrun s sched = some s' →
      sched.length + mu L s'.fog ≤ mu L s.fog := by
  induction sched with
  | nil =>
    intro s s' _ _ _ _ hrun
    simp only [wrun, Option.some.injEq] at hrun
    subst hrun
    simp
  | cons e rest ih =>
    obtain ⟨t, p⟩ := e
    intro s s' hw hg hcanon hL hrun
    simp only [wrun] at hrun
    cases h1 : wstep s t p with
    | none => rw [h1] at hrun; cases hrun
    | some s1 =>
      rw [h1] at hrun
      have hc : Canon t := hcanon (t, p) List.mem_cons_self
      have hp : p ∈ s.fog := wstep_mem h1
      obtain ⟨s2, h2, hw1⟩ := wstep_defined s hw t hc p hp
      rw [h1] at h2
      cases h2
      obtain ⟨hlt, hg1⟩ := wstep_decreases L s s1 hw hg t hc (hL (t, p) List.mem_cons_self) p hp h1
      have := ih s1 s' hw1 hg1 (fun e he => hcanon e (List.mem_cons_of_mem _ he))
        (fun e he => hL e (List.mem_cons_of_mem _ he)) hrun
      simp only [List.length_cons]
      omega

end PyTrie.Walk

namespace PyTrie.HexD
open PyTrie PyTrie.Hex PyTrie.Fog PyTrie.HexRaw PyTrie.Walk

variable (H : Bytes → Bytes)

/-- `crunDR_aux` with the length of the abstract schedule: one abstract step per raw-level step -/
theorem crunDR_aux_len (hlen : ∀ b, (H b).length = 32) (rest : List StepT) :
    ∀ (V : List Node) (s : CState),
      (∀ v ∈ V, Canon v ∧ ∀ e ∈ rest, PartialD H e.db v) →
      (∀ e ∈ rest, Canon e.t ∧ RootPartial H e.db e.root e.t ∧ (isBlank e.t = false → (lookup e.db e.root).isSome) ∧
        StoredD H e.db e.t) →
      rest.Pairwise (fun e e' => PartialD H e'.db e.t) →
      CacheP (Derived V) s.cache → CacheOkV V s.cache →
      (crunDR H (toCD H s) (rest.map StepT.toD) = .ok none) ∨
      ∃ s' : CState, crunDR H (toCD H s) (rest.map StepT.toD) = .ok (some (toCD H s')) ∧
        ∃ sched' : List (Node × Path), sched'.length = rest.length ∧
          (∀ e ∈ sched', e.1 ∈ V ∨ ∃ e0 ∈ rest, e0.t = e.1) ∧
          wrun (toW s) sched' = some (toW s') := by
  induction rest with
  | nil =>
    intro V s _ _ _ _ _
    exact Or.inr ⟨s, rfl, [], rfl, by simp, rfl⟩
  | cons e rest ih =>
    intro V s hV hrest hpw hder hokv
    obtain ⟨hct, hroot, hrootIn, hst⟩ := hrest e List.mem_cons_self
    obtain ⟨hpw1, hpw2⟩ := List.pairwise_cons.1 hpw
    have hcacheD : CacheOkD H e.db s.cache := fun p parent seg hg =>
      Derived.canon_partial H e.db (fun v hv => ⟨(hV v hv).1, (hV v hv).2 e List.mem_cons_self⟩) (hder p parent seg hg)
    obtain ⟨s0, hs0, hstep⟩ := cstepDR_complete H hlen e.db e.root e.t hct hroot hrootIn hst s hcacheD e.p
    have hW : toW s0 = toW s := by rcases hs0 with rfl | rfl <;> rfl
    have hsubV : ∀ v ∈ V, v ∈ e.t :: V := fun v hv => List.mem_cons_of_mem _ hv
    have hder0 : CacheP (Derived (e.t :: V)) s0.cache := by
      rcases hs0 with rfl | rfl
      · exact fun p parent seg hg => (hder p parent seg hg).mono hsubV
      · exact fun p parent seg hg => (hder p parent seg (frontier_get_erase _ _ _ _ hg)).mono hsubV
    have hokv0 : CacheOkV (e.t :: V) s0.cache := by
      rcases hs0 with rfl | rfl
      · exact cacheOkV_sub hsubV hokv
      · exact cacheOkV_sub hsubV (cacheOkV_erase hokv e.p)
    simp only [List.map_cons, crunDR]
    have hp : (StepT.toD e).p = e.p := rfl
    have hdb : (StepT.toD e).db = e.db := rfl
    have hrt : (StepT.toD e).root = e.root := rfl
    rw [hp, hdb, hrt, hstep]
    cases hcs : cstep e.t s0 e.p with
    | none => exact Or.inl rfl
    | some s1 =>
      simp only [Option.map_some]
      have hcanV : ∀ v ∈ e.t :: V, Canon v := by
        intro v hv
        rcases List.mem_cons.1 hv with rfl | hv
        · exact hct
        · exact (hV v hv).1
      obtain ⟨⟨v, hv, hw⟩, hokv1⟩ := cstep_is_wstep (e.t :: V) e.t List.mem_cons_self hcanV s0 hokv0 e.p s1 hcs
      have hder1 := cstep_cacheDerived (e.t :: V) e.t List.mem_cons_self s0 hder0 e.p s1 hcs
      have hV' : ∀ v ∈ e.t :: V, Canon v ∧ ∀ e' ∈ rest, PartialD H e'.db v := by
        intro v hv
        refine ⟨hcanV v hv, fun e' he' => ?_⟩
        rcases List.mem_cons.1 hv with rfl | hv
        · exact hpw1 e' he'
        · exact (hV v hv).2 e' (List.mem_cons_of_mem _ he')
      rcases ih (e.t :: V) s1 hV' (fun e' he' => hrest e' (List.mem_cons_of_mem _ he')) hpw2 hder1 hokv1 with
        hnone | ⟨s', hrun, sched', hlen', hmem, hwr⟩
      · exact Or.inl hnone
      · refine Or.inr ⟨s', hrun, (v, e.p) :: sched', by simp [hlen'], ?_, ?_⟩
        · intro x hx
          rcases List.mem_cons.1 hx with rfl | hx
          · rcases List.mem_cons.1 hv with rfl | hv
            · exact Or.inr ⟨e, List.mem_cons_self, rfl⟩
            · exact Or.inl hv
          · rcases hmem x hx with h | ⟨e0, he0, h⟩
            · rcases List.mem_cons.1 h with h | h
              · exact Or.inr ⟨e, List.mem_cons_self, h.symm⟩
              · exact Or.inl h
            · exact Or.inr ⟨e0, List.mem_cons_of_mem _ he0, h⟩
        · rw [← hW]
          simp only [wrun, hw]
          exact hwr

/-- the whole raw-level walk from the start is an abstract walk of the same length over versions of the schedule -/
theorem crunDR_is_wrun_len (hlen : ∀ b, (H b).length = 32) (sched : List StepT) (hok : SchedOk H sched) :
    (crunDR H cstartD (sched.map StepT.toD) = .ok none) ∨
    ∃ s' : CState, crunDR H cstartD (sched.map StepT.toD) = .ok (some (toCD H s')) ∧
      ∃ sched' : List (Node × Path), sched'.length = sched.length ∧ (∀ x ∈ sched', ∃ e0 ∈ sched, e0.t = x.1) ∧
        wrun start sched' = some (toW s') := by
  obtain ⟨hok1, hok2⟩ := hok
  have hpw : sched.Pairwise (fun e e' => PartialD H e'.db e.t) := by
    rw [List.pairwise_iff_getElem]
    intro i j hi hj hij
    exact hok2 i j (by omega) hj
  have hstart : toCD H cstart = cstartD := rfl
  rcases crunDR_aux_len H hlen sched [] cstart (by simp) hok1 hpw
      (fun p parent seg hg => by simp [cstart, Frontier.get] at hg) (cacheOkV_empty _) with
    hnone | ⟨s', hrun, sched', hlen', hmem, hwr⟩
  · left
    rw [← hstart]
    exact hnone
  · right
    rw [hstart] at hrun
    refine ⟨s', hrun, sched', hlen', ?_, hwr⟩
    intro x hx
    rcases hmem x hx with h | h
    · cases h
    · exact h

end PyTrie.HexD
