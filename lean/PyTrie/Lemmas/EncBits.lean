import PyTrie.Model.BinEnc
/-! Helper lemmas for C16 (`EncProofs.lean`): bit strings ↔ bytes, key-path packing, `parseNode` unfoldings. -/
namespace PyTrie.EncBits
open PyTrie PyTrie.Bin

theorem ite_mod2 (n : Nat) : (if decide (n % 2 = 1) = true then 1 else 0) = n % 2 := by
  by_cases h : n % 2 = 1
  · simp [h]
  · simp [h]; omega

theorem bitsum (a : Nat) (hb : a < 256) : 2 * (2 * (2 * (2 * (2 * (2 * (2 * (2 * 0 + a / 128 % 2) + a / 64 % 2) + a / 32 % 2) + a / 16 % 2) + a / 8 % 2) + a / 4 % 2) + a / 2 % 2) + a / 1 % 2 = a := by
  rw [show a / 128 = a / 2 / 2 / 2 / 2 / 2 / 2 / 2 by omega, show a / 64 = a / 2 / 2 / 2 / 2 / 2 / 2 by omega,
    show a / 32 = a / 2 / 2 / 2 / 2 / 2 by omega, show a / 16 = a / 2 / 2 / 2 / 2 by omega,
    show a / 8 = a / 2 / 2 / 2 by omega, show a / 4 = a / 2 / 2 by omega, Nat.div_one]
  generalize h1 : a / 2 = q1
  generalize h2 : q1 / 2 = q2
  generalize h3 : q2 / 2 = q3
  generalize h4 : q3 / 2 = q4
  generalize h5 : q4 / 2 = q5
  generalize h6 : q5 / 2 = q6
  generalize h7 : q6 / 2 = q7
  omega

theorem chunkVal_byteBits (b : UInt8) : chunkVal (byteBits b) = b.toNat := by
  simp only [chunkVal, byteBits, bitOf, List.foldl_cons, List.foldl_nil, ite_mod2, Nat.reducePow]
  exact bitsum _ b.toNat_lt

theorem ofBits_cons8 (c : Bits) (hc : c.length = 8) (rest : Bits) :
    ofBits (c ++ rest) = UInt8.ofNat (chunkVal c) :: ofBits rest := by
  match c, hc with
  | a :: c', hc =>
    rw [List.cons_append, ofBits]
    rw [← List.cons_append, List.take_left' hc, List.drop_left' hc]

theorem byteBits_chunkVal (c : Bits) (hc : c.length = 8) : byteBits (UInt8.ofNat (chunkVal c)) = c := by
  match c, hc with
  | [b7, b6, b5, b4, b3, b2, b1, b0], _ =>
    cases b7 <;> cases b6 <;> cases b5 <;> cases b4 <;> cases b3 <;> cases b2 <;> cases b1 <;> cases b0 <;> rfl

theorem byteBits_length (b : UInt8) : (byteBits b).length = 8 := rfl

theorem ofBits_nil : ofBits [] = [] := by rw [ofBits]

theorem ofBits_toBits (b : Bytes) : ofBits (toBits b) = b := by
  induction b with
  | nil => simp [toBits, ofBits_nil]
  | cons a r ih =>
    have : toBits (a :: r) = byteBits a ++ toBits r := by simp [toBits]
    rw [this, ofBits_cons8 _ (byteBits_length a), ih, chunkVal_byteBits]
    simp

theorem toBits_ofBits_aux : ∀ (n : Nat) (bits : Bits), bits.length = 8 * n → toBits (ofBits bits) = bits
  | 0, bits, h => by
    have : bits = [] := List.eq_nil_of_length_eq_zero (by omega)
    subst this; simp [ofBits_nil, toBits]
  | n + 1, bits, h => by
    have h8 : (bits.take 8).length = 8 := by simp; omega
    have hd : (bits.drop 8).length = 8 * n := by simp; omega
    have ih := toBits_ofBits_aux n _ hd
    conv => lhs; rw [← List.take_append_drop 8 bits]
    rw [ofBits_cons8 _ h8]
    have : ∀ x xs, toBits (x :: xs) = byteBits x ++ toBits xs := by intro x xs; simp [toBits]
    rw [this, ih, byteBits_chunkVal _ h8, List.take_append_drop]

theorem toBits_ofBits (bits : Bits) (h : bits.length % 8 = 0) : toBits (ofBits bits) = bits :=
  toBits_ofBits_aux (bits.length / 8) bits (by omega)

theorem dk_false (a b : Bool) (q : Bits) (bs : Bytes) (h : toBits bs = false :: false :: a :: b :: q) :
    decodeKeypath bs = .ok (q.drop ((4 - ((if a then 2 else 0) + (if b then 1 else 0))) % 4)) := by
  unfold decodeKeypath
  rw [h]
  simp only [List.drop_succ_cons, List.drop_zero, ne_eq]
  rw [Nat.add_comm]; rfl

theorem dk_true (x1 x2 x3 a b : Bool) (q : Bits) (bs : Bytes)
    (h : toBits bs = true :: x1 :: x2 :: x3 :: false :: false :: a :: b :: q) :
    decodeKeypath bs = .ok (q.drop ((4 - ((if a then 2 else 0) + (if b then 1 else 0))) % 4)) := by
  unfold decodeKeypath
  rw [h]
  simp only [List.drop_succ_cons, List.drop_zero, List.take_succ_cons, List.take_zero, List.headD_cons,
    ne_eq, not_true_eq_false, ↓reduceIte]
  rw [Nat.add_comm]; rfl

theorem ek_case (p : Bits) (k : Nat) (a b : Bool) (hk : (k + p.length) % 4 = 0)
    (hdrop : (4 - ((if a then 2 else 0) + (if b then 1 else 0))) % 4 = k) :
    decodeKeypath (if (List.replicate k false ++ p).length % 8 = 4
      then ofBits ([false, false] ++ [a, b] ++ (List.replicate k false ++ p))
      else ofBits ([true, false, false, false, false, false] ++ [a, b] ++ (List.replicate k false ++ p))) = .ok p := by
  have hl : (List.replicate k false ++ p).length = k + p.length := by simp
  split
  · have h := toBits_ofBits ([false, false] ++ [a, b] ++ (List.replicate k false ++ p)) (by simp; omega)
    rw [dk_false a b (List.replicate k false ++ p) _ h, hdrop, List.drop_left' (by simp)]
  · have h := toBits_ofBits ([true, false, false, false, false, false] ++ [a, b] ++ (List.replicate k false ++ p))
      (by simp; omega)
    rw [dk_true false false false a b (List.replicate k false ++ p) _ h, hdrop, List.drop_left' (by simp)]

theorem decodeKeypath_encodeKeypath (p : Bits) : decodeKeypath (encodeKeypath p) = .ok p := by
  have hr : p.length % 4 = 0 ∨ p.length % 4 = 1 ∨ p.length % 4 = 2 ∨ p.length % 4 = 3 := by omega
  unfold encodeKeypath
  rcases hr with hr | hr | hr | hr <;> simp only [hr]
  · exact ek_case p 0 false false (by omega) rfl
  · exact ek_case p 3 false true (by omega) rfl
  · exact ek_case p 2 true false (by omega) rfl
  · exact ek_case p 1 true true (by omega) rfl

theorem ofBits_length_pos (a : Bool) (l : Bits) : 0 < (ofBits (a :: l)).length := by
  rw [ofBits]; simp

theorem encodeKeypath_length_pos (p : Bits) : 0 < (encodeKeypath p).length := by
  unfold encodeKeypath
  simp only
  split <;> exact ofBits_length_pos _ _

theorem parseNode_one (body : Bytes) : parseNode (1 :: body) =
    if (1 :: body).length ≠ 65 then .error .invalidNode else .ok (.branch (body.take 32) (body.drop 32)) := by
  rw [parseNode, if_pos rfl]

theorem parseNode_two (body : Bytes) : parseNode (2 :: body) =
    if body = [] then .error .invalidNode else .ok (.leaf body) := by
  rw [parseNode, if_neg (by decide), if_neg (by decide), if_pos rfl]

theorem parseNode_zero_short (body : Bytes) (h : (0 :: body).length ≤ 33) :
    parseNode (0 :: body) = .error .invalidNode := by
  rw [parseNode, if_neg (by decide), if_pos rfl, if_pos h]

theorem parseNode_zero (body : Bytes) (h : ¬ (0 :: body).length ≤ 33) (p : Bits)
    (hd : decodeKeypath (body.take (body.length - 32)) = .ok p) :
    parseNode (0 :: body) = .ok (.kv p (body.drop (body.length - 32))) := by
  rw [parseNode, if_neg (by decide), if_pos rfl, if_neg h]
  simp only [hd]

theorem parseNode_other (t : UInt8) (body : Bytes) (h0 : t ≠ 0) (h1 : t ≠ 1) (h2 : t ≠ 2) :
    parseNode (t :: body) = .error .invalidNode := by
  rw [parseNode, if_neg h1, if_neg h0, if_neg h2]

theorem parseNode_encodeKv (p : Bits) (hp : p ≠ []) (c : Bytes) (hc : c.length = 32) :
    ∃ b, encodeKv p c = .ok b ∧ parseNode b = .ok (.kv p c) := by
  refine ⟨0 :: encodeKeypath p ++ c, by simp [encodeKv, hp, hc], ?_⟩
  have hpos := encodeKeypath_length_pos p
  have hlen : (encodeKeypath p ++ c).length - 32 = (encodeKeypath p).length := by simp [hc]
  rw [List.cons_append, parseNode_zero _ (by simp only [List.length_cons, List.length_append, hc]; omega) p
    (by rw [hlen, List.take_left' rfl, decodeKeypath_encodeKeypath]), hlen, List.drop_left' rfl]

theorem parseNode_encodeBranch (l r : Bytes) (hl : l.length = 32) (hr : r.length = 32) :
    ∃ b, encodeBranch l r = .ok b ∧ parseNode b = .ok (.branch l r) := by
  refine ⟨1 :: l ++ r, by simp [encodeBranch, hl, hr], ?_⟩
  rw [List.cons_append, parseNode_one, if_neg (by simp [hl, hr]), List.take_left' hl, List.drop_left' hl]

theorem parseNode_encodeLeaf (v : Bytes) (hv : v ≠ []) :
    ∃ b, encodeLeaf v = .ok b ∧ parseNode b = .ok (.leaf v) := by
  refine ⟨2 :: v, by simp [encodeLeaf, hv], ?_⟩
  rw [parseNode_two, if_neg hv]

theorem parseNode_rejects (n : Bytes)
    (h : n = [] ∨ (∃ t r, n = t :: r ∧ t ≠ 0 ∧ t ≠ 1 ∧ t ≠ 2) ∨
         (∃ r, n = 1 :: r ∧ n.length ≠ 65) ∨ (∃ r, n = 0 :: r ∧ n.length ≤ 33) ∨ n = [2]) :
    parseNode n = .error .invalidNode := by
  rcases h with rfl | ⟨t, r, rfl, h0, h1, h2⟩ | ⟨r, rfl, h⟩ | ⟨r, rfl, h⟩ | rfl
  · rw [parseNode]
  · exact parseNode_other t r h0 h1 h2
  · rw [parseNode_one, if_pos h]
  · exact parseNode_zero_short r h
  · rw [parseNode_two, if_pos rfl]

theorem encoders_refuse (p : Bits) (c l r v : Bytes) :
    ((p = [] ∨ c.length ≠ 32) → encodeKv p c = .error .validation) ∧
    ((l.length ≠ 32 ∨ r.length ≠ 32) → encodeBranch l r = .error .validation) ∧
    (v = [] → encodeLeaf v = .error .validation) := by
  refine ⟨?_, ?_, ?_⟩
  · intro h
    unfold encodeKv
    by_cases hp : p = []
    · rw [if_pos hp]
    · rw [if_neg hp, if_pos (by rcases h with h | h; exact absurd h hp; exact h)]
  · intro h; unfold encodeBranch; rw [if_pos h]
  · intro h; unfold encodeLeaf; rw [if_pos h]

end PyTrie.EncBits
