import PyTrie.Lemmas.PruneRun
import PyTrie.Lemmas.StoreView
/-! `PruneRun.lean` over an arbitrary store (plain dict or ScratchDB), with `Store.view` in place of
    `Dict.contains … base`: exact behaviour of `runEvs` and `completePruning` on a pruning trie without
    injected write failures. -/
namespace PyTrie.HexW
open PyTrie.Hex hiding get set
open PyTrie.Hex.Node

/-- state after a successful event list -/
structure RunSpecV (s : OpSt) (es : List Ev) (s' : OpSt) : Prop where
  wf : s'.store.CacheNoDup
  fa : s'.store.failAfter = none
  nodup : NoDupKeys s'.pending
  pos : PosVals s'.pending
  counts : ∀ h, s'.counts.val h = s.counts.val h + cntPersist es h
  pending : ∀ h, s'.pending.val h = s.pending.val h + cntPrune es h
  keys : ∀ h, s'.store.view h = true ↔ (s.store.view h = true ∨ 0 < cntPersist es h)

theorem runEvs_specV (root key : Bytes) (es : List Ev) (s : OpSt)
    (hwf : s.store.CacheNoDup) (hfa : s.store.failAfter = none)
    (hnd : NoDupKeys s.pending) (hpos : PosVals s.pending)
    (hreads : ∀ h, Ev.read h ∈ es → s.store.view h = true) :
    ∃ s', runEvs true root key s es = (s', none) ∧ RunSpecV s es s' := by
  induction es generalizing s with
  | nil =>
    exact ⟨s, rfl, hwf, hfa, hnd, hpos, fun h => by simp, fun h => by simp, fun h => by simp⟩
  | cons e es ih =>
    cases e with
    | read x =>
      have hx : s.store.contains x = true :=
        Store.contains_of_view' _ _ (hreads x (List.mem_cons_self ..))
      obtain ⟨s', h1, h2⟩ := ih s hwf hfa hnd hpos (fun h hm => hreads h (List.mem_cons_of_mem _ hm))
      refine ⟨s', ?_, h2.wf, h2.fa, h2.nodup, h2.pos, ?_, ?_, ?_⟩
      · simp only [runEvs, runEv, hx, ↓reduceIte]; exact h1
      · intro h; rw [h2.counts, cntPersist_cons]; simp [isPersistOf]
      · intro h; rw [h2.pending, cntPrune_cons]; simp
      · intro h; rw [h2.keys, cntPersist_cons]; simp [isPersistOf]
    | prune x =>
      obtain ⟨s', h1, h2⟩ := ih { s with pending := s.pending.inc x } hwf hfa (hnd.inc x) (hpos.inc x)
        (fun h hm => hreads h (List.mem_cons_of_mem _ hm))
      refine ⟨s', ?_, h2.wf, h2.fa, h2.nodup, h2.pos, ?_, ?_, ?_⟩
      · simp only [runEvs, runEv, ↓reduceIte]; exact h1
      · intro h; rw [h2.counts, cntPersist_cons]; simp [isPersistOf]
      · intro h
        rw [h2.pending, cntPrune_cons, Counts.val_inc]
        simp only [Ev.prune.injEq]
        by_cases hx : h = x
        · subst hx; simp; omega
        · have hx' : ¬ x = h := fun e => hx e.symm
          simp [hx, hx']
      · intro h; rw [h2.keys, cntPersist_cons]; simp [isPersistOf]
    | persist x b =>
      obtain ⟨st, hw, hfa', hwf', hv'⟩ := Store.write_view s.store hfa hwf x b
      obtain ⟨s', h1, h2⟩ := ih
        { s with store := st, counts := s.counts.inc x }
        hwf' hfa' hnd hpos
        (fun h hm => (hv' h).2 (Or.inl (hreads h (List.mem_cons_of_mem _ hm))))
      refine ⟨s', ?_, h2.wf, h2.fa, h2.nodup, h2.pos, ?_, ?_, ?_⟩
      · simp only [runEvs, runEv, setDbValue, hw, ↓reduceIte]; exact h1
      · intro h
        rw [h2.counts, cntPersist_cons, Counts.val_inc]
        simp only [isPersistOf, beq_iff_eq]
        by_cases hx : h = x
        · subst hx; simp; omega
        · have hx' : ¬ x = h := fun e => hx e.symm
          simp [hx, hx']
      · intro h; rw [h2.pending, cntPrune_cons]; simp
      · intro h
        rw [h2.keys, cntPersist_cons]
        show (st.view h = true ∨ _) ↔ _
        rw [hv']
        simp only [isPersistOf, beq_iff_eq]
        by_cases hx : h = x
        · subst hx; simp
        · have hx' : ¬ x = h := fun e => hx e.symm
          simp [hx, hx']

/-- one step of `_complete_pruning` on a store whose view holds the key -/
theorem pruneStep_specV (s : OpSt) (kn : Hash × Nat) (hwf : s.store.CacheNoDup)
    (hk : s.store.view kn.1 = true) :
    ∃ s', pruneStep s kn = .ok s' ∧ s'.store.CacheNoDup ∧ s'.pending = s.pending ∧
      s'.store.failAfter = s.store.failAfter ∧
      (∀ k, s'.counts.val k = if k = kn.1 then s.counts.val k - kn.2 else s.counts.val k) ∧
      (∀ k, s'.store.view k = true ↔
        (s.store.view k = true ∧ (k = kn.1 → kn.2 < s.counts.val k))) := by
  unfold pruneStep
  simp only
  split
  · next hle =>
    obtain ⟨st, hd, hfa', hwf', hv'⟩ := Store.del_view s.store hwf kn.1 hk
    rw [hd]
    refine ⟨_, rfl, hwf', rfl, hfa', ?_, ?_⟩
    · intro k
      simp only [Counts.val_erase]
      split
      · next e => subst e; omega
      · rfl
    · intro k
      simp only [hv']
      constructor
      · rintro ⟨a, b⟩; exact ⟨a, fun e => absurd e b⟩
      · rintro ⟨a, b⟩
        refine ⟨a, fun e => ?_⟩
        have := b e
        subst e
        omega
  · next hlt =>
    refine ⟨_, rfl, hwf, rfl, rfl, ?_, ?_⟩
    · intro k
      simp only [Counts.val_insert]
      split
      · next e => subst e; rfl
      · rfl
    · intro k
      constructor
      · intro a; exact ⟨a, fun e => by subst e; omega⟩
      · exact fun a => a.1

/-- `_complete_pruning` over a list of distinct keys, all in the view, none over-pruned: counts drop by the
    pending amounts, exactly the keys that reach zero leave the view, and nothing raises -/
theorem completePruning_specV (l : List (Hash × Nat)) (hnd : NoDupKeys l) (s : OpSt)
    (hwf : s.store.CacheNoDup)
    (hk : ∀ e ∈ l, s.store.view e.1 = true) :
    ∃ s', completePruning s l = (s', none) ∧ s'.store.CacheNoDup ∧ s'.pending = s.pending ∧
      s'.store.failAfter = s.store.failAfter ∧
      (∀ k, s'.counts.val k = s.counts.val k - Counts.val l k) ∧
      (∀ k, s'.store.view k = true ↔
        (s.store.view k = true ∧ (Dict.contains l k = true → Counts.val l k < s.counts.val k))) := by
  induction l generalizing s with
  | nil =>
    refine ⟨s, rfl, hwf, rfl, rfl, fun k => by simp [Counts.val_nil], fun k => ?_⟩
    simp [Dict.contains_nil]
  | cons kn rest ih =>
    have hnd' := hnd
    unfold NoDupKeys at hnd'
    rw [List.map_cons, List.nodup_cons] at hnd'
    obtain ⟨s1, h1, hc1, hp1, hf1, hcnt1, hkeys1⟩ :=
      pruneStep_specV s kn hwf (hk kn (List.mem_cons_self ..))
    have hne : ∀ e ∈ rest, e.1 ≠ kn.1 := by
      intro e he heq
      apply hnd'.1
      rw [← heq]
      exact List.mem_map.2 ⟨e, he, rfl⟩
    have hk1 : ∀ e ∈ rest, s1.store.view e.1 = true := by
      intro e he
      rw [hkeys1]
      exact ⟨hk e (List.mem_cons_of_mem _ he), fun h => absurd h (hne e he)⟩
    obtain ⟨s2, h2, hc2, hp2, hf2, hcnt2, hkeys2⟩ := ih hnd'.2 s1 hc1 hk1
    have hrest : Dict.contains rest kn.1 = false := by
      cases hb : Dict.contains rest kn.1
      · rfl
      · exact absurd ((Dict.contains_iff_mem_keys rest kn.1).1 hb) hnd'.1
    refine ⟨s2, ?_, hc2, hp2.trans hp1, hf2.trans hf1, ?_, ?_⟩
    · simp only [completePruning, h1]; exact h2
    · intro k
      rw [hcnt2, hcnt1, Counts.val_cons]
      by_cases hkk : k = kn.1
      · subst hkk
        simp [Counts.val_of_not_contains rest _ hrest]
      · have hkk' : (kn.1 == k) = false := by simpa using (fun e => hkk (Eq.symm e))
        simp [hkk, hkk']
    · intro k
      rw [hkeys2, hkeys1, hcnt1, Dict.contains_cons, Counts.val_cons]
      by_cases hkk : k = kn.1
      · subst hkk
        simp [hrest, Counts.val_of_not_contains rest _ hrest]
      · have hkk' : (kn.1 == k) = false := by simpa using (fun e => hkk (Eq.symm e))
        simp [hkk, hkk']

end PyTrie.HexW
