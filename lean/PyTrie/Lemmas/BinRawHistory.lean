import PyTrie.Lemmas.BinRawRefines
import PyTrie.Lemmas.BranchProofs
import PyTrie.Props.C12
/-! **Whole histories of the binary trie at raw level.** `binRawRun` threads root hash and database through a history of
    `set` / `delete` / `delete_subtrie` calls, each executed by the raw-level `_set` (`BinRaw.rawSet`: node hashes and a
    database of encoded nodes). Along every history in which no call is refused (`NodeOverrideError`) and no hash
    collision occurs (run-level predicate, step by step), the raw-level run returns the root hash of the tree-level
    history and a database storing that whole tree; reading through the database then gives the map model's value. -/
namespace PyTrie.BinRaw
open PyTrie PyTrie.Bin
open PyTrie.Props.C12 (Op run spec apply)

variable (H : Bytes → Bytes)

def opVal : Op → Bytes
  | .set _ v => v
  | .delete _ => []
  | .deleteSubtrie _ => []

def opSub : Op → Bool
  | .deleteSubtrie _ => true
  | _ => false

/-- the history at raw level; stops at the first call that raises -/
def binRawRun : List Op → Hash × St → Except Err (Hash × St)
  | [], s => .ok s
  | o :: rest, (root, st) =>
    match rawSet H (H []) (o.key.length + 3) st root o.key (opVal o) (opSub o) with
    | .error e => .error e
    | .ok (root', st') => binRawRun rest (root', st')

/-- run-level no-collision predicate for one call on the trie `t` -/
def NoCollTop (t : Option BNode) (o : Op) : Prop :=
  match t with
  | some n => NoCollisionOp H n (bsetS n o.key (opVal o) (opSub o)).2
  | none =>
    (∀ s ∈ (bsetTopS none o.key (opVal o) (opSub o)).2, hashNode H s ≠ H []) ∧
    (∀ s ∈ (bsetTopS none o.key (opVal o) (opSub o)).2, ∀ s' ∈ (bsetTopS none o.key (opVal o) (opSub o)).2,
      hashNode H s = hashNode H s' → encNode H s = encNode H s')

/-- a history of accepted calls on non-empty keys, with the run-level no-collision facts of every step -/
inductive BinReach : List Op → Option BNode → Prop where
  | init : BinReach [] none
  | step (ops : List Op) (t : Option BNode) (o : Op) (t' : Option BNode) :
      BinReach ops t → o.key ≠ [] → apply t o = .ok t' → NoCollTop H t o → BinReach (ops ++ [o]) t'

theorem apply_eq (t : Option BNode) (o : Op) : apply t o = bsetTop t o.key (opVal o) (opSub o) := by
  cases o <;> rfl

theorem run_snoc (ops : List Op) (o : Op) : run (ops ++ [o]) = Props.C12.step (run ops) o := by
  simp [run, List.foldl_append]

/-- the tree reached is the tree-level history -/
theorem binReach_run (ops : List Op) (t : Option BNode) (h : BinReach H ops t) : t = run ops := by
  induction h with
  | init => rfl
  | step ops t o t' _ _ hap _ ih =>
    rw [run_snoc, ← ih]
    simp only [Props.C12.step, hap]

theorem binReach_keys (ops : List Op) (t : Option BNode) (h : BinReach H ops t) : Props.C12.KeysNonEmpty ops := by
  induction h with
  | init => intro o ho; cases ho
  | step ops t o t' _ hk _ _ ih =>
    intro x hx
    rcases List.mem_append.1 hx with hx | hx
    · exact ih x hx
    · have : x = o := by simpa using hx
      subst this; exact hk

theorem binReach_canon (ops : List Op) (t : Option BNode) (h : BinReach H ops t) : BCanonTop t := by
  rw [binReach_run H ops t h]
  exact Props.C12.canon_run ops (binReach_keys H ops t h)

theorem binRawRun_snoc (ops : List Op) (o : Op) (s : Hash × St) :
    binRawRun H (ops ++ [o]) s =
      match binRawRun H ops s with
      | .error e => .error e
      | .ok s' => binRawRun H [o] s' := by
  induction ops generalizing s with
  | nil =>
    obtain ⟨root, st⟩ := s
    rfl
  | cons a rest ih =>
    obtain ⟨root, st⟩ := s
    simp only [List.cons_append, binRawRun]
    split
    · rfl
    · exact ih _

theorem binRawRun_single (o : Op) (root : Hash) (st : St) :
    binRawRun H [o] (root, st) = rawSet H (H []) (o.key.length + 3) st root o.key (opVal o) (opSub o) := by
  simp only [binRawRun]
  split
  · next e h => rw [h]
  · next r s h => rw [h]

/-- the new tree is stored after the saves: every node is a saved node or an old node -/
theorem allStored_after (db : Db) (t : Option BNode) (saves : List BNode) (t' : BNode)
    (hold : ∀ n, t = some n → AllStored H db n)
    (h1 : ∀ s ∈ saves, hashNode H s ≠ H [])
    (h2 : ∀ s ∈ saves, ∀ n m, t = some n → Sub m n → hashNode H s = hashNode H m → encNode H s = encNode H m)
    (h3 : ∀ s ∈ saves, ∀ s' ∈ saves, hashNode H s = hashNode H s' → encNode H s = encNode H s')
    (hnew : ∀ x, Sub x t' → x ∈ saves ∨ ∃ n, t = some n ∧ Sub x n) :
    AllStored H (applySaves H db saves) t' := by
  intro x hx
  rcases hnew x hx with hs | ⟨n, rfl, hxn⟩
  · exact ⟨h1 x hs, lookup_saveAll H db saves x (fun s hs' e => h3 s hs' x hs e) (.inl hs)⟩
  · exact ⟨(hold n rfl x hxn).1,
      lookup_saveAll H db saves x (fun s hs e => h2 s hs n x rfl hxn e) (.inr (hold n rfl x hxn).2)⟩

/-- one accepted call at raw level -/
theorem rawStep (hlen : ∀ b, (H b).length = 32) (t : Option BNode) (hc : BCanonTop t) (o : Op) (hk : o.key ≠ [])
    (t' : Option BNode) (hap : apply t o = .ok t') (hnc : NoCollTop H t o)
    (st : St) (hst : ∀ n, t = some n → AllStored H st.db n) :
    ∃ st', rawSet H (H []) (o.key.length + 3) st (rootOf H t) o.key (opVal o) (opSub o) = .ok (rootOf H t', st') ∧
      (∀ n, t' = some n → AllStored H st'.db n) := by
  rw [apply_eq] at hap
  have hnew : ∀ n', t' = some n' → ∀ x, Sub x n' →
      x ∈ (bsetTopS t o.key (opVal o) (opSub o)).2 ∨ ∃ n, t = some n ∧ Sub x n := by
    intro n' hn' x hx
    subst hn'
    rcases Props.C12.new_nodes_saved t o.key (opVal o) (opSub o) n'
        (by rw [bsetTopS_fst]; exact hap) x ((mem_trieNodes_iff n' x).2 hx) with h | ⟨n, hn, h⟩
    · exact .inl h
    · exact .inr ⟨n, hn, (mem_trieNodes_iff n x).1 h⟩
  cases t with
  | none =>
    refine ⟨{ db := applySaves H st.db (bsetTopS none o.key (opVal o) (opSub o)).2 }, ?_, ?_⟩
    · show rawSet H (H []) (o.key.length + 3) st (H []) o.key (opVal o) (opSub o) = _
      rw [rawSet_blank H hlen o.key hk (opVal o) (opSub o) st _ (by omega), hap]
    · intro n' hn'
      exact allStored_after H st.db none _ n' hst hnc.1 (fun _ _ n m hn => by cases hn) hnc.2 (hnew n' hn')
  | some n =>
    have hap' : (bsetS n o.key (opVal o) (opSub o)).1 = .ok t' := by rw [bsetS_fst]; exact hap
    refine ⟨{ db := applySaves H st.db (bsetS n o.key (opVal o) (opSub o)).2 }, ?_, ?_⟩
    · show rawSet H (H []) (o.key.length + 3) st (hashNode H n) o.key (opVal o) (opSub o) = _
      rw [rawSet_refines H hlen n hc o.key (opVal o) (opSub o) st (hst n rfl) hnc _ (by omega), hap']
    · intro n' hn'
      exact allStored_after H st.db (some n) _ n' hst hnc.1
        (fun s hs n0 m hn0 hm => by cases hn0; exact hnc.2.1 s hs m hm) hnc.2.2 (hnew n' hn')

/-- **the raw-level run computes the root of the tree-level history and stores the whole tree** -/
theorem binRawRun_refines (hlen : ∀ b, (H b).length = 32) (ops : List Op) (t : Option BNode) (h : BinReach H ops t) :
    ∃ st, binRawRun H ops (H [], { db := [] }) = .ok (rootOf H t, st) ∧ (∀ n, t = some n → AllStored H st.db n) := by
  induction h with
  | init => exact ⟨{ db := [] }, rfl, fun n hn => by cases hn⟩
  | step ops t o t' hr hk hap hnc ih =>
    obtain ⟨st, hrun, hst⟩ := ih
    obtain ⟨st', hset, hst'⟩ := rawStep H hlen t (binReach_canon H ops t hr) o hk t' hap hnc st hst
    refine ⟨st', ?_, hst'⟩
    rw [binRawRun_snoc, hrun]
    show binRawRun H [o] (rootOf H t, st) = _
    rw [binRawRun_single, hset]

/-- **end to end**: `BinaryTrie.get` over the database produced by the raw-level run returns the map model's value -/
theorem binRawRun_get (hlen : ∀ b, (H b).length = 32) (ops : List Op) (t : Option BNode) (h : BinReach H ops t) (k : Bits) :
    ∃ st, binRawRun H ops (H [], { db := [] }) = .ok (rootOf H (run ops), st) ∧
      bgetD (H []) st.db (k.length + 1) (rootOf H (run ops)) k = .ok (spec ops k) := by
  obtain ⟨st, hrun, hst⟩ := binRawRun_refines H hlen ops t h
  have hc := binReach_canon H ops t h
  have hkeys := binReach_keys H ops t h
  have ht := binReach_run H ops t h
  rw [← ht]
  refine ⟨st, hrun, ?_⟩
  rw [← Props.C12.run_get ops hkeys k, ← ht]
  cases t with
  | none => simp [rootOf, bgetD, bgetTop]
  | some n =>
    show bgetD (H []) st.db (k.length + 1) (hashNode H n) k = .ok (bget n k)
    apply bgetD_complete H hlen n hc st.db k _ _ (by omega)
    intro x hx
    exact hst n rfl x ((mem_trieNodes_iff n x).1 (pathNodes_sub_trieNodes n k x hx))

end PyTrie.BinRaw
