import PyTrie.Lemmas.BinProofs
/-! Tree-level helpers for C13 (`BranchProofs.lean`): the list of nodes `_get` reads (`pathNodes`),
    unfoldings of `getWitness`, and inclusions between `pathNodes`, `getBranch`, `getWitness`, `trieNodes`. -/
namespace PyTrie.Bin
open BNode

theorem except_map_ok {ε α β : Type} (f : α → β) (x : Except ε α) (y : β) :
    x.map f = .ok y ↔ ∃ a, x = .ok a ∧ f a = y := by
  cases x <;> simp [Except.map]

theorem except_map_error {ε α β : Type} (f : α → β) (x : Except ε α) (e : ε) :
    x.map f = .error e ↔ x = .error e := by
  cases x <;> simp [Except.map]

/-- the nodes `_get` reads for key `k` -/
def pathNodes : BNode → Bits → List BNode
  | leaf v, _ => [leaf v]
  | kv p c, k => if k = [] then [kv p c] else if p <+: k then kv p c :: pathNodes c (k.drop p.length) else [kv p c]
  | branch l r, [] => [branch l r]
  | branch l r, b :: k => branch l r :: (if b = false then pathNodes l k else pathNodes r k)

theorem pathNodes_leaf (v : Bytes) (k : Bits) : pathNodes (leaf v) k = [leaf v] := rfl
theorem pathNodes_kv (p : Bits) (c : BNode) (k : Bits) : pathNodes (kv p c) k =
    if k = [] then [kv p c] else if p <+: k then kv p c :: pathNodes c (k.drop p.length) else [kv p c] := rfl
theorem pathNodes_branch_nil (l r : BNode) : pathNodes (branch l r) [] = [branch l r] := rfl
theorem pathNodes_branch_cons (l r : BNode) (b : Bool) (k : Bits) :
    pathNodes (branch l r) (b :: k) = branch l r :: (if b = false then pathNodes l k else pathNodes r k) := rfl

theorem pathNodes_head (t : BNode) (k : Bits) : (pathNodes t k).head? = some t := by
  cases t with
  | leaf v => rfl
  | kv p c =>
    rw [pathNodes_kv]
    split
    · rfl
    · split <;> rfl
  | branch l r => cases k <;> rfl

theorem self_mem_pathNodes (t : BNode) (k : Bits) : t ∈ pathNodes t k :=
  List.mem_of_head? (pathNodes_head t k)

theorem pathNodes_sub_trieNodes (t : BNode) (k : Bits) : ∀ x ∈ pathNodes t k, x ∈ trieNodes t := by
  induction t generalizing k with
  | leaf v => intro x hx; simpa [pathNodes_leaf, trieNodes] using hx
  | kv p c ih =>
    intro x hx
    rw [pathNodes_kv] at hx
    simp only [trieNodes, List.mem_cons]
    split at hx
    · left; simpa using hx
    · split at hx
      · rcases List.mem_cons.1 hx with h | h
        · exact .inl h
        · exact .inr (ih _ x h)
      · left; simpa using hx
  | branch l r ihl ihr =>
    intro x hx
    simp only [trieNodes, List.mem_cons, List.mem_append]
    cases k with
    | nil => left; simpa [pathNodes_branch_nil] using hx
    | cons b k' =>
      rw [pathNodes_branch_cons] at hx
      rcases List.mem_cons.1 hx with h | h
      · exact .inl h
      · split at h
        · exact .inr (.inl (ihl _ x h))
        · exact .inr (.inr (ihr _ x h))

/-- a successful `get_branch` returns exactly the nodes `_get` reads -/
theorem getBranch_ok_eq (t : BNode) (k : Bits) (l : List BNode) (h : getBranch t k = .ok l) :
    l = pathNodes t k := by
  induction t generalizing k l with
  | leaf v =>
    simp only [getBranch] at h
    split at h
    · cases h; rfl
    · cases h
  | kv p c ih =>
    simp only [getBranch] at h
    rw [pathNodes_kv]
    split at h
    · cases h
    · next hk =>
      rw [if_neg hk]
      split at h
      · next hp =>
        rw [if_pos hp]
        obtain ⟨l', h1, h2⟩ := (except_map_ok ..).1 h
        rw [← h2, ih _ l' h1]
      · next hp => rw [if_neg hp]; cases h; rfl
  | branch l0 r0 ihl ihr =>
    cases k with
    | nil => simp only [getBranch] at h; cases h
    | cons b k' =>
      simp only [getBranch] at h
      rw [pathNodes_branch_cons]
      split at h
      · next hb =>
        rw [if_pos hb]
        obtain ⟨l', h1, h2⟩ := (except_map_ok ..).1 h
        rw [← h2, ihl _ l' h1]
      · next hb =>
        rw [if_neg hb]
        obtain ⟨l', h1, h2⟩ := (except_map_ok ..).1 h
        rw [← h2, ihr _ l' h1]

/-! ### `getWitness` unfoldings -/
theorem getWitness_leaf (v : Bytes) (k : Bits) :
    getWitness (leaf v) k = if k = [] then .ok [leaf v] else .error .tooLong := rfl

theorem getWitness_kv (p : Bits) (c : BNode) (k : Bits) : getWitness (kv p c) k =
    if k.length < p.length ∧ k <+: p then .ok ((if k = [] then trieNodes (kv p c) else []) ++ kv p c :: trieNodes c)
    else if p <+: k then
      (getWitness c (k.drop p.length)).map (fun w => (if k = [] then trieNodes (kv p c) else []) ++ kv p c :: w)
    else .ok ((if k = [] then trieNodes (kv p c) else []) ++ [kv p c]) := rfl

theorem getWitness_branch_nil (l r : BNode) : getWitness (branch l r) [] =
    (getWitness r []).map (fun w => trieNodes (branch l r) ++ branch l r :: w) := rfl

theorem getWitness_branch_cons (l r : BNode) (b : Bool) (k : Bits) : getWitness (branch l r) (b :: k) =
    if b = false then (getWitness l k).map (fun w => branch l r :: w)
    else (getWitness r k).map (fun w => branch l r :: w) := rfl

theorem getWitness_sub_trieNodes (t : BNode) (p : Bits) (w : List BNode) (h : getWitness t p = .ok w) :
    ∀ x ∈ w, x ∈ trieNodes t := by
  induction t generalizing p w with
  | leaf v =>
    rw [getWitness_leaf] at h
    split at h
    · cases h; intro x hx; simpa [trieNodes] using hx
    · cases h
  | kv q c ih =>
    have hhead : ∀ x ∈ (if p = [] then trieNodes (kv q c) else []), x ∈ trieNodes (kv q c) := by
      intro x hx; split at hx
      · exact hx
      · cases hx
    rw [getWitness_kv] at h
    split at h
    · cases h
      intro x hx
      rcases List.mem_append.1 hx with h1 | h1
      · exact hhead x h1
      · simpa [trieNodes] using h1
    · split at h
      · obtain ⟨w', h1, h2⟩ := (except_map_ok ..).1 h
        subst h2
        intro x hx
        rcases List.mem_append.1 hx with h3 | h3
        · exact hhead x h3
        · rcases List.mem_cons.1 h3 with h4 | h4
          · subst h4; exact self_mem_trieNodes _
          · simp only [trieNodes, List.mem_cons]; exact .inr (ih _ w' h1 x h4)
      · cases h
        intro x hx
        rcases List.mem_append.1 hx with h1 | h1
        · exact hhead x h1
        · have : x = kv q c := by simpa using h1
          subst this; exact self_mem_trieNodes _
  | branch l r ihl ihr =>
    cases p with
    | nil =>
      rw [getWitness_branch_nil] at h
      obtain ⟨w', h1, h2⟩ := (except_map_ok ..).1 h
      subst h2
      intro x hx
      rcases List.mem_append.1 hx with h3 | h3
      · exact h3
      · rcases List.mem_cons.1 h3 with h4 | h4
        · subst h4; exact self_mem_trieNodes _
        · simp only [trieNodes, List.mem_cons, List.mem_append]; exact .inr (.inr (ihr _ w' h1 x h4))
    | cons b p' =>
      rw [getWitness_branch_cons] at h
      split at h
      · obtain ⟨w', h1, h2⟩ := (except_map_ok ..).1 h
        subst h2
        intro x hx
        rcases List.mem_cons.1 hx with h4 | h4
        · subst h4; exact self_mem_trieNodes _
        · simp only [trieNodes, List.mem_cons, List.mem_append]; exact .inr (.inl (ihl _ w' h1 x h4))
      · obtain ⟨w', h1, h2⟩ := (except_map_ok ..).1 h
        subst h2
        intro x hx
        rcases List.mem_cons.1 hx with h4 | h4
        · subst h4; exact self_mem_trieNodes _
        · simp only [trieNodes, List.mem_cons, List.mem_append]; exact .inr (.inr (ihr _ w' h1 x h4))

theorem prefix_drop_of_prefix {p k : Bits} (n : Nat) (h : p <+: k) : p.drop n <+: k.drop n := by
  obtain ⟨s, rfl⟩ := h
  rw [List.drop_append]
  exact List.prefix_append _ _

/-- the witness for prefix `p` contains every node `_get` reads for a key starting with `p` -/
theorem pathNodes_sub_getWitness (t : BNode) (p : Bits) (w : List BNode) (h : getWitness t p = .ok w)
    (k : Bits) (hpk : p <+: k) : ∀ x ∈ pathNodes t k, x ∈ w := by
  induction t generalizing p w k with
  | leaf v =>
    rw [getWitness_leaf] at h
    split at h
    · cases h; intro x hx; simpa [pathNodes_leaf] using hx
    · cases h
  | kv q c ih =>
    rw [getWitness_kv] at h
    intro x hx
    split at h
    · cases h
      have := pathNodes_sub_trieNodes (kv q c) k x hx
      simp only [trieNodes, List.mem_cons] at this
      exact List.mem_append_right _ (List.mem_cons.2 this)
    · next h1 =>
      split at h
      · next hqp =>
        obtain ⟨w', h2, h3⟩ := (except_map_ok ..).1 h
        subst h3
        apply List.mem_append_right
        rw [pathNodes_kv] at hx
        split at hx
        · have : x = kv q c := by simpa using hx
          subst this; simp
        · rw [if_pos (hqp.trans hpk)] at hx
          rcases List.mem_cons.1 hx with h4 | h4
          · subst h4; simp
          · exact List.mem_cons_of_mem _ (ih _ w' h2 _ (prefix_drop_of_prefix _ hpk) x h4)
      · next hqp =>
        cases h
        apply List.mem_append_right
        rw [pathNodes_kv] at hx
        split at hx
        · exact hx
        · split at hx
          · next hqk =>
            exfalso
            rcases List.prefix_or_prefix_of_prefix hpk hqk with h5 | h5
            · have hle := h5.length_le
              by_cases hlt : p.length < q.length
              · exact h1 ⟨hlt, h5⟩
              · have e := h5.eq_of_length_le (by omega)
                exact hqp (e ▸ List.prefix_refl _)
            · exact hqp h5
          · exact hx
  | branch l r ihl ihr =>
    intro x hx
    cases p with
    | nil =>
      rw [getWitness_branch_nil] at h
      obtain ⟨w', h1, h2⟩ := (except_map_ok ..).1 h
      subst h2
      exact List.mem_append_left _ (pathNodes_sub_trieNodes _ k x hx)
    | cons b p' =>
      cases k with
      | nil => simp at hpk
      | cons b' k' =>
        obtain ⟨hb, hpk'⟩ := List.cons_prefix_cons.1 hpk
        subst hb
        rw [getWitness_branch_cons] at h
        rw [pathNodes_branch_cons] at hx
        split at h
        · next hb =>
          rw [if_pos hb] at hx
          obtain ⟨w', h1, h2⟩ := (except_map_ok ..).1 h
          subst h2
          rcases List.mem_cons.1 hx with h4 | h4
          · subst h4; simp
          · exact List.mem_cons_of_mem _ (ihl _ w' h1 _ hpk' x h4)
        · next hb =>
          rw [if_neg hb] at hx
          obtain ⟨w', h1, h2⟩ := (except_map_ok ..).1 h
          subst h2
          rcases List.mem_cons.1 hx with h4 | h4
          · subst h4; simp
          · exact List.mem_cons_of_mem _ (ihr _ w' h1 _ hpk' x h4)

/-! ### when `get_branch` refuses a key -/

/-- stored keys diverge right after `q`: one continues with bit 0, another with bit 1
    (in a canonical trie: there is a branch node at position `q`) -/
def Splits (t : BNode) (q : Bits) : Prop :=
  ∃ k1 v1 k2 v2, bget t k1 = some v1 ∧ bget t k2 = some v2 ∧ q ++ [false] <+: k1 ∧ q ++ [true] <+: k2

/-- `k` ends at a node of the trie, not strictly inside the path of a kv node: it is empty (the root),
    or stored keys diverge right after it (a branch node), or right before its last bit (a child of a branch node) -/
def AtNode (t : BNode) (k : Bits) : Prop := k = [] ∨ Splits t k ∨ Splits t k.dropLast

theorem related_append (p a b : Bits) : Related (p ++ a) (p ++ b) ↔ Related a b := by
  simp [Related, List.prefix_append_right_inj]

theorem related_cons (x : Bool) (a b : Bits) : Related (x :: a) (x :: b) ↔ Related a b := by
  simp [Related, List.cons_prefix_cons]

theorem bget_branch_cons' (l r : BNode) (b : Bool) (k : Bits) :
    bget (branch l r) (b :: k) = bget (if b = false then l else r) k := by
  cases b <;> rfl

theorem splits_kv_prefix (p : Bits) (c : BNode) (q : Bits) (h : Splits (kv p c) q) : p <+: q := by
  obtain ⟨k1, v1, k2, v2, h1, h2, h3, h4⟩ := h
  obtain ⟨_, r1, rfl, _⟩ := (bget_kv_some ..).1 h1
  obtain ⟨_, r2, rfl, _⟩ := (bget_kv_some ..).1 h2
  by_cases hlen : p.length ≤ q.length
  · exact List.prefix_of_prefix_length_le (List.prefix_append _ _) ((List.prefix_append q [false]).trans h3) hlen
  · exfalso
    have a1 : q ++ [false] <+: p := List.prefix_of_prefix_length_le h3 (List.prefix_append _ _) (by simp; omega)
    have a2 : q ++ [true] <+: p := List.prefix_of_prefix_length_le h4 (List.prefix_append _ _) (by simp; omega)
    have := List.prefix_of_prefix_length_le a1 a2 (by simp)
    rw [List.prefix_append_right_inj] at this
    simp at this

theorem splits_kv_iff (p : Bits) (c : BNode) (q : Bits) (hp : p ≠ []) : Splits (kv p c) (p ++ q) ↔ Splits c q := by
  constructor
  · rintro ⟨k1, v1, k2, v2, h1, h2, h3, h4⟩
    obtain ⟨_, r1, rfl, g1⟩ := (bget_kv_some ..).1 h1
    obtain ⟨_, r2, rfl, g2⟩ := (bget_kv_some ..).1 h2
    rw [List.append_assoc, List.prefix_append_right_inj] at h3 h4
    exact ⟨r1, v1, r2, v2, g1, g2, h3, h4⟩
  · rintro ⟨k1, v1, k2, v2, h1, h2, h3, h4⟩
    refine ⟨p ++ k1, v1, p ++ k2, v2, (bget_kv_some ..).2 ⟨by simp [hp], k1, rfl, h1⟩,
      (bget_kv_some ..).2 ⟨by simp [hp], k2, rfl, h2⟩, ?_, ?_⟩
    · rw [List.append_assoc, List.prefix_append_right_inj]; exact h3
    · rw [List.append_assoc, List.prefix_append_right_inj]; exact h4

theorem splits_branch_cons (l r : BNode) (b : Bool) (q : Bits) :
    Splits (branch l r) (b :: q) ↔ Splits (if b = false then l else r) q := by
  constructor
  · rintro ⟨k1, v1, k2, v2, h1, h2, h3, h4⟩
    cases k1 with
    | nil => simp at h3
    | cons b1 k1 =>
      cases k2 with
      | nil => simp at h4
      | cons b2 k2 =>
        rw [List.cons_append, List.cons_prefix_cons] at h3 h4
        obtain ⟨e1, h3⟩ := h3
        obtain ⟨e2, h4⟩ := h4
        subst e1
        subst e2
        rw [bget_branch_cons'] at h1 h2
        exact ⟨k1, v1, k2, v2, h1, h2, h3, h4⟩
  · rintro ⟨k1, v1, k2, v2, h1, h2, h3, h4⟩
    refine ⟨b :: k1, v1, b :: k2, v2, by rw [bget_branch_cons']; exact h1, by rw [bget_branch_cons']; exact h2, ?_, ?_⟩
    · rw [List.cons_append, List.cons_prefix_cons]; exact ⟨rfl, h3⟩
    · rw [List.cons_append, List.cons_prefix_cons]; exact ⟨rfl, h4⟩

theorem splits_branch_nil (l r : BNode) (hl : BCanon l) (hr : BCanon r) : Splits (branch l r) [] := by
  obtain ⟨k1, v1, h1⟩ := exists_key l hl
  obtain ⟨k2, v2, h2⟩ := exists_key r hr
  exact ⟨false :: k1, v1, true :: k2, v2, by simpa [bget_branch_cons] using h1,
    by simpa [bget_branch_cons] using h2, by simp, by simp⟩

/-- the exact refusal condition of `get_branch` -/
def GBErr (t : BNode) (k : Bits) : Prop :=
  bget t k = none ∧ ∃ k' v', bget t k' = some v' ∧ Related k' k ∧ (k <+: k' → AtNode t k)

theorem atNode_kv_append (p : Bits) (c : BNode) (k1 : Bits) (hp : p ≠ []) (hk1 : k1 ≠ []) :
    AtNode (kv p c) (p ++ k1) ↔ AtNode c k1 := by
  unfold AtNode
  rw [List.dropLast_append_of_ne_nil hk1, splits_kv_iff p c _ hp, splits_kv_iff p c _ hp]
  simp [hk1]

theorem gbErr_kv_append (p : Bits) (c : BNode) (k1 : Bits) (hp : p ≠ []) (hk1 : k1 ≠ []) :
    GBErr (kv p c) (p ++ k1) ↔ GBErr c k1 := by
  have hb : bget (kv p c) (p ++ k1) = bget c k1 := by simp [bget_kv, hp]
  unfold GBErr
  rw [hb, atNode_kv_append p c k1 hp hk1]
  constructor
  · rintro ⟨h0, k', v', h1, h2, h3⟩
    obtain ⟨_, r, rfl, g⟩ := (bget_kv_some ..).1 h1
    exact ⟨h0, r, v', g, (related_append ..).1 h2, fun hpre => h3 ((List.prefix_append_right_inj p).2 hpre)⟩
  · rintro ⟨h0, k', v', h1, h2, h3⟩
    exact ⟨h0, p ++ k', v', (bget_kv_some ..).2 ⟨by simp [hp], k', rfl, h1⟩, (related_append ..).2 h2,
      fun hpre => h3 ((List.prefix_append_right_inj p).1 hpre)⟩

theorem atNode_branch_cons (l r : BNode) (hl : BCanon l) (hr : BCanon r) (b : Bool) (k1 : Bits) :
    AtNode (branch l r) (b :: k1) ↔ AtNode (if b = false then l else r) k1 := by
  unfold AtNode
  by_cases hk1 : k1 = []
  · subst hk1
    have := splits_branch_nil l r hl hr
    simp [this]
  · rw [List.dropLast_cons_of_ne_nil hk1, splits_branch_cons, splits_branch_cons]
    simp [hk1]

theorem gbErr_branch_cons (l r : BNode) (hl : BCanon l) (hr : BCanon r) (b : Bool) (k1 : Bits) :
    GBErr (branch l r) (b :: k1) ↔ GBErr (if b = false then l else r) k1 := by
  unfold GBErr
  rw [bget_branch_cons', atNode_branch_cons l r hl hr]
  constructor
  · rintro ⟨h0, k', v', h1, h2, h3⟩
    cases k' with
    | nil => simp [bget_branch_nil] at h1
    | cons b' k'' =>
      have hb : b' = b := by
        rcases h2.2 with h | h
        · exact (List.cons_prefix_cons.1 h).1
        · exact (List.cons_prefix_cons.1 h).1.symm
      subst hb
      rw [bget_branch_cons'] at h1
      exact ⟨h0, k'', v', h1, (related_cons ..).1 h2, fun hpre => h3 (List.cons_prefix_cons.2 ⟨rfl, hpre⟩)⟩
  · rintro ⟨h0, k', v', h1, h2, h3⟩
    exact ⟨h0, b :: k', v', by rw [bget_branch_cons']; exact h1, (related_cons ..).2 h2,
      fun hpre => h3 (List.cons_prefix_cons.1 hpre).2⟩

theorem getBranch_error_iff_gbErr (t : BNode) (hc : BCanon t) (k : Bits) :
    (∃ e, getBranch t k = .error e) ↔ GBErr t k := by
  induction t generalizing k with
  | leaf v =>
    simp only [getBranch]
    by_cases hk : k = []
    · subst hk
      apply iff_of_false
      · rintro ⟨e, h⟩; cases h
      · rintro ⟨h, _⟩; cases h
    · rw [if_neg hk]
      apply iff_of_true ⟨_, rfl⟩
      exact ⟨by simp [bget_leaf, hk], [], v, rfl, ⟨fun e => hk e.symm, .inl List.nil_prefix⟩,
        fun hpre => absurd (List.prefix_nil.1 hpre) hk⟩
  | kv p c ih =>
    obtain ⟨hp, hnk, hcc⟩ := hc
    simp only [getBranch]
    by_cases hk : k = []
    · subst hk
      rw [if_pos rfl]
      obtain ⟨k0, v0, hk0⟩ := exists_key c hcc
      apply iff_of_true ⟨_, rfl⟩
      exact ⟨rfl, p ++ k0, v0, (bget_kv_some ..).2 ⟨by simp [hp], k0, rfl, hk0⟩,
        ⟨by simp [hp], .inr List.nil_prefix⟩, fun _ => .inl rfl⟩
    · rw [if_neg hk]
      by_cases hpk : p <+: k
      · rw [if_pos hpk]
        obtain ⟨k1, rfl⟩ := hpk
        rw [List.drop_left]
        simp only [except_map_error]
        by_cases hk1 : k1 = []
        · subst hk1
          rw [List.append_nil]
          cases c with
          | leaf v =>
            apply iff_of_false
            · rintro ⟨e, h⟩; simp [getBranch] at h
            · rintro ⟨h, _⟩
              have : bget (kv p (leaf v)) p = some v :=
                (bget_kv_some ..).2 ⟨hp, [], by simp, rfl⟩
              rw [this] at h; cases h
          | kv p' c' => exact absurd rfl (hnk p' c')
          | branch l r =>
            obtain ⟨k0, v0, hk0⟩ := exists_key l hcc.1
            apply iff_of_true ⟨.tooShort, rfl⟩
            refine ⟨by simp [bget_kv, hp, bget_branch_nil], p ++ false :: k0, v0,
              (bget_kv_some ..).2 ⟨by simp, false :: k0, rfl, by simpa [bget_branch_cons] using hk0⟩,
              ⟨by simp, .inr (List.prefix_append _ _)⟩, fun _ => .inr (.inl ?_)⟩
            have := (splits_kv_iff p (branch l r) [] hp).2 (splits_branch_nil l r hcc.1 hcc.2)
            simpa using this
        · rw [ih hcc k1, gbErr_kv_append p c k1 hp hk1]
      · rw [if_neg hpk]
        apply iff_of_false
        · rintro ⟨e, h⟩; cases h
        · rintro ⟨_, k', v', h1, ⟨_, hrel⟩, h3⟩
          obtain ⟨_, r, rfl, _⟩ := (bget_kv_some ..).1 h1
          rcases hrel with hrel | hrel
          · exact hpk ((List.prefix_append _ _).trans hrel)
          · rcases h3 hrel with e | s | s
            · exact hk e
            · exact hpk (splits_kv_prefix p c k s)
            · exact hpk ((splits_kv_prefix _ _ _ s).trans (List.dropLast_prefix k))
  | branch l r ihl ihr =>
    cases k with
    | nil =>
      simp only [getBranch]
      obtain ⟨k0, v0, hk0⟩ := exists_key l hc.1
      apply iff_of_true ⟨_, rfl⟩
      exact ⟨rfl, false :: k0, v0, by simpa [bget_branch_cons] using hk0, ⟨by simp, .inr List.nil_prefix⟩,
        fun _ => .inl rfl⟩
    | cons b k1 =>
      simp only [getBranch]
      rw [gbErr_branch_cons l r hc.1 hc.2]
      cases b with
      | false => simp only [↓reduceIte, except_map_error]; exact ihl hc.1 k1
      | true => simp only [Bool.true_eq_false, ↓reduceIte, except_map_error]; exact ihr hc.2 k1

end PyTrie.Bin
