import PyTrie.Lemmas.RlpBE
/-! The strict RLP decoder of the model inverts the RLP encoder on every item whose strings and
    list payloads are shorter than `2^64` bytes (`Item.Small`; pyrlp refuses lengths `≥ 256^8`, and in
    the model the prefix byte `off + 55 + lengthOfLength` leaves its range / wraps for such lengths:
    a string of `2^64` bytes gets prefix `0xc0`, a list payload of `2^64` bytes gets prefix `0x00`). -/
namespace PyTrie
open PyTrie.HexD

mutual
/-- every string and every list payload inside the item is shorter than `2^64` bytes -/
def Item.Small : Item → Prop
  | .str b => b.length < 2 ^ 64
  | .list l => (rlpList l).length < 2 ^ 64 ∧ Item.SmallList l
def Item.SmallList : List Item → Prop
  | [] => True
  | x :: xs => Item.Small x ∧ Item.SmallList xs
end

mutual
/-- fuel that `decItem` needs on `rlp it` -/
def Item.need : Item → Nat
  | .str _ => 1
  | .list l => 1 + Item.needList l
/-- fuel that `decList` needs on `rlpList l` -/
def Item.needList : List Item → Nat
  | [] => 1
  | x :: xs => 1 + max (Item.need x) (Item.needList xs)
end

end PyTrie

namespace PyTrie.HexD
open PyTrie

/-! ### unfolding the decoder -/

set_option maxRecDepth 4096 in
theorem decItem_succ_cons (fuel : Nat) (b : UInt8) (rest : Bytes) :
  decItem (fuel + 1) (b :: rest) =
    if b.toNat < 0x80 then some (.str [b], rest)
    else if b.toNat < 0xb8 then
      if rest.length < b.toNat - 0x80 then none
      else match rest.take (b.toNat - 0x80) with
        | [c] => if c.toNat < 0x80 then none else some (.str [c], rest.drop (b.toNat - 0x80))
        | s => some (.str s, rest.drop (b.toNat - 0x80))
    else if b.toNat < 0xc0 then
      if rest.length < b.toNat - 0xb7 then none
      else match longLen (rest.take (b.toNat - 0xb7)) with
        | none => none
        | some n =>
          if (rest.drop (b.toNat - 0xb7)).length < n then none
          else some (.str ((rest.drop (b.toNat - 0xb7)).take n), (rest.drop (b.toNat - 0xb7)).drop n)
    else if b.toNat < 0xf8 then
      if rest.length < b.toNat - 0xc0 then none
      else (decList fuel (rest.take (b.toNat - 0xc0))).map fun l => (.list l, rest.drop (b.toNat - 0xc0))
    else
      if rest.length < b.toNat - 0xf7 then none
      else match longLen (rest.take (b.toNat - 0xf7)) with
        | none => none
        | some n =>
          if (rest.drop (b.toNat - 0xf7)).length < n then none
          else (decList fuel ((rest.drop (b.toNat - 0xf7)).take n)).map
                 fun l => (.list l, (rest.drop (b.toNat - 0xf7)).drop n) := by
  rfl

theorem take_app (a b : Bytes) {n : Nat} (h : a.length = n) : (a ++ b).take n = a := by
  subst h; simp

theorem drop_app (a b : Bytes) {n : Nat} (h : a.length = n) : (a ++ b).drop n = b := by
  subst h; simp

/-! ### the five header forms -/

theorem decItem_single (fuel : Nat) (x : UInt8) (rest : Bytes) (hx : x < 0x80) :
    decItem (fuel + 1) (x :: rest) = some (.str [x], rest) := by
  rw [decItem_succ_cons]
  have : x.toNat < 0x80 := by simpa [UInt8.lt_iff_toNat_lt] using hx
  simp [this]

theorem decItem_short_str (fuel : Nat) (b rest : Bytes) (hb : ∀ c, b = [c] → 0x80 ≤ c.toNat)
    (hn : b.length < 56) :
    decItem (fuel + 1) (UInt8.ofNat (0x80 + b.length) :: (b ++ rest)) = some (.str b, rest) := by
  rw [decItem_succ_cons]
  have ht : (UInt8.ofNat (0x80 + b.length)).toNat = 0x80 + b.length := toNat_ofNat_lt (by omega)
  have e1 : 0x80 + b.length - 0x80 = b.length := by omega
  simp only [ht, e1, take_app b rest rfl, drop_app b rest rfl]
  rw [if_neg (by omega), if_pos (by omega), if_neg (by simp)]
  split
  · next c => have := hb c rfl; rw [if_neg (by omega)]
  · rfl

theorem decItem_long_str (fuel k : Nat) (be b rest : Bytes) (hk1 : 1 ≤ k) (hk8 : k ≤ 8)
    (hbe : be.length = k) (hl : longLen be = some b.length) :
    decItem (fuel + 1) (UInt8.ofNat (0xb7 + k) :: (be ++ (b ++ rest))) = some (.str b, rest) := by
  rw [decItem_succ_cons]
  have ht : (UInt8.ofNat (0xb7 + k)).toNat = 0xb7 + k := toNat_ofNat_lt (by omega)
  have e1 : 0xb7 + k - 0xb7 = k := by omega
  simp only [ht, e1, take_app be _ hbe, drop_app be _ hbe, hl, take_app b rest rfl,
    drop_app b rest rfl]
  rw [if_neg (by omega), if_neg (by omega), if_pos (by omega), if_neg (by simp; omega),
    if_neg (by simp)]

theorem decItem_short_list (fuel : Nat) (p rest : Bytes) (hn : p.length < 56) :
    decItem (fuel + 1) (UInt8.ofNat (0xc0 + p.length) :: (p ++ rest))
      = (decList fuel p).map fun l => (.list l, rest) := by
  rw [decItem_succ_cons]
  have ht : (UInt8.ofNat (0xc0 + p.length)).toNat = 0xc0 + p.length := toNat_ofNat_lt (by omega)
  have e1 : 0xc0 + p.length - 0xc0 = p.length := by omega
  simp only [ht, e1, take_app p rest rfl, drop_app p rest rfl]
  rw [if_neg (by omega), if_neg (by omega), if_neg (by omega), if_pos (by omega),
    if_neg (by simp)]

theorem decItem_long_list (fuel k : Nat) (be p rest : Bytes) (hk1 : 1 ≤ k) (hk8 : k ≤ 8)
    (hbe : be.length = k) (hl : longLen be = some p.length) :
    decItem (fuel + 1) (UInt8.ofNat (0xf7 + k) :: (be ++ (p ++ rest)))
      = (decList fuel p).map fun l => (.list l, rest) := by
  rw [decItem_succ_cons]
  have ht : (UInt8.ofNat (0xf7 + k)).toNat = 0xf7 + k := toNat_ofNat_lt (by omega)
  have e1 : 0xf7 + k - 0xf7 = k := by omega
  simp only [ht, e1, take_app be _ hbe, drop_app be _ hbe, hl, take_app p rest rfl,
    drop_app p rest rfl]
  rw [if_neg (by omega), if_neg (by omega), if_neg (by omega), if_neg (by omega),
    if_neg (by simp; omega), if_neg (by simp)]

/-! ### length prefix -/

theorem natToBE_length_bounds {n : Nat} (h56 : 56 ≤ n) (h64 : n < 2 ^ 64) :
    1 ≤ (natToBE n).length ∧ (natToBE n).length ≤ 8 :=
  ⟨natToBE_length_pos (by omega), natToBE_length_le 8 n (by simpa using h64)⟩

theorem rlpLen_ne_nil (off n : Nat) : rlpLen off n ≠ [] := by
  unfold rlpLen; split <;> simp

/-- a string that is not a single byte below `0x80`, prefixed by its length -/
theorem decItem_rlpLen_str (fuel : Nat) (b rest : Bytes) (hb : ∀ c, b = [c] → 0x80 ≤ c.toNat)
    (hs : b.length < 2 ^ 64) :
    decItem (fuel + 1) (rlpLen 0x80 b.length ++ b ++ rest) = some (.str b, rest) := by
  unfold rlpLen
  by_cases h : b.length < 56
  · simp only [h, if_true, List.cons_append, List.nil_append]
    exact decItem_short_str fuel b rest hb h
  · obtain ⟨h1, h8⟩ := natToBE_length_bounds (n := b.length) (by omega) hs
    simp only [h, if_false, List.append_assoc, List.cons_append]
    exact decItem_long_str fuel _ _ b rest h1 h8 rfl (longLen_natToBE (by omega))

theorem decItem_rlpLen_list (fuel : Nat) (p rest : Bytes) (hs : p.length < 2 ^ 64) :
    decItem (fuel + 1) (rlpLen 0xc0 p.length ++ p ++ rest)
      = (decList fuel p).map fun l => (.list l, rest) := by
  unfold rlpLen
  by_cases h : p.length < 56
  · simp only [h, if_true, List.cons_append, List.nil_append]
    exact decItem_short_list fuel p rest h
  · obtain ⟨h1, h8⟩ := natToBE_length_bounds (n := p.length) (by omega) hs
    simp only [h, if_false, List.append_assoc, List.cons_append]
    exact decItem_long_list fuel _ _ p rest h1 h8 rfl (longLen_natToBE (by omega))

/-! ### strings -/

theorem decItem_rlp_str (fuel : Nat) (b rest : Bytes) (hs : b.length < 2 ^ 64) :
    decItem (fuel + 1) (rlp (.str b) ++ rest) = some (.str b, rest) := by
  by_cases h : ∃ x, b = [x]
  · obtain ⟨x, rfl⟩ := h
    rw [rlp.eq_1]
    by_cases hx : x < 128
    · simp only [hx, if_true]; exact decItem_single fuel x rest hx
    · simp only [hx, if_false]
      refine decItem_rlpLen_str fuel [x] rest ?_ hs
      intro c hc
      have : x = c := by simpa using hc
      subst this
      simpa [UInt8.lt_iff_toNat_lt] using hx
  · rw [rlp.eq_2 b (fun x hx => h ⟨x, hx⟩)]
    exact decItem_rlpLen_str fuel b rest (fun c hc => absurd ⟨c, hc⟩ h) hs

theorem rlp_ne_nil (it : Item) : rlp it ≠ [] := by
  cases it with
  | str b =>
    by_cases h : ∃ x, b = [x]
    · obtain ⟨x, rfl⟩ := h
      rw [rlp.eq_1]; split
      · simp
      · simp [rlpLen_ne_nil]
    · rw [rlp.eq_2 b (fun x hx => h ⟨x, hx⟩)]; simp [rlpLen_ne_nil]
  | list l => rw [rlp.eq_3]; simp [rlpLen_ne_nil]

theorem rlp_length_pos (it : Item) : 0 < (rlp it).length :=
  List.length_pos_iff.mpr (rlp_ne_nil it)

theorem rlp_list_length (l : List Item) :
    (rlpList l).length < (rlp (.list l)).length := by
  rw [rlp.eq_3]
  have := List.length_pos_iff.mpr (rlpLen_ne_nil 0xc0 (rlpList l).length)
  simp; omega

/-! ### the round trip, by mutual structural recursion -/

mutual
/-- decoding one item from the front of `rlp it ++ rest` yields `it` and leaves `rest`,
    for any fuel of at least `it.need` -/
theorem decItem_rlp_need : ∀ (it : Item) (rest : Bytes) (fuel : Nat), it.Small → it.need ≤ fuel →
    decItem fuel (rlp it ++ rest) = some (it, rest)
  | .str b, rest, fuel, hs, hf => by
    simp only [Item.need] at hf
    simp only [Item.Small] at hs
    obtain ⟨f, rfl⟩ : ∃ f, fuel = f + 1 := ⟨fuel - 1, by omega⟩
    exact decItem_rlp_str f b rest hs
  | .list l, rest, fuel, hs, hf => by
    simp only [Item.need] at hf
    simp only [Item.Small] at hs
    obtain ⟨f, rfl⟩ : ∃ f, fuel = f + 1 := ⟨fuel - 1, by omega⟩
    rw [rlp.eq_3]
    rw [decItem_rlpLen_list f (rlpList l) rest hs.1, decList_rlp_need l f hs.2 (by omega)]
    rfl
/-- decoding `rlpList l` as a list payload yields `l`, for any fuel of at least `needList l` -/
theorem decList_rlp_need : ∀ (l : List Item) (fuel : Nat), Item.SmallList l → Item.needList l ≤ fuel →
    decList fuel (rlpList l) = some l
  | [], fuel, _, hf => by
    simp only [Item.needList] at hf
    rw [rlpList.eq_1]
    exact decList.eq_2 fuel (by omega)
  | x :: xs, fuel, hs, hf => by
    simp only [Item.needList] at hf
    simp only [Item.SmallList] at hs
    obtain ⟨f, rfl⟩ : ∃ f, fuel = f + 1 := ⟨fuel - 1, by omega⟩
    have hx := decItem_rlp_need x (rlpList xs) f hs.1 (by omega)
    have hxs := decList_rlp_need xs f hs.2 (by omega)
    rw [rlpList.eq_2]
    cases hc : rlp x ++ rlpList xs with
    | nil => exact absurd (List.append_eq_nil_iff.mp hc).1 (rlp_ne_nil x)
    | cons b bs =>
      rw [decList.eq_3, ← hc, hx]
      simp only [hxs]
      rfl
end

/-! ### fuel: twice the encoded length is always enough -/

mutual
theorem need_le : ∀ (it : Item), it.need ≤ 2 * (rlp it).length
  | .str b => by
    have := rlp_length_pos (.str b)
    simp only [Item.need]; omega
  | .list l => by
    have := needList_le l
    have := rlp_list_length l
    simp only [Item.need]; omega
theorem needList_le : ∀ (l : List Item), Item.needList l ≤ 2 * (rlpList l).length + 1
  | [] => by simp [Item.needList]
  | x :: xs => by
    have := need_le x
    have := needList_le xs
    have := rlp_length_pos x
    simp only [Item.needList, rlpList.eq_2, List.length_append]; omega
end

/-- decoding one item from the front of `rlp it ++ rest` yields `it` and leaves `rest`,
    for any fuel of at least twice the length of the encoding -/
theorem decItem_rlp (it : Item) (rest : Bytes) (fuel : Nat) (hs : it.Small)
    (hf : 2 * (rlp it).length ≤ fuel) :
    decItem fuel (rlp it ++ rest) = some (it, rest) :=
  decItem_rlp_need it rest fuel hs (Nat.le_trans (need_le it) hf)

theorem decList_rlpList (l : List Item) (fuel : Nat) (hs : Item.SmallList l)
    (hf : 2 * (rlpList l).length < fuel) :
    decList fuel (rlpList l) = some l :=
  decList_rlp_need l fuel hs (Nat.le_trans (needList_le l) hf)

/-- `rlp.decode(rlp.encode(x)) == x` for every item whose strings and list payloads are shorter
    than `2^64` bytes -/
theorem rlpDecode_rlp_small (it : Item) (hs : it.Small) : rlpDecode (rlp it) = some it := by
  have h := decItem_rlp it [] (2 * (rlp it).length + 2) hs (by omega)
  rw [List.append_nil] at h
  simp only [rlpDecode, h]

/-! ### a sufficient condition: the whole encoding is shorter than `2^64` bytes -/

theorem str_length_le (b : Bytes) : b.length ≤ (rlp (.str b)).length := by
  by_cases h : ∃ x, b = [x]
  · obtain ⟨x, rfl⟩ := h
    have := rlp_length_pos (.str [x])
    simp only [List.length_singleton]; omega
  · rw [rlp.eq_2 b (fun x hx => h ⟨x, hx⟩)]; simp

mutual
theorem small_of_length_lt (N : Nat) : ∀ (it : Item), (rlp it).length < N → N ≤ 2 ^ 64 → it.Small
  | .str b, h, hN => by
    have := str_length_le b
    simp only [Item.Small]; omega
  | .list l, h, hN => by
    have := rlp_list_length l
    simp only [Item.Small]
    exact ⟨by omega, smallList_of_length_lt N l (by omega) hN⟩
theorem smallList_of_length_lt (N : Nat) : ∀ (l : List Item), (rlpList l).length < N → N ≤ 2 ^ 64 →
    Item.SmallList l
  | [], _, _ => by simp [Item.SmallList]
  | x :: xs, h, hN => by
    simp only [rlpList.eq_2, List.length_append] at h
    simp only [Item.SmallList]
    exact ⟨small_of_length_lt N x (by omega) hN, smallList_of_length_lt N xs (by omega) hN⟩
end

/-- an item whose encoding is shorter than `2^64` bytes is `Small` -/
theorem small_of_rlp_length_lt (it : Item) (h : (rlp it).length < 2 ^ 64) : it.Small :=
  small_of_length_lt (2 ^ 64) it h (Nat.le_refl _)

/-- the round trip for every item whose encoding is shorter than `2^64` bytes
    (in particular for every trie node that fits in memory) -/
theorem rlpDecode_rlp_of_length_lt (it : Item) (h : (rlp it).length < 2 ^ 64) :
    rlpDecode (rlp it) = some it :=
  rlpDecode_rlp_small it (small_of_rlp_length_lt it h)

end PyTrie.HexD
