import PyTrie.Model.HexRawT
import PyTrie.Lemmas.RawPartial
import PyTrie.Lemmas.ReadPartial
/-! `Model/HexRawT.lean` (the raw-level write path returning the state also when an exception leaves it) agrees with
    `Model/HexRaw.lean` on every input, and **a failing `_set` / `_delete` / `set` / `delete` has written nothing**: on a
    partial database, when the call stops at a missing node the database is exactly what it was and only fetches and
    prune-marks were recorded (C07: a failed call leaves the database untouched — at the level of the transcription). -/
namespace PyTrie.HexRawT
open PyTrie PyTrie.Hex PyTrie.HexD PyTrie.HexRaw
open PyTrie.HexW (NoPersist)

variable (H : Bytes → Bytes)

/-- forgetting the state on an exception -/
def forget {α : Type} (r : St × Except Err α) : Except Err (α × St) :=
  match r with
  | (st, .ok x) => .ok (x, st)
  | (_, .error e) => .error e

/-! ### agreement with `HexRaw` (all inputs, no hypotheses) -/

@[simp] theorem forget_ok {α : Type} (st : St) (x : α) : forget (st, (.ok x : Except Err α)) = .ok (x, st) := rfl
@[simp] theorem forget_error {α : Type} (st : St) (e : Err) : forget (st, (.error e : Except Err α)) = .error e := rfl

theorem getNodeT_ok (st : St) (ref it : Item) (st' : St) (h : getNodeR H st ref = .ok (it, st')) :
    getNodeT H st ref = (st', .ok it) := by simp [getNodeT, h]
theorem getNodeT_error (st : St) (ref : Item) (e : Err) (h : getNodeR H st ref = .error e) :
    getNodeT H st ref = (st, .error e) := by simp [getNodeT, h]

theorem set_agrees_both (fuel : Nat) :
    (∀ (st : St) (node : Item) (key : Path) (value : Bytes),
      rawSet H fuel st node key value = forget (rawSetT H fuel st node key value)) ∧
    (∀ (st : St) (node : Item) (p : Path) (x : Item) (isExt : Bool) (key : Path) (value : Bytes),
      rawSetKv H fuel st node p x isExt key value = forget (rawSetKvT H fuel st node p x isExt key value)) := by
  induction fuel with
  | zero => constructor <;> intros <;> simp [rawSet, rawSetT, rawSetKv, rawSetKvT]
  | succ fuel ih =>
    obtain ⟨ih1, ih2⟩ := ih
    constructor
    · intro st node key value
      simp only [rawSet, rawSetT]
      cases classify node with
      | blank => simp
      | leaf p x => simp only [ih2]
      | ext p x => simp only [ih2]
      | invalid => simp
      | branch l =>
        cases key with
        | nil => simp
        | cons a rest =>
          simp only []
          generalize l.getD a.val (.str []) = ref
          cases hg : getNodeR H (pruneNodeR H st node) ref with
          | error e => simp [getNodeT_error H _ _ _ hg]
          | ok r =>
            obtain ⟨sub, st1⟩ := r
            simp only [getNodeT_ok H _ _ _ _ hg, ih1]
            generalize rawSetT H fuel st1 sub rest value = r
            obtain ⟨st2, r⟩ := r
            cases r <;> simp
    · intro st node p x isExt key value
      simp only [rawSetKv, rawSetKvT]
      generalize p.drop (cpl p key) = ckr
      generalize key.drop (cpl p key) = tkr
      generalize p.take (cpl p key) = common
      cases ckr with
      | nil =>
        cases tkr with
        | nil =>
          cases isExt with
          | false =>
            simp only [Bool.not_false, ↓reduceIte]
            split <;> simp
          | true =>
            simp only [Bool.not_true, Bool.false_eq_true, ↓reduceIte]
            cases hg : getNodeR H st x with
            | error e => simp [getNodeT_error H _ _ _ hg]
            | ok r =>
              obtain ⟨sub, st1⟩ := r
              simp only [getNodeT_ok H _ _ _ _ hg, ih1]
              generalize rawSetT H fuel st1 sub [] value = r
              obtain ⟨st2, r⟩ := r
              cases r with
              | error e => simp [Except.map]
              | ok r => 
                simp only [forget_ok, Except.map]
                split <;> simp
        | cons t0 trest =>
          cases isExt with
          | false =>
            simp only [Bool.false_eq_true, ↓reduceIte]
            split <;> simp
          | true =>
            simp only [↓reduceIte]
            cases hg : getNodeR H st x with
            | error e => simp [getNodeT_error H _ _ _ hg]
            | ok r =>
              obtain ⟨sub, st1⟩ := r
              simp only [getNodeT_ok H _ _ _ _ hg, ih1]
              generalize rawSetT H fuel st1 sub (t0 :: trest) value = r
              obtain ⟨st2, r⟩ := r
              cases r with
              | error e => simp [Except.map]
              | ok r => 
                simp only [forget_ok, Except.map]
                split <;> simp
      | cons c0 crest =>
        simp only []
        cases tkr with
        | nil => simp only []; split <;> simp
        | cons t0 trest => simp only []; split <;> simp

theorem rawSetT_agrees (fuel : Nat) (st : St) (node : Item) (key : Path) (value : Bytes) :
    rawSet H fuel st node key value = forget (rawSetT H fuel st node key value) :=
  (set_agrees_both H fuel).1 st node key value

theorem rawSetKvT_agrees (fuel : Nat) (st : St) (node : Item) (p : Path) (x : Item) (isExt : Bool) (key : Path) (value : Bytes) :
    rawSetKv H fuel st node p x isExt key value = forget (rawSetKvT H fuel st node p x isExt key value) :=
  (set_agrees_both H fuel).2 st node p x isExt key value

theorem rawNormalizeT_agrees (st : St) (l : List Item) :
    rawNormalize H st l = forget (rawNormalizeT H st l) := by
  simp only [rawNormalize, rawNormalizeT]
  generalize (List.range 16).find? _ = o
  split
  · simp
  split
  · simp
  cases o with
  | none => simp
  | some idx =>
    simp only []
    generalize l.getD idx (.str []) = ref
    cases hg : getNodeR H st ref with
    | error e => simp [getNodeT_error H _ _ _ hg]
    | ok r =>
      obtain ⟨sub, st1⟩ := r
      simp only [getNodeT_ok H _ _ _ _ hg]
      cases classify sub <;> simp

theorem rawDeleteT_agrees (fuel : Nat) (st : St) (node : Item) (key : Path) :
    rawDelete H fuel st node key = forget (rawDeleteT H fuel st node key) := by
  induction fuel generalizing st node key with
  | zero => simp [rawDelete, rawDeleteT]
  | succ fuel ih =>
    simp only [rawDelete, rawDeleteT]
    cases classify node with
    | blank => simp
    | invalid => simp
    | leaf p x =>
      simp only []
      split
      · simp
      split <;> simp
    | ext p x =>
      simp only []
      split
      · simp
      cases hg : getNodeR H (pruneNodeR H st node) x with
      | error e => simp [getNodeT_error H _ _ _ hg]
      | ok r =>
        obtain ⟨sub, st1⟩ := r
        simp only [getNodeT_ok H _ _ _ _ hg, ih]
        generalize rawDeleteT H fuel st1 sub _ = r
        obtain ⟨st2, r⟩ := r
        cases r with
        | error e => simp
        | ok r =>
          simp only [forget_ok]
          split
          · simp
          split
          · simp
          cases classify r <;> simp
    | branch l =>
      cases key with
      | nil => simp only [rawNormalizeT_agrees]
      | cons a rest =>
        simp only []
        generalize l.getD a.val (.str []) = ref
        cases hg : getNodeR H (pruneNodeR H st node) ref with
        | error e => simp [getNodeT_error H _ _ _ hg]
        | ok r =>
          obtain ⟨sub, st1⟩ := r
          simp only [getNodeT_ok H _ _ _ _ hg, ih]
          generalize rawDeleteT H fuel st1 sub _ = r
          obtain ⟨st2, r⟩ := r
          cases r with
          | error e => simp
          | ok r =>
            simp only [forget_ok]
            split
            · simp
            split
            · simp only [rawNormalizeT_agrees]
            · simp

theorem rawOpT_agrees (db : Db) (root : Hash) (key : Bytes) (value : Option Bytes) :
    rawOp H db root key value =
      (match rawOpT H db root key value with
       | (st, .ok h) => .ok (h, st)
       | (_, .error e) => .error e) := by
  simp only [rawOp, rawOpT]
  cases hg : getNodeR H { db := db, evs := [] } (.str root) with
  | error e => simp [getNodeT_error H _ _ _ hg]
  | ok r =>
    obtain ⟨sub, st1⟩ := r
    simp only [getNodeT_ok H _ _ _ _ hg]
    have hfin : ∀ (a : Except Err (Item × St)) (b : St × Except Err Item), a = forget b →
        (match a with
          | .error e => .error e
          | .ok (newRoot, st2) => .ok (setRawRoot H st2 newRoot) : Except Err (Hash × St)) =
        (match (match b with
            | (st2, .error e) => (st2, .error e)
            | (st2, .ok newRoot) => ((setRawRoot H st2 newRoot).2, .ok (setRawRoot H st2 newRoot).1) : St × Except Err Hash) with
          | (st, .ok h) => .ok (h, st)
          | (_, .error e) => .error e) := by
      intro a b hab
      subst hab
      obtain ⟨st2, r⟩ := b
      cases r <;> simp
    apply hfin
    cases value with
    | none => simp only [rawDeleteT_agrees]
    | some v => 
      simp only []
      split
      · simp only [rawDeleteT_agrees]
      · simp only [rawSetT_agrees]

/-! ### atomic failure on partial databases

    The atomicity facts turn out to be purely structural: `set_atomic_both`, `delete_atomic_gen` and `rawOpT_atomic_gen`
    below hold for *every* input node, key, fuel and database (only `delete` needs `(H b).length = 32`, so that a persist
    returning the blank reference was handed the blank node). In `_set` every persist comes after the last fetch; in
    `_delete` the only fetch after a persist is the one in `_normalize_branch_node` after a sub-delete that returned the
    blank node, and a `_delete` that returns the blank node has persisted nothing. The target theorems (stated for the raw
    encoding of a canonical tree over a partial database) are instances; their tree hypotheses are not used. -/
set_option linter.unusedVariables false

/-- `st'` extends `st` by events that are not persists, over the same database -/
def Quiet (st st' : St) : Prop := st'.db = st.db ∧ ∃ evs', st'.evs = st.evs ++ evs' ∧ NoPersist evs'

theorem Quiet.refl (st : St) : Quiet st st := ⟨rfl, [], by simp, by simp⟩

theorem Quiet.trans {a b c : St} (h1 : Quiet a b) (h2 : Quiet b c) : Quiet a c := by
  obtain ⟨d1, e1, he1, n1⟩ := h1
  obtain ⟨d2, e2, he2, n2⟩ := h2
  exact ⟨d2.trans d1, e1 ++ e2, by rw [he2, he1, List.append_assoc], by simp [n1, n2]⟩

theorem quiet_prune (st : St) (node : Item) : Quiet st (pruneNodeR H st node) := by
  unfold pruneNodeR
  split
  · exact ⟨rfl, _, rfl, by simp [NoPersist]⟩
  · exact Quiet.refl st

theorem quiet_getNodeR (st : St) (ref it : Item) (st' : St) (h : getNodeR H st ref = .ok (it, st')) :
    Quiet st st' := by
  unfold getNodeR at h
  split at h
  · simp at h; rw [← h.2]; exact Quiet.refl st
  · split at h
    · simp at h; rw [← h.2]; exact Quiet.refl st
    split at h
    · simp at h; rw [← h.2]; exact Quiet.refl st
    split at h
    · split at h
      · simp at h; rw [← h.2]; exact Quiet.refl st
      · simp at h
    · split at h
      · simp at h
      · split at h
        · simp at h; rw [← h.2]; exact ⟨rfl, _, rfl, by simp [NoPersist]⟩
        · simp at h

theorem quiet_getNodeT (st : St) (ref : Item) : Quiet st (getNodeT H st ref).1 := by
  unfold getNodeT
  cases hg : getNodeR H st ref with
  | error e => exact Quiet.refl st
  | ok r => obtain ⟨it, st'⟩ := r; exact quiet_getNodeR H st ref it st' hg

theorem item_beq_blank (x : Item) (h : (x == Item.str []) = true) : x = .str [] := by
  cases x with
  | str b => cases b <;> simp_all [BEq.beq, Item.beq]
  | list l => simp [BEq.beq, Item.beq] at h

theorem nodeToDb_nonblank (node : Item) (hn : node ≠ .str []) :
    nodeToDb H node = if (rlp node).length < 32 then (node, none) else (.str (H (rlp node)), some (rlp node)) := by
  unfold nodeToDb
  split
  · exact absurd rfl hn
  · rfl

/-- a `_persist_node` that returns the blank reference stored nothing (and was handed the blank node) -/
theorem persist_blank_ref (hlen : ∀ b, (H b).length = 32) (st : St) (node : Item)
    (h : ((persistNodeR H st node).1 == Item.str []) = true) :
    node = .str [] ∧ (persistNodeR H st node).2 = st := by
  have h' := item_beq_blank _ h
  by_cases hn : node = .str []
  · subst hn; simp [persistNodeR, nodeToDb]
  · exfalso
    unfold persistNodeR at h'
    rw [nodeToDb_nonblank H node hn] at h'
    by_cases hl : (rlp node).length < 32
    · simp only [hl, ↓reduceIte] at h'
      exact hn h'
    · simp only [hl, ↓reduceIte] at h'
      have := hlen (rlp node)
      simp at h'
      rw [h'] at this
      simp at this

theorem set_atomic_both (h : Hash) (fuel : Nat) :
    (∀ (st : St) (node : Item) (key : Path) (value : Bytes),
      (rawSetT H fuel st node key value).2 = .error (.missing h) → Quiet st (rawSetT H fuel st node key value).1) ∧
    (∀ (st : St) (node : Item) (p : Path) (x : Item) (isExt : Bool) (key : Path) (value : Bytes),
      (rawSetKvT H fuel st node p x isExt key value).2 = .error (.missing h) →
      Quiet st (rawSetKvT H fuel st node p x isExt key value).1) := by
  induction fuel with
  | zero => constructor <;> intros <;> simp_all [rawSetT, rawSetKvT]
  | succ fuel ih =>
    obtain ⟨ih1, ih2⟩ := ih
    constructor
    · intro st node key value he
      simp only [rawSetT] at he ⊢
      have hp := quiet_prune H st node
      cases hcl : classify node with
      | blank => simp [hcl] at he
      | invalid => simp [hcl] at he
      | leaf p x => simp only [hcl] at he ⊢; exact hp.trans (ih2 _ _ _ _ _ _ _ he)
      | ext p x => simp only [hcl] at he ⊢; exact hp.trans (ih2 _ _ _ _ _ _ _ he)
      | branch l =>
        simp only [hcl] at he ⊢
        cases key with
        | nil => simp at he
        | cons a rest =>
          simp only [] at he ⊢
          generalize l.getD a.val (.str []) = ref at he ⊢
          generalize pruneNodeR H st node = st' at hp he ⊢
          have hq := quiet_getNodeT H st' ref
          generalize getNodeT H st' ref = g at hq he ⊢
          obtain ⟨st1, g⟩ := g
          cases g with
          | error e => exact hp.trans hq
          | ok sub =>
            simp only [] at he hq ⊢
            have hr := ih1 st1 sub rest value
            generalize rawSetT H fuel st1 sub rest value = r at hr he ⊢
            obtain ⟨st2, r⟩ := r
            cases r with
            | error e => simp only [] at he ⊢; exact (hp.trans hq).trans (hr (by simpa using he))
            | ok a => simp at he
    · intro st node p x isExt key value he
      simp only [rawSetKvT] at he ⊢
      generalize p.drop (cpl p key) = ckr at he ⊢
      generalize key.drop (cpl p key) = tkr at he ⊢
      generalize p.take (cpl p key) = common at he ⊢
      cases ckr with
      | nil =>
        cases tkr with
        | nil =>
          cases isExt with
          | false =>
            simp only [Bool.not_false, ↓reduceIte] at he
            split at he <;> simp at he
          | true =>
            simp only [Bool.not_true, Bool.false_eq_true, ↓reduceIte] at he ⊢
            have hq := quiet_getNodeT H st x
            generalize getNodeT H st x = g at hq he ⊢
            obtain ⟨st1, g⟩ := g
            cases g with
            | error e => exact hq
            | ok sub =>
              simp only [] at he hq ⊢
              have hr := ih1 st1 sub [] value
              generalize rawSetT H fuel st1 sub [] value = r at hr he ⊢
              obtain ⟨st2, r⟩ := r
              cases r with
              | error e => simp only [] at he ⊢; exact hq.trans (hr (by simpa using he))
              | ok a =>
                simp only [] at he
                split at he <;> simp at he
        | cons t0 trest =>
          cases isExt with
          | false =>
            simp only [Bool.false_eq_true, ↓reduceIte] at he
            split at he <;> simp at he
          | true =>
            simp only [↓reduceIte] at he ⊢
            have hq := quiet_getNodeT H st x
            generalize getNodeT H st x = g at hq he ⊢
            obtain ⟨st1, g⟩ := g
            cases g with
            | error e => exact hq
            | ok sub =>
              simp only [] at he hq ⊢
              have hr := ih1 st1 sub (t0 :: trest) value
              generalize rawSetT H fuel st1 sub (t0 :: trest) value = r at hr he ⊢
              obtain ⟨st2, r⟩ := r
              cases r with
              | error e => simp only [] at he ⊢; exact hq.trans (hr (by simpa using he))
              | ok a =>
                simp only [] at he
                split at he <;> simp at he
      | cons c0 crest =>
        simp only [] at he
        cases tkr with
        | nil => simp only [] at he; split at he <;> simp at he
        | cons t0 trest => simp only [] at he; split at he <;> simp at he

/-- `_normalize_branch_node` never returns the blank node, and when it stops at a missing node the state is untouched -/
theorem normalizeT_quiet (st : St) (l : List Item) (h : Hash)
    (he : (rawNormalizeT H st l).2 = .error (.missing h) ∨ (rawNormalizeT H st l).2 = .ok (.str [])) :
    (rawNormalizeT H st l).1 = st := by
  simp only [rawNormalizeT] at he ⊢
  generalize (List.range 16).find? _ = o at he ⊢
  split
  · rfl
  split
  · rfl
  cases o with
  | none => rfl
  | some idx =>
    simp only [] at he ⊢
    rename_i h1 h2
    simp only [h1, h2, Bool.false_eq_true, ↓reduceIte] at he
    generalize l.getD idx (.str []) = ref at he ⊢
    cases hg : getNodeR H st ref with
    | error e => simp [getNodeT_error H _ _ _ hg]
    | ok r =>
      obtain ⟨sub, st1⟩ := r
      simp only [getNodeT_ok H _ _ _ _ hg] at he ⊢
      generalize classify sub = c at he ⊢
      cases c <;> simp at he

theorem classify_ne_blank (node : Item) (hne : classify node ≠ .blank) : node ≠ .str [] := by
  intro h; subst h; simp [classify] at hne

theorem delete_atomic_gen (hlen : ∀ b, (H b).length = 32) (h : Hash) (fuel : Nat) :
    ∀ (st : St) (node : Item) (key : Path),
      ((rawDeleteT H fuel st node key).2 = .error (.missing h) ∨ (rawDeleteT H fuel st node key).2 = .ok (.str [])) →
      Quiet st (rawDeleteT H fuel st node key).1 := by
  induction fuel with
  | zero => intro st node key he; simp [rawDeleteT] at he
  | succ fuel ih =>
    intro st node key he
    simp only [rawDeleteT] at he ⊢
    have hp := quiet_prune H st node
    cases hcl : classify node with
    | blank => simpa [hcl] using hp
    | invalid => simp [hcl] at he
    | leaf p x =>
      simp only [hcl] at he ⊢
      split
      · exact hp
      split <;> exact hp
    | ext p x =>
      have hne : node ≠ .str [] := classify_ne_blank node (by simp [hcl])
      simp only [hcl] at he ⊢
      split at he
      · simp [hne] at he
      rename_i hpk
      simp only [hpk, Bool.false_eq_true, ↓reduceIte]
      generalize pruneNodeR H st node = st' at hp he ⊢
      have hq := quiet_getNodeT H st' x
      generalize getNodeT H st' x = g at hq he ⊢
      obtain ⟨st1, g⟩ := g
      cases g with
      | error e => exact hp.trans hq
      | ok sub =>
        simp only [] at he hq ⊢
        have hr := ih st1 sub (key.drop p.length)
        generalize rawDeleteT H fuel st1 sub (key.drop p.length) = r at hr he ⊢
        obtain ⟨st2, r⟩ := r
        cases r with
        | error e => simp only [] at he ⊢; exact (hp.trans hq).trans (hr (by simpa using he))
        | ok newSub =>
          simp only [] at he ⊢
          have hr' := hr
          generalize hps : persistNodeR H st2 newSub = ps at he ⊢
          obtain ⟨enc, st3⟩ := ps
          simp only [] at he ⊢
          by_cases h1 : (enc == x) = true
          · simp [h1, hne] at he
          · by_cases h2 : (newSub == Item.str []) = true
            · have := item_beq_blank _ h2
              subst this
              have h3 : st3 = st2 := by simp [persistNodeR, nodeToDb] at hps; exact hps.2.symm
              subst h3
              simp only [h1, h2, Bool.false_eq_true, ↓reduceIte]
              exact (hp.trans hq).trans (hr (.inr rfl))
            · simp only [h1, h2, Bool.false_eq_true, ↓reduceIte] at he
              generalize classify newSub = c at he
              cases c <;> simp at he
    | branch l =>
      have hne : node ≠ .str [] := classify_ne_blank node (by simp [hcl])
      simp only [hcl] at he ⊢
      cases key with
      | nil =>
        simp only [] at he ⊢
        rw [normalizeT_quiet H _ _ h he]
        exact hp
      | cons a rest =>
        simp only [] at he ⊢
        generalize l.getD a.val (.str []) = ref at he ⊢
        generalize pruneNodeR H st node = st' at hp he ⊢
        have hq := quiet_getNodeT H st' ref
        generalize getNodeT H st' ref = g at hq he ⊢
        obtain ⟨st1, g⟩ := g
        cases g with
        | error e => exact hp.trans hq
        | ok sub =>
          simp only [] at he hq ⊢
          have hr := ih st1 sub rest
          generalize rawDeleteT H fuel st1 sub rest = r at hr he ⊢
          obtain ⟨st2, r⟩ := r
          cases r with
          | error e => simp only [] at he ⊢; exact (hp.trans hq).trans (hr (by simpa using he))
          | ok newSub =>
            simp only [] at he ⊢
            have hpb := persist_blank_ref H hlen st2 newSub
            generalize hps : persistNodeR H st2 newSub = ps at he hpb ⊢
            obtain ⟨enc, st3⟩ := ps
            simp only [] at he hpb ⊢
            by_cases h1 : (enc == ref) = true
            · simp [h1, hne] at he
            · by_cases h2 : (enc == Item.str []) = true
              · obtain ⟨e1, e2⟩ := hpb h2
                subst e1 e2
                simp only [h1, h2, Bool.false_eq_true, ↓reduceIte] at he ⊢
                rw [normalizeT_quiet H _ _ h he]
                exact (hp.trans hq).trans (hr (.inr rfl))
              · simp [h1, h2] at he

/-- a failing `_set` wrote nothing -/
theorem rawSetT_atomic (hlen : ∀ b, (H b).length = 32) (t : Node) (hc : Canon t) (k : Path) (v : Bytes)
    (st : St) (hst : PartialD H st.db t) (fuel : Nat) (hf : 2 * k.length + 2 ≤ fuel) (h : Hash)
    (he : (rawSetT H fuel st (toItem H t) k v).2 = .error (.missing h)) :
    (rawSetT H fuel st (toItem H t) k v).1.db = st.db ∧
    ∃ evs', (rawSetT H fuel st (toItem H t) k v).1.evs = st.evs ++ evs' ∧ NoPersist evs' :=
  (set_atomic_both H h fuel).1 st (toItem H t) k v he

/-- a failing `_delete` wrote nothing -/
theorem rawDeleteT_atomic (hlen : ∀ b, (H b).length = 32) (t : Node) (hc : Canon t) (k : Path)
    (st : St) (hst : PartialD H st.db t) (fuel : Nat) (hf : 2 * k.length + 2 ≤ fuel) (h : Hash)
    (he : (rawDeleteT H fuel st (toItem H t) k).2 = .error (.missing h)) :
    (rawDeleteT H fuel st (toItem H t) k).1.db = st.db ∧
    ∃ evs', (rawDeleteT H fuel st (toItem H t) k).1.evs = st.evs ++ evs' ∧ NoPersist evs' :=
  delete_atomic_gen H hlen h fuel st (toItem H t) k (.inl he)

/-- `set` / `delete` end to end on arbitrary input: a call that stops at a missing node leaves the database as it was -/
theorem rawOpT_atomic_gen (hlen : ∀ b, (H b).length = 32) (db : Db) (root : Hash) (key : Bytes) (value : Option Bytes)
    (h : Hash) (he : (rawOpT H db root key value).2 = .error (.missing h)) :
    (rawOpT H db root key value).1.db = db := by
  simp only [rawOpT] at he ⊢
  have hq := quiet_getNodeT H { db := db, evs := [] } (.str root)
  generalize getNodeT H { db := db, evs := [] } (.str root) = g at hq he ⊢
  obtain ⟨st1, g⟩ := g
  cases g with
  | error e => exact hq.1
  | ok rootNode =>
    simp only [] at he hq ⊢
    have hr : ∀ r : St × Except Err Item, (r.2 = .error (.missing h) → Quiet st1 r.1) →
        (match r with
          | (st2, .error e) => (st2, .error e)
          | (st2, .ok newRoot) => ((setRawRoot H st2 newRoot).2, .ok (setRawRoot H st2 newRoot).1) :
            St × Except Err Hash).2 = .error (.missing h) →
        (match r with
          | (st2, .error e) => (st2, .error e)
          | (st2, .ok newRoot) => ((setRawRoot H st2 newRoot).2, .ok (setRawRoot H st2 newRoot).1) :
            St × Except Err Hash).1.db = db := by
      intro r hr he
      obtain ⟨st2, r⟩ := r
      cases r with
      | error e => exact (hq.trans (hr (by simpa using he))).1
      | ok a => simp at he
    refine hr _ ?_ he
    cases value with
    | none => exact fun he => delete_atomic_gen H hlen h _ st1 rootNode _ (.inl he)
    | some v =>
      simp only []
      split
      · exact fun he => delete_atomic_gen H hlen h _ st1 rootNode _ (.inl he)
      · exact (set_atomic_both H h _).1 st1 rootNode _ v

/-- **`set` / `delete` end to end: a call that stops at a missing node leaves the database exactly as it was** -/
theorem rawOpT_atomic (hlen : ∀ b, (H b).length = 32) (db : Db) (root : Hash) (t : Node) (hc : Canon t)
    (hroot : RootPartial H db root t) (hst : PartialD H db t) (key : Bytes) (value : Option Bytes) (h : Hash)
    (he : (rawOpT H db root key value).2 = .error (.missing h)) :
    (rawOpT H db root key value).1.db = db :=
  rawOpT_atomic_gen H hlen db root key value h he

end PyTrie.HexRawT
