import PyTrie.Lemmas.BinRawMain
/-! The refinement induction over the tree. -/
namespace PyTrie.BinRaw
open PyTrie.Bin PyTrie.Bin.BNode

variable (H : Bytes → Bytes)

/-- hypotheses of the refinement for one call, in unfolded form -/
structure Hyp (st : St) (t : BNode) (saves : List BNode) : Prop where
  stored : ∀ n, Sub n t → hashNode H n ≠ H [] ∧ lookup st.db (hashNode H n) = some (encNode H n)
  nb : ∀ s ∈ saves, hashNode H s ≠ H []
  old : ∀ s ∈ saves, ∀ n, Sub n t → hashNode H s = hashNode H n → encNode H s = encNode H n
  new : ∀ s ∈ saves, ∀ s' ∈ saves, hashNode H s = hashNode H s' → encNode H s = encNode H s'

theorem Hyp.mono {st : St} {t c : BNode} {saves s : List BNode} (h : Hyp H st t saves)
    (hsub : ∀ n, Sub n c → Sub n t) (hs : ∀ x ∈ s, x ∈ saves) : Hyp H st c s :=
  ⟨fun n hn => h.stored n (hsub n hn), fun a ha => h.nb a (hs a ha),
    fun a ha n hn => h.old a (hs a ha) n (hsub n hn), fun a ha b hb => h.new a (hs a ha) b (hs b hb)⟩

/-- the result root of a call is not blank and loads as itself after the call's saves -/
theorem result_loadable (hlen : ∀ b, (H b).length = 32) (st : St) (t : BNode) (hc : BCanon t)
    (k : Bits) (v : Bytes) (sub : Bool) (hyp : Hyp H st t (bsetS t k v sub).2) (x : BNode)
    (hx : (bsetS t k v sub).1 = .ok (some x)) :
    hashNode H x ≠ H [] ∧ load (after H st (bsetS t k v sub).2) (hashNode H x) = .ok (parsedOf H x) := by
  have hcx : BCanon x := bcanon_bset t k v sub hc x (by rw [← bsetS_fst]; exact hx)
  have hmem : x ∈ (bsetS t k v sub).2 ∨ Sub x t := by
    rcases bsetS_root t k v sub x hx with h | h
    · exact .inl h
    · subst h; exact .inr (Sub.refl _)
  refine ⟨?_, loadable_after H hlen st t _ x hcx hyp.stored hyp.old hyp.new hmem⟩
  rcases hmem with h | h
  · exact hyp.nb x h
  · exact (hyp.stored x h).1

theorem rawSet_leaf_case (hlen : ∀ b, (H b).length = 32) (w : Bytes) (hc : BCanon (leaf w)) (k : Bits) (v : Bytes)
    (sub : Bool) (st : St) (hyp : Hyp H st (leaf w) (bsetS (leaf w) k v sub).2) (fuel : Nat) :
    rawSet H (H []) (fuel + 1) st (hashNode H (leaf w)) k v sub = expected H st (bsetS (leaf w) k v sub) := by
  obtain ⟨hne, hlk⟩ := hyp.stored _ (Sub.refl _)
  have hload := load_stored H hlen st _ hc hlk
  rw [rawSet_leaf H _ fuel st _ k v sub w hne hload, bsetS_leaf]
  by_cases h1 : k ≠ []
  · rw [if_pos h1, if_pos h1]; rfl
  · rw [if_neg h1, if_neg h1]
    by_cases h2 : sub = true
    · rw [if_pos h2, if_pos h2]; rfl
    · rw [if_neg h2, if_neg h2]
      by_cases h3 : v ≠ []
      · rw [if_pos h3, if_pos h3, saveLeaf_enc H st v h3]; rfl
      · rw [if_neg h3, if_neg h3]; rfl

theorem rawSet_kv_case (hlen : ∀ b, (H b).length = 32) (p : Bits) (c : BNode) (hc : BCanon (kv p c)) (k : Bits)
    (v : Bytes) (sub : Bool) (st : St) (hyp : Hyp H st (kv p c) (bsetS (kv p c) k v sub).2) (fuel : Nat)
    (ih : k ≠ [] → p <+: k → Hyp H st c (bsetS c (k.drop p.length) v sub).2 →
      rawSet H (H []) fuel st (hashNode H c) (k.drop p.length) v sub =
        expected H st (bsetS c (k.drop p.length) v sub)) :
    rawSet H (H []) (fuel + 1) st (hashNode H (kv p c)) k v sub = expected H st (bsetS (kv p c) k v sub) := by
  obtain ⟨hne, hlk⟩ := hyp.stored _ (Sub.refl _)
  have hload := load_stored H hlen st _ hc hlk
  rw [rawSet_kv H _ fuel st _ k v sub p (hashNode H c) hne hload]
  rw [bsetS_kv] at hyp ⊢
  by_cases h1 : k = []
  · rw [if_pos h1, if_pos h1]
    cases sub <;> rfl
  · rw [if_neg h1, if_neg h1] at *
    by_cases h2 : sub = true ∧ k.length < p.length ∧ k <+: p
    · have h2' : (sub && decide (k.length < p.length) && decide (k <+: p)) = true := by
        simp [h2.1, h2.2.1, h2.2.2]
      rw [if_pos h2, if_pos h2']; rfl
    · have h2' : ¬ (sub && decide (k.length < p.length) && decide (k <+: p)) = true := by
        intro h; apply h2
        simpa [Bool.and_eq_true, and_assoc] using h
      rw [if_neg h2']
      rw [if_neg h2] at hyp ⊢
      by_cases h3 : p <+: k
      · rw [if_pos h3] at hyp ⊢
        rw [if_pos h3]
        have hyp' : Hyp H st c (bsetS c (k.drop p.length) v sub).2 :=
          hyp.mono H (fun n hn => Sub.kv p hn) (fun x hx => kvRes_mem p _ x hx)
        rw [ih h1 h3 hyp']
        have hl := result_loadable H hlen st c hc.2.2 (k.drop p.length) v sub hyp'
        revert hl
        generalize bsetS c (k.drop p.length) v sub = q
        obtain ⟨res, s⟩ := q
        intro hl
        exact kvCont_expected H hlen st p hc.1 res s hl
      · rw [if_neg h3] at hyp ⊢
        rw [if_neg h3]
        by_cases h4 : v = [] ∨ sub = true
        · have h4' : (v = [] || sub) = true := by
            rcases h4 with h | h
            · simp [h]
            · simp [h]
          rw [if_pos h4, if_pos h4']; rfl
        · have h4' : ¬ (v = [] || sub) = true := by
            intro h; apply h4
            simpa using h
          rw [if_neg h4, if_neg h4']
          exact splitBody_expected H hlen st p c k v (fun e => h4 (.inl e)) hc.1 h3

theorem rawSet_branch_case (hlen : ∀ b, (H b).length = 32) (l r : BNode) (hc : BCanon (branch l r)) (k : Bits)
    (v : Bytes) (sub : Bool) (st : St) (hyp : Hyp H st (branch l r) (bsetS (branch l r) k v sub).2) (fuel : Nat)
    (ihl : ∀ k', k = false :: k' → Hyp H st l (bsetS l k' v sub).2 →
      rawSet H (H []) fuel st (hashNode H l) k' v sub = expected H st (bsetS l k' v sub))
    (ihr : ∀ k', k = true :: k' → Hyp H st r (bsetS r k' v sub).2 →
      rawSet H (H []) fuel st (hashNode H r) k' v sub = expected H st (bsetS r k' v sub)) :
    rawSet H (H []) (fuel + 1) st (hashNode H (branch l r)) k v sub = expected H st (bsetS (branch l r) k v sub) := by
  obtain ⟨hne, hlk⟩ := hyp.stored _ (Sub.refl _)
  have hload := load_stored H hlen st _ hc hlk
  cases k with
  | nil =>
    rw [rawSet_branch_nil H _ fuel st _ v sub _ _ hne hload, bsetS_branch_nil]
    cases sub <;> rfl
  | cons b k' =>
    rw [rawSet_branch_cons H _ fuel st _ b k' v sub _ _ hne hload]
    rw [bsetS_branch_cons] at hyp ⊢
    have hsl : ∀ n, Sub n l → Sub n (branch l r) := fun n hn => Sub.left r hn
    have hsr : ∀ n, Sub n r → Sub n (branch l r) := fun n hn => Sub.right l hn
    have hnl := (hyp.stored l (hsl l (Sub.refl _))).1
    have hnr := (hyp.stored r (hsr r (Sub.refl _))).1
    cases b
    · simp only [if_true] at hyp ⊢
      have hyp' : Hyp H st l (bsetS l k' v sub).2 := hyp.mono H hsl (fun x hx => brRes_mem false l r _ x hx)
      rw [ihl k' rfl hyp']
      have hl := result_loadable H hlen st l hc.1 k' v sub hyp'
      have hll := loadable_after H hlen st (branch l r) (bsetS l k' v sub).2 l hc.1 hyp.stored
        (fun a ha => hyp.old a (brRes_mem false l r _ a ha))
        (fun a ha b hb => hyp.new a (brRes_mem false l r _ a ha) b (brRes_mem false l r _ b hb))
        (.inr (hsl l (Sub.refl _)))
      have hlr := loadable_after H hlen st (branch l r) (bsetS l k' v sub).2 r hc.2 hyp.stored
        (fun a ha => hyp.old a (brRes_mem false l r _ a ha))
        (fun a ha b hb => hyp.new a (brRes_mem false l r _ a ha) b (brRes_mem false l r _ b hb))
        (.inr (hsr r (Sub.refl _)))
      revert hl hll hlr
      generalize bsetS l k' v sub = q
      obtain ⟨res, s⟩ := q
      intro hl hll hlr
      exact brCont_expected H hlen st false l r res s hnl hnr hll hlr (fun x hx => (hl x hx).1)
    · simp only [Bool.true_eq_false, if_false] at hyp ⊢
      have hyp' : Hyp H st r (bsetS r k' v sub).2 := hyp.mono H hsr (fun x hx => brRes_mem true l r _ x hx)
      rw [ihr k' rfl hyp']
      have hl := result_loadable H hlen st r hc.2 k' v sub hyp'
      have hll := loadable_after H hlen st (branch l r) (bsetS r k' v sub).2 l hc.1 hyp.stored
        (fun a ha => hyp.old a (brRes_mem true l r _ a ha))
        (fun a ha b hb => hyp.new a (brRes_mem true l r _ a ha) b (brRes_mem true l r _ b hb))
        (.inr (hsl l (Sub.refl _)))
      have hlr := loadable_after H hlen st (branch l r) (bsetS r k' v sub).2 r hc.2 hyp.stored
        (fun a ha => hyp.old a (brRes_mem true l r _ a ha))
        (fun a ha b hb => hyp.new a (brRes_mem true l r _ a ha) b (brRes_mem true l r _ b hb))
        (.inr (hsr r (Sub.refl _)))
      revert hl hll hlr
      generalize bsetS r k' v sub = q
      obtain ⟨res, s⟩ := q
      intro hl hll hlr
      exact brCont_expected H hlen st true l r res s hnl hnr hll hlr (fun x hx => (hl x hx).1)

theorem rawSet_main (hlen : ∀ b, (H b).length = 32) (t : BNode) (hc : BCanon t) (k : Bits) (v : Bytes) (sub : Bool)
    (st : St) (hyp : Hyp H st t (bsetS t k v sub).2) (fuel : Nat) (hf : k.length + 1 < fuel) :
    rawSet H (H []) fuel st (hashNode H t) k v sub = expected H st (bsetS t k v sub) := by
  induction t generalizing k fuel with
  | leaf w =>
    cases fuel with
    | zero => omega
    | succ f => exact rawSet_leaf_case H hlen w hc k v sub st hyp f
  | kv p c ih =>
    cases fuel with
    | zero => omega
    | succ f =>
      refine rawSet_kv_case H hlen p c hc k v sub st hyp f (fun hk hpre hyp' => ih hc.2.2 _ hyp' f ?_)
      have h1 := hpre.length_le
      have h2 : 0 < p.length := List.length_pos_iff.2 hc.1
      simp only [List.length_drop]
      omega
  | branch l r ihl ihr =>
    cases fuel with
    | zero => omega
    | succ f =>
      refine rawSet_branch_case H hlen l r hc k v sub st hyp f
        (fun k' hk hyp' => ihl hc.1 _ hyp' f ?_) (fun k' hk hyp' => ihr hc.2 _ hyp' f ?_)
      · subst hk; simp only [List.length_cons] at hf; omega
      · subst hk; simp only [List.length_cons] at hf; omega

end PyTrie.BinRaw
