import PyTrie.Lemmas.StoreView
/-! The `ScratchDB` cache keeps unique keys (`Store.CacheNoDup`) through **every** exit of `set` / `delete`
    (normal, missing node, failing write, failing prune): the cache is only ever changed by `Dict.insert`.
    Hence the hypothesis `NoDupKeys b.cache` of `Lemmas/FreeView.lean` (`sim_setDel`) holds along any run that
    opens its blocks with `batchBegin`. -/
namespace PyTrie.HexW
open PyTrie.Hex hiding get set

variable (Hs : Hashing) (blankRootHash : Hash)

theorem Store.write_cacheNoDup (s s' : Store) (h : Hash) (b : Bytes) (hnd : s.CacheNoDup)
    (hw : s.write h b = some s') : s'.CacheNoDup := by
  obtain ⟨base, cache, fa⟩ := s
  cases cache with
  | some c =>
    simp only [Store.write, Option.some.injEq] at hw
    subst hw
    intro c' hc'
    simp only [Option.some.injEq] at hc'
    subst hc'
    exact NoDupKeys.insert (hnd c rfl) _ _
  | none =>
    apply Store.cacheNoDup_plain
    simp only [Store.write] at hw
    split at hw
    · cases hw
    · simp only [Option.some.injEq] at hw; subst hw; rfl
    · simp only [Option.some.injEq] at hw; subst hw; rfl

theorem Store.del_cacheNoDup (s s' : Store) (h : Hash) (hnd : s.CacheNoDup)
    (hd : s.del h = some s') : s'.CacheNoDup := by
  obtain ⟨base, cache, fa⟩ := s
  cases cache with
  | some c =>
    simp only [Store.del, Option.some.injEq] at hd
    subst hd
    intro c' hc'
    simp only [Option.some.injEq] at hc'
    subst hc'
    exact NoDupKeys.insert (hnd c rfl) _ _
  | none =>
    apply Store.cacheNoDup_plain
    simp only [Store.del] at hd
    split at hd
    · simp only [Option.some.injEq] at hd; subst hd; rfl
    · cases hd

theorem setDbValue_cacheNoDup (prune : Bool) (s s' : OpSt) (h : Hash) (b : Bytes) (hnd : s.store.CacheNoDup)
    (hw : setDbValue prune s h b = .ok s') : s'.store.CacheNoDup := by
  unfold setDbValue at hw
  split at hw
  · cases hw
  · next st hst =>
    injection hw with hw
    subst hw
    exact Store.write_cacheNoDup _ _ _ _ hnd hst

theorem runEv_cacheNoDup (prune : Bool) (root key : Bytes) (s s' : OpSt) (e : Ev) (hnd : s.store.CacheNoDup)
    (hr : runEv prune root key s e = .ok s') : s'.store.CacheNoDup := by
  cases e with
  | read h =>
    simp only [runEv] at hr
    split at hr
    · injection hr with hr; subst hr; exact hnd
    · cases hr
  | persist h b => exact setDbValue_cacheNoDup prune s s' h b hnd hr
  | prune h =>
    simp only [runEv] at hr
    injection hr with hr
    subst hr
    split <;> exact hnd

theorem runEvs_cacheNoDup (prune : Bool) (root key : Bytes) (evs : List Ev) :
    ∀ (s : OpSt), s.store.CacheNoDup → (runEvs prune root key s evs).1.store.CacheNoDup := by
  induction evs with
  | nil => intro s hnd; exact hnd
  | cons e es ih =>
    intro s hnd
    simp only [runEvs]
    split
    · next s' hs' => exact ih s' (runEv_cacheNoDup prune root key s s' e hnd hs')
    · exact hnd

theorem pruneStep_cacheNoDup (s s' : OpSt) (kn : Hash × Nat) (hnd : s.store.CacheNoDup)
    (hp : pruneStep s kn = .ok s') : s'.store.CacheNoDup := by
  unfold pruneStep at hp
  simp only [] at hp
  split at hp
  · split at hp
    · cases hp
    · next st hst =>
      injection hp with hp
      subst hp
      exact Store.del_cacheNoDup _ _ _ hnd hst
  · injection hp with hp; subst hp; exact hnd

theorem completePruning_cacheNoDup (l : List (Hash × Nat)) :
    ∀ (s : OpSt), s.store.CacheNoDup → (completePruning s l).1.store.CacheNoDup := by
  induction l with
  | nil => intro s hnd; exact hnd
  | cons kn rest ih =>
    intro s hnd
    simp only [completePruning]
    split
    · next s' hs' => exact ih s' (pruneStep_cacheNoDup s s' kn hnd hs')
    · exact hnd

theorem schedOldRoot_store (T : TrieSt) (s : OpSt) : (schedOldRoot Hs blankRootHash T s).store = s.store := by
  unfold schedOldRoot
  split <;> rfl

theorem writeRoot_cacheNoDup (T : TrieSt) (new : Node) (s s' : OpSt) (r : Hash) (hnd : s.store.CacheNoDup)
    (hw : writeRoot Hs blankRootHash T new s = .ok (s', r)) : s'.store.CacheNoDup := by
  unfold writeRoot at hw
  split at hw
  · injection hw with hw
    injection hw with h1 _
    subst h1; exact hnd
  · split at hw
    · next s'' hs'' =>
      injection hw with hw
      injection hw with h1 _
      subst h1
      exact setDbValue_cacheNoDup _ _ _ _ _ hnd hs''
    · cases hw

theorem finishPrune_cacheNoDup (T : TrieSt) (s : OpSt) (hnd : s.store.CacheNoDup) :
    (finishPrune T s).1.store.CacheNoDup := by
  unfold finishPrune
  split
  · exact completePruning_cacheNoDup _ s hnd
  · exact hnd

/-- every exit of the body of `set` / `delete` leaves a cache with unique keys -/
theorem opCore_cacheNoDup (T : TrieSt) (key : Bytes) (val : Option Bytes) (s : OpSt) (hnd : s.store.CacheNoDup) :
    (opCore Hs blankRootHash T key val s).1.store.CacheNoDup := by
  unfold opCore
  split
  · exact hnd
  · have h1 := runEvs_cacheNoDup T.prune T.root key (opTree Hs T key val).2 s hnd
    rcases hre : runEvs T.prune T.root key s (opTree Hs T key val).2 with ⟨s1, _ | x⟩
    · rw [hre] at h1
      simp only []
      have h2 : (schedOldRoot Hs blankRootHash T s1).store.CacheNoDup := by
        rw [schedOldRoot_store]; exact h1
      rcases hw : writeRoot Hs blankRootHash T (opTree Hs T key val).1 (schedOldRoot Hs blankRootHash T s1)
        with x | ⟨s3, nr⟩
      · simp only []; exact h2
      · simp only []
        have h3 := writeRoot_cacheNoDup Hs blankRootHash T _ _ s3 nr h2 hw
        have h4 := finishPrune_cacheNoDup T s3 h3
        rcases hf : finishPrune T s3 with ⟨s4, _ | x⟩
        · rw [hf] at h4; exact h4
        · rw [hf] at h4; exact h4
    · rw [hre] at h1; exact h1

theorem opSetDel_cacheNoDup (T : TrieSt) (key : Bytes) (val : Option Bytes) (s : OpSt) (hnd : s.store.CacheNoDup) :
    (opSetDel Hs blankRootHash T key val s).1.store.CacheNoDup := by
  unfold opSetDel
  exact opCore_cacheNoDup Hs blankRootHash T key val { s with pending := [] } hnd

/-- the open block's `ScratchDB` cache (if a block is open) has unique keys -/
def World.BatchNoDup (w : World) : Prop := ∀ b, w.batch = some b → NoDupKeys b.cache

theorem World.batchNoDup_noteRoot (w : World) (T : TrieSt) (h : w.BatchNoDup) : (w.noteRoot T).BatchNoDup := by
  unfold World.noteRoot
  split
  · exact h
  · exact h

theorem World.batchNoDup_batchBegin (w : World) (i : Nat) : (w.batchBegin i).BatchNoDup := by
  intro b hb
  simp only [World.batchBegin, Option.some.injEq] at hb
  subst hb
  exact NoDupKeys.nil

theorem World.batchNoDup_batchEnd (w : World) (raised : Bool) (h : w.BatchNoDup) : (w.batchEnd raised).2.BatchNoDup := by
  unfold World.batchEnd
  split
  · exact h
  · split
    · intro b hb; cases hb
    · simp only []
      split <;> (intro b hb; cases hb)

theorem World.batchNoDup_setDel (w : World) (tg : Target) (key : Bytes) (val : Option Bytes) (h : w.BatchNoDup) :
    (w.setDel Hs blankRootHash tg key val).2.BatchNoDup := by
  unfold World.setDel
  cases tg with
  | trie i =>
    simp only []
    rcases hr : opSetDel Hs blankRootHash w.tries[i]! key val (w.opSt i) with ⟨s', e | T'⟩
    · exact h
    · exact World.batchNoDup_noteRoot _ _ h
  | batch =>
    simp only []
    cases hwb : w.batch with
    | none => simp only []; exact h
    | some b =>
      simp only []
      have hnd : (w.batchOpSt b).store.CacheNoDup := by
        intro c hc
        simp only [World.batchOpSt, Option.some.injEq] at hc
        exact hc ▸ h b hwb
      have h1 := opSetDel_cacheNoDup Hs blankRootHash b.trie key val (w.batchOpSt b) hnd
      have hget : ∀ (st : Store), st.CacheNoDup → NoDupKeys (st.cache.getD []) := by
        intro st hst
        cases hc : st.cache with
        | none => exact NoDupKeys.nil
        | some c => exact hst c hc
      rcases hr : opSetDel Hs blankRootHash b.trie key val (w.batchOpSt b) with ⟨s', e | T'⟩
      · rw [hr] at h1
        intro b' hb'
        simp only [Option.some.injEq] at hb'
        subst hb'
        exact hget _ h1
      · rw [hr] at h1
        apply World.batchNoDup_noteRoot
        intro b' hb'
        simp only [Option.some.injEq] at hb'
        subst hb'
        exact hget _ h1

end PyTrie.HexW
