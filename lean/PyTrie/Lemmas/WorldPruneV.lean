import PyTrie.Lemmas.WorldPrune
import PyTrie.Lemmas.PruneRunV
/-! The steps of `opCore` on a pruning trie over an arbitrary store (plain dict or ScratchDB), stated over
    `Store.view` — the generalisation of `schedOldRoot_spec` / `writeRoot_spec` of `WorldPrune.lean`. -/
namespace PyTrie.HexW
open PyTrie.Hex hiding get set
open PyTrie.Hex.Node

variable (Hs : Hashing) (blankRootHash : Hash)

theorem schedOldRoot_specV (T : TrieSt) (s : OpSt) (hp : T.prune = true)
    (hroot : if isBlank T.tree then T.root = blankRootHash else T.root = Hs.hashOf T.tree ∧ T.root ≠ blankRootHash)
    (hcont : isBlank T.tree = false → s.store.view T.root = true)
    (hnd : NoDupKeys s.pending) (hpos : PosVals s.pending) :
    (schedOldRoot Hs blankRootHash T s).store = s.store ∧ (schedOldRoot Hs blankRootHash T s).counts = s.counts ∧
    NoDupKeys (schedOldRoot Hs blankRootHash T s).pending ∧ PosVals (schedOldRoot Hs blankRootHash T s).pending ∧
    ∀ h, (schedOldRoot Hs blankRootHash T s).pending.val h = s.pending.val h +
      (if isBlank T.tree = false ∧ Hs.hashed T.tree = false ∧ Hs.hashOf T.tree = h then 1 else 0) := by
  cases hb : isBlank T.tree
  · rw [hb] at hroot
    simp only [Bool.false_eq_true, ↓reduceIte] at hroot
    have h1 : (T.root != blankRootHash) = true := by simpa using hroot.2
    have h2 : s.store.contains T.root = true := Store.contains_of_view' _ _ (hcont hb)
    cases hh : Hs.hashed T.tree
    · have e : schedOldRoot Hs blankRootHash T s = { s with pending := s.pending.inc T.root } := by
        unfold schedOldRoot; simp [hp, h1, h2, hh]
      rw [e]
      refine ⟨rfl, rfl, hnd.inc _, hpos.inc _, fun h => ?_⟩
      simp only [Counts.val_inc, hroot.1, true_and]
      by_cases he : h = Hs.hashOf T.tree
      · subst he; simp
      · have he' : ¬ Hs.hashOf T.tree = h := fun e => he e.symm
        simp [he, he']
    · have e : schedOldRoot Hs blankRootHash T s = s := by
        unfold schedOldRoot; simp [hh]
      rw [e]
      exact ⟨rfl, rfl, hnd, hpos, fun h => by simp⟩
  · rw [hb] at hroot
    simp only [↓reduceIte] at hroot
    have e : schedOldRoot Hs blankRootHash T s = s := by
      unfold schedOldRoot; simp [hroot]
    rw [e]
    exact ⟨rfl, rfl, hnd, hpos, fun h => by simp⟩

theorem writeRoot_specV (T : TrieSt) (hp : T.prune = true) (new : Node) (s : OpSt)
    (hwf : s.store.CacheNoDup) (hfa : s.store.failAfter = none) :
    ∃ s', writeRoot Hs blankRootHash T new s = .ok (s', if isBlank new then blankRootHash else Hs.hashOf new) ∧
      s'.store.CacheNoDup ∧ s'.store.failAfter = none ∧ s'.pending = s.pending ∧
      (∀ h, s'.counts.val h = s.counts.val h + (if isBlank new = false ∧ Hs.hashOf new = h then 1 else 0)) ∧
      (∀ h, s'.store.view h = true ↔
        (s.store.view h = true ∨ (isBlank new = false ∧ Hs.hashOf new = h))) := by
  unfold writeRoot
  cases hb : isBlank new
  · obtain ⟨st, hw, hfa', hwf', hv'⟩ := Store.write_view s.store hfa hwf (Hs.hashOf new) (Hs.encOf new)
    simp only [Bool.false_eq_true, ↓reduceIte, setDbValue, hw, hp]
    refine ⟨_, rfl, hwf', hfa', rfl, fun h => ?_, fun h => ?_⟩
    · simp only [Counts.val_inc, true_and]
      by_cases he : h = Hs.hashOf new
      · subst he; simp
      · have he' : ¬ Hs.hashOf new = h := fun e => he e.symm
        simp [he, he']
    · simp only [hv', true_and]
      constructor
      · rintro (a | a)
        · exact Or.inl a
        · exact Or.inr a.symm
      · rintro (a | a)
        · exact Or.inl a
        · exact Or.inr a.symm
  · simp only [↓reduceIte]
    exact ⟨s, rfl, hwf, hfa, rfl, fun h => by simp, fun h => by simp⟩

end PyTrie.HexW
