import PyTrie.Lemmas.FreeView
import PyTrie.Lemmas.PruneBodiesV
import PyTrie.Lemmas.PruneBodiesNP
import PyTrie.Lemmas.WorldBatch
import PyTrie.Lemmas.WorldBatchNP
import PyTrie.Lemmas.HistoryAux
/-! **Whole histories with `squash_changes` blocks: the tree-free world and the tree-carrying world stay in lockstep.**
    A history is a list of direct `set` / `delete` calls and of blocks (`with trie.squash_changes() as b:` — a list of calls
    on the batch trie, left normally or by an exception). `runW` runs it in the tree-carrying `World`
    (`Model/HexWorld.lean`), `runF` in the tree-free `FWorld` (`Model/HexFree.lean`: root hashes, a `ScratchDB` view, the
    raw-level `_set` / `_delete`). `Good` collects the run-level premises of every call executed along the run (no hash
    collision among the data the run touches; the two physical side conditions; the call succeeds). Under `Good`, both runs
    return the same outcomes call by call and end in `Sim`-related worlds: same database, same root, same reference
    counts. Everything proved about `World` histories is thereby a statement about the tree-free transcription. -/
namespace PyTrie.HexFree
open PyTrie PyTrie.Hex PyTrie.HexD PyTrie.HexW PyTrie.HexRaw PyTrie.HexRawT

variable (H : Bytes → Bytes)

inductive HStep where
  | op (key : Bytes) (val : Option Bytes)
  | block (inner : List (Bytes × Option Bytes)) (raised : Bool)

/-- the calls of a block on the batch trie, in order; outcomes collected -/
def innerW (w : World) : List (Bytes × Option Bytes) → List (Except Exn Unit) × World
  | [] => ([], w)
  | (k, v) :: rest =>
    let (r, w') := w.setDel (stdHashing H) (blankRoot H) .batch k v
    let (rs, w'') := innerW w' rest
    (r :: rs, w'')

def innerF (fw : FWorld) : List (Bytes × Option Bytes) → List (Except Exn Unit) × FWorld
  | [] => ([], fw)
  | (k, v) :: rest =>
    let (r, fw') := fw.setDel H true k v
    let (rs, fw'') := innerF fw' rest
    (r :: rs, fw'')

def stepW (w : World) : HStep → List (Except Exn Unit) × World
  | .op k v => let (r, w') := w.setDel (stdHashing H) (blankRoot H) (.trie 0) k v; ([r], w')
  | .block inner raised =>
    let (rs, w1) := innerW H (w.batchBegin 0) inner
    let (r, w2) := w1.batchEnd raised
    (rs ++ [r], w2)

def stepF (fw : FWorld) : HStep → List (Except Exn Unit) × FWorld
  | .op k v => let (r, fw') := fw.setDel H false k v; ([r], fw')
  | .block inner raised =>
    let (rs, f1) := innerF H fw.batchBegin inner
    let (r, f2) := f1.batchEnd raised
    (rs ++ [r], f2)

def runW (w : World) : List HStep → List (Except Exn Unit) × World
  | [] => ([], w)
  | s :: rest => let (a, w') := stepW H w s; let (b, w'') := runW w' rest; (a ++ b, w'')

def runF (fw : FWorld) : List HStep → List (Except Exn Unit) × FWorld
  | [] => ([], fw)
  | s :: rest => let (a, f') := stepF H fw s; let (b, f'') := runF f' rest; (a ++ b, f'')

/-- run-level premises of one `set` / `delete` call on trie `T` reading through store `st`: no collision among the data it
    touches, the two physical side conditions on what it reads, and it returns normally -/
def GoodCall (T : TrieSt) (s : OpSt) (k : Bytes) (v : Option Bytes) : Prop :=
  RefSound (stdHashing H) T.tree (nibs k) ∧
  (isBlank (opTree (stdHashing H) T k v).1 = false → hashOf H (opTree (stdHashing H) T k v).1 ≠ blankRoot H) ∧
  NoClobber (storeDb s.store) (opWrites (stdHashing H) T k v) ∧
  Dict.get? (storeDb s.store) (blankRoot H) = none ∧
  (∀ h b, Dict.get? (storeDb s.store) h = some b → b.length < 2 ^ 64) ∧
  ∃ T', (opSetDel (stdHashing H) (blankRoot H) T k v s).2 = .ok T'

/-- the premises of every call of a block, along the block -/
def GoodInner : World → List (Bytes × Option Bytes) → Prop
  | _, [] => True
  | w, (k, v) :: rest =>
    (match w.batch with
     | some b => GoodCall H b.trie (w.batchOpSt b) k v
     | none => False) ∧
    GoodInner (w.setDel (stdHashing H) (blankRoot H) .batch k v).2 rest

/-- the premises of every call of a history, along the run of the tree-carrying world -/
def Good : World → List HStep → Prop
  | _, [] => True
  | w, .op k v :: rest =>
    GoodCall H w.tries[0]! (w.opSt 0) k v ∧ Good (stepW H w (.op k v)).2 rest
  | w, .block inner raised :: rest =>
    GoodInner H (w.batchBegin 0) inner ∧ Good (stepW H w (.block inner raised)).2 rest

/-- the fresh tree-carrying world with one trie, and the fresh tree-free world -/
def freshW (prune : Bool) : World := ((({} : World).newTrie (blankRoot H) prune).1)

/-! ### the invariant of the tree-carrying world between steps, and inside an open block -/

/-- between steps (no block open): one trie over a plain dict without injected faults, canonical tree, database complete
    for its root, and — for a pruning trie — the exact-pruning invariant -/
structure WInv (prune : Bool) (w : World) : Prop where
  tsz : w.tries.size = 1
  csz : w.counts.size = 1
  nb : w.batch = none
  fa : w.failAfter = none
  pr : (w.tries[0]!).prune = prune
  canon : Canon (w.tries[0]!).tree
  comp : Complete (stdHashing H) (blankRoot H) w.base (w.tries[0]!)
  pinv : prune = true → PruneInv (stdHashing H) (blankRoot H) (w.tries[0]!) (w.opSt 0)

/-- inside a block opened on the world `w0`: the outer part is as in `w0`; the batch trie is canonical, its view is
    complete for its root, and the block invariant of the outer trie's mode holds -/
structure BInv (prune : Bool) (w0 w : World) : Prop where
  base : w.base = w0.base
  fa : w.failAfter = none
  tries : w.tries = w0.tries
  counts : w.counts = w0.counts
  blk : ∃ b, w.batch = some b ∧ b.outer = 0 ∧ Canon b.trie.tree ∧
    Complete (stdHashing H) (blankRoot H) (storeDb (w.batchOpSt b).store) b.trie ∧
    (prune = true → PruneInvV (stdHashing H) (blankRoot H) b.trie (w.batchOpSt b)) ∧
    (prune = false → BatchInvNP (stdHashing H) (blankRoot H) w0.base b.trie (w.batchOpSt b) ∧
      CacheConsistent (w.batchOpSt b).store)

theorem outcome_eq (a b : Except Exn Unit)
    (h : match a, b with
      | .ok _, .ok _ => True
      | .error e, .error e' => e = e'
      | _, _ => False) : a = b := by
  cases a with
  | ok x => cases b with
    | ok y => rfl
    | error e => exact h.elim
  | error e => cases b with
    | ok y => exact h.elim
    | error e' => simp only at h; rw [h]

theorem canon_op (t : Node) (k : Bytes) (v : Option Bytes) (hc : Canon t) :
    Canon (match v with
      | some v => if v = [] then Hex.delete t (nibs k) else Hex.set t (nibs k) v
      | none => Hex.delete t (nibs k)) := by
  cases v with
  | none => exact canon_delete _ _ hc
  | some v =>
    simp only
    split
    · exact canon_delete _ _ hc
    · next hne => exact canon_set _ _ _ hne hc

theorem opSt_eq (w : World) (s : OpSt) (hb : w.base = s.store.base) (hf : w.failAfter = s.store.failAfter)
    (hc : w.counts[0]! = s.counts) (hcache : s.store.cache = none) (hp : s.pending = []) : w.opSt 0 = s := by
  obtain ⟨⟨sb, sc, sf⟩, cn, pd⟩ := s
  simp only at hb hf hc hcache hp
  subst hcache hp
  unfold World.opSt
  rw [hb, hf, hc]

theorem winv_congr (prune : Bool) (w w' : World) (hb : w'.base = w.base) (hf : w'.failAfter = w.failAfter)
    (ht : w'.tries = w.tries) (hc : w'.counts = w.counts) (hn : w'.batch = none) (h : WInv H prune w) :
    WInv H prune w' := by
  have hop : w'.opSt 0 = w.opSt 0 := by unfold World.opSt; rw [hb, hf, hc]
  refine ⟨by rw [ht]; exact h.tsz, by rw [hc]; exact h.csz, hn, by rw [hf]; exact h.fa, by rw [ht]; exact h.pr,
    by rw [ht]; exact h.canon, by rw [ht, hb]; exact h.comp, ?_⟩
  intro hp
  rw [ht, hop]
  exact h.pinv hp

theorem winv_fresh (prune : Bool) : WInv H prune (freshW H prune) := by
  refine ⟨rfl, rfl, rfl, rfl, rfl, trivial, ⟨by simp [freshW, World.newTrie, isBlank], trivial⟩, ?_⟩
  intro hp
  subst hp
  exact pruneInv_init (stdHashing H) (blankRoot H)

theorem sim_fresh (prune : Bool) : Sim (FWorld.init H prune) (freshW H prune) :=
  ⟨rfl, rfl, rfl, rfl, rfl, rfl, trivial⟩

/-- a direct `set` / `delete` keeps the between-steps invariant -/
theorem winv_op (prune : Bool) (w : World) (hinv : WInv H prune w) (k : Bytes) (v : Option Bytes)
    (hg : GoodCall H w.tries[0]! (w.opSt 0) k v) :
    WInv H prune (w.setDel (stdHashing H) (blankRoot H) (.trie 0) k v).2 := by
  obtain ⟨hrs, hbl, hnc, _, _, T', hok⟩ := hg
  obtain ⟨_, hbase, hfa, htries, hcounts, hbatch⟩ :=
    World.setDel_trie_ok (stdHashing H) (blankRoot H) w 0 k v T' hok
  have hnc' : NoClobber (w.opSt 0).store.base (opWrites (stdHashing H) w.tries[0]! k v) := hnc
  have hfa0 : (w.opSt 0).store.failAfter = none := hinv.fa
  have hcomp0 : Complete (stdHashing H) (blankRoot H) (w.opSt 0).store.base w.tries[0]! := hinv.comp
  have hfa' := failAfter_none_preserved (stdHashing H) (blankRoot H) w.tries[0]! k v (w.opSt 0) hfa0
  generalize (w.setDel (stdHashing H) (blankRoot H) (.trie 0) k v).2 = w' at hbase hfa htries hcounts hbatch ⊢
  have ht0 : w'.tries[0]! = T' := by rw [htries]; exact (array_set!_zero _ _ hinv.tsz).2
  have hc0 : w'.counts[0]! = (opSetDel (stdHashing H) (blankRoot H) w.tries[0]! k v (w.opSt 0)).1.counts := by
    rw [hcounts]; exact (array_set!_zero _ _ hinv.csz).2
  have hts : w'.tries.size = 1 := by rw [htries]; exact (array_set!_zero _ _ hinv.tsz).1
  have hcs : w'.counts.size = 1 := by rw [hcounts]; exact (array_set!_zero _ _ hinv.csz).1
  cases prune with
  | false =>
    obtain ⟨T'', hok', htree, hpr, _, hcomp⟩ := opSetDel_complete (stdHashing H) (blankRoot H) w.tries[0]! hinv.pr
      hinv.canon k v (w.opSt 0) rfl hfa0 hcomp0 hrs hnc' hbl
    rw [hok] at hok'
    cases hok'
    refine ⟨hts, hcs, hbatch.trans hinv.nb, hfa.trans hfa', by rw [ht0]; exact hpr, ?_, ?_, fun hp => by cases hp⟩
    · rw [ht0, htree]
      cases v with
      | none => exact canon_op _ k none hinv.canon
      | some x => exact canon_op _ k (some x) hinv.canon
    · rw [ht0, hbase]; exact hcomp
  | true =>
    have hpi0 := hinv.pinv rfl
    obtain ⟨T'', hok', htree, hpi⟩ := opSetDel_pruneInv (stdHashing H) (blankRoot H) w.tries[0]! hinv.canon k v
      (w.opSt 0) hfa0 hpi0 hrs hbl
    rw [hok] at hok'
    cases hok'
    have hcomp := opSetDel_prune_complete (stdHashing H) (blankRoot H) w.tries[0]! hinv.canon k v (w.opSt 0) hfa0 hpi0
      hcomp0 hrs hnc' hbl T' hok
    have hop : w'.opSt 0 = (opSetDel (stdHashing H) (blankRoot H) w.tries[0]! k v (w.opSt 0)).1 :=
      opSt_eq w' _ hbase hfa hc0 hpi.plain hpi.pending
    refine ⟨hts, hcs, hbatch.trans hinv.nb, hfa.trans hfa', by rw [ht0]; exact hpi.prune, ?_, ?_, fun _ => ?_⟩
    · rw [ht0, htree]
      cases v with
      | none => exact canon_op _ k none hinv.canon
      | some x => exact canon_op _ k (some x) hinv.canon
    · rw [ht0, hbase]; exact hcomp
    · rw [ht0, hop]; exact hpi

/-- entering a block establishes the block invariant -/
theorem binv_begin (prune : Bool) (w : World) (hinv : WInv H prune w) : BInv H prune w (w.batchBegin 0) := by
  refine ⟨rfl, hinv.fa, rfl, rfl, _, rfl, rfl, hinv.canon, ?_, ?_, ?_⟩
  · show Complete (stdHashing H) (blankRoot H) w.base _
    exact hinv.comp
  · intro hp
    obtain ⟨b, hb, _, _, hpv⟩ := batchBegin_pruneInvV (stdHashing H) (blankRoot H) w 0 (by rw [hinv.tsz]; decide) hinv.nb
      (hinv.pinv hp)
    simp only [World.batchBegin, Option.some.injEq] at hb
    subst hb
    exact hpv
  · intro hp
    have hpr : (w.tries[0]!).prune = false := hinv.pr.trans hp
    have h1 := batchInvNP_begin (stdHashing H) (blankRoot H) w.base w.tries[0]!
      (complete_root (stdHashing H) (blankRoot H) w.base _ hinv.comp)
      (complete_keys' (stdHashing H) (blankRoot H) w.base _ hinv.comp) w.failAfter
    have h2 := cacheConsistent_begin w.base w.failAfter
    simp only [World.batchBegin, World.batchOpSt, hpr, Bool.false_eq_true, if_false]
    exact ⟨h1, h2⟩

/-- a `set` / `delete` on the batch trie keeps the block invariant -/
theorem binv_inner (prune : Bool) (w0 w : World) (hinv : BInv H prune w0 w) (b : Batch) (hb : w.batch = some b)
    (k : Bytes) (v : Option Bytes) (hg : GoodCall H b.trie (w.batchOpSt b) k v) :
    BInv H prune w0 (w.setDel (stdHashing H) (blankRoot H) .batch k v).2 := by
  obtain ⟨hbase0, hfa0, htries0, hcounts0, b0, hb0, hbo, hcan, hcomp, hpv, hnp⟩ := hinv
  rw [hb] at hb0
  cases hb0
  obtain ⟨hrs, hbl, hnc, _, _, T', hok⟩ := hg
  obtain ⟨_, hbase, hfa, htries, hcounts, b', hb', hbo', hbt', hop'⟩ :=
    World.setDel_batch_ok (stdHashing H) (blankRoot H) w b hb k v T' hok
  have hfas : (w.batchOpSt b).store.failAfter = none := hfa0
  have htree : T'.tree = (opTree (stdHashing H) b.trie k v).1 := by
    cases prune with
    | true =>
      obtain ⟨T'', hok', ht, _⟩ := opSetDel_pruneInvV (stdHashing H) (blankRoot H) b.trie hcan k v (w.batchOpSt b) hfas
        (hpv rfl) hrs hbl
      rw [hok] at hok'; cases hok'; exact ht
    | false =>
      obtain ⟨T'', hok', ht, _⟩ := opSetDel_batchInvNP (stdHashing H) (blankRoot H) w0.base b.trie hcan k v
        (w.batchOpSt b) (hnp rfl).1 hrs hbl
      rw [hok] at hok'; cases hok'; exact ht
  have hcan' : Canon T'.tree := by
    rw [htree, opTree_fst_p (stdHashing H) b.trie hcan k v hrs]
    exact canon_op _ k v hcan
  generalize (w.setDel (stdHashing H) (blankRoot H) .batch k v).2 = w' at hbase hfa htries hcounts hb' hop' ⊢
  refine ⟨hbase.trans hbase0, hfa.trans hfa0, htries.trans htries0, hcounts.trans hcounts0, b', hb', hbo'.trans hbo,
    by rw [hbt']; exact hcan', ?_, ?_, ?_⟩
  · rw [hbt', hop']
    cases prune with
    | true =>
      exact opSetDel_prune_complete_view (stdHashing H) (blankRoot H) b.trie hcan k v (w.batchOpSt b) hfas (hpv rfl)
        hcomp hrs hnc hbl T' hok
    | false =>
      exact (opSetDel_np_complete_view (stdHashing H) (blankRoot H) w0.base b.trie hcan k v (w.batchOpSt b) (hnp rfl).1
        (hnp rfl).2 hcomp hrs hnc hbl T' hok).1
  · intro hp
    obtain ⟨T'', hok', _, hpi, _⟩ := opSetDel_pruneInvV (stdHashing H) (blankRoot H) b.trie hcan k v (w.batchOpSt b) hfas
      (hpv hp) hrs hbl
    rw [hok] at hok'; cases hok'
    rw [hbt', hop']; exact hpi
  · intro hp
    obtain ⟨T'', hok', _, hpi⟩ := opSetDel_batchInvNP (stdHashing H) (blankRoot H) w0.base b.trie hcan k v
      (w.batchOpSt b) (hnp hp).1 hrs hbl
    rw [hok] at hok'; cases hok'
    rw [hbt', hop']
    exact ⟨hpi, (opSetDel_np_complete_view (stdHashing H) (blankRoot H) w0.base b.trie hcan k v (w.batchOpSt b) (hnp hp).1
      (hnp hp).2 hcomp hrs hnc hbl T' hok).2⟩

/-- leaving the block (by an exception: the block is dropped; normally: the commit) re-establishes the between-steps
    invariant -/
theorem winv_end (prune : Bool) (w0 w : World) (h0 : WInv H prune w0) (hinv : BInv H prune w0 w) (raised : Bool) :
    WInv H prune (w.batchEnd raised).2 := by
  obtain ⟨hbase0, hfa0, htries0, hcounts0, b, hb, hbo, hcan, hcomp, hpv, hnp⟩ := hinv
  cases raised with
  | true =>
    rw [World.batchEnd_true_eq w b hb]
    exact winv_congr H prune w0 _ hbase0 (hfa0.trans h0.fa.symm) htries0 hcounts0 rfl h0
  | false =>
    obtain ⟨bo, bc, bt, bn⟩ := b
    simp only at hbo
    subst hbo
    have hts : w.tries.size = 1 := by rw [htries0]; exact h0.tsz
    have hcs : w.counts.size = 1 := by rw [hcounts0]; exact h0.csz
    have hpr : (w.tries[0]!).prune = prune := by rw [htries0]; exact h0.pr
    have heq := World.batchEnd_false_eq w _ hb hfa0
    simp only at heq
    cases prune with
    | true =>
      have h1 := batchEnd_pruneInv (stdHashing H) (blankRoot H) w _ hb (by rw [hts]; exact Nat.zero_lt_one) (by rw [hcs]; exact Nat.zero_lt_one) hpr hfa0
        (hpv rfl)
      have h2 := batchEnd_complete (stdHashing H) (blankRoot H) w _ hb (by rw [hts]; exact Nat.zero_lt_one) (by rw [hcs]; exact Nat.zero_lt_one) hpr hfa0
        (hpv rfl) hcomp
      simp only at h1 h2
      obtain ⟨_, _, htree, _, hpi⟩ := h1
      have hsz : (w.batchEnd false).2.tries.size = 1 ∧ (w.batchEnd false).2.counts.size = 1 ∧
          (w.batchEnd false).2.failAfter = none ∧ (w.batchEnd false).2.batch = none := by
        rw [heq]
        simp only [hpr, if_true]
        exact ⟨(array_set!_zero _ _ hts).1, (array_set!_zero _ _ hcs).1, trivial, trivial⟩
      exact ⟨hsz.1, hsz.2.1, hsz.2.2.2, hsz.2.2.1, hpi.prune, by rw [htree]; exact hcan, h2, fun _ => hpi⟩
    | false =>
      obtain ⟨hc1, _⟩ := commit_np_complete (stdHashing H) (blankRoot H) w0.base bt (w.batchOpSt ⟨0, bc, bt, bn⟩)
        (hnp rfl).1 (hnp rfl).2 bc rfl hcomp
      rw [heq]
      simp only [hpr, Bool.false_eq_true, if_false]
      have hT := (array_set!_zero w.tries ({ tree := bt.tree, root := bt.root, prune := false } : TrieSt) hts)
      refine ⟨hT.1, hcs, rfl, rfl, ?_, ?_, ?_, fun hp => by cases hp⟩
      · show ((w.tries.set! 0 _)[0]!).prune = false
        rw [hT.2]
      · show Canon ((w.tries.set! 0 _)[0]!).tree
        rw [hT.2]; exact hcan
      · show Complete _ _ _ ((w.tries.set! 0 _)[0]!)
        rw [hT.2, hbase0]; exact hc1

/-! ### lockstep along a block, a step, a history -/

theorem innerW_cons (w : World) (k : Bytes) (v : Option Bytes) (rest : List (Bytes × Option Bytes)) :
    innerW H w ((k, v) :: rest) =
      ((w.setDel (stdHashing H) (blankRoot H) .batch k v).1 ::
        (innerW H (w.setDel (stdHashing H) (blankRoot H) .batch k v).2 rest).1,
       (innerW H (w.setDel (stdHashing H) (blankRoot H) .batch k v).2 rest).2) := rfl

theorem innerF_cons (fw : FWorld) (k : Bytes) (v : Option Bytes) (rest : List (Bytes × Option Bytes)) :
    innerF H fw ((k, v) :: rest) =
      ((fw.setDel H true k v).1 :: (innerF H (fw.setDel H true k v).2 rest).1,
       (innerF H (fw.setDel H true k v).2 rest).2) := rfl

theorem stepW_op (w : World) (k : Bytes) (v : Option Bytes) :
    stepW H w (.op k v) = ([(w.setDel (stdHashing H) (blankRoot H) (.trie 0) k v).1],
      (w.setDel (stdHashing H) (blankRoot H) (.trie 0) k v).2) := rfl

theorem stepF_op (fw : FWorld) (k : Bytes) (v : Option Bytes) :
    stepF H fw (.op k v) = ([(fw.setDel H false k v).1], (fw.setDel H false k v).2) := rfl

theorem stepW_block (w : World) (inner : List (Bytes × Option Bytes)) (raised : Bool) :
    stepW H w (.block inner raised) =
      ((innerW H (w.batchBegin 0) inner).1 ++ [((innerW H (w.batchBegin 0) inner).2.batchEnd raised).1],
       ((innerW H (w.batchBegin 0) inner).2.batchEnd raised).2) := rfl

theorem stepF_block (fw : FWorld) (inner : List (Bytes × Option Bytes)) (raised : Bool) :
    stepF H fw (.block inner raised) =
      ((innerF H fw.batchBegin inner).1 ++ [((innerF H fw.batchBegin inner).2.batchEnd raised).1],
       ((innerF H fw.batchBegin inner).2.batchEnd raised).2) := rfl

theorem runW_cons (w : World) (s : HStep) (rest : List HStep) :
    runW H w (s :: rest) = ((stepW H w s).1 ++ (runW H (stepW H w s).2 rest).1, (runW H (stepW H w s).2 rest).2) := rfl

theorem runF_cons (fw : FWorld) (s : HStep) (rest : List HStep) :
    runF H fw (s :: rest) = ((stepF H fw s).1 ++ (runF H (stepF H fw s).2 rest).1, (runF H (stepF H fw s).2 rest).2) := rfl

theorem inner_lockstep (hlen : ∀ b, (H b).length = 32) (prune : Bool) (w0 : World)
    (inner : List (Bytes × Option Bytes)) :
    ∀ (fw : FWorld) (w : World), Sim fw w → BInv H prune w0 w → GoodInner H w inner →
      (innerF H fw inner).1 = (innerW H w inner).1 ∧ Sim (innerF H fw inner).2 (innerW H w inner).2 ∧
      BInv H prune w0 (innerW H w inner).2 := by
  induction inner with
  | nil => intro fw w hs hb _; exact ⟨rfl, hs, hb⟩
  | cons kv rest ih =>
    obtain ⟨k, v⟩ := kv
    intro fw w hs hb hg
    obtain ⟨hg1, hg2⟩ := hg
    obtain ⟨b, hwb, _, hcan, hcomp, hpv, hnp⟩ := hb.blk
    rw [hwb] at hg1
    simp only at hg1
    have hnd : NoDupKeys b.cache := by
      cases prune with
      | true => exact (hpv rfl).cacheNoDup b.cache rfl
      | false =>
        obtain ⟨c, hc, hn⟩ := (hnp rfl).1.cached
        simp only [World.batchOpSt, Option.some.injEq] at hc
        exact hc ▸ hn
    obtain ⟨ho, hs'⟩ := sim_setDel_batch H hlen fw w hs b hwb hnd k v hcan hcomp hg1.2.2.2.1 hg1.2.2.2.2.1
    have hb' := binv_inner H prune w0 w hb b hwb k v hg1
    obtain ⟨i1, i2, i3⟩ := ih _ _ hs' hb' hg2
    rw [innerW_cons, innerF_cons]
    exact ⟨by rw [outcome_eq _ _ ho, i1], i2, i3⟩

theorem step_lockstep (hlen : ∀ b, (H b).length = 32) (prune : Bool) (fw : FWorld) (w : World) (hs : Sim fw w)
    (hinv : WInv H prune w) (s : HStep) (rest : List HStep) (hg : Good H w (s :: rest)) :
    (stepF H fw s).1 = (stepW H w s).1 ∧ Sim (stepF H fw s).2 (stepW H w s).2 ∧ WInv H prune (stepW H w s).2 ∧
    Good H (stepW H w s).2 rest := by
  cases s with
  | op k v =>
    obtain ⟨hg1, hg2⟩ := hg
    obtain ⟨ho, hs'⟩ := sim_setDel_outer H hlen fw w hs k v hinv.canon hinv.comp hg1.2.2.2.1 hg1.2.2.2.2.1
    rw [stepW_op, stepF_op]
    exact ⟨by rw [outcome_eq _ _ ho], hs', winv_op H prune w hinv k v hg1, hg2⟩
  | block inner raised =>
    obtain ⟨hg1, hg2⟩ := hg
    have hs1 := sim_batchBegin fw w hs hinv.nb
    have hb1 := binv_begin H prune w hinv
    obtain ⟨i1, i2, i3⟩ := inner_lockstep H hlen prune w inner _ _ hs1 hb1 hg1
    obtain ⟨e1, e2⟩ := sim_batchEnd _ _ i2 raised
    rw [stepW_block, stepF_block]
    exact ⟨by rw [i1, e1], e2, winv_end H prune w _ hinv i3 raised, hg2⟩

theorem run_lockstep (hlen : ∀ b, (H b).length = 32) (prune : Bool) (steps : List HStep) :
    ∀ (fw : FWorld) (w : World), Sim fw w → WInv H prune w → Good H w steps →
      (runF H fw steps).1 = (runW H w steps).1 ∧ Sim (runF H fw steps).2 (runW H w steps).2 := by
  induction steps with
  | nil => intro fw w hs _ _; exact ⟨rfl, hs⟩
  | cons s rest ih =>
    intro fw w hs hinv hg
    obtain ⟨h1, h2, h3, h4⟩ := step_lockstep H hlen prune fw w hs hinv s rest hg
    obtain ⟨i1, i2⟩ := ih _ _ h2 h3 h4
    rw [runW_cons, runF_cons]
    exact ⟨by rw [h1, i1], i2⟩

/-- **lockstep over whole histories with blocks, pruning on or off** -/
theorem lockstep_history (hlen : ∀ b, (H b).length = 32) (prune : Bool) (steps : List HStep)
    (hgood : Good H (freshW H prune) steps) :
    (runF H (FWorld.init H prune) steps).1 = (runW H (freshW H prune) steps).1 ∧
    Sim (runF H (FWorld.init H prune) steps).2 (runW H (freshW H prune) steps).2 :=
  run_lockstep H hlen prune steps _ _ (sim_fresh H prune) (winv_fresh H prune) hgood


end PyTrie.HexFree
