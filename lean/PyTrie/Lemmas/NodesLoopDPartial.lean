import PyTrie.Lemmas.NodesLoopD
/-! `NodeIterator.nodes()` at raw level over an INCOMPLETE database (node bodies withheld, pruned, not yet downloaded):
    the loop either yields exactly the pre-order images of the tree-level loop, or stops with `MissingTraversalNode` for a
    node that really is absent from the database — it never yields a wrong node, skips a subtree or reports a present node. -/
namespace PyTrie.HexD
open PyTrie PyTrie.Hex PyTrie.Fog PyTrie.HexRaw

variable (H : Bytes → Bytes)

/-- the tree-level loop with the start of the traversal named (`v = t`, `p' = p` or the cached parent and segment) -/
theorem nodesLoop_succ_from (t : Node) (fuel : Nat) (fog : Fog) (cache : Frontier Node) (p : Path) (v : Node) (p' : Path)
    (hnr : nearestRight fog [] = .ok p)
    (hg : (Frontier.get cache p = none ∧ v = t ∧ p' = p) ∨ Frontier.get cache p = some (v, p')) :
    nodesLoop t (fuel + 1) fog cache =
      match traverseOut v p' with
      | .partialPath _ _ _ _ => []
      | .node a =>
        match Fog.explore fog p a.subs with
        | .error _ => []
        | .ok fog' =>
          (p, a.raw) :: nodesLoop t fuel fog'
            (if a.subs ≠ [] then Frontier.add cache p a.raw a.subs else Frontier.delete cache p) := by
  rw [nodesLoop_succ, hnr]
  rcases hg with ⟨hg, rfl, rfl⟩ | hg <;> simp only [hg] <;> rfl

theorem nodesLoopD_partial_aux (hlen : ∀ b, (H b).length = 32) (db : Db) (root : Hash) (t : Node) (hc : Canon t)
    (hroot : RootPartial H db root t) (hst : PartialD H db t) (fuel : Nat) :
    ∀ (fog : Fog) (cache : Frontier Node), CacheOkD H db cache →
    (∃ h pre, nodesLoopD H db root fuel fog (mapCache H cache) = .error (.missing h pre) ∧ lookup db h = none) ∨
    nodesLoopD H db root fuel fog (mapCache H cache) =
      .ok ((nodesLoop t fuel fog cache).map (fun e => (e.1, Ann.toD H (annotate e.2)))) := by
  induction fuel with
  | zero => intro fog cache _; exact Or.inr rfl
  | succ fuel ih =>
    intro fog cache hcache
    unfold nodesLoopD
    cases hnr : nearestRight fog [] with
    | error e =>
      right
      rw [nodesLoop_succ, hnr]
      rfl
    | ok p =>
      simp only
      have hw := walkTraverseD_refines H hlen db root t hc hroot hst ⟨fog, cache, []⟩ hcache p
      have htoCD : toCD H ⟨fog, cache, []⟩ = ⟨fog, mapCache H cache, []⟩ := rfl
      rw [htoCD] at hw
      -- the node the traversal started from
      have hv : ∃ v p', Canon v ∧ PartialD H db v ∧
          ((∃ h pre, walkTraverseD H db root ⟨fog, mapCache H cache, []⟩ p = .error (.missing h pre) ∧
              lookup db h = none) ∨
            walkTraverseD H db root ⟨fog, mapCache H cache, []⟩ p = .ok (TravOut.toD H (traverseOut v p'))) ∧
          ((Frontier.get cache p = none ∧ v = t ∧ p' = p) ∨ Frontier.get cache p = some (v, p')) := by
        cases hg : Frontier.get cache p with
        | none =>
          simp only [hg] at hw
          exact ⟨t, p, hc, hst, hw, Or.inl ⟨rfl, rfl, rfl⟩⟩
        | some e =>
          obtain ⟨parent, seg⟩ := e
          obtain ⟨hcp, hsp⟩ := hcache p parent seg hg
          simp only [hg] at hw
          exact ⟨parent, seg, hcp, hsp, hw, Or.inr rfl⟩
      obtain ⟨v, p', hcv, hsv, hw', hout⟩ := hv
      rw [nodesLoop_succ_from t fuel fog cache p v p' hnr hout]
      rcases hw' with ⟨h, pre, he, hl⟩ | hok
      · rw [he]
        exact Or.inl ⟨h, pre, rfl, hl⟩
      · rw [hok]
        cases ho : traverseOut v p' with
        | partialPath tr a tail sim => exact Or.inr rfl
        | node a =>
          simp only [TravOut.toD]
          have ha := traverseOut_node ho
          have hraw : Canon a.raw ∧ PartialD H db a.raw := by
            rw [ha, annotate_raw]
            exact canon_partial_traverseT H db v p' hcv hsv
          have hann : annotate a.raw = a := by rw [ha, annotate_raw]
          have hsubs : (Ann.toD H a).subs = a.subs := rfl
          have hrawD : (Ann.toD H a).raw = toItem H a.raw := rfl
          rw [hsubs, hrawD]
          cases he : Fog.explore fog p a.subs with
          | error e => exact Or.inr rfl
          | ok fog' =>
            simp only
            have hcache' : CacheOkD H db
                (if a.subs ≠ [] then Frontier.add cache p a.raw a.subs else Frontier.delete cache p) := by
              split
              · exact cacheOkD_add H hcache p a.raw hraw a.subs
              · exact cacheOkD_erase H hcache p
            have hmap : (if a.subs ≠ [] then Frontier.add (mapCache H cache) p (toItem H a.raw) a.subs
                  else Frontier.delete (mapCache H cache) p) =
                mapCache H (if a.subs ≠ [] then Frontier.add cache p a.raw a.subs else Frontier.delete cache p) := by
              split
              · exact mapC_add H cache p a.raw a.subs
              · exact mapC_delete H cache p
            rw [hmap]
            rcases ih fog' _ hcache' with ⟨h, pre, he', hl⟩ | hok'
            · rw [he']
              exact Or.inl ⟨h, pre, rfl, hl⟩
            · rw [hok']
              right
              simp only [List.map_cons, hann]

theorem nodesLoopD_partial (hlen : ∀ b, (H b).length = 32) (db : Db) (root : Hash) (t : Node) (hc : Canon t)
    (hroot : RootPartial H db root t) (hst : PartialD H db t) (fuel : Nat) (fog : Fog) (cache : Frontier Node)
    (hcache : CacheOkD H db cache) :
    (∃ h pre, nodesLoopD H db root fuel fog (mapCache H cache) = .error (.missing h pre) ∧ lookup db h = none) ∨
    nodesLoopD H db root fuel fog (mapCache H cache) =
      .ok ((nodesLoop t fuel fog cache).map (fun e => (e.1, Ann.toD H (annotate e.2)))) :=
  nodesLoopD_partial_aux H hlen db root t hc hroot hst fuel fog cache hcache

theorem nodesOfD_partial (hlen : ∀ b, (H b).length = 32) (db : Db) (root : Hash) (t : Node) (hc : Canon t)
    (hroot : RootPartial H db root t) (hst : PartialD H db t) (fuel : Nat) :
    (∃ h pre, nodesOfD H db root fuel = .error (.missing h pre) ∧ lookup db h = none) ∨
    nodesOfD H db root fuel = .ok ((nodesOf t fuel).map (fun e => (e.1, Ann.toD H (annotate e.2)))) := by
  have h := nodesLoopD_partial H hlen db root t hc hroot hst fuel Fog.init []
    (fun p parent seg hg => by simp [Frontier.get] at hg)
  exact h


end PyTrie.HexD
