import PyTrie.Lemmas.RawPartial
import PyTrie.Lemmas.ReadRefines
import PyTrie.Lemmas.HexDbProofs
/-! **The raw-level read path on incomplete databases (C07 at raw level, lookups and traversals).** `traverseD` / `getD` /
    `traverseOutD` (`_traverse_from`, `get`, `traverse` over rlp-decoded nodes fetched from the database) on a database
    from which any node bodies are absent: they either find every node they fetch — and return exactly the tree-level
    result — or stop with `missing h used` where `(h, used)` is the **first** entry of `traverseReads` (the hashed nodes
    on the key's path with the nibbles consumed to reach each) that the database cannot answer. This is word for word
    what the world executor's `opGet` / `opTraverse` compute, so the C07 theorems about them (`get_missing_truthful`,
    `traverse_truthful`, …) are theorems about the raw-level transcription. -/
namespace PyTrie.HexD
open PyTrie PyTrie.Hex PyTrie.Hex.Node PyTrie.HexRaw

variable (H : Bytes → Bytes)

/-- the first hashed node on the path that the database cannot answer, with the nibbles consumed to reach it -/
def firstMissingRead (db : Db) (t : Node) (k : Path) (pre : Path) : Option (Hash × Path) :=
  (traverseReads (stdHashing H) t k pre).find? fun e => (lookup db e.1).isNone

/-- one fetch on an incomplete database: the child's raw node, or a missing-node report for its hash -/
theorem fetch_partialC (hlen : ∀ b, (H b).length = 32) (db : Db) (c : Node) (used : Path) (hs : PartialC H db c) :
    fetch H db (refOf H c) used =
      if isHashed H c = true ∧ lookup db (hashOf H c) = none then .error (.missing (hashOf H c) used)
      else .ok (toItem H c) := by
  cases hh : isHashed H c with
  | false =>
    simp only [Bool.false_eq_true, false_and, ↓reduceIte]
    exact fetch_ref_ok H hlen db c used (fun h => by simp [hh] at h)
  | true =>
    obtain ⟨hne, hl, hd⟩ := hs hh
    cases hlk : lookup db (hashOf H c) with
    | none =>
      simp only [and_self, ↓reduceIte]
      rw [refOf_hashed H c hh]
      exact fetch_hash_none H hlen db c used hne hlk
    | some b =>
      have := hl b hlk
      subst this
      simp only [reduceCtorEq, and_false, ↓reduceIte]
      exact fetch_ref_ok H hlen db c used (fun _ => ⟨⟨hne, hlk⟩, hd⟩)

/-- the outcome of a read whose fetches are `rs` and whose result (if every fetch is answered) is `x` -/
def outR {α : Type} (db : Db) (rs : List (Hash × Path)) (x : α) : Except TErr α :=
  match rs.find? fun e => (lookup db e.1).isNone with
  | some (h, pre) => .error (.missing h pre)
  | none => .ok x

theorem outR_nil {α : Type} (db : Db) (x : α) : outR db [] x = .ok x := rfl

/-- one fetch followed by the rest of the read -/
theorem outR_step {α : Type} (db : Db) (c : Node) (pre : Path) (rs : List (Hash × Path)) (x : α) :
    outR db ((if (stdHashing H).hashed c then [((stdHashing H).hashOf c, pre)] else []) ++ rs) x =
      if isHashed H c = true ∧ lookup db (hashOf H c) = none then .error (.missing (hashOf H c) pre)
      else outR db rs x := by
  cases hh : isHashed H c with
  | false => simp [stdHashing, hh]
  | true =>
    cases hlk : lookup db (hashOf H c) with
    | none => simp [stdHashing, hh, outR, hlk]
    | some b => simp [stdHashing, hh, outR, hlk]

theorem traverseD_partial_aux (hlen : ∀ b, (H b).length = 32) (db : Db) (t : Node) :
    Canon t → PartialD H db t → ∀ (k : Path) (fuel : Nat) (used : Path), k.length ≤ fuel →
    traverseD H db fuel (toItem H t) k used =
      outR db (traverseReads (stdHashing H) t k used) (toItem H (traverseT t k).1, (traverseT t k).2) := by
  induction t with
  | blank =>
    intro _ _ k fuel used hf
    cases k with
    | nil => simp [traverseD_nil, traverseT, traverseReads, outR_nil]
    | cons a rest =>
      cases fuel with
      | zero => simp at hf
      | succ fuel => simp only [traverseD, classify_blank, traverseT, traverseReads, outR_nil]; rfl
  | leaf p v =>
    intro _ _ k fuel used hf
    cases k with
    | nil => simp [traverseD_nil, traverseT, traverseReads, outR_nil]
    | cons a rest =>
      cases fuel with
      | zero => simp at hf
      | succ fuel =>
        simp only [traverseD, classify_leaf, traverseT, traverseReads, outR_nil]
        split <;> simp [toItem]
  | ext p c ih =>
    intro hc hst k fuel used hf
    obtain ⟨hpne, hbr, hcc⟩ := hc
    obtain ⟨hsc, hsd⟩ := hst
    cases k with
    | nil => simp [traverseD_nil, traverseT, traverseReads, outR_nil]
    | cons a rest =>
      cases fuel with
      | zero => simp at hf
      | succ fuel =>
        simp only [traverseD, classify_ext, traverseT, traverseReads]
        by_cases hpre : p <+: a :: rest
        · have h1 := (cpl_drop_left_nil_iff p (a :: rest)).2 hpre
          obtain ⟨r, hr⟩ := hpre
          rw [← hr] at hf ⊢
          have hlp : 0 < p.length := List.length_pos_iff.2 hpne
          have hf' : r.length ≤ fuel := by simp at hf; omega
          simp only [cpl_append_left, List.drop_left, List.take_left, ↓reduceIte, List.drop_eq_nil_of_le (Nat.le_refl _)]
          rw [fetch_partialC H hlen db c _ hsc, outR_step]
          by_cases hcnd : isHashed H c = true ∧ lookup db (hashOf H c) = none
          · simp only [hcnd, and_self, ↓reduceIte]
          · simp only [hcnd, ↓reduceIte]
            exact ih hcc hsd r fuel _ hf'
        · have h1 : ¬ (p.drop (cpl p (a :: rest)) = []) := fun h => hpre ((cpl_drop_left_nil_iff _ _).1 h)
          simp only [h1, ↓reduceIte, outR_nil]
          split <;> simp [toItem]
  | branch ch v ih =>
    intro hc hst k fuel used hf
    cases k with
    | nil => simp [traverseD_nil, traverseT, traverseReads, outR_nil]
    | cons a rest =>
      cases fuel with
      | zero => simp at hf
      | succ fuel =>
        simp only [traverseD, classify_branch, traverseT, brItems_getD, traverseReads]
        rw [fetch_partialC H hlen db (ch a) _ (hst a).1, outR_step]
        by_cases hcnd : isHashed H (ch a) = true ∧ lookup db (hashOf H (ch a)) = none
        · simp only [hcnd, and_self, ↓reduceIte]
        · simp only [hcnd, ↓reduceIte]
          exact ih a (hc.1 a) (hst a).2 rest fuel _ (by simpa using hf)

theorem outR_eq {α : Type} (db : Db) (t : Node) (k pre : Path) (x : α) :
    outR db (traverseReads (stdHashing H) t k pre) x =
      match firstMissingRead H db t k pre with
      | some (h, pre) => .error (.missing h pre)
      | none => .ok x := rfl

/-- **`_traverse_from` on an incomplete database** -/
theorem traverseD_partial (hlen : ∀ b, (H b).length = 32) (db : Db) (t : Node) (hc : Canon t) (hst : PartialD H db t)
    (k : Path) (fuel : Nat) (used : Path) (hf : k.length ≤ fuel) :
    traverseD H db fuel (toItem H t) k used =
      match firstMissingRead H db t k used with
      | some (h, pre) => .error (.missing h pre)
      | none => .ok (toItem H (traverseT t k).1, (traverseT t k).2) := by
  rw [← outR_eq]
  exact traverseD_partial_aux H hlen db t hc hst k fuel used hf

/-- **`traverse_from(node, path)` on an incomplete database**: the tree-level description, or the first missing node -/
theorem traverseOutD_partial (hlen : ∀ b, (H b).length = 32) (db : Db) (t : Node) (hc : Canon t) (hst : PartialD H db t)
    (p : Path) (fuel : Nat) (hf : p.length < fuel) :
    traverseOutD H db fuel (toItem H t) p =
      match firstMissingRead H db t p [] with
      | some (h, pre) => .error (.missing h pre)
      | none => .ok (TravOut.toD H (traverseOut t p)) := by
  have htr := traverseD_partial H hlen db t hc hst p fuel [] (by omega)
  unfold traverseOutD
  rw [htr]
  cases firstMissingRead H db t p [] with
  | some e => rfl
  | none =>
    simp only [traverseOut]
    generalize traverseT t p = r
    obtain ⟨n, rem⟩ := r
    simp only [annotateD_toItem H hlen]
    by_cases hrem : rem = []
    · simp only [hrem, ↓reduceIte, TravOut.toD]
    · simp only [hrem, ↓reduceIte, TravOut.toD, simulateD_annotate]

/-- the root reference of a (possibly incomplete) database: the blank root for the blank tree; otherwise the hash of the
    tree, not mistaken for the blank root, and whatever is stored under it is the tree's encoding, which decodes back -/
def RootPartial (db : Db) (root : Hash) (t : Node) : Prop :=
  if isBlank t then root = blankRoot H
  else root = hashOf H t ∧ root ≠ blankRoot H ∧ (∀ b, lookup db root = some b → b = enc H t) ∧
    rlpDecode (enc H t) = some (toItem H t)

/-- **`get(key)` on an incomplete database** -/
theorem getD_partial (hlen : ∀ b, (H b).length = 32) (db : Db) (root : Hash) (t : Node) (hc : Canon t)
    (hroot : RootPartial H db root t) (hst : PartialD H db t) (k : Path) :
    getD H db root k =
      if isBlank t = false ∧ lookup db root = none then .error (.missing root [])
      else match firstMissingRead H db t k [] with
        | some (h, pre) => .error (.missing h pre)
        | none => .ok (get t k) := by
  have htrav := traverseD_partial H hlen db t hc hst k (fuelFor db k) [] (by simp [fuelFor]; omega)
  have hfin := finishD_trav H t hc k
  unfold RootPartial at hroot
  cases hb : isBlank t with
  | true =>
    simp only [hb, ↓reduceIte] at hroot
    subst hroot
    have ht := (isBlank_iff t).1 hb
    subst ht
    have hfetch : fetch H db (.str (blankRoot H)) [] = .ok (toItem H blank) := root_fetch_blank H db
    simp only [Bool.true_eq_false, false_and, ↓reduceIte]
    cases hm : firstMissingRead H db blank k [] with
    | some e =>
      rw [hm] at htrav
      exact getD_err_of_trav H db _ k _ _ hfetch htrav
    | none =>
      rw [hm] at htrav
      rw [getD_eq_of H db _ k _ _ _ hfetch htrav]
      exact hfin
  | false =>
    simp only [hb, Bool.false_eq_true, ↓reduceIte] at hroot
    obtain ⟨hr, hne, hl, hd⟩ := hroot
    subst hr
    cases hlk : lookup db (hashOf H t) with
    | none =>
      simp only [and_self, ↓reduceIte]
      exact getD_err_of_fetch H db _ k _ (fetch_hash_none H hlen db t [] hne hlk)
    | some b =>
      have := hl b hlk
      subst this
      have hfetch := fetch_hash_some H hlen db t [] hne hlk hd
      simp only [reduceCtorEq, and_false, ↓reduceIte]
      cases hm : firstMissingRead H db t k [] with
      | some e =>
        rw [hm] at htrav
        exact getD_err_of_trav H db _ k _ _ hfetch htrav
      | none =>
        rw [hm] at htrav
        rw [getD_eq_of H db _ k _ _ _ hfetch htrav]
        exact hfin

end PyTrie.HexD
