import PyTrie.Lemmas.RawSet
/-! `_delete` / `_delete_kv_node` / `_delete_branch_node` / `_normalize_branch_node` at raw level refine
    `deleteE` / `normalizeE`. -/
set_option linter.unusedSimpArgs false
namespace PyTrie.HexRaw
open PyTrie.Hex PyTrie.HexD PyTrie.Hex.Node
open PyTrie.HexW (NoPersist noPersist_pruneEv noPersist_readEv noPersist_append noPersist_nil normalizeE_noPersist
  deleteE_blank_noPersist persistEv_blank)
variable (H : Bytes → Bytes)

/-- `_normalize_branch_node` on the 17 items of a branch with at least one live entry -/
theorem rawNormalize_refines (hlen : ∀ b, (H b).length = 32) (st : St) (ch : Nib → Node) (v : Bytes)
    (hw : 1 ≤ weight ch v) (hs : ∀ i, StoredC H st.db (ch i)) :
    rawNormalize H st (brItems H ch v) =
      .ok (toItem H (normalizeE (stdHashing H) ch v).1, st.app (normalizeE (stdHashing H) ch v).2) := by
  unfold rawNormalize
  rw [twoTruthy_brItems H hlen, brItems_getD_16, truthy_str, find_brItems H hlen]
  unfold normalizeE
  unfold weight at hw ⊢
  generalize hl : liveIdx ch = l at hw
  match l, v with
  | [], [] => simp at hw
  | [], b :: bs => simp [fold_leaf H, fold_branch H]
  | [i], b :: bs => simp [fold_leaf H, fold_branch H]
  | i :: j :: r, v =>
    have : 2 ≤ (i :: j :: r).length + if v = [] then 0 else 1 := by simp; omega
    simp only [this, decide_true, ↓reduceIte, fold_branch H, app_nil]
  | [i], [] =>
    have hi : isBlank (ch i) = false := (mem_liveIdx ch i).1 (by simp [hl])
    have hg := getNodeR_refOf H hlen st (ch i) (hs i)
    simp only [List.length_cons, List.length_nil, ↓reduceIte, List.head?_cons, Option.map_some, brItems_getD, hg]
    generalize ch i = ci at hi hg
    cases ci with
    | blank => simp [isBlank] at hi
    | leaf p lv => simp [classify_leaf, pruneNodeR_toItem, toNib_val, fold_leaf H]
    | ext p c => simp [classify_ext, pruneNodeR_toItem, toNib_val, fold_ext H]
    | branch ch' v' => simp [classify_branch, toNib_val, fold_ext H]

/-! ### reference comparisons -/

theorem stdHashing_refEq (a b : Node) : (stdHashing H).refEq a b = (refOf H a == refOf H b) := rfl

theorem list_beq_str (l : List Item) (b : Bytes) : (Item.list l == Item.str b) = false := by
  simp [BEq.beq, Item.beq]

theorem str_beq_nil (h : Bytes) : (Item.str h == Item.str []) = decide (h = []) := by
  cases h <;> simp [BEq.beq, Item.beq]

theorem toItem_beq_blank (n : Node) : (toItem H n == Item.str []) = isBlank n := by
  cases n <;> simp [toItem, isBlank, list_beq_str, str_beq_nil]

theorem refOf_beq_blank (hlen : ∀ b, (H b).length = 32) (n : Node) : (refOf H n == Item.str []) = isBlank n := by
  cases hb : isBlank n with
  | true => rw [(isBlank_iff n).1 hb, refOf_blank, str_beq_nil]; rfl
  | false =>
    cases hh : isHashed H n with
    | false =>
      rw [refOf_embedded H n hb hh]
      obtain ⟨l, hl⟩ := toItem_list H n hb
      rw [hl, list_beq_str]
    | true =>
      rw [refOf_hashed H n hh, str_beq_nil]
      have h32 : (hashOf H n).length = 32 := hlen _
      have h1 : hashOf H n ≠ [] := by intro h; rw [h] at h32; simp at h32
      simp [h1]

/-! ### weight after blanking one child -/

theorem countP_le_add (l : List Nib) (p q : Nib → Bool) (a : Nib)
    (h : ∀ x, x ≠ a → p x = true → q x = true) (hn : l.Nodup) :
    l.countP p ≤ l.countP q + (if a ∈ l then 1 else 0) := by
  induction l with
  | nil => simp
  | cons x xs ih =>
    have hx : x ∉ xs := (List.nodup_cons.1 hn).1
    have := ih (List.nodup_cons.1 hn).2
    simp only [List.countP_cons, List.mem_cons]
    by_cases hxa : x = a
    · subst hxa
      simp only [hx, ↓reduceIte, true_or] at *
      split <;> split <;> omega
    · have hax : ¬ a = x := fun e => hxa e.symm
      have hpq := h x hxa
      simp only [hax, false_or]
      cases hp : p x <;> cases hq : q x <;> simp_all <;> omega

theorem weight_upd_blank (ch : Nib → Node) (a : Nib) (v : Bytes) :
    weight ch v ≤ weight (upd ch a blank) v + 1 := by
  rw [weight_eq, weight_eq]
  have := countP_le_add (List.finRange 16) (fun i => !(isBlank (ch i))) (fun i => !(isBlank (upd ch a blank i))) a
    (fun x hx hp => by simpa [upd, hx] using hp) (List.nodup_finRange 16)
  simp only [List.mem_finRange, ↓reduceIte] at this
  unfold nlive
  omega

theorem weight_nil_of_two_le (ch : Nib → Node) (v : Bytes) (h : 2 ≤ weight ch v) : 1 ≤ weight ch [] := by
  unfold weight at h ⊢
  split at h <;> simp <;> omega

theorem storedC_upd_blank (db : Db) (ch : Nib → Node) (a : Nib) (hs : ∀ i, StoredC H db (ch i)) (i : Nib) :
    StoredC H db (upd ch a blank i) := by
  unfold upd
  split
  · intro h; simp [isHashed, isBlank] at h
  · exact hs i

/-- **`_delete` refines `deleteE`** (in terms of `St.app`) -/
theorem rawDelete_refines_app (hlen : ∀ b, (H b).length = 32) (t : Node) :
    Canon t → ∀ (k : Path) (st : St) (fuel : Nat), StoredD H st.db t → 2 * k.length + 2 ≤ fuel →
    rawDelete H fuel st (toItem H t) k =
      .ok (toItem H (deleteE (stdHashing H) t k).1, st.app (deleteE (stdHashing H) t k).2) := by
  induction t with
  | blank =>
    intro _ k st fuel _ hf
    obtain ⟨f, rfl⟩ : ∃ f, fuel = f + 1 := ⟨fuel - 1, by omega⟩
    simp only [rawDelete, classify_blank, pruneNodeR_toItem, deleteE]
    simp [pruneEv, stdHashing, isHashed, isBlank, toItem]
  | leaf p pv =>
    intro _ k st fuel _ hf
    obtain ⟨f, rfl⟩ : ∃ f, fuel = f + 1 := ⟨fuel - 1, by omega⟩
    simp only [rawDelete, classify_leaf, pruneNodeR_toItem, deleteE]
    by_cases hkp : k = p
    · subst hkp; simp [toItem]
    · by_cases hpk : p <+: k <;> simp [hkp, hpk]
  | ext p c ih =>
    intro hc k st fuel hst hf
    obtain ⟨hpne, _, hcc⟩ := hc
    obtain ⟨hsc, hstc⟩ := hst
    obtain ⟨f, rfl⟩ : ∃ f, fuel = f + 1 := ⟨fuel - 1, by omega⟩
    simp only [rawDelete, classify_ext, pruneNodeR_toItem, deleteE]
    by_cases hpk : p <+: k
    · have hg := getNodeR_refOf H hlen (st.app (pruneEv (stdHashing H) (ext p c))) c
        (by rw [app_db_pruneEv]; exact hsc)
      have hlp : 0 < p.length := List.length_pos_iff.2 hpne
      have hle := hpk.length_le
      have hi := ih hcc (k.drop p.length) (st.app (pruneEv (stdHashing H) (ext p c) ++ readEv (stdHashing H) c)) f
        (by rw [app_db_prune_read]; exact hstc) (by simp only [List.length_drop]; omega)
      simp only [hpk, decide_true, Bool.not_true, Bool.false_eq_true, ↓reduceIte, hg, app_app, hi,
        persistNodeR_toItem, stdHashing_refEq, toItem_beq_blank]
      generalize deleteE (stdHashing H) c (k.drop p.length) = r
      obtain ⟨r1, r2⟩ := r
      by_cases he : (refOf H r1 == refOf H c) = true
      · simp [he, List.append_assoc]
      · simp only [he, Bool.false_eq_true, ↓reduceIte]
        cases r1 with
        | blank => simp [isBlank, toItem, List.append_assoc]
        | leaf p' v' => simp [isBlank, classify_leaf, pruneNodeR_toItem, fold_leaf H, List.append_assoc]
        | ext p' c' => simp [isBlank, classify_ext, pruneNodeR_toItem, fold_ext H, List.append_assoc]
        | branch ch' v' => simp [isBlank, classify_branch, fold_ext H, List.append_assoc]
    · simp [hpk]
  | branch ch bv ih =>
    intro hc k st fuel hst hf
    obtain ⟨hcc, hw⟩ := hc
    obtain ⟨f, rfl⟩ : ∃ f, fuel = f + 1 := ⟨fuel - 1, by omega⟩
    have hsC : ∀ i, StoredC H st.db (ch i) := fun i => (hst i).1
    cases k with
    | nil =>
      simp only [rawDelete, classify_branch, pruneNodeR_toItem, deleteE, setAt_brItems_val]
      rw [rawNormalize_refines H hlen _ ch [] (weight_nil_of_two_le ch bv hw)
        (by rw [app_db_pruneEv]; exact hsC)]
      simp only [app_app]
    | cons a rest =>
      have hg := getNodeR_refOf H hlen (st.app (pruneEv (stdHashing H) (branch ch bv))) (ch a)
        (by rw [app_db_pruneEv]; exact hsC a)
      have hi := ih a (hcc a) rest (st.app (pruneEv (stdHashing H) (branch ch bv) ++ readEv (stdHashing H) (ch a))) f
        (by rw [app_db_prune_read]; exact (hst a).2) (by simp at hf; omega)
      simp only [rawDelete, classify_branch, pruneNodeR_toItem, deleteE, brItems_getD, hg, app_app, hi,
        persistNodeR_toItem, stdHashing_refEq, refOf_beq_blank H hlen, setAt_brItems_child]
      have hnp := deleteE_blank_noPersist (stdHashing H) (ch a) rest
      generalize deleteE (stdHashing H) (ch a) rest = r at hnp
      obtain ⟨r1, r2⟩ := r
      by_cases he : (refOf H r1 == refOf H (ch a)) = true
      · simp [he, fold_branch H, List.append_assoc]
      · simp only [he, Bool.false_eq_true, ↓reduceIte]
        cases hb : isBlank r1 with
        | false => simp [fold_branch H, List.append_assoc]
        | true =>
          have e1 : r1 = blank := (isBlank_iff r1).1 hb
          subst e1
          have hnb : weight (upd ch a blank) bv + 1 ≥ weight ch bv := weight_upd_blank ch a bv
          have hn : ∀ st3 : St, st3.db = st.db → rawNormalize H st3 (brItems H (upd ch a blank) bv) =
              .ok (toItem H (normalizeE (stdHashing H) (upd ch a blank) bv).1,
                   st3.app (normalizeE (stdHashing H) (upd ch a blank) bv).2) :=
            fun st3 h3 => rawNormalize_refines H hlen st3 _ bv (by omega)
              (by rw [h3]; exact storedC_upd_blank H st.db ch a hsC)
          simp only [↓reduceIte]
          rw [hn _ (app_db_noPersist _ _ (by simp [hnp rfl]))]
          simp [List.append_assoc]

end PyTrie.HexRaw
