import PyTrie.Lemmas.FreeExec
import PyTrie.Lemmas.RawPartial
import PyTrie.Lemmas.ReadPartial
import PyTrie.Lemmas.RawReads
/-! **The tree-free executor on incomplete databases (C07).** When node bodies are absent from the database the
    tree-free `set` / `delete` (`Model/HexFree.lean`) either completes exactly as the tree-carrying executor does, or
    raises `MissingTrieNode` naming the same hash — and in that case its exit state is the entry state (pending
    prune marks dropped): nothing written, no count changed. So `C07.set_delete_missing_on_path`,
    `set_delete_missing_atomic` and `set_delete_retry_progress` are statements about the tree-free transcription. -/
namespace PyTrie.HexFree
open PyTrie PyTrie.Hex PyTrie.HexD PyTrie.HexW PyTrie.HexRaw PyTrie.HexRawT

variable (H : Bytes → Bytes)

/-! ### helpers -/

theorem dict_contains_eq_lookup (d : Dict Bytes) (h : Hash) : Dict.contains d h = (lookup d h).isSome := by
  induction d with
  | nil => rfl
  | cons e r ih =>
    simp only [Dict.contains, List.any_cons, lookup, List.find?_cons] at ih ⊢
    cases he : (e.1 == h) <;> simp [ih]

theorem store_contains_eq_lookup (st : Store) (hcache : st.cache = none) (h : Hash) :
    st.contains h = (lookup st.base h).isSome := by
  unfold Store.contains
  rw [hcache]
  exact dict_contains_eq_lookup st.base h

/-- events that are not writes, whose fetches the store answers, only add prune marks -/
theorem runEvs_quiet (prune : Bool) (root key : Bytes) (es : List Ev) (hnp : NoPersist es) :
    ∀ s : OpSt, (∀ h, Ev.read h ∈ es → s.store.contains h = true) →
    ∃ p, runEvs prune root key s es = ({ s with pending := p }, none) := by
  induction es with
  | nil => intro s _; exact ⟨s.pending, rfl⟩
  | cons e es ih =>
    intro s hr
    have hnp' : NoPersist es := fun x hx => hnp x (List.mem_cons_of_mem _ hx)
    have hr' : ∀ h, Ev.read h ∈ es → s.store.contains h = true := fun h hm => hr h (List.mem_cons_of_mem _ hm)
    cases e with
    | read y =>
      simp only [runEvs, runEv, hr y (List.mem_cons_self ..), ↓reduceIte]
      exact ih hnp' s hr'
    | prune y =>
      simp only [runEvs, runEv]
      obtain ⟨p, hp⟩ := ih hnp' (if prune = true then { s with pending := s.pending.inc y } else s)
        (by cases prune <;> exact hr')
      rw [hp]
      cases prune <;> exact ⟨p, rfl⟩
    | persist y b => exact absurd rfl (hnp _ (List.mem_cons_self ..) y b)

/-- the executor stops at the first fetch the database cannot answer, having only added prune marks -/
theorem runEvs_firstMissing (prune : Bool) (root key : Bytes) (h : Hash) (es : List Ev) (hrf : ReadsFirst es) :
    ∀ s : OpSt, s.store.cache = none → firstMissing s.store.base es = some h →
    ∃ p, runEvs prune root key s es = ({ s with pending := p }, some (.missingTrieNode h root key none)) := by
  induction es with
  | nil => intro s _ hf; simp at hf
  | cons e es ih =>
    intro s hcache hf
    cases e with
    | read y =>
      have hrf' : ReadsFirst es := hrf
      simp only [runEvs, runEv, store_contains_eq_lookup s.store hcache]
      cases hl : lookup s.store.base y with
      | none =>
        have : h = y := by simpa [firstMissing, hl] using hf.symm
        subst this
        exact ⟨s.pending, by simp⟩
      | some b =>
        have hf' : firstMissing s.store.base es = some h := by simpa [firstMissing, hl] using hf
        simp only [Option.isSome_some, ↓reduceIte]
        exact ih hrf' s hcache hf'
    | prune y =>
      have hrf' : ReadsFirst es := hrf
      have hf' : firstMissing s.store.base es = some h := by simpa [firstMissing] using hf
      simp only [runEvs, runEv]
      obtain ⟨p, hp⟩ := ih hrf' (if prune = true then { s with pending := s.pending.inc y } else s)
        (by cases prune <;> exact hcache) (by cases prune <;> exact hf')
      rw [hp]
      cases prune <;> exact ⟨p, rfl⟩
    | persist y b =>
      have hnr : NoRead es := hrf.1
      have : firstMissing s.store.base es = none := firstMissing_noRead _ _ hnr
      have hf' : firstMissing s.store.base es = some h := by simpa [firstMissing] using hf
      rw [this] at hf'; cases hf'

theorem forget_error_inv {α : Type} (r : St × Except Err α) (e : Err) (h : forget r = .error e) : r.2 = .error e := by
  obtain ⟨st', x⟩ := r
  cases x with
  | error e' => simpa using h
  | ok y => simp at h

/-- the body of an operation on a partial database, up to the state at a failure -/
theorem bodyT_forget (hlen : ∀ b, (H b).length = 32) (T : TrieSt) (hc : Canon T.tree) (key : Bytes) (val : Option Bytes)
    (db : Db) (hst : PartialD H db T.tree) :
    forget (bodyT H db (toItem H T.tree) key val) =
      match firstMissing db (opTree (stdHashing H) T key val).2 with
      | some h => .error (.missing h)
      | none => .ok (toItem H (opTree (stdHashing H) T key val).1,
          { db := applyPersists db (opTree (stdHashing H) T key val).2, evs := (opTree (stdHashing H) T key val).2 }) := by
  have hd := rawDelete_partial H hlen T.tree hc (nibs key) { db := db, evs := [] } hst (2 * (nibs key).length + 4) (by omega)
  unfold bodyT opTree
  cases val with
  | none => simp only []; rw [← rawDeleteT_agrees, hd]; simp only [List.nil_append]; rfl
  | some v =>
    simp only []
    split
    · rw [← rawDeleteT_agrees, hd]; simp only [List.nil_append]; rfl
    · rw [← rawSetT_agrees,
        rawSet_partial H hlen T.tree hc (nibs key) v { db := db, evs := [] } hst (2 * (nibs key).length + 4) (by omega)]
      simp only [List.nil_append]; rfl

theorem bodyT_quiet (hlen : ∀ b, (H b).length = 32) (db : Db) (rootNode : Item) (key : Bytes) (val : Option Bytes) (h : Hash)
    (he : (bodyT H db rootNode key val).2 = .error (.missing h)) :
    Quiet { db := db, evs := [] } (bodyT H db rootNode key val).1 := by
  unfold bodyT at he ⊢
  cases val with
  | none => exact delete_atomic_gen H hlen h _ _ _ _ (.inl he)
  | some v =>
    simp only [] at he ⊢
    split
    · next hv => rw [if_pos hv] at he; exact delete_atomic_gen H hlen h _ _ _ _ (.inl he)
    · next hv => rw [if_neg hv] at he; exact (set_atomic_both H h _).1 _ _ _ _ he

theorem bodyT_answered (db : Db) (rootNode : Item) (key : Bytes) (val : Option Bytes) :
    Answered (bodyT H db rootNode key val).1 := by
  unfold bodyT
  cases val with
  | none => exact answered_rawDeleteT H _ _ _ _ (answered_nil db)
  | some v =>
    simp only []
    split
    · exact answered_rawDeleteT H _ _ _ _ (answered_nil db)
    · exact answered_rawSetT H _ _ _ _ _ (answered_nil db)

/-- the root fetch on a partial database: absent on both sides, or the raw encoding of the tree -/
theorem root_fetch_partial (hlen : ∀ b, (H b).length = 32) (T : TrieSt) (s : OpSt) (hcache : s.store.cache = none)
    (hroot : RootPartial H s.store.base T.root T.tree) :
    ((T.root != blankRoot H && !(s.store.contains T.root)) = true ∧
      getNodeT H { db := s.store.base, evs := [] } (.str T.root) =
        ({ db := s.store.base, evs := [] }, .error (.missing T.root))) ∨
    ((T.root != blankRoot H && !(s.store.contains T.root)) = false ∧
      ∃ evs0, getNodeT H { db := s.store.base, evs := [] } (.str T.root) =
        ({ db := s.store.base, evs := evs0 }, .ok (toItem H T.tree))) := by
  unfold RootPartial at hroot
  cases hb : isBlank T.tree with
  | true =>
    simp only [hb, ↓reduceIte] at hroot
    right
    rw [hroot, (isBlank_iff T.tree).1 hb]
    refine ⟨by simp, [], ?_⟩
    apply getNodeT_ok
    simp only [getNodeR, toItem]
    split
    · rfl
    · simp
  | false =>
    simp only [hb, Bool.false_eq_true, ↓reduceIte] at hroot
    obtain ⟨hr, hne, hl, hd⟩ := hroot
    have h32 : T.root.length = 32 := by rw [hr]; exact hlen _
    have hn1 : T.root ≠ [] := by intro h; rw [h] at h32; simp at h32
    have hn2 : ¬ T.root.length < 32 := by omega
    rw [store_contains_eq_lookup s.store hcache]
    cases hlk : lookup s.store.base T.root with
    | none =>
      left
      refine ⟨by simp [hne], ?_⟩
      apply getNodeT_error
      simp [getNodeR, hn1, hne, hn2, hlk]
    | some b =>
      right
      have := hl b hlk
      subst this
      refine ⟨by simp, [Ev.read T.root], ?_⟩
      apply getNodeT_ok
      simp [getNodeR, hn1, hne, hn2, hlk, hd]

/-- the body inside `_prune_on_success` on a partial database: same result; same exit state up to pending prune marks -/
theorem freeCore_partial (hlen : ∀ b, (H b).length = 32) (T : TrieSt) (hc : Canon T.tree) (key : Bytes) (val : Option Bytes)
    (s : OpSt) (hcache : s.store.cache = none)
    (hroot : RootPartial H s.store.base T.root T.tree) (hst : PartialD H s.store.base T.tree) :
    (freeCore H (toFree T) key val s).2 =
      (match (opCore (stdHashing H) (blankRoot H) T key val s).2 with
       | .ok T' => .ok (toFree T')
       | .error e => .error e) ∧
    ({ (freeCore H (toFree T) key val s).1 with pending := [] } : OpSt) =
      { (opCore (stdHashing H) (blankRoot H) T key val s).1 with pending := [] } := by
  have e0 : (toFree T).root = T.root := rfl
  have e1 : (toFree T).prune = T.prune := rfl
  have hdb : storeDb s.store = s.store.base := by simp [storeDb, hcache]
  rcases root_fetch_partial H hlen T s hcache hroot with ⟨hchk, hget⟩ | ⟨hchk, evs0, hget⟩
  · unfold freeCore opCore
    rw [hdb, if_pos hchk, e0, hget]
    exact ⟨rfl, rfl⟩
  · have hfg := bodyT_forget H hlen T hc key val s.store.base hst
    unfold freeCore opCore
    rw [hdb, if_neg (by rw [hchk]; simp), e0, e1, hget]
    simp only []
    cases hfm : firstMissing s.store.base (opTree (stdHashing H) T key val).2 with
    | none =>
      rw [hfm] at hfg
      rw [forget_ok_inv _ _ _ hfg]
      simp only []
      rcases hre : runEvs T.prune T.root key s (opTree (stdHashing H) T key val).2 with ⟨s1, _ | x⟩
      · simp only []
        rw [schedOldRootF_eq, writeRootF_eq]
        rcases hw : writeRoot (stdHashing H) (blankRoot H) T (opTree (stdHashing H) T key val).1
            (schedOldRoot (stdHashing H) (blankRoot H) T s1) with x | ⟨s3, nr⟩
        · exact ⟨rfl, rfl⟩
        · simp only []
          have e2 : (if T.prune = true then completePruning s3 s3.pending else (s3, none)) = finishPrune T s3 := rfl
          rw [e2]
          rcases hf : finishPrune T s3 with ⟨s4, _ | x⟩
          · exact ⟨rfl, rfl⟩
          · exact ⟨rfl, rfl⟩
      · exact ⟨rfl, rfl⟩
    | some h =>
      rw [hfm] at hfg
      have he := forget_error_inv _ _ hfg
      have hq := bodyT_quiet H hlen s.store.base (toItem H T.tree) key val h he
      have ha := bodyT_answered H s.store.base (toItem H T.tree) key val
      obtain ⟨hnp, hrd⟩ := quiet_answered_reads s.store.base _ hq ha
      obtain ⟨p, hp⟩ := runEvs_quiet T.prune T.root key _ hnp s
        (fun x hm => by rw [store_contains_eq_lookup s.store hcache]; exact hrd x hm)
      obtain ⟨p', hp'⟩ := runEvs_firstMissing T.prune T.root key h _ (opTree_readsFirst (stdHashing H) T key val)
        s hcache hfm
      rw [hp, hp', he]
      exact ⟨rfl, rfl⟩

/-- **same outcome as the tree-carrying executor on any partial database** (plain store; pruning on or off) -/
theorem freeSetDel_partial (hlen : ∀ b, (H b).length = 32) (T : TrieSt) (hc : Canon T.tree) (key : Bytes) (val : Option Bytes)
    (s : OpSt) (hcache : s.store.cache = none)
    (hroot : RootPartial H s.store.base T.root T.tree) (hst : PartialD H s.store.base T.tree) :
    freeSetDel H (toFree T) key val s =
      ((opSetDel (stdHashing H) (blankRoot H) T key val s).1,
       match (opSetDel (stdHashing H) (blankRoot H) T key val s).2 with
       | .ok T' => .ok (toFree T')
       | .error e => .error e) := by
  obtain ⟨h1, h2⟩ := freeCore_partial H hlen T hc key val { s with pending := [] } hcache hroot hst
  unfold freeSetDel opSetDel
  exact Prod.ext h2 h1

/-- **a tree-free `set` / `delete` that raises `MissingTrieNode` leaves database and reference counts as they were**, and
    the hash it names is really absent and lies on the requested path (or is the root, or the sibling a delete collapses) -/
theorem freeSetDel_missing_atomic (hlen : ∀ b, (H b).length = 32) (T : TrieSt) (hc : Canon T.tree) (key : Bytes) (val : Option Bytes)
    (s : OpSt) (hcache : s.store.cache = none)
    (hroot : RootPartial H s.store.base T.root T.tree) (hst : PartialD H s.store.base T.tree)
    (hrs : RefSound (stdHashing H) T.tree (nibs key))
    (h root rk : Bytes) (pre : Option Path)
    (he : (freeSetDel H (toFree T) key val s).2 = .error (.missingTrieNode h root rk pre)) :
    (freeSetDel H (toFree T) key val s).1.store = s.store ∧ (freeSetDel H (toFree T) key val s).1.counts = s.counts ∧
    (freeSetDel H (toFree T) key val s).1.pending = [] ∧
    s.store.contains h = false ∧
    (h = T.root ∨ OnPath (stdHashing H) T.tree (nibs key) h ∨ SiblingOnPath (stdHashing H) T.tree (nibs key) h) := by
  have _ := hrs
  rw [freeSetDel_partial H hlen T hc key val s hcache hroot hst] at he ⊢
  simp only [] at he ⊢
  have he' : (opSetDel (stdHashing H) (blankRoot H) T key val s).2 = .error (.missingTrieNode h root rk pre) := by
    generalize (opSetDel (stdHashing H) (blankRoot H) T key val s).2 = r at he
    cases r with
    | ok T' => simp at he
    | error e => simpa using he
  have hpath := opSetDel_missing_on_path (stdHashing H) (blankRoot H) T hc key val s h root rk pre he'
  unfold opSetDel at he' ⊢
  obtain ⟨h1, h2, h3, _, _⟩ :=
    opCore_missing (stdHashing H) (blankRoot H) T key val { s with pending := [] } h root rk pre _ rfl he'
  exact ⟨h1, h2, rfl, h3, hpath⟩

end PyTrie.HexFree
