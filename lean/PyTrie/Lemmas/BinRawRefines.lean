import PyTrie.Model.BinRaw
import PyTrie.Lemmas.BranchProofs
import PyTrie.Lemmas.BinRawInd
/-! **Refinement** for the binary trie: the raw-level `_set` (`Model/BinRaw.lean`, over node hashes and a
    database of encoded nodes) computes, on a database that stores a canonical tree, the hash of the
    tree-level result of `bset` and saves exactly the nodes `bsetS` lists, in order; it raises
    `NodeOverrideError` exactly when `bset` does. Collisions are excluded by a run-level predicate on the
    concrete nodes involved (no injectivity of the hash is assumed). -/
namespace PyTrie.BinRaw
open PyTrie.Bin PyTrie.Bin.BNode

variable (H : Bytes → Bytes)

/-- every node of `t` is stored in `db` under its hash with its encoding, and no node hashes to the blank hash -/
def AllStored (db : Db) (t : BNode) : Prop :=
  ∀ n, Sub n t → hashNode H n ≠ H [] ∧ lookup db (hashNode H n) = some (encNode H n)

/-- the database after saving the listed tree nodes in order (newest first) -/
def applySaves (db : Db) (saves : List BNode) : Db :=
  saves.foldl (fun d n => (hashNode H n, encNode H n) :: d) db

/-- run-level no-collision predicate for one operation: among the old nodes of `t` and the nodes saved by
    the operation, equal hashes mean equal encodings, and no saved node hashes to the blank hash -/
def NoCollisionOp (t : BNode) (saves : List BNode) : Prop :=
  (∀ s ∈ saves, hashNode H s ≠ H []) ∧
  (∀ s ∈ saves, ∀ n, Sub n t → hashNode H s = hashNode H n → encNode H s = encNode H n) ∧
  (∀ s ∈ saves, ∀ s' ∈ saves, hashNode H s = hashNode H s' → encNode H s = encNode H s')

/-- **`_set` on a non-empty trie refines `bsetS`** (store, delete and delete_subtrie modes) -/
theorem rawSet_refines (hlen : ∀ b, (H b).length = 32) (t : BNode) (hc : BCanon t) (k : Bits) (v : Bytes) (sub : Bool)
    (st : St) (hst : AllStored H st.db t) (hnc : NoCollisionOp H t (bsetS t k v sub).2)
    (fuel : Nat) (hf : k.length + 1 < fuel) :
    rawSet H (H []) fuel st (hashNode H t) k v sub =
      match (bsetS t k v sub).1 with
      | .ok t' => .ok (rootOf H t', { db := applySaves H st.db (bsetS t k v sub).2 })
      | .error _ => .error .override := by
  have hyp : Hyp H st t (bsetS t k v sub).2 := ⟨hst, hnc.1, hnc.2.1, hnc.2.2⟩
  rw [rawSet_main H hlen t hc k v sub st hyp fuel hf]
  rfl

/-- **`_set` on the empty trie** -/
theorem rawSet_blank (hlen : ∀ b, (H b).length = 32) (k : Bits) (hk : k ≠ []) (v : Bytes) (sub : Bool) (st : St) (fuel : Nat) (hf : 0 < fuel) :
    rawSet H (H []) fuel st (H []) k v sub =
      .ok (rootOf H (match bsetTop none k v sub with | .ok t' => t' | .error _ => none),
           { db := applySaves H st.db (bsetTopS none k v sub).2 }) := by
  cases fuel with
  | zero => omega
  | succ f =>
    rw [rawSet_blank_eq]
    by_cases hv : v ≠ []
    · rw [if_pos hv, saveLeaf_enc H st v hv]
      show saveKv H _ k (hashNode H (leaf v)) = _
      rw [saveKv_enc H hlen _ k hk (leaf v)]
      simp only [bsetTop, bsetTopS, if_pos hv]
      rfl
    · rw [if_neg hv]
      simp only [bsetTop, bsetTopS, if_neg hv]
      rfl

end PyTrie.BinRaw
