import PyTrie.Lemmas.WorldBatch
import PyTrie.Lemmas.PruneRunNP
/-! `squash_changes` on a **non-pruning** trie (C05): the batch trie is a pruning trie over a ScratchDB whose
    reference counts start *empty* although the wrapped database is not — so counts of pre-existing nodes
    are meaningless (they are clamped at zero) and buffered deletes of such nodes are mere markers that the
    commit (`do_deletes=False`) ignores, while reads fall through them. The invariant tracks exactness only
    for hashes that are **not** keys of the wrapped database ("new" hashes): for those, count = true number of
    references and "buffered as a write" ⇔ referenced. Consequences at commit: every node of the final tree
    is in the database, nothing pre-existing is removed, and every *added* key is a node of the final tree
    (no intermediate-only node is added). -/
namespace PyTrie.HexW
open PyTrie.Hex hiding get set
open PyTrie.Hex.Node

variable (Hs : Hashing) (blankRootHash : Hash)

/-- invariant of the batch trie of a non-pruning outer trie whose database was `base0` when the block began -/
structure BatchInvNP (base0 : Dict Bytes) (T : TrieSt) (s : OpSt) : Prop where
  prune : T.prune = true
  base : s.store.base = base0
  cached : ∃ c, s.store.cache = some c ∧ NoDupKeys c
  root : if isBlank T.tree then T.root = blankRootHash else T.root = Hs.hashOf T.tree ∧ T.root ≠ blankRootHash
  /-- for hashes that are not keys of the wrapped database the counts are exact … -/
  newCounts : ∀ h, Dict.contains base0 h = false → s.counts.val h = occRoot Hs T.tree h
  /-- … and such a hash will be committed iff it is referenced -/
  newKeys : ∀ h, Dict.contains base0 h = false → (s.store.view h = true ↔ 0 < occRoot Hs T.tree h)
  /-- everything referenced is readable (pre-existing nodes through the wrapped database, whatever was buffered) -/
  readable : ∀ h, 0 < occRoot Hs T.tree h → s.store.contains h = true
  pending : s.pending = []

/-- entering the block on a non-pruning trie whose hashed nodes (and root) are keys of the database -/
theorem batchInvNP_begin (base0 : Dict Bytes) (T : TrieSt)
    (hroot : if isBlank T.tree then T.root = blankRootHash else T.root = Hs.hashOf T.tree ∧ T.root ≠ blankRootHash)
    (hkeys : ∀ h, 0 < occRoot Hs T.tree h → Dict.contains base0 h = true) (fa : Option Nat) :
    BatchInvNP Hs blankRootHash base0 { T with prune := true }
      { store := { base := base0, cache := some [], failAfter := fa }, counts := [], pending := [] } := by
  have hz : ∀ h, Dict.contains base0 h = false → occRoot Hs T.tree h = 0 := by
    intro h hb
    cases hn : occRoot Hs T.tree h with
    | zero => rfl
    | succ n =>
      have := hkeys h (by omega)
      rw [hb] at this
      cases this
  refine ⟨rfl, rfl, ⟨[], rfl, NoDupKeys.nil⟩, hroot, ?_, ?_, ?_, rfl⟩
  · intro h hb
    show Counts.val [] h = occRoot Hs T.tree h
    rw [hz h hb, Counts.val_nil]
  · intro h hb
    show Store.view _ h = true ↔ 0 < occRoot Hs T.tree h
    rw [hz h hb]
    simp [Store.view, Dict.get?_nil, hb]
  · intro h hp
    exact Store.contains_of_base _ h (hkeys h hp)

theorem BatchInvNP.cachedOn {base0 : Dict Bytes} {T : TrieSt} {s : OpSt}
    (hinv : BatchInvNP Hs blankRootHash base0 T s) : s.store.CachedOn base0 :=
  ⟨hinv.base, hinv.cached⟩

/-- the whole body of a `set` / `delete` on the batch trie of a non-pruning trie: never raises, and is exact
    on the hashes that are not keys of the wrapped database -/
theorem opCore_batchNP (base0 : Dict Bytes) (T : TrieSt) (key : Bytes) (val : Option Bytes) (s : OpSt)
    (hinv : BatchInvNP Hs blankRootHash base0 T s)
    (hrs : RefSound Hs T.tree (nibs key))
    (hblank : isBlank (opTree Hs T key val).1 = false → Hs.hashOf (opTree Hs T key val).1 ≠ blankRootHash) :
    ∃ s4 r, opCore Hs blankRootHash T key val { s with pending := [] } =
        (s4, .ok { T with tree := (opTree Hs T key val).1, root := r }) ∧
      s4.store.CachedOn base0 ∧
      (if isBlank (opTree Hs T key val).1 then r = blankRootHash
        else r = Hs.hashOf (opTree Hs T key val).1 ∧ r ≠ blankRootHash) ∧
      (∀ h, Dict.contains base0 h = false → s4.counts.val h = occRoot Hs (opTree Hs T key val).1 h) ∧
      (∀ h, Dict.contains base0 h = false →
        (s4.store.view h = true ↔ 0 < occRoot Hs (opTree Hs T key val).1 h)) := by
  have hroot := hinv.root
  have hc0 : ({ s with pending := [] } : OpSt).store.CachedOn base0 := hinv.cachedOn
  -- the root is readable
  have hrootc : isBlank T.tree = false → s.store.contains T.root = true := by
    intro hb
    rw [hb] at hroot
    simp only [Bool.false_eq_true, ↓reduceIte] at hroot
    apply hinv.readable
    rw [hroot.1]
    simp [occRoot, hb]
  have hcheck : (T.root != blankRootHash &&
      !(({ s with pending := [] } : OpSt).store.contains T.root)) = false := by
    cases hb : isBlank T.tree
    · have : s.store.contains T.root = true := hrootc hb
      simp [this]
    · rw [hb] at hroot
      simp only [↓reduceIte] at hroot
      simp [hroot]
  -- the events
  obtain ⟨s1, h1, R⟩ := runEvs_specNP base0 T.root key (opTree Hs T key val).2 { s with pending := [] }
    hc0 NoDupKeys.nil PosVals.nil (by
      intro h hm
      have := opTree_reads_occ Hs T key val h hm
      show s.store.contains h = true
      apply hinv.readable
      unfold occRoot; omega)
  -- scheduling the old root
  obtain ⟨e2s, e2c, nd2, pos2, hp2⟩ := schedOldRoot_specNP Hs blankRootHash T s1 hinv.prune hroot
    (fun hb => R.readable _ (hrootc hb)) R.nodup R.pos
  -- writing the new root
  obtain ⟨s3, h3, hc3, hpend3, hcnt3, hkeys3⟩ := writeRoot_specNP Hs blankRootHash base0 T hinv.prune
    (opTree Hs T key val).1 (schedOldRoot Hs blankRootHash T s1) (by rw [e2s]; exact R.cached)
  -- the accounting before `_complete_pruning`, for new hashes
  have hacc : ∀ h, Dict.contains base0 h = false →
      s3.counts.val h = occRoot Hs (opTree Hs T key val).1 h + s3.pending.val h := by
    intro h hnew
    have hb := opTree_balance Hs T key val hrs h
    have hs := root_split Hs T.tree h
    have hoe := occ_eq Hs T.tree h
    have c0 : s.counts.val h = occRoot Hs T.tree h := hinv.newCounts h hnew
    have c1 := R.counts h
    have p1 := R.pending h
    have p2 := hp2 h
    have c3 := hcnt3 h
    rw [hpend3, c3, e2c, c1, p2, p1]
    show s.counts.val h + _ + _ = _ + (Counts.val [] h + _ + _)
    rw [c0, Counts.val_nil]
    unfold occRoot
    omega
  have hpos3 : ∀ h, Dict.contains base0 h = false → (s3.store.view h = true ↔ 0 < s3.counts.val h) := by
    intro h hnew
    have c0 : s.counts.val h = occRoot Hs T.tree h := hinv.newCounts h hnew
    have k0 := hinv.newKeys h hnew
    have c1 := R.counts h
    have k1 := R.keys h
    have c3 := hcnt3 h
    rw [c3, e2c, c1, hkeys3, e2s, k1]
    change (s.store.view h = true ∨ _) ∨ _ ↔ 0 < s.counts.val h + _ + _
    rw [k0, ← c0]
    by_cases hn : isBlank (opTree Hs T key val).1 = false ∧ Hs.hashOf (opTree Hs T key val).1 = h
    · rw [if_pos hn]
      exact ⟨fun _ => by omega, fun _ => Or.inr hn⟩
    · rw [if_neg hn]
      constructor
      · rintro ((a | a) | a)
        · omega
        · omega
        · exact absurd a hn
      · intro a
        left
        omega
  -- `_complete_pruning` (never raises on a ScratchDB)
  obtain ⟨s4, h4, hc4, _, hcnt4, hkeys4⟩ := completePruning_specNP base0 s3.pending
    (by rw [hpend3]; exact nd2) s3 hc3
  have hfin : finishPrune T s3 = (s4, none) := by
    unfold finishPrune; rw [hinv.prune]; simp only [↓reduceIte]; exact h4
  refine ⟨s4, _, opCore_eq Hs blankRootHash T key val _ hcheck s1 (by rw [hinv.prune]; exact h1) s3 _ h3 s4 hfin,
    hc4, ?_, ?_, ?_⟩
  · cases hb : isBlank (opTree Hs T key val).1
    · simp only [Bool.false_eq_true, ↓reduceIte, true_and]
      exact hblank hb
    · simp
  · intro h hnew
    rw [hcnt4, hacc h hnew]
    omega
  · intro h hnew
    rw [hkeys4]
    have ha := hacc h hnew
    constructor
    · rintro ⟨a, b⟩
      have hp := (hpos3 h hnew).1 a
      cases hcn : Dict.contains s3.pending h
      · have := Counts.val_of_not_contains _ _ hcn
        omega
      · have := b hcn
        omega
    · intro hp
      exact ⟨(hpos3 h hnew).2 (by omega), fun _ => by omega⟩

/-- **every `set` / `delete` on the batch trie preserves the invariant and never raises** -/
theorem opSetDel_batchInvNP (base0 : Dict Bytes) (T : TrieSt) (hc : Canon T.tree) (key : Bytes) (val : Option Bytes)
    (s : OpSt) (hinv : BatchInvNP Hs blankRootHash base0 T s)
    (hrs : RefSound Hs T.tree (nibs key))
    (hblank : isBlank (opTree Hs T key val).1 = false → Hs.hashOf (opTree Hs T key val).1 ≠ blankRootHash) :
    ∃ T', (opSetDel Hs blankRootHash T key val s).2 = .ok T' ∧
      T'.tree = (opTree Hs T key val).1 ∧
      BatchInvNP Hs blankRootHash base0 T' (opSetDel Hs blankRootHash T key val s).1 := by
  obtain ⟨s4, r, hop, hc4, hrootNew, hcounts, hkeys⟩ :=
    opCore_batchNP Hs blankRootHash base0 T key val s hinv hrs hblank
  refine ⟨{ T with tree := (opTree Hs T key val).1, root := r }, ?_, rfl, ?_⟩
  · unfold opSetDel; simp only; rw [hop]
  · unfold opSetDel; simp only; rw [hop]
    refine ⟨hinv.prune, hc4.1, hc4.2, hrootNew, hcounts, hkeys, ?_, rfl⟩
    intro h hp
    show s4.store.contains h = true
    cases hb : Dict.contains base0 h
    · rw [Store.contains_eq_view_of_new _ _ (by rw [hc4.1]; exact hb)]
      exact (hkeys h hb).2 hp
    · exact Store.contains_of_base _ _ (by rw [hc4.1]; exact hb)

/-- the commit without deletes (no write fault): the database afterwards has exactly the old keys plus the
    keys buffered as writes -/
theorem commitLoop_noDeletes_keys (cache : Dict (Option Bytes)) (base : Dict Bytes) (hnd : NoDupKeys cache) :
    (commitLoop false cache base none).1 = true ∧
    ∀ h, Dict.contains (commitLoop false cache base none).2.1 h =
      (Dict.contains base h || (match Dict.get? cache h with | some (some _) => true | _ => false)) := by
  induction cache generalizing base with
  | nil =>
    refine ⟨rfl, fun h => ?_⟩
    simp [commitLoop, Dict.get?_nil]
  | cons e rest ih =>
    obtain ⟨k, o⟩ := e
    have hnd' := hnd
    unfold NoDupKeys at hnd'
    rw [List.map_cons, List.nodup_cons] at hnd'
    have hrest : Dict.contains rest k = false := by
      cases hb : Dict.contains rest k
      · rfl
      · exact absurd ((Dict.contains_iff_mem_keys rest k).1 hb) hnd'.1
    cases o with
    | some v =>
      obtain ⟨i1, i3⟩ := ih (Dict.insert base k v) hnd'.2
      refine ⟨by simpa [commitLoop] using i1, fun h => ?_⟩
      have e : (commitLoop false ((k, some v) :: rest) base none).2.1 =
          (commitLoop false rest (Dict.insert base k v) none).2.1 := by simp [commitLoop]
      rw [e, i3, Dict.get?_cons]
      by_cases hk : k = h
      · subst hk
        rw [Dict.contains_insert_self]
        simp
      · have hk' : (k == h) = false := by simpa using hk
        rw [Dict.contains_insert_other _ _ _ _ (fun e => hk e.symm)]
        simp [hk']
    | none =>
      obtain ⟨i1, i3⟩ := ih base hnd'.2
      refine ⟨by simpa [commitLoop] using i1, fun h => ?_⟩
      have e : (commitLoop false ((k, none) :: rest) base none).2.1 =
          (commitLoop false rest base none).2.1 := by simp [commitLoop]
      rw [e, i3, Dict.get?_cons]
      by_cases hk : k = h
      · subst hk
        rw [Dict.get?_eq_none_of_not_contains rest k hrest]
        simp
      · have hk' : (k == h) = false := by simpa using hk
        simp [hk']

/-- **committed block on a non-pruning trie**: (a) nothing pre-existing is removed, (b) every node of the new
    tree is in the database, (c) every key that was added is a node of the new tree — no node that only served
    intermediate states of the block is added -/
theorem batch_commit_np (base0 : Dict Bytes) (T : TrieSt) (s : OpSt) (hinv : BatchInvNP Hs blankRootHash base0 T s)
    (c : Dict (Option Bytes)) (hcache : s.store.cache = some c) :
    let db' := (commitLoop false c base0 none).2.1
    (∀ h, Dict.contains base0 h = true → Dict.contains db' h = true) ∧
    (∀ h, 0 < occRoot Hs T.tree h → Dict.contains db' h = true) ∧
    (∀ h, Dict.contains db' h = true → Dict.contains base0 h = false → 0 < occRoot Hs T.tree h) := by
  obtain ⟨c', hc', hnd⟩ := hinv.cached
  rw [hcache] at hc'
  simp only [Option.some.injEq] at hc'
  subst hc'
  have hcl := (commitLoop_noDeletes_keys c base0 hnd).2
  have hview : ∀ h, Dict.contains base0 h = false →
      s.store.view h = (match Dict.get? c h with | some (some _) => true | _ => false) := by
    intro h hb
    unfold Store.view
    rw [hcache, hinv.base]
    simp only
    cases hg : Dict.get? c h with
    | none => simp [hb]
    | some o => cases o <;> rfl
  refine ⟨fun h hb => ?_, fun h hp => ?_, fun h hd hb => ?_⟩
  · show Dict.contains (commitLoop false c base0 none).2.1 h = true
    rw [hcl, hb]; rfl
  · show Dict.contains (commitLoop false c base0 none).2.1 h = true
    rw [hcl]
    cases hb : Dict.contains base0 h
    · rw [← hview h hb, (hinv.newKeys h hb).2 hp]; rfl
    · rfl
  · have hd' : Dict.contains (commitLoop false c base0 none).2.1 h = true := hd
    rw [hcl, hb, ← hview h hb] at hd'
    exact (hinv.newKeys h hb).1 (by simpa using hd')

end PyTrie.HexW
