import PyTrie.Lemmas.FreeHistory
/-! Along a history with blocks the tree carried by the tree-carrying world is the tree-level fold of the calls that
    count (direct calls, calls of committed blocks). Same induction as `run_lockstep`, tracking the tree. -/
namespace PyTrie.HexFree
open PyTrie PyTrie.Hex PyTrie.HexD PyTrie.HexW PyTrie.HexRaw PyTrie.HexRawT

variable (H : Bytes → Bytes)

/-- the tree-level effect of one call -/
def opNode (t : Node) (kv : Bytes × Option Bytes) : Node :=
  match kv.2 with
  | some v => if v = [] then Hex.delete t (nibs kv.1) else Hex.set t (nibs kv.1) v
  | none => Hex.delete t (nibs kv.1)

/-- the tree-level effect of one step: a direct call, a committed block (its calls), an aborted block (nothing) -/
def stepNode (t : Node) : HStep → Node
  | .op k v => opNode t (k, v)
  | .block inner false => inner.foldl opNode t
  | .block _ true => t

theorem opTree_fst_opNode (T : TrieSt) (hc : Canon T.tree) (k : Bytes) (v : Option Bytes)
    (hrs : RefSound (stdHashing H) T.tree (nibs k)) :
    (opTree (stdHashing H) T k v).1 = opNode T.tree (k, v) := by
  rw [opTree_fst_p (stdHashing H) T hc k v hrs]
  cases v <;> rfl

/-- a direct call applies the tree-level operation to the outer tree -/
theorem tree_op (prune : Bool) (w : World) (hinv : WInv H prune w) (k : Bytes) (v : Option Bytes)
    (hg : GoodCall H w.tries[0]! (w.opSt 0) k v) :
    ((w.setDel (stdHashing H) (blankRoot H) (.trie 0) k v).2.tries[0]!).tree = opNode (w.tries[0]!).tree (k, v) := by
  obtain ⟨hrs, hbl, hnc, _, _, T', hok⟩ := hg
  obtain ⟨_, _, _, htries, _, _⟩ :=
    World.setDel_trie_ok (stdHashing H) (blankRoot H) w 0 k v T' hok
  have hnc' : NoClobber (w.opSt 0).store.base (opWrites (stdHashing H) w.tries[0]! k v) := hnc
  have hfa0 : (w.opSt 0).store.failAfter = none := hinv.fa
  have hcomp0 : Complete (stdHashing H) (blankRoot H) (w.opSt 0).store.base w.tries[0]! := hinv.comp
  have ht0 : (w.setDel (stdHashing H) (blankRoot H) (.trie 0) k v).2.tries[0]! = T' := by
    rw [htries]; exact (array_set!_zero _ _ hinv.tsz).2
  have htree : T'.tree = opNode (w.tries[0]!).tree (k, v) := by
    cases prune with
    | false =>
      obtain ⟨T'', hok', htree, _⟩ := opSetDel_complete (stdHashing H) (blankRoot H) w.tries[0]! hinv.pr
        hinv.canon k v (w.opSt 0) rfl hfa0 hcomp0 hrs hnc' hbl
      rw [hok] at hok'; cases hok'
      cases v <;> exact htree
    | true =>
      obtain ⟨T'', hok', htree, _⟩ := opSetDel_pruneInv (stdHashing H) (blankRoot H) w.tries[0]! hinv.canon k v
        (w.opSt 0) hfa0 (hinv.pinv rfl) hrs hbl
      rw [hok] at hok'; cases hok'
      cases v <;> exact htree
  rw [ht0, htree]

/-- a call on the batch trie applies the tree-level operation to the batch tree -/
theorem tree_inner (prune : Bool) (w0 w : World) (hinv : BInv H prune w0 w) (b : Batch) (hb : w.batch = some b)
    (k : Bytes) (v : Option Bytes) (hg : GoodCall H b.trie (w.batchOpSt b) k v) :
    ∃ b', (w.setDel (stdHashing H) (blankRoot H) .batch k v).2.batch = some b' ∧
      b'.trie.tree = opNode b.trie.tree (k, v) := by
  obtain ⟨hbase0, hfa0, htries0, hcounts0, b0, hb0, hbo, hcan, hcomp, hpv, hnp⟩ := hinv
  rw [hb] at hb0
  cases hb0
  obtain ⟨hrs, hbl, hnc, _, _, T', hok⟩ := hg
  obtain ⟨_, _, _, _, _, b', hb', _, hbt', _⟩ :=
    World.setDel_batch_ok (stdHashing H) (blankRoot H) w b hb k v T' hok
  have hfas : (w.batchOpSt b).store.failAfter = none := hfa0
  have htree : T'.tree = (opTree (stdHashing H) b.trie k v).1 := by
    cases prune with
    | true =>
      obtain ⟨T'', hok', ht, _⟩ := opSetDel_pruneInvV (stdHashing H) (blankRoot H) b.trie hcan k v (w.batchOpSt b) hfas
        (hpv rfl) hrs hbl
      rw [hok] at hok'; cases hok'; exact ht
    | false =>
      obtain ⟨T'', hok', ht, _⟩ := opSetDel_batchInvNP (stdHashing H) (blankRoot H) w0.base b.trie hcan k v
        (w.batchOpSt b) (hnp rfl).1 hrs hbl
      rw [hok] at hok'; cases hok'; exact ht
  exact ⟨b', hb', by rw [hbt', htree, opTree_fst_opNode H _ hcan k v hrs]⟩

/-- along a block the block invariant is kept and the batch tree is the fold of the block's calls -/
theorem inner_tree (prune : Bool) (w0 : World) (inner : List (Bytes × Option Bytes)) :
    ∀ (w : World) (b : Batch), BInv H prune w0 w → w.batch = some b → GoodInner H w inner →
      BInv H prune w0 (innerW H w inner).2 ∧
      ∃ b', (innerW H w inner).2.batch = some b' ∧ b'.trie.tree = inner.foldl opNode b.trie.tree := by
  induction inner with
  | nil => intro w b hb hwb _; exact ⟨hb, b, hwb, rfl⟩
  | cons kv rest ih =>
    obtain ⟨k, v⟩ := kv
    intro w b hb hwb hg
    obtain ⟨hg1, hg2⟩ := hg
    rw [hwb] at hg1
    simp only at hg1
    have hb' := binv_inner H prune w0 w hb b hwb k v hg1
    obtain ⟨b1, hwb1, ht1⟩ := tree_inner H prune w0 w hb b hwb k v hg1
    obtain ⟨i1, b2, i2, i3⟩ := ih _ b1 hb' hwb1 hg2
    rw [innerW_cons]
    refine ⟨i1, b2, i2, ?_⟩
    rw [i3, ht1]
    rfl

/-- leaving a block: an aborted block leaves the outer tree as it was, a committed block installs the batch tree -/
theorem tree_end (prune : Bool) (w0 w : World) (h0 : WInv H prune w0) (hinv : BInv H prune w0 w) (b : Batch)
    (hb : w.batch = some b) (raised : Bool) :
    ((w.batchEnd raised).2.tries[0]!).tree = if raised then (w0.tries[0]!).tree else b.trie.tree := by
  obtain ⟨hbase0, hfa0, htries0, hcounts0, b0, hb0, hbo, _⟩ := hinv
  rw [hb] at hb0
  cases hb0
  cases raised with
  | true =>
    rw [World.batchEnd_true_eq w b hb]
    simp only [if_true]
    rw [htries0]
  | false =>
    have hts : w.tries.size = 1 := by rw [htries0]; exact h0.tsz
    rw [World.batchEnd_false_eq w b hb hfa0]
    simp only [Bool.false_eq_true, if_false, hbo]
    rw [(array_set!_zero _ _ hts).2]

/-- one step: invariant kept, rest of the run still good, tree = tree-level step -/
theorem step_tree (prune : Bool) (w : World) (hinv : WInv H prune w) (s : HStep) (rest : List HStep)
    (hg : Good H w (s :: rest)) :
    WInv H prune (stepW H w s).2 ∧ Good H (stepW H w s).2 rest ∧
    ((stepW H w s).2.tries[0]!).tree = stepNode (w.tries[0]!).tree s := by
  cases s with
  | op k v =>
    obtain ⟨hg1, hg2⟩ := hg
    rw [stepW_op]
    exact ⟨winv_op H prune w hinv k v hg1, hg2, tree_op H prune w hinv k v hg1⟩
  | block inner raised =>
    obtain ⟨hg1, hg2⟩ := hg
    have hb1 := binv_begin H prune w hinv
    obtain ⟨i1, b', i2, i3⟩ := inner_tree H prune w inner (w.batchBegin 0) _ hb1 rfl hg1
    have he := tree_end H prune w _ hinv i1 b' i2 raised
    rw [stepW_block]
    refine ⟨winv_end H prune w _ hinv i1 raised, hg2, ?_⟩
    show ((((innerW H (w.batchBegin 0) inner).2).batchEnd raised).2.tries[0]!).tree = _
    rw [he, i3]
    cases raised <;> rfl

/-- a whole history: invariant at the end, tree = fold of the tree-level steps -/
theorem run_tree (prune : Bool) (steps : List HStep) :
    ∀ (w : World), WInv H prune w → Good H w steps →
      WInv H prune (runW H w steps).2 ∧
      ((runW H w steps).2.tries[0]!).tree = steps.foldl stepNode (w.tries[0]!).tree := by
  induction steps with
  | nil => intro w hinv _; exact ⟨hinv, rfl⟩
  | cons s rest ih =>
    intro w hinv hg
    obtain ⟨h1, h2, h3⟩ := step_tree H prune w hinv s rest hg
    obtain ⟨i1, i2⟩ := ih _ h1 h2
    rw [runW_cons]
    refine ⟨i1, ?_⟩
    show ((runW H (stepW H w s).2 rest).2.tries[0]!).tree = _
    rw [i2, h3]
    rfl

/-- the root pointer of a trie whose database is complete for it is the root hash of its tree -/
theorem complete_root_eq (d : Dict Bytes) (T : TrieSt) (hcomp : Complete (stdHashing H) (blankRoot H) d T) :
    T.root = rootHash H T.tree := by
  have h1 := hcomp.1
  cases hb : isBlank T.tree with
  | true =>
    rw [hb] at h1
    simp only [if_true] at h1
    rw [h1, (isBlank_iff T.tree).1 hb]
    simp [rootHash, enc_blank, blankRoot]
  | false =>
    rw [hb] at h1
    simp only [Bool.false_eq_true, if_false] at h1
    exact h1.1

end PyTrie.HexFree
