import PyTrie.Model.IterRaw
import PyTrie.Lemmas.ReadRefines
import PyTrie.Lemmas.HexIterProofs
import PyTrie.Lemmas.YellowPaper
/-! The raw-level `_get_next_key` / `_get_key_after` (`Model/IterRaw.lean`, over annotated raw nodes, navigating
    with `traverse_from` through the database) compute what the tree-level `nextKey` / `keyAfter` compute, on
    the raw encoding of a canonical stored tree. -/
namespace PyTrie.HexD
open PyTrie.Hex PyTrie.Hex.Node PyTrie.HexRaw

variable (H : Bytes → Bytes)

/-! ### `traverse_from(node, segment)` for a sub-segment of the node itself -/

theorem cpl_self (p : Path) : cpl p p = p.length := by
  have := cpl_append_left p []
  simpa using this

theorem travFrom_ext (hlen : ∀ b, (H b).length = 32) (db : Db) (p : Path) (c : Node) (hp : p ≠ [])
    (hs : StoredC H db c) (tfuel : Nat) (htf : 1 ≤ tfuel) :
    travFrom H db tfuel (Ann.toD H (annotate (ext p c))) p = .ok (Ann.toD H (annotate c)) := by
  obtain ⟨f, rfl⟩ : ∃ f, tfuel = f + 1 := ⟨tfuel - 1, by omega⟩
  obtain ⟨a, rest, rfl⟩ : ∃ a rest, p = a :: rest := by
    cases p with
    | nil => exact absurd rfl hp
    | cons a rest => exact ⟨a, rest, rfl⟩
  have h1 : traverseD H db (f + 1) (toItem H (ext (a :: rest) c)) (a :: rest) [] = .ok (toItem H c, []) := by
    simp only [traverseD, classify_ext, cpl_self, List.drop_length, ↓reduceIte, List.take_length,
      fetch_storedC H hlen db c _ hs, traverseD_nil]
  simp only [travFrom, traverseOutD, annotate, Ann.toD, h1, annotateD_toItem H hlen, ↓reduceIte]

theorem travFrom_branch (hlen : ∀ b, (H b).length = 32) (db : Db) (ch : Nib → Node) (v : Bytes) (i : Nib)
    (hs : StoredC H db (ch i)) (tfuel : Nat) (htf : 1 ≤ tfuel) :
    travFrom H db tfuel (Ann.toD H (annotate (branch ch v))) [i] = .ok (Ann.toD H (annotate (ch i))) := by
  obtain ⟨f, rfl⟩ : ∃ f, tfuel = f + 1 := ⟨tfuel - 1, by omega⟩
  have h1 : traverseD H db (f + 1) (toItem H (branch ch v)) [i] [] = .ok (toItem H (ch i), []) := by
    simp only [traverseD, classify_branch, brItems_getD, fetch_storedC H hlen db (ch i) _ hs, traverseD_nil]
  simp only [travFrom, traverseOutD, annotate, Ann.toD, h1, annotateD_toItem H hlen, ↓reduceIte]

theorem nextKeyD_ok (hlen : ∀ b, (H b).length = 32) (db : Db) (tfuel : Nat) (htf : 1 ≤ tfuel) (t : Node) :
    Canon t → StoredD H db t → ∀ (tr : Path) (fuel : Nat), YP.height t + 1 ≤ fuel →
    nextKeyD H db tfuel fuel (Ann.toD H (annotate t)) tr = .ok (nextKey t tr) := by
  induction t with
  | blank =>
    intro _ _ tr fuel hf
    obtain ⟨f, rfl⟩ : ∃ f, fuel = f + 1 := ⟨fuel - 1, by omega⟩
    simp [nextKeyD, annotate, Ann.toD, nextKey]
  | leaf p v =>
    intro _ _ tr fuel hf
    obtain ⟨f, rfl⟩ : ∃ f, fuel = f + 1 := ⟨fuel - 1, by omega⟩
    by_cases hv : v = [] <;> simp [nextKeyD, annotate, Ann.toD, nextKey, hv]
  | ext p c ih =>
    intro hc hst tr fuel hf
    obtain ⟨hpne, hbr, hcc⟩ := hc
    obtain ⟨hsc, hsd⟩ := hst
    simp only [YP.height] at hf
    obtain ⟨f, rfl⟩ : ∃ f, fuel = f + 1 := ⟨fuel - 1, by omega⟩
    have htv := travFrom_ext H hlen db p c hpne hsc tfuel htf
    have hsub : (Ann.toD H (annotate (ext p c))).subs = [p] := rfl
    have hval : (Ann.toD H (annotate (ext p c))).value = [] := rfl
    rw [nextKeyD]
    simp only [hsub, hval, htv, ne_eq, not_true_eq_false, ↓reduceIte, nextKey]
    exact ih hcc hsd (tr ++ p) f (by omega)
  | branch ch v ih =>
    intro hc hst tr fuel hf
    obtain ⟨f, rfl⟩ : ∃ f, fuel = f + 1 := ⟨fuel - 1, by omega⟩
    have hsub : (Ann.toD H (annotate (branch ch v))).subs = (liveIdx ch).map (fun i => [i]) := rfl
    have hval : (Ann.toD H (annotate (branch ch v))).value = v := rfl
    have hsuf : (Ann.toD H (annotate (branch ch v))).suffix = [] := rfl
    rw [nextKeyD]
    by_cases hv : v = []
    · subst hv
      simp only [hsub, hval, ne_eq, not_true_eq_false, ↓reduceIte, nextKey]
      have hfind : (List.finRange 16).find? (fun i => !(isBlank (ch i))) = (liveIdx ch).head? := by
        rw [liveIdx, List.head?_filter]
      rw [hfind]
      cases hl : liveIdx ch with
      | nil => simp
      | cons i rest =>
        have htv := travFrom_branch H hlen db ch [] i (hst i).1 tfuel htf
        simp only [List.map_cons, htv, List.head?_cons]
        have := YP.height_child_lt ch [] i
        exact ih i (hc.1 i) (hst i).2 (tr ++ [i]) f (by omega)
    · simp [hval, hsuf, hv, nextKey]

theorem nextKeyD_refines (hlen : ∀ b, (H b).length = 32) (t : Node) (hc : Canon t) (db : Db) (hst : StoredD H db t)
    (tr : Path) (tfuel fuel : Nat) (htf : 64 ≤ tfuel) (hf : YP.height t + 1 ≤ fuel) :
    nextKeyD H db tfuel fuel (Ann.toD H (annotate t)) tr = .ok (nextKey t tr) :=
  nextKeyD_ok H hlen db tfuel (by omega) t hc hst tr fuel hf

theorem cpl_nil_right (k : Path) : cpl k [] = 0 := by cases k <;> rfl

theorem findSome?_filter_of_none {α β : Type} (f : α → Option β) (p : α → Bool) (l : List α)
    (h : ∀ x, p x = false → f x = none) : (l.filter p).findSome? f = l.findSome? f := by
  induction l with
  | nil => rfl
  | cons a l ih =>
    cases hp : p a with
    | true => simp only [List.filter_cons, hp, ↓reduceIte, List.findSome?_cons, ih]
    | false => simp [hp, ih, h a hp]

/-- the `for next_segment in node.sub_segments` loop on a branch, over a list of live indices -/
theorem keyAfterSegs_branch (db : Db) (tfuel : Nat) (ch : Nib → Node) (v : Bytes) (key tr : Path) (B : Nat)
    (ihK : ∀ i key tr fuel, B ≤ fuel →
      keyAfterD H db tfuel fuel (Ann.toD H (annotate (ch i))) key tr = .ok (keyAfter (ch i) key tr))
    (ihN : ∀ i tr fuel, B ≤ fuel →
      nextKeyD H db tfuel fuel (Ann.toD H (annotate (ch i))) tr = .ok (nextKey (ch i) tr))
    (htrav : ∀ i, travFrom H db tfuel (Ann.toD H (annotate (branch ch v))) [i] = .ok (Ann.toD H (annotate (ch i))))
    (l : List Nib) (hl : ∀ i ∈ l, isBlank (ch i) = false) :
    ∀ F, l.length + B + 1 ≤ F →
    keyAfterSegs H db tfuel F (Ann.toD H (annotate (branch ch v))) (l.map (fun i => [i])) key tr =
      .ok (match l.findSome? (kaStep ch key tr) with
        | some x => x
        | none => none) := by
  induction l with
  | nil =>
    intro F hF
    obtain ⟨f, rfl⟩ : ∃ f, F = f + 1 := ⟨F - 1, by omega⟩
    simp [keyAfterSegs]
  | cons i l ih =>
    intro F hF
    obtain ⟨f, rfl⟩ : ∃ f, F = f + 1 := ⟨F - 1, by omega⟩
    have hbi : isBlank (ch i) = false := hl i (by simp)
    have ih' := ih (fun j hj => hl j (by simp [hj])) f (by simp at hF; omega)
    have hfB : B ≤ f := by simp at hF; omega
    rw [List.map_cons, keyAfterSegs]
    simp only [List.length_cons, List.length_nil, Nat.zero_add, List.findSome?_cons]
    by_cases hlt : plt [i] (key.take 1) = true
    · simp only [hlt, ↓reduceIte, ih']
      simp [kaStep, hbi, hlt]
    · simp only [hlt, Bool.false_eq_true, ↓reduceIte, htrav i]
      cases key with
      | nil =>
        simp only [cpl, List.drop_zero, List.cons_ne_nil, ↓reduceIte, ihN i _ f hfB]
        simp [kaStep, hbi]
      | cons a rest =>
        by_cases hai : a = i
        · subst hai
          have hc1 : cpl (a :: rest) [a] = 1 := by simp [cpl, cpl_nil_right]
          simp only [hc1, List.drop_succ_cons, List.drop_zero, List.drop_nil, ↓reduceIte, ihK a _ _ f hfB]
          have hks : kaStep ch (a :: rest) tr a =
              match keyAfter (ch a) rest (tr ++ [a]) with
              | none => none
              | some k => some (some k) := by
            simp only [kaStep, hbi, Bool.false_eq_true, ↓reduceIte]
            simp only [List.take_succ_cons, List.take_zero] at hlt
            simp only [List.take_succ_cons, List.take_zero, hlt]
            cases keyAfter (ch a) rest (tr ++ [a]) <;> rfl
          rw [hks]
          cases keyAfter (ch a) rest (tr ++ [a]) with
          | none => simp only [ih']
          | some k => rfl
        · have hc0 : cpl (a :: rest) [i] = 0 := by simp [cpl, hai]
          simp only [hc0, List.drop_zero, List.cons_ne_nil, ↓reduceIte, ihN i _ f hfB]
          have hks : kaStep ch (a :: rest) tr i = some (nextKey (ch i) (tr ++ [i])) := by
            simp only [kaStep, hbi, Bool.false_eq_true, ↓reduceIte]
            simp only [List.take_succ_cons, List.take_zero] at hlt
            simp [hlt, hai]
          rw [hks]

theorem keyAfterD_ok (hlen : ∀ b, (H b).length = 32) (db : Db) (tfuel : Nat) (htf : 1 ≤ tfuel) (t : Node) :
    Canon t → StoredD H db t → ∀ (key tr : Path) (fuel : Nat), 20 * (YP.height t + 1) ≤ fuel →
    keyAfterD H db tfuel fuel (Ann.toD H (annotate t)) key tr = .ok (keyAfter t key tr) := by
  induction t with
  | blank =>
    intro _ _ key tr fuel hf
    obtain ⟨f, rfl⟩ : ∃ f, fuel = f + 2 := ⟨fuel - 2, by omega⟩
    simp [keyAfterD, keyAfterSegs, annotate, Ann.toD, keyAfter]
  | leaf p v =>
    intro _ _ key tr fuel hf
    obtain ⟨f, rfl⟩ : ∃ f, fuel = f + 2 := ⟨fuel - 2, by omega⟩
    by_cases h : plt key p = true <;> simp [keyAfterD, keyAfterSegs, annotate, Ann.toD, keyAfter, h]
  | ext p c ih =>
    intro hc hst key tr fuel hf
    obtain ⟨hpne, hbr, hcc⟩ := hc
    obtain ⟨hsc, hsd⟩ := hst
    simp only [YP.height] at hf
    obtain ⟨f, rfl⟩ : ∃ f, fuel = f + 3 := ⟨fuel - 3, by omega⟩
    have htv := travFrom_ext H hlen db p c hpne hsc tfuel htf
    have hsub : (Ann.toD H (annotate (ext p c))).subs = [p] := rfl
    have hsuf : (Ann.toD H (annotate (ext p c))).suffix = [] := rfl
    rw [keyAfterD, hsub, keyAfterSegs]
    simp only [keyAfter]
    by_cases hlt : plt p (key.take p.length) = true
    · simp [hlt, keyAfterSegs, hsuf]
    · simp only [hlt, Bool.false_eq_true, ↓reduceIte, htv]
      by_cases hd : p.drop (cpl key p) = []
      · simp only [hd, ↓reduceIte, ih hcc hsd _ _ (f + 1) (by omega)]
        cases keyAfter c (key.drop (cpl key p)) (tr ++ p) with
        | none => simp [keyAfterSegs, hsuf]
        | some k => rfl
      · simp only [hd, ↓reduceIte, nextKeyD_ok H hlen db tfuel htf c hcc hsd _ (f + 1) (by omega)]
        cases nextKey c (tr ++ p) with
        | none => simp [hsuf]
        | some k => rfl
  | branch ch v ih =>
    intro hc hst key tr fuel hf
    obtain ⟨f, rfl⟩ : ∃ f, fuel = f + 1 := ⟨fuel - 1, by omega⟩
    have hsub : (Ann.toD H (annotate (branch ch v))).subs = (liveIdx ch).map (fun i => [i]) := rfl
    have hsuf : (Ann.toD H (annotate (branch ch v))).suffix = [] := rfl
    have hh : ∀ i, YP.height (ch i) + 1 ≤ YP.height (branch ch v) := YP.height_child_lt ch v
    have hlen16 : (liveIdx ch).length ≤ 16 := by
      have := List.length_filter_le (fun i => !(isBlank (ch i))) (List.finRange 16)
      simpa [liveIdx] using this
    have hsegs := keyAfterSegs_branch H db tfuel ch v key tr (20 * YP.height (branch ch v))
      (fun i key tr fuel hB => ih i (hc.1 i) (hst i).2 key tr fuel (by have := hh i; omega))
      (fun i tr fuel hB => nextKeyD_ok H hlen db tfuel htf (ch i) (hc.1 i) (hst i).2 tr fuel (by have := hh i; omega))
      (fun i => travFrom_branch H hlen db ch v i (hst i).1 tfuel htf)
      (liveIdx ch) (fun i hi => by simpa [liveIdx] using hi) f (by omega)
    rw [keyAfterD, hsub, hsegs, hsuf, keyAfter_branch]
    have hfs : (liveIdx ch).findSome? (kaStep ch key tr) = (List.finRange 16).findSome? (kaStep ch key tr) := by
      rw [liveIdx]
      apply findSome?_filter_of_none
      intro x hx
      have hx' : isBlank (ch x) = true := by simpa using hx
      simp [kaStep, hx']
    rw [hfs]
    cases (List.finRange 16).findSome? (kaStep ch key tr) with
    | none => simp
    | some x => cases x <;> simp

theorem keyAfterD_refines (hlen : ∀ b, (H b).length = 32) (t : Node) (hc : Canon t) (db : Db) (hst : StoredD H db t)
    (key tr : Path) (tfuel fuel : Nat) (htf : 64 ≤ tfuel) (hf : 20 * (YP.height t + 1) ≤ fuel) :
    keyAfterD H db tfuel fuel (Ann.toD H (annotate t)) key tr = .ok (keyAfter t key tr) :=
  keyAfterD_ok H hlen db tfuel (by omega) t hc hst key tr fuel hf

end PyTrie.HexD
