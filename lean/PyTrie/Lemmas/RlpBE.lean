import PyTrie.Model.HexDb
/-! Big-endian length fields: `natToBE` / `beToNat` / `longLen`. -/
namespace PyTrie.HexD
open PyTrie

theorem natToBE_zero : natToBE 0 = [] := by
  rw [natToBE]; simp

theorem natToBE_pos {n : Nat} (h : n ≠ 0) :
    natToBE n = natToBE (n / 256) ++ [UInt8.ofNat (n % 256)] := by
  rw [natToBE]; simp [h]

theorem beToNat_snoc (bs : Bytes) (b : UInt8) :
    beToNat (bs ++ [b]) = beToNat bs * 256 + b.toNat := by
  simp [beToNat, List.foldl_append]

theorem toNat_ofNat_mod (n : Nat) : (UInt8.ofNat (n % 256)).toNat = n % 256 := by
  simp [UInt8.toNat_ofNat']

theorem toNat_ofNat_lt {n : Nat} (h : n < 256) : (UInt8.ofNat n).toNat = n := by
  simp [UInt8.toNat_ofNat']; omega

theorem beToNat_natToBE (n : Nat) : beToNat (natToBE n) = n := by
  induction n using Nat.strongRecOn with
  | _ n ih =>
    by_cases h : n = 0
    · subst h; rw [natToBE_zero]; rfl
    · rw [natToBE_pos h, beToNat_snoc, ih (n / 256) (by omega), toNat_ofNat_mod]; omega

theorem natToBE_length_le (k : Nat) : ∀ n, n < 256 ^ k → (natToBE n).length ≤ k := by
  induction k with
  | zero => intro n h; have : n = 0 := by simpa using h
            subst this; simp [natToBE_zero]
  | succ k ih =>
    intro n h
    by_cases h0 : n = 0
    · subst h0; simp [natToBE_zero]
    · rw [natToBE_pos h0]
      have : n / 256 < 256 ^ k := by
        rw [Nat.div_lt_iff_lt_mul (by decide)]; rw [Nat.pow_succ] at h; exact h
      have := ih _ this
      simp; omega

/-- no leading zero, non-empty -/
theorem natToBE_head {n : Nat} (h : n ≠ 0) : ∃ b tl, natToBE n = b :: tl ∧ b ≠ 0 := by
  induction n using Nat.strongRecOn with
  | _ n ih =>
    rw [natToBE_pos h]
    by_cases hq : n / 256 = 0
    · rw [hq, natToBE_zero]
      refine ⟨_, [], rfl, ?_⟩
      intro hz
      have := congrArg UInt8.toNat hz
      rw [toNat_ofNat_mod] at this
      simp at this; omega
    · obtain ⟨b, tl, e, hb⟩ := ih (n / 256) (by omega) hq
      exact ⟨b, tl ++ [UInt8.ofNat (n % 256)], by rw [e]; rfl, hb⟩

theorem natToBE_length_pos {n : Nat} (h : n ≠ 0) : 0 < (natToBE n).length := by
  obtain ⟨b, tl, e, _⟩ := natToBE_head h
  rw [e]; simp

theorem longLen_natToBE {n : Nat} (h : 56 ≤ n) : longLen (natToBE n) = some n := by
  obtain ⟨b, tl, e, hb⟩ := natToBE_head (n := n) (by omega)
  have hv := beToNat_natToBE n
  rw [e] at hv
  rw [e]
  simp only [longLen, hb, if_false, hv]
  simp; omega

end PyTrie.HexD
