import PyTrie.Model.Walk
import PyTrie.Lemmas.WalkProofs
import PyTrie.Lemmas.NodesLoop
/-! The concrete walk step with a `TrieFrontierCache` (`Model/Walk.lean`) is an abstract walk step
    (`Walk.wstep`) on *some version* of the trie: a cache hit consults the version in which the cached parent
    was obtained (`traverse_from (node at q) seg = traverse (q ++ seg)`), a miss the current one. Hence
    everything proved about abstract schedules (`finds_stable`, `sound`, `exact`, termination measure) holds for
    walks that use the cache across modifications. -/
namespace PyTrie.Walk
open PyTrie PyTrie.Hex PyTrie.Fog

/-- every cache entry `p ↦ (parent, seg)` holds a node — real, or the simulated node of a position inside
    a leaf / extension — of one of the versions seen so far, located at a prefix `q` with `q ++ seg = p`:
    traversing from it along `seg` describes version `v` at `p` -/
def CacheOkV (versions : List Node) (c : Frontier Node) : Prop :=
  ∀ p parent seg, Frontier.get c p = some (parent, seg) →
    ∃ v ∈ versions, Canon v ∧ (traverseOut parent seg).desc = (traverseOut v p).desc

def toW (s : CState) : WState := ⟨s.fog, s.met⟩

/-! ### helpers -/

theorem descOf?_eq_desc : descOf? = TravOut.desc := by
  funext o; cases o <;> rfl

/-- the description of `v` at `p`, used as a parent, describes `v` below `p` along each of its sub-segments -/
theorem desc_child (v : Node) (hcan : Canon v) (p : Path) (d : Ann)
    (hd : (traverseOut v p).desc = some d) (sub : Path) (hsub : sub ∈ d.subs) :
    (traverseOut d.raw sub).desc = (traverseOut v (p ++ sub)).desc := by
  cases hout : traverseOut v p with
  | partialPath tr a tail sim =>
    rw [hout] at hd
    simp only [TravOut.desc] at hd
    subst hd
    exact traverse_from_sim v hcan p tr tail a d hout sub
  | node a =>
    rw [hout] at hd
    simp only [TravOut.desc, Option.some.injEq] at hd
    subst hd
    obtain ⟨tr, n0, rem, h1, h2, rfl, h4, h5⟩ := trav_local v hcan p
    unfold traverseOut at hout
    rw [h4] at hout
    rcases local_cases n0 rem h5 with ⟨rfl, e⟩ | ⟨_, e, _⟩ | ⟨hr, _, _, _, _, e⟩ | ⟨hr, _, _, _, _, _, e⟩
    · rw [e] at hout
      simp only [↓reduceIte, TravOut.node.injEq] at hout
      subst hout
      rw [annotate_raw, desc_eq, desc_eq, List.append_nil, traverseT_nodeAt v tr n0 h1 sub]
    · rw [e] at hout
      simp only [↓reduceIte, TravOut.node.injEq] at hout
      subst hout
      simp [annotate] at hsub
    · rw [e] at hout
      simp only [hr, ↓reduceIte] at hout
      cases hout
    · rw [e] at hout
      simp only [hr, ↓reduceIte] at hout
      cases hout

theorem cacheOkV_erase {versions : List Node} {c : Frontier Node} (hc : CacheOkV versions c) (p : Path) :
    CacheOkV versions (Frontier.erase c p) :=
  fun q parent seg h => hc q parent seg (frontier_get_erase c p q _ h)

theorem cacheOkV_put {versions : List Node} {c : Frontier Node} (hc : CacheOkV versions c) (p seg : Path)
    (n v : Node) (hv : v ∈ versions) (hcan : Canon v)
    (hn : (traverseOut n seg).desc = (traverseOut v (p ++ seg)).desc) :
    CacheOkV versions (Frontier.put c (p ++ seg) (n, seg)) := by
  intro q parent seg' h
  rcases frontier_get_put c _ q _ _ h with ⟨rfl, h2⟩ | h2
  · cases h2; exact ⟨v, hv, hcan, hn⟩
  · exact hc q parent seg' h2

theorem cacheOkV_foldl_put {versions : List Node} (p : Path) (n v : Node) (hv : v ∈ versions)
    (hcan : Canon v) (subs : List Path) :
    (∀ sub ∈ subs, (traverseOut n sub).desc = (traverseOut v (p ++ sub)).desc) →
    ∀ c : Frontier Node, CacheOkV versions c →
      CacheOkV versions (subs.foldl (fun acc seg => Frontier.put acc (p ++ seg) (n, seg)) c) := by
  induction subs with
  | nil => intro _ c hc; exact hc
  | cons s subs ih =>
    intro hs c hc
    exact ih (fun sub h => hs sub (List.mem_cons_of_mem _ h)) _
      (cacheOkV_put hc p s n v hv hcan (hs s List.mem_cons_self))

theorem cacheOkV_add {versions : List Node} {c : Frontier Node} (hc : CacheOkV versions c) (p : Path)
    (n v : Node) (hv : v ∈ versions) (hcan : Canon v) (subs : List Path)
    (hs : ∀ sub ∈ subs, (traverseOut n sub).desc = (traverseOut v (p ++ sub)).desc) :
    CacheOkV versions (Frontier.add c p n subs) := by
  unfold Frontier.add
  apply cacheOkV_foldl_put p n v hv hcan subs hs
  split
  · exact cacheOkV_erase hc p
  · exact hc

/-- the part of `cstep` after the description has been obtained -/
def cfinish (s : CState) (p : Path) (od : Option Ann) : Option CState :=
  match od with
  | none => none
  | some d =>
    match Fog.explore s.fog p d.subs with
    | .error _ => none
    | .ok fog' =>
      let cache' := if d.subs ≠ [] then Frontier.add s.cache p d.raw d.subs else Frontier.delete s.cache p
      some ⟨fog', cache', if d.value ≠ [] then (p ++ d.suffix, d.value) :: s.met else s.met⟩

theorem cstep_eq (t : Node) (s : CState) (p : Path) :
    cstep t s p = cfinish s p (match Frontier.get s.cache p with
      | none => traverseOut t p
      | some (parent, seg) => traverseOut parent seg).desc := by
  rw [← descOf?_eq_desc]; rfl

theorem cfinish_is_wstep (versions : List Node) (v : Node) (hv : v ∈ versions) (hcan : Canon v)
    (s : CState) (hc : CacheOkV versions s.cache) (p : Path) (s' : CState)
    (h : cfinish s p (traverseOut v p).desc = some s') :
    wstep (toW s) v p = some (toW s') ∧ CacheOkV versions s'.cache := by
  unfold cfinish at h
  unfold wstep
  cases hd : (traverseOut v p).desc with
  | none => rw [hd] at h; cases h
  | some d =>
    rw [hd] at h
    simp only at h ⊢
    simp only [toW]
    cases he : Fog.explore s.fog p d.subs with
    | error e => rw [he] at h; cases h
    | ok fog' =>
      rw [he] at h
      simp only [Option.some.injEq] at h
      subst h
      refine ⟨rfl, ?_⟩
      simp only
      split
      · exact cacheOkV_add hc p d.raw v hv hcan d.subs (fun sub hsub => desc_child v hcan p d hd sub hsub)
      · exact cacheOkV_erase hc p

/-- **a concrete step is an abstract step on some version**, and the cache invariant is maintained
    (for any later list of versions extending the current one) -/
theorem cstep_is_wstep (versions : List Node) (t : Node) (ht : t ∈ versions) (hcv : ∀ v ∈ versions, Canon v)
    (s : CState) (hc : CacheOkV versions s.cache) (p : Path) (s' : CState) (h : cstep t s p = some s') :
    (∃ v ∈ versions, wstep (toW s) v p = some (toW s')) ∧ CacheOkV versions s'.cache := by
  rw [cstep_eq] at h
  cases hg : Frontier.get s.cache p with
  | none =>
    rw [hg] at h
    obtain ⟨h1, h2⟩ := cfinish_is_wstep versions t ht (hcv t ht) s hc p s' h
    exact ⟨⟨t, ht, h1⟩, h2⟩
  | some e =>
    obtain ⟨parent, seg⟩ := e
    rw [hg] at h
    obtain ⟨v, hv, hcan, hdesc⟩ := hc p parent seg hg
    simp only at h
    rw [hdesc] at h
    obtain ⟨h1, h2⟩ := cfinish_is_wstep versions v hv hcan s hc p s' h
    exact ⟨⟨v, hv, h1⟩, h2⟩

/-- the invariant survives the arrival of new versions (modifications between steps) -/
theorem cacheOkV_mono (versions more : List Node) (c : Frontier Node) (h : CacheOkV versions c) :
    CacheOkV (versions ++ more) c := by
  intro p parent seg hg
  obtain ⟨v, hv, hcan, hd⟩ := h p parent seg hg
  exact ⟨v, List.mem_append_left _ hv, hcan, hd⟩

theorem cacheOkV_empty (versions : List Node) : CacheOkV versions [] := by
  intro p parent seg h
  simp [Frontier.get] at h

end PyTrie.Walk

/-! ### whole concrete runs -/
namespace PyTrie.Walk
open PyTrie PyTrie.Hex PyTrie.Fog

/-- a concrete walk: at each step the trie's *current* version and the prefix chosen; the cache carries
    node objects of older versions along -/
def crun (s : CState) : List (Node × Path) → Option CState
  | [] => some s
  | (t, p) :: rest => match cstep t s p with
    | some s' => crun s' rest
    | none => none

def cstart : CState := ⟨Fog.init, [], []⟩

/-- a concrete run (with the cache) is an abstract run over the same prefixes, each step consulting some version
    that occurred -/
theorem crun_is_wrun (V : List Node) (hcv : ∀ v ∈ V, Canon v) (sched : List (Node × Path)) :
    ∀ (s s' : CState), (∀ e ∈ sched, e.1 ∈ V) → CacheOkV V s.cache → crun s sched = some s' →
      ∃ sched' : List (Node × Path), sched'.map Prod.snd = sched.map Prod.snd ∧ (∀ e ∈ sched', e.1 ∈ V) ∧
        wrun (toW s) sched' = some (toW s') := by
  induction sched with
  | nil =>
    intro s s' _ _ h
    simp only [crun, Option.some.injEq] at h
    subst h
    exact ⟨[], rfl, by simp, rfl⟩
  | cons e rest ih =>
    obtain ⟨t, p⟩ := e
    intro s s' hV hc h
    simp only [crun] at h
    cases hs : cstep t s p with
    | none => rw [hs] at h; simp at h
    | some s1 =>
      rw [hs] at h
      have ht : t ∈ V := hV (t, p) (by simp)
      obtain ⟨⟨v, hv, hw⟩, hc1⟩ := cstep_is_wstep V t ht hcv s hc p s1 hs
      obtain ⟨sched', hm, hV', hr⟩ := ih s1 s' (fun e he => hV e (List.mem_cons_of_mem _ he)) hc1 h
      refine ⟨(v, p) :: sched', by simp [hm], ?_, ?_⟩
      · intro e he
        rcases List.mem_cons.mp he with rfl | he
        · exact hv
        · exact hV' e he
      · simp only [wrun, hw]
        exact hr

end PyTrie.Walk
