import PyTrie.Model.HexWorld
/-! `Dict` lemmas (association list with first-match lookup and in-place overwrite) for C04 -/
namespace PyTrie.HexW
open PyTrie.Hex hiding get set

theorem Dict.get?_nil {α} (h : Hash) : Dict.get? ([] : Dict α) h = none := rfl

theorem Dict.get?_cons {α} (e : Hash × α) (r : Dict α) (h : Hash) :
    Dict.get? (e :: r) h = if e.1 == h then some e.2 else Dict.get? r h := by
  simp only [Dict.get?, List.find?_cons]
  cases (e.1 == h) <;> simp

theorem Dict.get?_map_self {α} (d : Dict α) (h : Hash) (b : α) (hc : Dict.contains d h = true) :
    Dict.get? (d.map (fun e => if e.1 == h then (h, b) else e)) h = some b := by
  induction d with
  | nil => simp [Dict.contains] at hc
  | cons e r ih =>
    simp only [Dict.contains, List.any_cons, Bool.or_eq_true] at hc
    rw [List.map_cons, Dict.get?_cons]
    cases he : (e.1 == h)
    · have hr : Dict.contains r h = true := by
        rcases hc with hc | hc
        · rw [he] at hc; cases hc
        · exact hc
      simp only [Bool.false_eq_true, if_false, he]
      exact ih hr
    · simp

theorem Dict.get?_map_other {α} (d : Dict α) (h h' : Hash) (b : α) (hne : h' ≠ h) :
    Dict.get? (d.map (fun e => if e.1 == h then (h, b) else e)) h' = Dict.get? d h' := by
  induction d with
  | nil => rfl
  | cons e r ih =>
    rw [List.map_cons, Dict.get?_cons, Dict.get?_cons, ih]
    cases he : (e.1 == h)
    · simp
    · have e1 : e.1 = h := by simpa using he
      have hh : (h == h') = false := by simpa using (Ne.symm hne)
      have hh' : (e.1 == h') = false := by rw [e1]; exact hh
      simp [hh, hh']

theorem Dict.get?_append {α} (d x : Dict α) (h : Hash) :
    Dict.get? (d ++ x) h = (Dict.get? d h).or (Dict.get? x h) := by
  induction d with
  | nil => simp [Dict.get?_nil]
  | cons e r ih =>
    rw [List.cons_append, Dict.get?_cons, Dict.get?_cons, ih]
    cases (e.1 == h) <;> simp

theorem Dict.get?_eq_none_of_not_contains {α} (d : Dict α) (h : Hash) (hc : Dict.contains d h = false) :
    Dict.get? d h = none := by
  induction d with
  | nil => rfl
  | cons e r ih =>
    simp only [Dict.contains, List.any_cons, Bool.or_eq_false_iff] at hc
    rw [Dict.get?_cons, hc.1]
    exact ih hc.2

theorem Dict.get?_insert_self' {α} (d : Dict α) (h : Hash) (b : α) : Dict.get? (Dict.insert d h b) h = some b := by
  unfold Dict.insert
  split
  · next hc => exact Dict.get?_map_self d h b hc
  · next hc =>
    simp only [Bool.not_eq_true] at hc
    rw [Dict.get?_append, Dict.get?_eq_none_of_not_contains d h hc, Dict.get?_cons]
    simp

theorem Dict.get?_insert_other' {α} (d : Dict α) (h h' : Hash) (b : α) (hne : h' ≠ h) :
    Dict.get? (Dict.insert d h b) h' = Dict.get? d h' := by
  unfold Dict.insert
  split
  · exact Dict.get?_map_other d h h' b hne
  · have hh : (h == h') = false := by simpa using (Ne.symm hne)
    rw [Dict.get?_append, Dict.get?_cons]
    simp [hh, Dict.get?_nil]

end PyTrie.HexW
