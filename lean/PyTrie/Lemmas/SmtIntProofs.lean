import PyTrie.Model.SmtInt
import PyTrie.Lemmas.SmtProofs
import PyTrie.Lemmas.EncBits
/-! The integer bit arithmetic of `smt.py` (`Model/SmtInt.lean`) computes what the bit-list model
    (`Model/Smt.lean`, keys as `toBits key`, most significant bit first) computes; so the theorems of C14 and
    C15 are theorems about the arithmetic as written. -/
namespace PyTrie.SmtInt
open PyTrie.Smt PyTrie.Bin

/-! ### helper: the low `n` bits of an integer, most significant first -/

/-- the low `n` bits of `path`, most significant first (`bit path (n-1)`, …, `bit path 0`) -/
def bitsOf (path : Nat) : Nat → Bits
  | 0 => []
  | n + 1 => bit path n :: bitsOf path n

theorem bitsOf_length (path n : Nat) : (bitsOf path n).length = n := by
  induction n with
  | zero => rfl
  | succ n ih => simp [bitsOf, ih]

theorem bitsOf_getD (path n i : Nat) (hi : i < n) :
    (bitsOf path n).getD (n - 1 - i) false = bit path i := by
  induction n with
  | zero => omega
  | succ n ih =>
    by_cases e : i = n
    · subst e; simp [bitsOf]
    · have h : n + 1 - 1 - i = (n - 1 - i) + 1 := by omega
      rw [h]
      simp only [bitsOf, List.getD_cons_succ]
      exact ih (by omega)

theorem bitsOf_congr (p q n : Nat) (h : ∀ i, i < n → bit p i = bit q i) : bitsOf p n = bitsOf q n := by
  induction n with
  | zero => rfl
  | succ n ih =>
    simp only [bitsOf]
    rw [h n (by omega), ih (fun i hi => h i (by omega))]

theorem bit_of_bitsOf_eq (p q n : Nat) (h : bitsOf p n = bitsOf q n) (i : Nat) (hi : i < n) :
    bit p i = bit q i := by
  rw [← bitsOf_getD p n i hi, ← bitsOf_getD q n i hi, h]

/-! ### `to_int` -/

theorem foldl_acc (bs : Bytes) (a : Nat) :
    bs.foldl (fun a b => a * 256 + b.toNat) a =
      2 ^ (8 * bs.length) * a + bs.foldl (fun a b => a * 256 + b.toNat) 0 := by
  induction bs generalizing a with
  | nil => simp
  | cons b bs ih =>
    simp only [List.foldl_cons, List.length_cons]
    rw [ih (a * 256 + b.toNat), ih (0 * 256 + b.toNat)]
    rw [show 8 * (bs.length + 1) = 8 * bs.length + 8 by omega, Nat.pow_add]
    generalize 2 ^ (8 * bs.length) = M
    generalize List.foldl (fun a b => a * 256 + b.toNat) 0 bs = X
    have : M * 2 ^ 8 * a = M * (a * 256) := by
      rw [Nat.mul_assoc, Nat.mul_comm (2 ^ 8) a]
    rw [this, Nat.mul_add, Nat.mul_add, Nat.zero_mul, Nat.mul_zero]
    omega

theorem toInt_cons (b : UInt8) (bs : Bytes) :
    toInt (b :: bs) = 2 ^ (8 * bs.length) * b.toNat + toInt bs := by
  simp only [toInt, HexD.beToNat, List.foldl_cons]
  rw [foldl_acc]
  simp

theorem toInt_nil : toInt [] = 0 := rfl

theorem toInt_lt (bs : Bytes) : toInt bs < 2 ^ (8 * bs.length) := by
  induction bs with
  | nil => simp [toInt_nil]
  | cons b bs ih =>
    rw [toInt_cons, List.length_cons, show 8 * (bs.length + 1) = 8 * bs.length + 8 by omega, Nat.pow_add]
    have hb : b.toNat ≤ 255 := by have := b.toNat_lt; omega
    have := Nat.mul_le_mul_left (2 ^ (8 * bs.length)) hb
    generalize 2 ^ (8 * bs.length) = M at *
    generalize M * b.toNat = Y at *
    omega

theorem bit_high (m a x r : Nat) (hx : x < 2 ^ m) : bit (2 ^ m * a + x) (m + r) = a.testBit r := by
  simp only [bit]
  rw [Nat.testBit_two_pow_mul_add a hx]
  have : ¬ (m + r < m) := by omega
  simp [this]

theorem bit_low (m a x i : Nat) (hx : x < 2 ^ m) (hi : i < m) : bit (2 ^ m * a + x) i = bit x i := by
  simp only [bit]
  rw [Nat.testBit_two_pow_mul_add a hx]
  simp [hi]

theorem testBit_bitOf (b : UInt8) (r : Nat) : b.toNat.testBit r = bitOf b r := by
  simp [bitOf, Nat.testBit_eq_decide_div_mod_eq]

theorem toBits_cons (b : UInt8) (bs : Bytes) : toBits (b :: bs) = byteBits b ++ toBits bs := by
  simp [toBits]

theorem bitsOf_toInt (key : Bytes) : bitsOf (toInt key) (8 * key.length) = toBits key := by
  induction key with
  | nil => rfl
  | cons b bs ih =>
    rw [toBits_cons, ← ih, toInt_cons, List.length_cons,
      show 8 * (bs.length + 1) = 8 * bs.length + 8 by omega]
    have hx := toInt_lt bs
    generalize 8 * bs.length = m at *
    generalize toInt bs = x at *
    have hlow : bitsOf (2 ^ m * b.toNat + x) m = bitsOf x m :=
      bitsOf_congr _ _ _ (fun i hi => bit_low m _ x i hx hi)
    have h0 := bit_high m b.toNat x 0 hx
    simp only [bitsOf, bit_high m b.toNat x _ hx, hlow, testBit_bitOf, byteBits, List.cons_append,
      List.nil_append]
    rw [Nat.add_zero] at h0
    rw [h0, testBit_bitOf]

/-- bit `i` (from the least significant end) of `to_int(key)` is element `8·len − 1 − i` of `toBits key` -/
theorem bit_toInt (key : Bytes) (i : Nat) (hi : i < 8 * key.length) :
    bit (toInt key) i = (toBits key).getD (8 * key.length - 1 - i) false := by
  rw [← bitsOf_toInt key, bitsOf_getD _ _ _ hi]

theorem toBits_length (key : Bytes) : (toBits key).length = 8 * key.length := by
  rw [← bitsOf_toInt key, bitsOf_length]

theorem toBits_inj (a b : Bytes) (h : toBits a = toBits b) : a = b := by
  rw [← EncBits.ofBits_toBits a, ← EncBits.ofBits_toBits b, h]

theorem xor_zero_iff (x y : Nat) : x ^^^ y = 0 ↔ x = y := by
  constructor
  · intro h
    apply Nat.eq_of_testBit_eq
    intro i
    have := Nat.testBit_xor x y i
    rw [h] at this
    simp at this
    cases hx : x.testBit i <;> cases hy : y.testBit i <;> simp_all
  · rintro rfl; exact Nat.xor_self x

theorem toInt_inj (k0 k : Bytes) (hl : k0.length = k.length) (h : toInt k0 = toInt k) : k0 = k := by
  apply toBits_inj
  rw [← bitsOf_toInt k0, ← bitsOf_toInt k, h, hl]

/-! ### `_get` -/

theorem getLoop_eq (db : Db) (path : Nat) (n : Nat) (h : Hash) (acc : List Hash) :
    getLoop db n h path acc = (getAux db h (bitsOf path n)).map (fun x => (x.1, acc ++ x.2)) := by
  induction n generalizing h acc with
  | zero => simp [getLoop, getAux, bitsOf, Option.map_map, Function.comp_def]
  | succ n ih =>
    simp only [getLoop, bitsOf, getAux]
    cases lookup db h with
    | none => rfl
    | some node =>
      simp only
      cases bit path n with
      | true => simp [ih, Option.map_map, Function.comp_def]
      | false => simp [ih, Option.map_map, Function.comp_def]

/-- `_get` -/
theorem getI_eq (db : Db) (root : Hash) (key : Bytes) :
    getI db root (8 * key.length) key = getAux db root (toBits key) := by
  rw [getI, getLoop_eq, bitsOf_toInt]
  cases getAux db root (toBits key) <;> simp

variable (H : Bytes → Bytes)

/-! ### `set` -/

theorem setLoop_append (l1 l2 : List Hash) (i path : Nat) (node : Bytes) (ws : List (Hash × Bytes))
    (ups : List Hash) :
    setLoop H (l1 ++ l2) i path node ws ups =
      setLoop H l2 (i + l1.length) path (setLoop H l1 i path node ws ups).1
        (setLoop H l1 i path node ws ups).2.1 (setLoop H l1 i path node ws ups).2.2 := by
  induction l1 generalizing i node ws ups with
  | nil => simp [setLoop]
  | cons s l1 ih =>
    simp only [List.cons_append, setLoop, List.length_cons]
    rw [ih, show i + 1 + l1.length = i + (l1.length + 1) by omega]

theorem setLoop_eq (path : Nat) (value : Bytes) (ss : List Hash) :
    setLoop H ss.reverse 0 path value [] [] =
      ((setAux H (bitsOf path ss.length) ss value).1, (setAux H (bitsOf path ss.length) ss value).2.1,
        (setAux H (bitsOf path ss.length) ss value).2.2.reverse) := by
  induction ss with
  | nil => simp [setLoop, setAux, bitsOf]
  | cons s ss ih =>
    simp only [List.reverse_cons, setLoop_append, ih, List.length_cons, bitsOf, setAux, setLoop,
      List.length_reverse, Nat.zero_add]

/-- `set` (when `_get` succeeds the two models produce the same tree and the same returned hashes) -/
theorem setI_eq (t : Tree) (key : Bytes) (hd : t.depth = 8 * key.length) (value : Bytes)
    (hbr : ∀ v br, getAux t.db t.root (toBits key) = some (v, br) → br.length = t.depth) :
    setI H t key value = Smt.set H t (toBits key) value := by
  simp only [setI, Smt.set, hd, getI_eq]
  cases hg : getAux t.db t.root (toBits key) with
  | none => rfl
  | some x =>
    obtain ⟨v, br⟩ := x
    have hl : br.length = 8 * key.length := by rw [← hd]; exact hbr v br hg
    simp only [setLoop_eq, hl, bitsOf_toInt, List.reverse_reverse]

/-! ### `calc_root` -/

theorem calcLoop_append (l1 l2 : List Hash) (i path : Nat) (nh : Hash) :
    calcLoop H (l1 ++ l2) i path nh = calcLoop H l2 (i + l1.length) path (calcLoop H l1 i path nh) := by
  induction l1 generalizing i nh with
  | nil => simp [calcLoop]
  | cons s l1 ih =>
    simp only [List.cons_append, calcLoop, List.length_cons]
    rw [ih, show i + 1 + l1.length = i + (l1.length + 1) by omega]

theorem calcLoop_eq (path : Nat) (value : Bytes) (ss : List Hash) :
    calcLoop H ss.reverse 0 path (H value) = calcRoot H (bitsOf path ss.length) value ss := by
  induction ss with
  | nil => simp [calcLoop, calcRoot, bitsOf]
  | cons s ss ih =>
    simp only [List.reverse_cons, calcLoop_append, ih, List.length_cons, bitsOf, calcRoot, calcLoop,
      List.length_reverse, Nat.zero_add]

/-- `calc_root` -/
theorem calcRootI_eq (key value : Bytes) (branch : List Hash) (hb : branch.length = 8 * key.length) :
    calcRootI H key value branch = calcRoot H (toBits key) value branch := by
  rw [calcRootI, calcLoop_eq, hb, bitsOf_toInt]

/-! ### `SparseMerkleProof.update` -/

theorem scan_eq (p q size n : Nat) (hn : n ≤ size) :
    scan (p ^^^ q) n size = (firstDiff (bitsOf p n) (bitsOf q n)).map (· + (size - n)) := by
  induction n with
  | zero => simp [scan, bitsOf, firstDiff]
  | succ n ih =>
    simp only [scan, bitsOf, firstDiff, bit, Nat.testBit_xor]
    cases hp : p.testBit n <;> cases hq : q.testBit n <;>
      simp [ih (by omega), Option.map_map, Function.comp_def] <;>
      first
        | omega
        | (congr 1; funext x; omega)

/-- the scan for the branch point is the index of the first differing bit (root → leaf order) -/
theorem branchPoint_eq (k0 k : Bytes) (hl : k0.length = k.length) :
    branchPoint (8 * k0.length) k0 k = firstDiff (toBits k0) (toBits k) := by
  rw [branchPoint, scan_eq _ _ _ _ (Nat.le_refl _), bitsOf_toInt k0]
  rw [hl, bitsOf_toInt k]
  simp

theorem xor_eq_zero_iff (k0 k : Bytes) (hl : k0.length = k.length) : (toInt k0 ^^^ toInt k = 0) ↔ k0 = k := by
  rw [xor_zero_iff]
  exact ⟨toInt_inj k0 k hl, fun h => by rw [h]⟩

/-- `SparseMerkleProof.update` -/
theorem updateI_eq (k0 : Bytes) (p : Proof) (hk : p.key = toBits k0) (hb : p.branch.length = 8 * k0.length)
    (key : Bytes) (hl : key.length = k0.length) (value : Bytes) (updates : List Hash) :
    updateI k0 p key value updates = p.update (toBits key) value updates := by
  simp only [updateI, Proof.update, hk, hb, branchPoint_eq k0 key hl.symm]
  by_cases e : k0 = key
  · subst e
    have hnone : firstDiff (toBits k0) (toBits k0) = none := (firstDiff_none_iff _ _ rfl).2 rfl
    simp [hnone]
  · have hx : ¬ (toInt k0 ^^^ toInt key = 0) := fun h => e ((xor_eq_zero_iff k0 key hl.symm).1 h)
    have hne : firstDiff (toBits k0) (toBits key) ≠ none := by
      intro h
      have hlen : (toBits k0).length = (toBits key).length := by
        rw [toBits_length, toBits_length, hl]
      exact e (toBits_inj _ _ ((firstDiff_none_iff _ _ hlen).1 h))
    simp only [hx, ↓reduceIte]
    cases hf : firstDiff (toBits k0) (toBits key) with
    | none => exact absurd hf hne
    | some i => rfl

end PyTrie.SmtInt
