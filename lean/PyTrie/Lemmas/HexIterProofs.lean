import PyTrie.Lemmas.HexTravLocal
import PyTrie.Lemmas.PathOrder
/-! `NodeIterator`: `_get_next_key` (`nextKey`), `_get_key_after` (`keyAfter`), `nodes()` (`preorder`),
    `items()` (`itemsOf`) on canonical trees, stated in terms of the contents `get t`. `plt` is Python's
    tuple order on nibble paths, `blt` Python's order on byte strings. -/
namespace PyTrie.Hex
open Node

/-! ### helpers -/

theorem nib_hi_val (x : UInt8) : (Fin.ofNat 16 (x.toNat / 16)).val = x.toNat / 16 := by
  have := x.toNat_lt
  simp only [Fin.val_ofNat]
  omega

theorem nib_lo_val (x : UInt8) : (Fin.ofNat 16 (x.toNat % 16)).val = x.toNat % 16 := by
  simp only [Fin.val_ofNat]
  omega

theorem isBlank_false_of_isBranch {c : Node} (h : isBranch c = true) : isBlank c = false := by
  cases c <;> simp_all [isBranch, isBlank]

theorem not_blank_of_get {n : Node} {k : Path} (h : get n k ≠ []) : isBlank n = false := by
  cases n with
  | blank => simp [get] at h
  | _ => rfl

theorem nodeAt_nil (t : Node) : nodeAt t [] = some t := by cases t <;> rfl

/-- byte-string order is nibble-path order (`bytes_to_nibbles` is strictly monotone) -/
theorem plt_nibs (a b : Bytes) : plt (nibs a) (nibs b) = blt a b := by
  induction a generalizing b with
  | nil => cases b <;> rfl
  | cons x xs ih =>
    cases b with
    | nil => rfl
    | cons y ys =>
      simp only [nibs, blt]
      have hx1 := nib_hi_val x
      have hx2 := nib_lo_val x
      have hy1 := nib_hi_val y
      have hy2 := nib_lo_val y
      rcases Nat.lt_trichotomy x.toNat y.toNat with h | h | h
      · have hxy : x < y := UInt8.lt_iff_toNat_lt.2 h
        simp only [hxy, ↓reduceIte]
        rw [plt_cons, plt_cons]
        by_cases h' : x.toNat / 16 < y.toNat / 16
        · left; omega
        · right
          refine ⟨Fin.ext (by omega), Or.inl (by omega)⟩
      · have hxy : x = y := UInt8.toNat_inj.1 h
        subst hxy
        simp only [UInt8.lt_irrefl, ↓reduceIte, plt_cons_same]
        exact ih ys
      · have hxy : y < x := UInt8.lt_iff_toNat_lt.2 h
        have hxy' : ¬ x < y := fun h' => by
          have := UInt8.lt_iff_toNat_lt.1 h'; omega
        simp only [hxy, hxy', ↓reduceIte]
        rw [plt_cons_false, plt_cons_false]
        by_cases h' : y.toNat / 16 < x.toNat / 16
        · left; omega
        · right
          refine ⟨Fin.ext (by omega), Or.inl (by omega)⟩

/-- `_get_next_key` returns the smallest stored key below the node (relative to `tr`) -/
theorem nextKey_spec (t : Node) (hc : Canon t) (tr : Path) :
    (isBlank t = true → nextKey t tr = none) ∧
    (isBlank t = false → ∃ r, nextKey t tr = some (tr ++ r) ∧ get t r ≠ [] ∧
        ∀ k, get t k ≠ [] → plt k r = false) := by
  induction t generalizing tr with
  | blank => exact ⟨fun _ => rfl, fun h => by simp [isBlank] at h⟩
  | leaf p v =>
    have hv : v ≠ [] := hc
    refine ⟨fun h => by simp [isBlank] at h, fun _ => ⟨p, by simp [nextKey, hv], by simp [get, hv], ?_⟩⟩
    intro k hk
    rw [leaf_key_eq p v k hk]; exact plt_irrefl p
  | ext p c ih =>
    obtain ⟨hpne, hbr, hcc⟩ := hc
    refine ⟨fun h => by simp [isBlank] at h, fun _ => ?_⟩
    obtain ⟨r, h1, h2, h3⟩ := (ih hcc (tr ++ p)).2 (isBlank_false_of_isBranch hbr)
    refine ⟨p ++ r, by simp [nextKey, h1], by simpa [get] using h2, ?_⟩
    intro k hk
    obtain ⟨k', rfl⟩ := ext_key_prefix p c k hk
    rw [plt_append_left]
    exact h3 k' (by simpa [get] using hk)
  | branch ch v ih =>
    refine ⟨fun h => by simp [isBlank] at h, fun _ => ?_⟩
    by_cases hv : v = []
    · subst hv
      simp only [nextKey, ne_eq, not_true_eq_false, ↓reduceIte]
      cases hf : (List.finRange 16).find? (fun i => !(isBlank (ch i))) with
      | none =>
        exfalso
        obtain ⟨k, hk⟩ := exists_key _ hc rfl
        cases k with
        | nil => exact hk rfl
        | cons a r =>
          have := find_finRange_none hf a
          simp only [Bool.not_eq_false'] at this
          exact hk (get_blank_of_isBlank this r)
      | some i =>
        obtain ⟨hi, hlt⟩ := find_finRange_some hf
        have hi' : isBlank (ch i) = false := by simpa using hi
        obtain ⟨r, h1, h2, h3⟩ := (ih i (hc.1 i) (tr ++ [i])).2 hi'
        refine ⟨i :: r, by simp [h1], by simpa [get] using h2, ?_⟩
        intro k hk
        cases k with
        | nil => exact absurd rfl hk
        | cons a k' =>
          have hk' : get (ch a) k' ≠ [] := hk
          rw [plt_cons_false]
          by_cases hai : a = i
          · subst hai; exact Or.inr ⟨rfl, h3 k' hk'⟩
          · left
            have hnb := not_blank_of_get hk'
            have h1 : ¬ a < i := fun hlt' => by
              have := hlt a hlt'; simp [hnb] at this
            have h2 : a.val ≠ i.val := fun e => hai (Fin.ext e)
            rw [Fin.lt_def] at h1
            omega
    · exact ⟨[], by simp [nextKey, hv], by simpa [get] using hv, fun k _ => plt_nil_right k⟩

theorem nextKey_some (t : Node) (hc : Canon t) (hb : isBlank t = false) (tr : Path) :
    ∃ r, nextKey t tr = some (tr ++ r) ∧ get t r ≠ [] ∧ ∀ k, get t k ≠ [] → plt k r = false :=
  (nextKey_spec t hc tr).2 hb

/-! ### `keyAfter` -/

def KASpec (t : Node) (key tr : Path) : Prop :=
  (∀ res, keyAfter t key tr = some res → ∃ r, res = tr ++ r ∧ get t r ≠ [] ∧ plt key r = true ∧
      ∀ k, get t k ≠ [] → plt key k = true → plt k r = false) ∧
  (keyAfter t key tr = none → ∀ k, get t k ≠ [] → plt key k = false)

/-- the per-child step of `_get_key_after` on a branch -/
def kaStep (ch : Nib → Node) (key tr : Path) (i : Nib) : Option (Option Path) :=
  if isBlank (ch i) then none
  else if plt [i] (key.take 1) then none
  else match key with
    | [] => some (nextKey (ch i) (tr ++ [i]))
    | a :: rest =>
      if a = i then
        match keyAfter (ch i) rest (tr ++ [i]) with
        | none => none
        | some k => some (some k)
      else some (nextKey (ch i) (tr ++ [i]))

theorem keyAfter_branch (ch : Nib → Node) (v : Bytes) (key tr : Path) :
    keyAfter (branch ch v) key tr =
      match (List.finRange 16).findSome? (kaStep ch key tr) with
      | some x => x
      | none => none := by
  simp only [keyAfter]
  rfl

theorem kaStep_nil {ch : Nib → Node} {tr : Path} {i : Nib} (hb : isBlank (ch i) = false) :
    kaStep ch [] tr i = some (nextKey (ch i) (tr ++ [i])) := by
  simp [kaStep, hb]

theorem kaStep_lt {ch : Nib → Node} {a : Nib} {rest tr : Path} {i : Nib} (h : i.val < a.val) :
    kaStep ch (a :: rest) tr i = none := by
  have : plt [i] ((a :: rest).take 1) = true := (plt_single_take_one i _).2 ⟨a, rest, rfl, h⟩
  simp only [kaStep, this, ↓reduceIte, ite_self]

theorem kaStep_eq {ch : Nib → Node} {rest tr : Path} {i : Nib} (hb : isBlank (ch i) = false) :
    kaStep ch (i :: rest) tr i = (keyAfter (ch i) rest (tr ++ [i])).map some := by
  have : plt [i] ((i :: rest).take 1) = false := by simp [plt_irrefl]
  simp only [kaStep, hb, this, Bool.false_eq_true, ↓reduceIte]
  cases keyAfter (ch i) rest (tr ++ [i]) <;> rfl

theorem kaStep_gt {ch : Nib → Node} {a : Nib} {rest tr : Path} {i : Nib} (hb : isBlank (ch i) = false)
    (h : a.val < i.val) : kaStep ch (a :: rest) tr i = some (nextKey (ch i) (tr ++ [i])) := by
  have h1 : plt [i] ((a :: rest).take 1) = false := by
    cases hp : plt [i] ((a :: rest).take 1) with
    | false => rfl
    | true =>
      obtain ⟨a', rest', e, h'⟩ := (plt_single_take_one i _).1 hp
      simp only [List.cons.injEq] at e
      obtain ⟨rfl, _⟩ := e
      omega
  have h2 : ¬ a = i := fun e => by subst e; omega
  simp only [kaStep, hb, h1, h2, Bool.false_eq_true, ↓reduceIte]

theorem keyAfter_leaf_spec (p : Path) (v : Bytes) (hv : v ≠ []) (key tr : Path) :
    KASpec (leaf p v) key tr := by
  unfold KASpec
  by_cases h : plt key p = true
  · simp only [keyAfter, h, ↓reduceIte, Option.some.injEq, reduceCtorEq, false_imp_iff, and_true]
    rintro res rfl
    refine ⟨p, rfl, by simpa [get] using hv, h, ?_⟩
    intro k hk _
    rw [leaf_key_eq p v k hk]; exact plt_irrefl p
  · simp only [keyAfter, h, Bool.false_eq_true, ↓reduceIte, reduceCtorEq, false_imp_iff, implies_true,
      true_and, forall_const]
    intro k hk
    rw [leaf_key_eq p v k hk]; simpa using h

theorem keyAfter_ext_spec (p : Path) (c : Node) (hc : Canon (ext p c))
    (ih : ∀ key tr, KASpec c key tr) (key tr : Path) : KASpec (ext p c) key tr := by
  obtain ⟨hpne, hbr, hcc⟩ := hc
  unfold KASpec
  by_cases h1 : plt p (key.take p.length) = true
  · simp only [keyAfter, h1, ↓reduceIte, reduceCtorEq, false_imp_iff, implies_true, true_and,
      forall_const]
    intro k hk
    obtain ⟨k', rfl⟩ := ext_key_prefix p c k hk
    exact plt_take_true h1 k'
  · have h1' : plt p (key.take p.length) = false := by simpa using h1
    by_cases hp : p <+: key
    · obtain ⟨kr, rfl⟩ := hp
      have hn : cpl (p ++ kr) p = p.length := by rw [cpl_comm, cpl_append_left]
      simp only [keyAfter, h1', Bool.false_eq_true, ↓reduceIte, hn, List.drop_length,
        List.drop_left]
      obtain ⟨i1, i2⟩ := ih kr (tr ++ p)
      constructor
      · intro res hres
        obtain ⟨r, e, g, l, m⟩ := i1 res hres
        refine ⟨p ++ r, by simp [e], by simpa [get] using g, by simpa using l, ?_⟩
        intro k hk hlt
        obtain ⟨k', rfl⟩ := ext_key_prefix p c k hk
        rw [plt_append_left] at hlt ⊢
        exact m k' (by simpa [get] using hk) hlt
      · intro hnone k hk
        obtain ⟨k', rfl⟩ := ext_key_prefix p c k hk
        rw [plt_append_left]
        exact i2 hnone k' (by simpa [get] using hk)
    · have hd : ¬ (p.drop (cpl key p) = []) := fun h => hp ((cpl_drop_right_nil_iff key p).1 h)
      simp only [keyAfter, h1', Bool.false_eq_true, ↓reduceIte, hd]
      obtain ⟨r, e, g, m⟩ := nextKey_some c hcc (isBlank_false_of_isBranch hbr) (tr ++ p)
      rw [e]
      constructor
      · rintro res hres
        simp only [Option.some.injEq] at hres
        subst hres
        refine ⟨p ++ r, by simp, by simpa [get] using g, plt_take_false h1' hp r, ?_⟩
        intro k hk _
        obtain ⟨k', rfl⟩ := ext_key_prefix p c k hk
        rw [plt_append_left]
        exact m k' (by simpa [get] using hk)
      · intro h; simp at h

theorem kaStep_some_not_blank {ch : Nib → Node} {key tr : Path} {i : Nib} {x : Option Path}
    (h : kaStep ch key tr i = some x) : isBlank (ch i) = false := by
  cases hb : isBlank (ch i) with
  | false => rfl
  | true => simp [kaStep, hb] at h

theorem keyAfter_branch_spec_nil (ch : Nib → Node) (v : Bytes) (hc : Canon (branch ch v)) (tr : Path) :
    KASpec (branch ch v) [] tr := by
  unfold KASpec
  rw [keyAfter_branch]
  cases hr : (List.finRange 16).findSome? (kaStep ch [] tr) with
  | none =>
    simp only [reduceCtorEq, false_imp_iff, implies_true, true_and, forall_const]
    intro k hk
    cases k with
    | nil => rfl
    | cons b k' =>
      have hk' : get (ch b) k' ≠ [] := hk
      have := findSome_finRange_none hr b
      rw [kaStep_nil (not_blank_of_get hk')] at this
      simp at this
  | some x =>
    obtain ⟨i, hi, hlt⟩ := findSome_finRange_some hr
    have hbi := kaStep_some_not_blank hi
    rw [kaStep_nil hbi] at hi
    obtain ⟨r, e, g, m⟩ := nextKey_some (ch i) (hc.1 i) hbi (tr ++ [i])
    rw [e] at hi
    simp only [Option.some.injEq] at hi
    subst hi
    simp only [Option.some.injEq, reduceCtorEq, false_imp_iff, and_true]
    rintro res rfl
    refine ⟨i :: r, by simp, by simpa [get] using g, rfl, ?_⟩
    intro k hk hkl
    cases k with
    | nil => simp at hkl
    | cons b k' =>
      have hk' : get (ch b) k' ≠ [] := hk
      rw [plt_cons_false]
      rcases Nat.lt_trichotomy b.val i.val with h | h | h
      · have := hlt b h
        rw [kaStep_nil (not_blank_of_get hk')] at this
        simp at this
      · have : b = i := Fin.ext h
        subst this
        exact Or.inr ⟨rfl, m k' hk'⟩
      · exact Or.inl h

theorem keyAfter_branch_spec_cons (ch : Nib → Node) (v : Bytes) (hc : Canon (branch ch v))
    (ih : ∀ i key tr, KASpec (ch i) key tr) (a : Nib) (rest tr : Path) :
    KASpec (branch ch v) (a :: rest) tr := by
  unfold KASpec
  rw [keyAfter_branch]
  cases hr : (List.finRange 16).findSome? (kaStep ch (a :: rest) tr) with
  | none =>
    simp only [reduceCtorEq, false_imp_iff, implies_true, true_and, forall_const]
    intro k hk
    cases k with
    | nil => rfl
    | cons b k' =>
      have hk' : get (ch b) k' ≠ [] := hk
      have hb := not_blank_of_get hk'
      have hn := findSome_finRange_none hr b
      rw [plt_cons_false]
      rcases Nat.lt_trichotomy b.val a.val with h | h | h
      · exact Or.inl h
      · have : b = a := Fin.ext h
        subst this
        rw [kaStep_eq hb] at hn
        have hn' : keyAfter (ch b) rest (tr ++ [b]) = none := by simpa using hn
        exact Or.inr ⟨rfl, (ih b rest (tr ++ [b])).2 hn' k' hk'⟩
      · rw [kaStep_gt hb h] at hn
        simp at hn
  | some x =>
    obtain ⟨i, hi, hlt⟩ := findSome_finRange_some hr
    have hbi := kaStep_some_not_blank hi
    rcases Nat.lt_trichotomy i.val a.val with h | h | h
    · rw [kaStep_lt h] at hi; simp at hi
    · have : i = a := Fin.ext h
      subst this
      rw [kaStep_eq hbi] at hi
      cases hka : keyAfter (ch i) rest (tr ++ [i]) with
      | none => rw [hka] at hi; simp at hi
      | some res' =>
        rw [hka] at hi
        simp only [Option.map_some, Option.some.injEq] at hi
        subst hi
        simp only [Option.some.injEq, reduceCtorEq, false_imp_iff, and_true]
        rintro res rfl
        obtain ⟨r, e, g, l, m⟩ := (ih i rest (tr ++ [i])).1 res' hka
        refine ⟨i :: r, by simp [e], by simpa [get] using g, by simpa using l, ?_⟩
        intro k hk hkl
        cases k with
        | nil => simp at hkl
        | cons b k' =>
          have hk' : get (ch b) k' ≠ [] := hk
          rw [plt_cons] at hkl
          rw [plt_cons_false]
          rcases hkl with hkl | ⟨rfl, hkl⟩
          · exact Or.inl hkl
          · exact Or.inr ⟨rfl, m k' hk' hkl⟩
    · rw [kaStep_gt hbi h] at hi
      obtain ⟨r, e, g, m⟩ := nextKey_some (ch i) (hc.1 i) hbi (tr ++ [i])
      rw [e] at hi
      simp only [Option.some.injEq] at hi
      subst hi
      simp only [Option.some.injEq, reduceCtorEq, false_imp_iff, and_true]
      rintro res rfl
      refine ⟨i :: r, by simp, by simpa [get] using g, (plt_cons _ _ _ _).2 (Or.inl h), ?_⟩
      intro k hk hkl
      cases k with
      | nil => simp at hkl
      | cons b k' =>
        have hk' : get (ch b) k' ≠ [] := hk
        have hb := not_blank_of_get hk'
        rw [plt_cons] at hkl
        rw [plt_cons_false]
        rcases Nat.lt_trichotomy b.val i.val with h' | h' | h'
        · exfalso
          have hn := hlt b h'
          rcases hkl with hkl | ⟨rfl, hkl⟩
          · rw [kaStep_gt hb hkl] at hn; simp at hn
          · rw [kaStep_eq hb] at hn
            have hn' : keyAfter (ch a) rest (tr ++ [a]) = none := by simpa using hn
            have := (ih a rest (tr ++ [a])).2 hn' k' hk'
            rw [this] at hkl; simp at hkl
        · have : b = i := Fin.ext h'
          subst this
          exact Or.inr ⟨rfl, m k' hk'⟩
        · exact Or.inl h'

/-- `_get_key_after`: a returned key is stored, strictly greater than `key`, and no stored key lies
    strictly between; `none` means no stored key is greater than `key` -/
theorem keyAfter_spec (t : Node) (hc : Canon t) (key tr : Path) :
    (∀ res, keyAfter t key tr = some res → ∃ r, res = tr ++ r ∧ get t r ≠ [] ∧ plt key r = true ∧
        ∀ k, get t k ≠ [] → plt key k = true → plt k r = false) ∧
    (keyAfter t key tr = none → ∀ k, get t k ≠ [] → plt key k = false) := by
  have : KASpec t key tr := by
    induction t generalizing key tr with
    | blank =>
      refine ⟨fun res h => by simp [keyAfter] at h, fun _ k hk => ?_⟩
      simp [get] at hk
    | leaf p v => exact keyAfter_leaf_spec p v hc key tr
    | ext p c ih => exact keyAfter_ext_spec p c hc (fun key tr => ih hc.2.2 key tr) key tr
    | branch ch v ih =>
      cases key with
      | nil => exact keyAfter_branch_spec_nil ch v hc tr
      | cons a rest =>
        exact keyAfter_branch_spec_cons ch v hc (fun i key tr => ih i (hc.1 i) key tr) a rest tr
  exact this

/-! ### `preorder` -/

theorem preorder_mem (t : Node) (hc : Canon t) (pre : Path) (e : Path × Node)
    (h : e ∈ preorder t pre) : ∃ q, e.1 = pre ++ q ∧ nodeAt t q = some e.2 := by
  induction t generalizing pre with
  | blank =>
    simp only [preorder, List.mem_singleton] at h
    subst h; exact ⟨[], by simp, rfl⟩
  | leaf p v =>
    simp only [preorder, List.mem_singleton] at h
    subst h; exact ⟨[], by simp, rfl⟩
  | ext p c ih =>
    simp only [preorder, List.mem_cons] at h
    rcases h with rfl | h
    · exact ⟨[], by simp, rfl⟩
    · obtain ⟨q, h1, h2⟩ := ih hc.2.2 _ h
      exact ⟨p ++ q, by simp [h1], nodeAt_ext_append p c q _ h2 hc.1⟩
  | branch ch v ih =>
    simp only [preorder, List.mem_cons, List.mem_flatMap] at h
    rcases h with rfl | ⟨i, _, h⟩
    · exact ⟨[], by simp, rfl⟩
    · split at h
      · simp at h
      · obtain ⟨q, h1, h2⟩ := ih i (hc.1 i) _ h
        exact ⟨i :: q, by simp [h1], by simpa [nodeAt] using h2⟩

/-- every pair yielded by `nodes()` is the subtree at its prefix, which is what `traverse(prefix)` returns -/
theorem preorder_nodeAt (t : Node) (hc : Canon t) (p : Path) (n : Node) (h : (p, n) ∈ preorder t []) :
    nodeAt t p = some n ∧ traverseT t p = (n, []) := by
  obtain ⟨q, h1, h2⟩ := preorder_mem t hc [] (p, n) h
  simp only [List.nil_append] at h1
  subst h1
  refine ⟨h2, ?_⟩
  have := traverseT_nodeAt t p n h2 []
  rw [traverseT_nil, List.append_nil] at this
  exact this.symm

/-- order of the "keys" `κ` attached to the entries of `preorder`, for any `κ` that extends the
    entry's prefix and is the prefix itself on inner nodes -/
theorem preorder_pairwise (κ : Path × Node → Option Path)
    (hκ : ∀ e b, κ e = some b → ∃ s, b = e.1 ++ s)
    (hext : ∀ pre p c b, κ (pre, ext p c) = some b → b = pre)
    (hbr : ∀ pre ch v b, κ (pre, branch ch v) = some b → b = pre)
    (t : Node) (hc : Canon t) (pre : Path) :
    (preorder t pre).Pairwise
      (fun e e' => ∀ b, κ e = some b → ∀ b', κ e' = some b' → plt b b' = true) := by
  induction t generalizing pre with
  | blank => simp [preorder]
  | leaf p v => simp [preorder]
  | ext p c ih =>
    simp only [preorder, List.pairwise_cons]
    refine ⟨?_, ih hc.2.2 _⟩
    intro e' he' b hb b' hb'
    obtain ⟨q, h1, _⟩ := preorder_mem c hc.2.2 _ e' he'
    obtain ⟨s, h2⟩ := hκ e' b' hb'
    rw [hext _ _ _ _ hb, h2, h1, List.append_assoc, List.append_assoc]
    exact plt_append_right_self pre _ (by simp [hc.1])
  | branch ch v ih =>
    simp only [preorder, List.pairwise_cons, List.mem_flatMap]
    refine ⟨?_, ?_⟩
    · rintro e' ⟨i, _, he'⟩ b hb b' hb'
      split at he'
      · simp at he'
      · obtain ⟨q, h1, _⟩ := preorder_mem (ch i) (hc.1 i) _ e' he'
        obtain ⟨s, h2⟩ := hκ e' b' hb'
        rw [hbr _ _ _ _ hb, h2, h1, List.append_assoc, List.append_assoc]
        exact plt_append_right_self pre _ (by simp)
    · rw [List.pairwise_flatMap]
      refine ⟨?_, ?_⟩
      · intro i _
        split
        · exact List.Pairwise.nil
        · exact ih i (hc.1 i) _
      · refine (List.pairwise_lt_finRange 16).imp ?_
        intro i j hij x hx y hy b hb b' hb'
        split at hx
        · simp at hx
        · split at hy
          · simp at hy
          · obtain ⟨q1, h1, _⟩ := preorder_mem (ch i) (hc.1 i) _ x hx
            obtain ⟨s1, g1⟩ := hκ x b hb
            obtain ⟨q2, h2, _⟩ := preorder_mem (ch j) (hc.1 j) _ y hy
            obtain ⟨s2, g2⟩ := hκ y b' hb'
            rw [g1, g2, h1, h2]
            simp only [List.append_assoc, plt_append_left, List.cons_append, List.nil_append]
            exact (plt_cons _ _ _ _).2 (Or.inl hij)

/-- `nodes()` is in pre-order, left to right: prefixes strictly increase in tuple order (so every
    node is yielded once, parents — being proper prefixes — before their children) -/
theorem preorder_sorted (t : Node) (hc : Canon t) :
    ((preorder t []).map (·.1)).Pairwise (fun a b => plt a b = true) := by
  rw [List.pairwise_map]
  refine (preorder_pairwise (fun e => some e.1) ?_ ?_ ?_ t hc []).imp ?_
  · intro e b h; exact ⟨[], by simpa using h.symm⟩
  · intro pre p c b h; simpa using h.symm
  · intro pre ch v b h; simpa using h.symm
  · intro a b h; exact h _ rfl _ rfl

theorem preorder_complete_aux (t : Node) (pre p : Path) (n : Node)
    (h : nodeAt t p = some n) (hb : isBlank n = false) : (pre ++ p, n) ∈ preorder t pre := by
  induction t generalizing pre p with
  | blank =>
    cases p with
    | nil => simp [nodeAt] at h; subst h; simp [preorder]
    | cons a r => simp [nodeAt] at h
  | leaf q v =>
    cases p with
    | nil => simp [nodeAt] at h; subst h; simp [preorder]
    | cons a r => simp [nodeAt] at h
  | ext q c ih =>
    cases p with
    | nil => simp [nodeAt] at h; subst h; simp [preorder]
    | cons a r =>
      simp only [nodeAt] at h
      split at h
      · next hq =>
        obtain ⟨r', hr'⟩ := hq
        rw [← hr'] at h ⊢
        simp only [List.drop_left] at h
        have := ih (pre ++ q) r' h
        simp only [preorder, List.mem_cons]
        right
        simpa [List.append_assoc] using this
      · simp at h
  | branch ch v ih =>
    cases p with
    | nil => simp [nodeAt] at h; subst h; simp [preorder]
    | cons a r =>
      simp only [nodeAt] at h
      have hnb : isBlank (ch a) = false := by
        cases hba : isBlank (ch a) with
        | false => rfl
        | true =>
          rw [(isBlank_iff _).1 hba] at h
          cases r with
          | nil => simp [nodeAt] at h; subst h; simp [isBlank] at hb
          | cons _ _ => simp [nodeAt] at h
      have := ih a (pre ++ [a]) r h
      simp only [preorder, List.mem_cons, List.mem_flatMap]
      right
      refine ⟨a, List.mem_finRange a, ?_⟩
      simpa [hnb, List.append_assoc] using this

/-- `nodes()` yields every non-blank node of the trie -/
theorem preorder_complete (t : Node) (hc : Canon t) (p : Path) (n : Node)
    (h : nodeAt t p = some n) (hb : isBlank n = false) : (p, n) ∈ preorder t [] := by
  have _ := hc
  simpa using preorder_complete_aux t [] p n h hb

/-! ### `itemsOf` -/

/-- the item, if any, contributed by one entry of `nodes()` -/
def itemKey (e : Path × Node) : Option (Path × Bytes) :=
  let a := annotate e.2
  if a.value ≠ [] then some (e.1 ++ a.suffix, a.value) else none

theorem itemsOf_eq (t : Node) : itemsOf t = (preorder t []).filterMap itemKey := rfl

/-- a stored key ends at a value-carrying node -/
theorem get_find_node (t : Node) (hc : Canon t) (k : Path) (h : get t k ≠ []) :
    ∃ q n, nodeAt t q = some n ∧ isBlank n = false ∧ (annotate n).value = get t k ∧
      k = q ++ (annotate n).suffix := by
  induction t generalizing k with
  | blank => simp [get] at h
  | leaf p v =>
    have := leaf_key_eq p v k h
    subst this
    exact ⟨[], leaf k v, rfl, rfl, by simp [annotate, get], by simp [annotate]⟩
  | ext p c ih =>
    obtain ⟨k', rfl⟩ := ext_key_prefix p c k h
    have hg : get (ext p c) (p ++ k') = get c k' := by simp [get]
    rw [hg] at h ⊢
    obtain ⟨q, n, h1, h2, h3, h4⟩ := ih hc.2.2 k' h
    exact ⟨p ++ q, n, nodeAt_ext_append p c q n h1 hc.1, h2, h3, by rw [h4]; simp⟩
  | branch ch v ih =>
    cases k with
    | nil => exact ⟨[], branch ch v, rfl, rfl, rfl, rfl⟩
    | cons a k' =>
      have hg : get (branch ch v) (a :: k') = get (ch a) k' := rfl
      rw [hg] at h ⊢
      obtain ⟨q, n, h1, h2, h3, h4⟩ := ih a (hc.1 a) k' h
      exact ⟨a :: q, n, by simpa [nodeAt] using h1, h2, h3, by rw [h4]; simp⟩

/-- `items()` yields exactly the stored pairs -/
theorem itemsOf_mem (t : Node) (hc : Canon t) (k : Path) (v : Bytes) :
    (k, v) ∈ itemsOf t ↔ v ≠ [] ∧ get t k = v := by
  rw [itemsOf_eq, List.mem_filterMap]
  constructor
  · rintro ⟨⟨q, n⟩, he, hk⟩
    obtain ⟨h1, _⟩ := preorder_nodeAt t hc q n he
    have hg := get_nodeAt t q n h1
    cases n with
    | blank => simp [itemKey, annotate] at hk
    | ext p c => simp [itemKey, annotate] at hk
    | leaf p w =>
      simp only [itemKey, annotate] at hk
      by_cases hw : w = []
      · simp [hw] at hk
      · simp only [ne_eq, hw, not_false_eq_true, ↓reduceIte, Option.some.injEq, Prod.mk.injEq] at hk
        obtain ⟨rfl, rfl⟩ := hk
        exact ⟨hw, by rw [hg]; simp [get]⟩
    | branch ch w =>
      simp only [itemKey, annotate] at hk
      by_cases hw : w = []
      · simp [hw] at hk
      · simp only [ne_eq, hw, not_false_eq_true, ↓reduceIte, Option.some.injEq, Prod.mk.injEq] at hk
        obtain ⟨rfl, rfl⟩ := hk
        exact ⟨hw, by rw [hg]; rfl⟩
  · rintro ⟨hv, rfl⟩
    obtain ⟨q, n, h1, h2, h3, h4⟩ := get_find_node t hc k hv
    refine ⟨(q, n), preorder_complete t hc q n h1 h2, ?_⟩
    simp only [itemKey]
    rw [h3, ← h4]
    simp [hv]

theorem itemKey_fst (e : Path × Node) (b : Path × Bytes) (h : itemKey e = some b) :
    ∃ s, b.1 = e.1 ++ s := by
  simp only [itemKey] at h
  split at h
  · simp only [Option.some.injEq] at h
    subst h; exact ⟨_, rfl⟩
  · simp at h

/-- … in strictly ascending key order (hence each once) -/
theorem itemsOf_sorted (t : Node) (hc : Canon t) :
    ((itemsOf t).map (·.1)).Pairwise (fun a b => plt a b = true) := by
  rw [itemsOf_eq, List.map_filterMap, List.pairwise_filterMap]
  refine preorder_pairwise (fun e => (itemKey e).map (·.1)) ?_ ?_ ?_ t hc []
  · intro e b h
    simp only [Option.map_eq_some_iff] at h
    obtain ⟨b0, h0, rfl⟩ := h
    exact itemKey_fst e b0 h0
  · intro pre p c b h
    simp [itemKey, annotate] at h
  · intro pre ch v b h
    simp only [itemKey, annotate, Option.map_eq_some_iff] at h
    obtain ⟨b0, h0, rfl⟩ := h
    by_cases hv : v = []
    · simp [hv] at h0
    · simp only [ne_eq, hv, not_false_eq_true, ↓reduceIte, Option.some.injEq] at h0
      subst h0; simp

end PyTrie.Hex
