import PyTrie.Lemmas.RawRefines
import PyTrie.Lemmas.WorldGet
import PyTrie.Lemmas.RlpRoundTrip
/-! **Whole histories at raw level.** `HexRaw.rawOp` is `HexaryTrie.set` / `delete` end to end as the code does it on a
    non-pruning trie over a plain dict: fetch the root node from the database, run the raw-level `_set` / `_delete`,
    store the new root. Here: along every history accepted by the world executor (`ReachOps … false`, which carries the
    run-level no-collision facts), the raw-level run returns the same root hashes and a database that agrees with the
    executor's. Hence every world-level theorem (C01 `get` through the database, C02 canonical root, C04 completeness)
    is a theorem about the raw-level transcription. -/
namespace PyTrie.HexRaw
open PyTrie PyTrie.Hex PyTrie.HexD PyTrie.HexW
open PyTrie.Props.C01 (Op run spec applyOp)

variable (H : Bytes → Bytes)

/-- the raw database (write log, newest first) and the executor's dict answer every lookup alike -/
def DbAgrees (db : Db) (d : Dict Bytes) : Prop := ∀ h, lookup db h = Dict.get? d h

/-- a history of `set` / `delete` at raw level, threading root hash and database -/
def rawRun : List Op → Hash × Db → Except Err (Hash × Db)
  | [], s => .ok s
  | o :: rest, (root, db) =>
    match rawOp H db root (opKey o) (opVal o) with
    | .error e => .error e
    | .ok (root', st') => rawRun rest (root', st'.db)

/-! ### helper lemmas -/

theorem lookup_cons (e : Hash × Bytes) (db : Db) (k : Hash) :
    lookup (e :: db) k = if e.1 == k then some e.2 else lookup db k := by
  simp only [lookup, List.find?_cons]
  cases (e.1 == k) <;> simp

theorem dbAgrees_cons {db : Db} {d : Dict Bytes} (hag : DbAgrees db d) (h : Hash) (b : Bytes) :
    DbAgrees ((h, b) :: db) (Dict.insert d h b) := by
  intro k
  rw [lookup_cons]
  by_cases he : k = h
  · subst he; rw [get?_insert_self]; simp
  · rw [get?_insert_other _ _ _ _ he]
    have hh : (h == k) = false := by simpa using (Ne.symm he)
    simp only [hh, Bool.false_eq_true, if_false]
    exact hag k

theorem dbAgrees_applyPersists (evs : List Ev) : ∀ (db : Db) (d : Dict Bytes), DbAgrees db d →
    DbAgrees (applyPersists db evs) (applyWrites d (writesOf evs)) := by
  induction evs with
  | nil => intro db d h; exact h
  | cons e es ih =>
    intro db d h
    cases e with
    | read x => exact ih db d h
    | prune x => exact ih db d h
    | persist x b => exact ih _ _ (dbAgrees_cons h x b)

/-- a stored node on a database that agrees with a dict without the blank-root key and without huge bodies -/
theorem storedC_of {db : Db} {d : Dict Bytes} (hag : DbAgrees db d)
    (hbk : Dict.get? d (blankRoot H) = none) (hsm : ∀ h b, Dict.get? d h = some b → b.length < 2 ^ 64)
    (c : Node) (hg : Dict.get? d (hashOf H c) = some (enc H c)) :
    hashOf H c ≠ blankRoot H ∧ lookup db (hashOf H c) = some (enc H c) ∧
      rlpDecode (enc H c) = some (toItem H c) := by
  refine ⟨?_, ?_, ?_⟩
  · intro e; rw [e, hbk] at hg; cases hg
  · rw [hag]; exact hg
  · exact rlpDecode_rlp_of_length_lt _ (hsm _ _ hg)

theorem storedD_of_storedBelow {db : Db} {d : Dict Bytes} (hag : DbAgrees db d)
    (hbk : Dict.get? d (blankRoot H) = none) (hsm : ∀ h b, Dict.get? d h = some b → b.length < 2 ^ 64)
    (t : Node) (h : StoredBelow (stdHashing H) d t) : StoredD H db t := by
  induction t with
  | blank => trivial
  | leaf p v => trivial
  | ext p c ih => exact ⟨fun hh => storedC_of H hag hbk hsm c (h.1 hh), ih h.2⟩
  | branch ch v ih => intro i; exact ⟨fun hh => storedC_of H hag hbk hsm (ch i) ((h i).1 hh), ih i (h i).2⟩

/-- the root fetch of `set` / `delete` on a complete database -/
theorem getNodeR_root (hlen : ∀ b, (H b).length = 32) (T : TrieSt) {db : Db} {d : Dict Bytes}
    (hag : DbAgrees db d) (hbk : Dict.get? d (blankRoot H) = none)
    (hsm : ∀ h b, Dict.get? d h = some b → b.length < 2 ^ 64)
    (hcomp : Complete (stdHashing H) (blankRoot H) d T) :
    ∃ evs0, getNodeR H { db := db, evs := [] } (.str T.root) = .ok (toItem H T.tree, { db := db, evs := evs0 }) := by
  have h1 := hcomp.1
  cases hb : isBlank T.tree with
  | true =>
    rw [hb] at h1
    simp only [if_true] at h1
    rw [h1, (isBlank_iff T.tree).1 hb]
    refine ⟨[], ?_⟩
    simp only [getNodeR, toItem]
    split
    · rfl
    · simp
  | false =>
    rw [hb] at h1
    simp only [Bool.false_eq_true, if_false] at h1
    obtain ⟨hr, hne, hg⟩ := h1
    have hr' : T.root = hashOf H T.tree := hr
    rw [hr'] at hne hg ⊢
    obtain ⟨_, hl, hd⟩ := storedC_of H hag hbk hsm T.tree hg
    have h32 : (hashOf H T.tree).length = 32 := hlen _
    have hn1 : hashOf H T.tree ≠ [] := by intro h; rw [h] at h32; simp at h32
    have hn2 : ¬ (hashOf H T.tree).length < 32 := by omega
    refine ⟨[Ev.read (hashOf H T.tree)], ?_⟩
    simp [getNodeR, hn1, hne, hn2, hl, hd]

/-- `_set_raw_node` on the raw encoding of a tree node -/
theorem setRawRoot_toItem (st : St) (n : Node) :
    setRawRoot H st (toItem H n) =
      if isBlank n then (blankRoot H, st)
      else (hashOf H n, { db := (hashOf H n, enc H n) :: st.db,
                          evs := st.evs ++ [Ev.persist (hashOf H n) (enc H n)] }) := by
  cases hb : isBlank n with
  | true => rw [(isBlank_iff n).1 hb]; simp [toItem, setRawRoot]
  | false =>
    obtain ⟨l, hl⟩ := toItem_list H n hb
    simp [setRawRoot, hl, hashOf, enc]

/-- the raw-level `_set` / `_delete` dispatch of `rawOp` computes `opTree` -/
theorem rawOp_inner (hlen : ∀ b, (H b).length = 32) (T : TrieSt) (hc : Canon T.tree) (key : Bytes)
    (val : Option Bytes) (st : St) (hst : StoredD H st.db T.tree) :
    (match val with
      | some v => if v = [] then rawDelete H (2 * (nibs key).length + 4) st (toItem H T.tree) (nibs key)
                  else rawSet H (2 * (nibs key).length + 4) st (toItem H T.tree) (nibs key) v
      | none => rawDelete H (2 * (nibs key).length + 4) st (toItem H T.tree) (nibs key)) =
    .ok (toItem H (opTree (stdHashing H) T key val).1,
         { db := applyPersists st.db (opTree (stdHashing H) T key val).2,
           evs := st.evs ++ (opTree (stdHashing H) T key val).2 }) := by
  unfold opTree
  cases val with
  | none => exact rawDelete_refines H hlen T.tree hc (nibs key) st hst _ (by omega)
  | some v =>
    simp only []
    split
    · exact rawDelete_refines H hlen T.tree hc (nibs key) st hst _ (by omega)
    · exact rawSet_refines H hlen T.tree hc (nibs key) v st hst _ (by omega)

theorem rawOp_of (db : Db) (root : Hash) (key : Bytes) (val : Option Bytes) (rn : Item) (st1 : St) (nr : Item) (st2 : St)
    (h1 : getNodeR H { db := db, evs := [] } (.str root) = .ok (rn, st1))
    (h2 : (match val with
      | some v => if v = [] then rawDelete H (2 * (nibs key).length + 4) st1 rn (nibs key)
                  else rawSet H (2 * (nibs key).length + 4) st1 rn (nibs key) v
      | none => rawDelete H (2 * (nibs key).length + 4) st1 rn (nibs key)) = .ok (nr, st2)) :
    rawOp H db root key val = .ok (setRawRoot H st2 nr) := by
  unfold rawOp
  dsimp only
  rw [h1]
  cases val with
  | none => dsimp only at h2 ⊢; rw [h2]
  | some v => dsimp only at h2 ⊢; rw [h2]

/-- a non-pruning `set` / `delete` on a complete plain database, explicitly: new trie and new database -/
theorem opSetDel_explicit (Hs : Hashing) (blankRootHash : Hash) (T : TrieSt) (hp : T.prune = false)
    (key : Bytes) (val : Option Bytes) (s : OpSt) (hcache : s.store.cache = none)
    (hfa : s.store.failAfter = none) (hcomp : Complete Hs blankRootHash s.store.base T) :
    (opSetDel Hs blankRootHash T key val s).2 =
        .ok { T with tree := (opTree Hs T key val).1,
                     root := if isBlank (opTree Hs T key val).1 then blankRootHash
                             else Hs.hashOf (opTree Hs T key val).1 } ∧
      (opSetDel Hs blankRootHash T key val s).1.store.base =
        applyWrites s.store.base (opWrites Hs T key val) := by
  have hsb : StoredBelow Hs s.store.base T.tree := hcomp.2
  have hr : ReadsIn s.store.base (opTree Hs T key val).2 := opTree_reads Hs _ T key val hsb
  have hroot : (T.root != blankRootHash && !(s.store.contains T.root)) = false := by
    have h1 := hcomp.1
    by_cases hb : isBlank T.tree = true
    · simp only [hb, if_true] at h1; simp [h1]
    · simp only [hb] at h1
      have : s.store.contains T.root = true := by
        unfold Store.contains; rw [hcache]; exact contains_of_get? h1.2.2
      simp [this]
  obtain ⟨s4, h4, hb4⟩ :=
    opCore_ok Hs blankRootHash T hp key val { s with pending := [] } hcache hfa hroot hr
  have e : opSetDel Hs blankRootHash T key val s =
      ({ s4 with pending := [] },
        .ok { T with
          tree := (opTree Hs T key val).1,
          root := if isBlank (opTree Hs T key val).1 then blankRootHash else Hs.hashOf (opTree Hs T key val).1 }) := by
    unfold opSetDel; rw [h4]
  rw [e]
  exact ⟨rfl, hb4⟩

/-- one operation: on a complete database the raw-level operation is the executor's operation -/
theorem rawOp_is_world_op (hlen : ∀ b, (H b).length = 32) (T : TrieSt) (hp : T.prune = false) (hc : Canon T.tree)
    (key : Bytes) (val : Option Bytes) (s : OpSt) (hcache : s.store.cache = none) (hfa : s.store.failAfter = none)
    (hcomp : Complete (stdHashing H) (blankRoot H) s.store.base T)
    (hrs : RefSound (stdHashing H) T.tree (nibs key))
    (hnc : NoClobber s.store.base (opWrites (stdHashing H) T key val))
    (hblank : isBlank (opTree (stdHashing H) T key val).1 = false → hashOf H (opTree (stdHashing H) T key val).1 ≠ blankRoot H)
    (T' : TrieSt) (hok : (opSetDel (stdHashing H) (blankRoot H) T key val s).2 = .ok T')
    -- physical side conditions on the database *after* the operation: the blank-root hash is not a key, no body has 2^64 bytes
    (hbk : Dict.get? (opSetDel (stdHashing H) (blankRoot H) T key val s).1.store.base (blankRoot H) = none)
    (hsm : ∀ h b, Dict.get? (opSetDel (stdHashing H) (blankRoot H) T key val s).1.store.base h = some b → b.length < 2 ^ 64)
    (db : Db) (hag : DbAgrees db s.store.base) :
    ∃ st', rawOp H db T.root key val = .ok (T'.root, st') ∧
      DbAgrees st'.db (opSetDel (stdHashing H) (blankRoot H) T key val s).1.store.base := by
  -- `hrs` and `hblank` are not needed for this direction (the executor's result is determined without them)
  have _ := hrs
  have _ := hblank
  obtain ⟨he2, hbase⟩ := opSetDel_explicit (stdHashing H) (blankRoot H) T hp key val s hcache hfa hcomp
  rw [he2] at hok
  rw [hbase] at hbk hsm ⊢
  have hT' : T'.root = if isBlank (opTree (stdHashing H) T key val).1 then blankRoot H
      else hashOf H (opTree (stdHashing H) T key val).1 := by
    injection hok with hok; rw [← hok]; rfl
  obtain ⟨hpres, _⟩ := applyWrites_noClobber _ _ hnc
  have hbk0 : Dict.get? s.store.base (blankRoot H) = none := by
    cases hg : Dict.get? s.store.base (blankRoot H) with
    | none => rfl
    | some b => rw [hpres _ _ hg] at hbk; cases hbk
  have hsm0 : ∀ h b, Dict.get? s.store.base h = some b → b.length < 2 ^ 64 :=
    fun h b hg => hsm h b (hpres h b hg)
  have hst : StoredD H db T.tree := storedD_of_storedBelow H hag hbk0 hsm0 T.tree hcomp.2
  obtain ⟨evs0, hroot⟩ := getNodeR_root H hlen T hag hbk0 hsm0 hcomp
  have hin := rawOp_inner H hlen T hc key val { db := db, evs := evs0 } hst
  have hagp := dbAgrees_applyPersists (opTree (stdHashing H) T key val).2 db s.store.base hag
  have hraw := rawOp_of H db T.root key val _ _ _ _ hroot hin
  rw [hraw, setRawRoot_toItem, hT']
  unfold opWrites
  rw [applyWrites_append]
  cases hb : isBlank (opTree (stdHashing H) T key val).1 with
  | true =>
    simp only [if_true]
    exact ⟨_, rfl, hagp⟩
  | false =>
    simp only [Bool.false_eq_true, if_false]
    exact ⟨_, rfl, dbAgrees_cons hagp _ _⟩

theorem rawRun_snoc (ops : List Op) (o : Op) : ∀ (s0 : Hash × Db) (root : Hash) (db : Db),
    rawRun H ops s0 = .ok (root, db) →
    rawRun H (ops ++ [o]) s0 =
      match rawOp H db root (opKey o) (opVal o) with
      | .error e => .error e
      | .ok (root', st') => .ok (root', st'.db) := by
  induction ops with
  | nil =>
    intro s0 root db h
    simp only [rawRun] at h
    injection h with h
    subst h
    simp only [List.nil_append, rawRun]
  | cons a rest ih =>
    intro s0 root db h
    obtain ⟨r0, db0⟩ := s0
    simp only [List.cons_append, rawRun] at h ⊢
    split
    · next e he => rw [he] at h; cases h
    · next r1 st1 he =>
      rw [he] at h
      exact ih _ root db h

/-- **whole histories** -/
theorem rawRun_is_world_run (hlen : ∀ b, (H b).length = 32) (ops : List Op) (T : TrieSt) (s : OpSt)
    (h : ReachOps (stdHashing H) (blankRoot H) false ops T s)
    (hbk : Dict.get? s.store.base (blankRoot H) = none)
    (hsm : ∀ h b, Dict.get? s.store.base h = some b → b.length < 2 ^ 64) :
    ∃ db, rawRun H ops (blankRoot H, []) = .ok (T.root, db) ∧ DbAgrees db s.store.base := by
  induction h with
  | init => exact ⟨[], rfl, fun _ => rfl⟩
  | step ops T s o T' hreach hrs hbl hnc hok ih =>
    obtain ⟨htree, hprune, hcache, hfa, hdb⟩ := reachOps_inv _ _ false ops T s hreach
    simp only [Bool.false_eq_true, if_false] at hdb
    have hcanon : Canon T.tree := htree ▸ PyTrie.Props.C01.canon_run ops
    obtain ⟨_, hbase⟩ := opSetDel_explicit (stdHashing H) (blankRoot H) T hprune (opKey o) (opVal o) s hcache hfa hdb
    obtain ⟨hpres, _⟩ := applyWrites_noClobber _ _ (hnc rfl)
    rw [← hbase] at hpres
    have hbk0 : Dict.get? s.store.base (blankRoot H) = none := by
      cases hg : Dict.get? s.store.base (blankRoot H) with
      | none => rfl
      | some b => rw [hpres _ _ hg] at hbk; cases hbk
    have hsm0 : ∀ h b, Dict.get? s.store.base h = some b → b.length < 2 ^ 64 :=
      fun h b hg => hsm h b (hpres h b hg)
    obtain ⟨db, hrun, hag⟩ := ih hbk0 hsm0
    obtain ⟨st', hop, hag'⟩ := rawOp_is_world_op H hlen T hprune hcanon (opKey o) (opVal o) s hcache hfa hdb hrs
      (hnc rfl) hbl T' hok hbk hsm db hag
    refine ⟨st'.db, ?_, hag'⟩
    rw [rawRun_snoc H ops o _ _ _ hrun, hop]

/-- the root hash returned by the raw-level run is the hash of the canonical tree of the history -/
theorem rawRun_root (hlen : ∀ b, (H b).length = 32) (ops : List Op) (T : TrieSt) (s : OpSt)
    (h : ReachOps (stdHashing H) (blankRoot H) false ops T s)
    (hbk : Dict.get? s.store.base (blankRoot H) = none)
    (hsm : ∀ h b, Dict.get? s.store.base h = some b → b.length < 2 ^ 64) :
    ∃ db, rawRun H ops (blankRoot H, []) = .ok (rootHash H (run ops), db) := by
  obtain ⟨db, hrun, _⟩ := rawRun_is_world_run H hlen ops T s h hbk hsm
  obtain ⟨htree, _, _, _, hdb⟩ := reachOps_inv _ _ false ops T s h
  simp only [Bool.false_eq_true, if_false] at hdb
  have hroot : T.root = rootHash H (run ops) := by
    have h1 := hdb.1
    rw [← htree]
    cases hb : isBlank T.tree with
    | true =>
      rw [hb] at h1
      simp only [if_true] at h1
      rw [h1, (isBlank_iff T.tree).1 hb]
      simp [rootHash, enc_blank, blankRoot]
    | false =>
      rw [hb] at h1
      simp only [Bool.false_eq_true, if_false] at h1
      exact h1.1
  exact ⟨db, hroot ▸ hrun⟩

end PyTrie.HexRaw
