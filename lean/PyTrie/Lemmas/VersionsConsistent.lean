import PyTrie.Lemmas.PartialInv
import PyTrie.Lemmas.PruneBodies
/-! **Every earlier version stays partially consistent with the current database** (C09 / C04 / C08 across versions).
    A fog walk with a `TrieFrontierCache`, an `at_root` snapshot of an old root, a `traverse_from` on a node kept from
    before a mutation — all read nodes of an *older* version from the database as it is now. Content addressing makes that
    safe: whatever the current database holds under the hash of a node of any older version is that node's encoding
    (possibly nothing, if pruned), provided no two different nodes among the versions of the run share a hash (run-level
    predicate). Hence reading an older version through the current database returns what that version says or reports a
    missing node (`C09.stale_parent_truthful`, `C07.raw_traverse_partial`), never something else. -/
namespace PyTrie.HexFree
open PyTrie PyTrie.Hex PyTrie.HexD PyTrie.HexW PyTrie.HexRaw
open PyTrie.Props.C01 (Op run spec)

variable (H : Bytes → Bytes)

/-- the writes of an operation agree with the (possibly withheld or pruned) nodes of a tree `t0`: a write under the hash of
    `t0` itself or of a hashed node of `t0` carries that node's encoding -/
def WritesAgree (ws : List (Hash × Bytes)) (t0 : Node) : Prop :=
  ∀ (m : Node) (b : Bytes), (hashOf H m, b) ∈ ws →
    (m = t0 ∨ (isHashed H m = true ∧ ∃ q, nodeAt t0 q = some m)) → b = enc H m

/-- one operation (any trie `T`, plain store, pruning on or off, returning or raising) keeps ANY canonical tree `t0` —
    e.g. an older version — partially consistent with the database -/
theorem opSetDel_keeps_tree_consistent (T : TrieSt) (key : Bytes) (val : Option Bytes) (s : OpSt)
    (t0 : Node) (hc0 : Canon t0) (root0 : Hash)
    (hp : RootPartial H s.store.base root0 t0 ∧ PartialD H s.store.base t0)
    (hag : WritesAgree H (opWrites (stdHashing H) T key val) t0) :
    RootPartial H (opSetDel (stdHashing H) (blankRoot H) T key val s).1.store.base root0 t0 ∧
    PartialD H (opSetDel (stdHashing H) (blankRoot H) T key val s).1.store.base t0 := by
  obtain ⟨hroot, hst⟩ := hp
  have hadds := opSetDel_adds (stdHashing H) (blankRoot H) T key val s
  generalize (opSetDel (stdHashing H) (blankRoot H) T key val s).1.store.base = base' at hadds ⊢
  refine ⟨?_, ?_⟩
  · unfold RootPartial at hroot ⊢
    cases hb : isBlank t0 with
    | true => rw [hb] at hroot; simpa using hroot
    | false =>
      rw [hb] at hroot
      simp only [Bool.false_eq_true, if_false] at hroot ⊢
      obtain ⟨hr, hne, hl, hd⟩ := hroot
      refine ⟨hr, hne, ?_, hd⟩
      intro b hb'
      rcases hadds _ b hb' with h0 | hw
      · exact hl b h0
      · exact hag t0 b (hr ▸ hw) (Or.inl rfl)
  · rw [partialD_iff_allBelow] at hst ⊢
    have hR : AllBelow (stdHashing H)
        (fun m => ∀ b, (hashOf H m, b) ∈ opWrites (stdHashing H) T key val → b = enc H m) t0 :=
      allBelow_of_nodeAt (stdHashing H) t0 hc0 (fun q m hq hh b hm => hag m b hm (Or.inr ⟨hh, q, hq⟩))
    refine allBelow_mono2 (stdHashing H) ?_ t0 hst hR
    intro m _ hm hr
    refine ⟨hm.1, ?_, hm.2.2⟩
    intro b hb'
    rcases hadds _ b hb' with h0 | hw
    · exact hm.2.1 b h0
    · exact hr b hw

/-- a history in which, in addition to the premises of `ReachOpsNC`, the writes of every step agree with every earlier
    version and the two physical side conditions hold at every state -/
inductive ReachVersions (prune : Bool) : List Op → TrieSt → OpSt → Prop where
  | init : ReachVersions prune [] { tree := .blank, root := blankRoot H, prune := prune }
      { store := { base := [], cache := none, failAfter := none }, counts := [], pending := [] }
  | step (ops : List Op) (T : TrieSt) (s : OpSt) (o : Op) (T' : TrieSt) :
      ReachVersions prune ops T s →
      RefSound (stdHashing H) T.tree (nibs (opKey o)) →
      (isBlank (opTree (stdHashing H) T (opKey o) (opVal o)).1 = false →
        hashOf H (opTree (stdHashing H) T (opKey o) (opVal o)).1 ≠ blankRoot H) →
      NoClobber s.store.base (opWrites (stdHashing H) T (opKey o) (opVal o)) →
      (∀ i, i ≤ ops.length → WritesAgree H (opWrites (stdHashing H) T (opKey o) (opVal o)) (run (ops.take i))) →
      Dict.get? (opSetDel (stdHashing H) (blankRoot H) T (opKey o) (opVal o) s).1.store.base (blankRoot H) = none →
      (∀ h b, Dict.get? (opSetDel (stdHashing H) (blankRoot H) T (opKey o) (opVal o) s).1.store.base h = some b → b.length < 2 ^ 64) →
      (opSetDel (stdHashing H) (blankRoot H) T (opKey o) (opVal o) s).2 = .ok T' →
      ReachVersions prune (ops ++ [o]) T' (opSetDel (stdHashing H) (blankRoot H) T (opKey o) (opVal o) s).1

theorem reachVersions_nc (prune : Bool) (ops : List Op) (T : TrieSt) (s : OpSt)
    (h : ReachVersions H prune ops T s) : ReachOpsNC (stdHashing H) (blankRoot H) prune ops T s := by
  induction h with
  | init => exact ReachOpsNC.init
  | step ops T s o T' _ hrs hbl hnc _ _ _ hok ih => exact ReachOpsNC.step ops T s o T' ih hrs hbl hnc hok

/-- the root of a trie for which the database is complete is the root hash of its tree -/
theorem root_of_complete (T : TrieSt) (d : Dict Bytes)
    (hcomp : Complete (stdHashing H) (blankRoot H) d T) : T.root = rootHash H T.tree := by
  have h1 := hcomp.1
  cases hb : isBlank T.tree with
  | true =>
    rw [hb] at h1
    simp only [if_true] at h1
    rw [h1, (isBlank_iff T.tree).1 hb]
    simp [rootHash, enc_blank, blankRoot]
  | false =>
    rw [hb] at h1
    simp only [Bool.false_eq_true, if_false] at h1
    exact h1.1

/-- **after any such history every earlier version (and the current one) is partially consistent with the current
    database**, pruning on or off -/
theorem all_versions_consistent (prune : Bool) (ops : List Op) (T : TrieSt) (s : OpSt)
    (h : ReachVersions H prune ops T s) (i : Nat) (hi : i ≤ ops.length) :
    RootPartial H s.store.base (rootHash H (run (ops.take i))) (run (ops.take i)) ∧
    PartialD H s.store.base (run (ops.take i)) := by
  revert i
  induction h with
  | init =>
    intro i _
    refine ⟨?_, ?_⟩
    · simp [RootPartial, run, isBlank, rootHash, enc_blank, blankRoot]
    · simp [run, PartialD]
  | step ops T s o T' hreach hrs hbl hnc hwa hbk hsm hok ih =>
    intro i hi
    by_cases hle : i ≤ ops.length
    · rw [List.take_append_of_le_length hle]
      exact opSetDel_keeps_tree_consistent H T (opKey o) (opVal o) s _ (PyTrie.Props.C01.canon_run _) _
        (ih i hle) (hwa i hle)
    · have hlen : (ops ++ [o]).length ≤ i := by
        simp only [List.length_append, List.length_singleton] at hi ⊢; omega
      rw [List.take_of_length_le hlen]
      have hnc' := ReachOpsNC.step ops T s o T' (reachVersions_nc H prune ops T s hreach) hrs hbl hnc hok
      have hcomp := reachOpsNC_complete (stdHashing H) (blankRoot H) prune _ _ _ hnc'
      have htree : T'.tree = run (ops ++ [o]) :=
        (reachOps_tree (stdHashing H) (blankRoot H) prune _ _ _
          (reachOpsNC_reachOps (stdHashing H) (blankRoot H) prune _ _ _ hnc')).1
      have hroot := root_of_complete H T' _ hcomp
      have := partial_of_complete H T' _ hcomp hbk hsm
      rw [hroot, htree] at this
      exact this

end PyTrie.HexFree
