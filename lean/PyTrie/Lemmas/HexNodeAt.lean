import PyTrie.Lemmas.HexTrav
/-! `nodeAt t p`: the subtree of `t` rooted at nibble path `p`, when `p` ends on a node boundary. -/
namespace PyTrie.Hex
open Node

def nodeAt : Node → Path → Option Node
  | n, [] => some n
  | blank, _ :: _ => none
  | leaf _ _, _ :: _ => none
  | ext p c, k@(_ :: _) => if p <+: k then nodeAt c (k.drop p.length) else none
  | branch ch _, a :: k => nodeAt (ch a) k

theorem nodeAt_ext_append (p : Path) (c : Node) (q : Path) (n : Node) (h : nodeAt c q = some n) :
    p ≠ [] → nodeAt (ext p c) (p ++ q) = some n := by
  intro hp
  cases hpq : p ++ q with
  | nil => simp at hpq; exact absurd hpq.1 hp
  | cons a r =>
    simp only [nodeAt]
    rw [← hpq]
    simp [h]

end PyTrie.Hex
